/-
C11 — Wait / WaitFor / WaitUntil over n futures.

Written from /repo: `detail::WaitRange`, `WaitCore`, `WaitIterator` (include/yaclib/async/detail/wait_impl.hpp),
`MultiEvent` + `CallCallback::Impl` (algo/detail/wait_event.hpp), `AtomicCounter::{Sub, SubEqual}`, `OneCounter`
(util/detail/atomic_counter.hpp, unique_counter.hpp), `SetDeleter`, `MutexEvent::{Make, Wait, Set}`
(src/util/mutex_event.cpp + the timed `Wait(token, timeout)` = `cv.wait_for/until(token, t, pred)`),
`BaseCore::{SetCallbackImpl<false/true>, ResetImpl, SetResultImpl<·,false>}` (src/algo/base_core.cpp),
`FutureBase::Get() &&` (= `Wait(*this)` + take), the attaching consumers of C01.

Threads: one waiter `w` and one producer `p i` per future `i < n` (n is a parameter of the workload).
The waiter runs a list of wait calls (each over an index range `[lo, hi)`, timed or not: `Wait`, `WaitFor`,
`WaitUntil`, variadic or iterator form — they all end in `WaitRange`) and then, future by future, a consuming
operation (`ThenInline`/`DetachInline` = attach, `Get() &&` = a one-future untimed wait followed by the read, or nothing).

Granularity: one step per atomic operation on a word / on the event counter, per lock / unlock of the event's
mutex, plus the observable events of the client (`call`, `ret`, `fin`, `invoke`, `got`) and the timeout of the
timed wait.  Thread-local code between two such operations is folded into the following step.

The wait event is a *stack object* of the waiter: `alive` is true from its construction to the moment the waiter
can leave `WaitRange` (the step after which no operation of the waiter on the event follows).  A producer that took
the event pointer out of a word later touches the event (`fetch_sub` on the counter, `lock`/`unlock` inside `Set`);
if it does so while `alive = false` the sticky flag `uaf` is set.  Stack reuse is modelled literally: a stale pointer
aliases whatever event is alive at that moment.

Pre-check loads may be stale: after the producer's exchange a load may still return the waiter's own last write.
-/
import YaclibModel.Model.Unique

namespace Yaclib.Wait
open Yaclib.Unique (Res)

inductive Word where
  | empty | ev | cont | result
  deriving DecidableEq, Repr

/-- producer program counter -/
inductive PPc where
  | start      -- has not exchanged yet
  | took       -- exchange returned the event pointer: `CallCallback::Impl` → `Sub(1)` = `fetch_sub` next
  | setting    -- its decrement reached zero (or OneCounter): `SetDeleter` → `MutexEvent::Set`: `lock` next
  | locked     -- inside `Set`, holds the event's mutex: `unlock` next
  | fire       -- exchange returned a continuation: invoke it next
  | done
  deriving DecidableEq, Repr

/-- ghost: what happened to future `i` in the wait call that is running -/
inductive G where
  | out     -- not registered by this call (not in range, not reached yet, or registration failed)
  | inn     -- registered: the event pointer sits in the word
  | taken   -- the producer took the pointer out and has not decremented yet
  | decd    -- the producer has decremented (and possibly has to call `Set`)
  | back    -- the waiter won the word back (`Reset`)
  deriving DecidableEq, Repr

structure Fut where
  word : Word := .empty
  prev : Word := .empty     -- the waiter's last own write (what a stale load may still return)
  ppc : PPc := .start
  g : G := .out
  ndel : Nat := 0           -- ghost: deliveries of this future's result (continuation invocations + `Get` returns)
  deriving DecidableEq, Repr

/-- the consuming operation on a future after all wait calls -/
inductive Fin where
  | none | attach | get
  deriving DecidableEq, Repr

/-- one Wait / WaitFor / WaitUntil call over the futures `[lo, lo + len)` -/
structure Call where
  lo : Nat
  len : Nat
  timed : Bool
  deriving DecidableEq, Repr

def Call.hi (c : Call) : Nat := c.lo + c.len

structure Workload where
  n : Nat
  res : Nat → Res            -- what producer i sets
  shared : Nat → Bool        -- future i is a SharedFuture (registration by weak-CAS loop)
  calls : List Call
  fin : Nat → Fin

inductive Tid where
  | w | p (i : Nat)
  deriving DecidableEq, Repr

/-- waiter program counter -/
inductive WPc where
  | idle
  | reg (i : Nat)               -- `SetCallback` on future i: pre-check load next
  | regCas (i : Nat)            -- … the CAS next
  | sub1                        -- `event.SubEqual(count - wait_count + 1)` next
  | lock1                       -- `event.Make()`: lock next
  | held (final : Bool)         -- holds the mutex, flag not set: `cv.wait*` unlocks next
  | asleep (final : Bool)       -- blocked in `cv.wait*`
  | timedOut                    -- `cv.wait_for/until` timed out: re-lock next
  | rst (i : Nat)               -- `Reset` on future i: relaxed load next
  | rstCas (i : Nat) (x : Word) -- … the CAS `x → empty` next
  | sub2                        -- `event.SubEqual(reset_count)` next
  | unlockRet (b : Bool)        -- return value decided, `token` is unlocked next
  | retn (b : Bool)             -- has left `WaitRange`, the client observes `b` next
  | att (i : Nat) | attCas (i : Nat) | attFail (i : Nat)   -- consuming attach on future i
  | gotRep (i : Nat)            -- `Get() &&`: waited, read + report next
  deriving DecidableEq, Repr

structure State where
  w : Workload
  fut : Nat → Fut
  wpc : WPc
  calls : List Call          -- wait calls not finished yet (head = the running one while `wpc ≠ idle`)
  fi : Nat                   -- next future to consume
  -- the running call
  lo : Nat
  hi : Nat
  timed : Bool
  inGet : Bool               -- the running call is the wait inside `Get() &&` of future `lo`
  wc : Nat                   -- `wait_count`
  rc : Nat                   -- `reset_count`
  -- the event
  alive : Bool
  counter : Int
  ready : Bool               -- `MutexEvent::_is_ready`
  holder : Option Tid        -- who holds `MutexEvent::_m`
  -- ghost
  sub1done : Bool
  sub2done : Bool
  timedOutSeen : Bool        -- the timeout step happened in the running call
  setter : Option Nat        -- the producer whose decrement reached zero in the running call
  evSet : Nat                -- number of `Set` calls on the running call's event
  uaf : Bool                 -- a producer touched the event while it was not alive

def upd (f : Nat → Fut) (i : Nat) (x : Fut) : Nat → Fut := fun j => if j = i then x else f j

def init (w : Workload) : State :=
  { w := w, fut := fun _ => {}, wpc := .idle, calls := w.calls, fi := 0, lo := 0, hi := 0, timed := false, inGet := false,
    wc := 0, rc := 0, alive := false, counter := 0, ready := false, holder := none,
    sub1done := false, sub2done := false, timedOutSeen := false, setter := none, evSet := 0, uaf := false }

inductive Label where
  -- waiter
  | call (lo hi : Nat) (timed : Bool)           -- client calls Wait / WaitFor / WaitUntil over futures [lo, hi)
  | wLoad (i : Nat) (x : Word)                  -- load of word i (acquire in SetCallback, relaxed in Reset) → x
  | wCas (i : Nat) (ok : Bool)                  -- compare_exchange on word i (register / reset / attach)
  | wSpur (i : Nat) (x : Word)                  -- weak CAS (shared future) failed spuriously, re-read x
  | wSub (a : Nat) (old : Int)                  -- counter.fetch_sub(a, release) → old
  | timeout                                     -- the timed wait's deadline passed
  | ret (b : Bool)                              -- the wait call returned b to the client
  | fin (i : Nat) (k : Fin)                     -- client starts the consuming operation on future i
  | got (i : Nat) (r : Res)                     -- Get() && returned r
  -- producers
  | pXchg (i : Nat) (old : Word)                -- word i .exchange(result, acq_rel) → old
  | pSub (i : Nat) (old : Int)                  -- counter.fetch_sub(1, release) → old
  -- both
  | lock (t : Tid) | unlock (t : Tid)
  | invoke (t : Tid) (i : Nat) (r : Res)        -- continuation of future i runs on thread t with r

/-- a load of word `f.word` by the waiter: the current value or, once the producer has exchanged, possibly
    still the waiter's own last write -/
def loadOk (f : Fut) (x : Word) : Prop := x = f.word ∨ (f.word = .result ∧ x = f.prev)

instance (f : Fut) (x : Word) : Decidable (loadOk f x) := by unfold loadOk; exact inferInstance

/-! ### effects -/

/-- the waiter leaves `WaitRange` with `b` (the event dies); inside `Get() &&` the read follows -/
def toRet (s : State) (b : Bool) : State :=
  if s.inGet then { s with wpc := .gotRep s.lo, alive := false } else { s with wpc := .retn b, alive := false }

/-- registration loop: continue with future `i`, or — when the range is exhausted — decide what follows:
    `wait_count == 0` → return true; OneCounter: `SubEqual` is constant false → lock; else the first `SubEqual` -/
def advReg (s : State) (i : Nat) : State :=
  if i < s.hi then { s with wpc := .reg i }
  else if s.wc = 0 then toRet s true
  else if s.hi - s.lo = 1 then { s with wpc := .lock1 }
  else { s with wpc := .sub1 }

/-- `WaitCore` / `WaitIterator`: construct the event (`count + 1`), start registering -/
def doBegin (s : State) (lo hi : Nat) (timed inGet : Bool) : State :=
  advReg { s with fut := fun j => { s.fut j with g := .out }, lo := lo, hi := hi, timed := timed, inGet := inGet,
                  wc := 0, rc := 0, alive := true, counter := ((hi - lo : Nat) : Int) + 1, ready := false, holder := none,
                  sub1done := false, sub2done := false, timedOutSeen := false, setter := none, evSet := 0 } lo

def doRegLoad (s : State) (i : Nat) (x : Word) : State :=
  if x = .empty then { s with wpc := .regCas i } else advReg s (i + 1)

def doRegCasOk (s : State) (i : Nat) : State :=
  advReg { s with fut := upd s.fut i { s.fut i with word := .ev, prev := .ev, g := .inn }, wc := s.wc + 1 } (i + 1)

/-- first `SubEqual`: `fetch_sub(count - wait_count + 1)`; it returns true iff every registered producer has
    already decremented -/
def doSub1 (s : State) : State :=
  let a : Int := (((s.hi - s.lo) - s.wc + 1 : Nat) : Int)
  let s1 := { s with counter := s.counter - a, sub1done := true }
  if s.counter = a then toRet s1 true else { s1 with wpc := .lock1 }

/-- the untimed `event.Wait(token)` entered with the mutex held -/
def finalWait (s : State) : State :=
  if s.ready then { s with wpc := .unlockRet (decide (s.rc = 0)) } else { s with wpc := .held true }

/-- reset loop: continue with future `i`, or decide what follows -/
def advRst (s : State) (i : Nat) : State :=
  if i < s.hi then { s with wpc := .rst i }
  else if s.rc ≠ 0 ∧ s.rc = s.wc then { s with wpc := .unlockRet false }
  else if s.rc ≠ 0 ∧ s.hi - s.lo ≠ 1 then { s with wpc := .sub2 }
  else finalWait s

def doLock1 (s : State) : State :=
  if s.ready then { s with holder := some .w, wpc := .unlockRet true }
  else { s with holder := some .w, wpc := .held (!s.timed) }

def doWake (s : State) (f : Bool) : State :=
  if s.ready then { s with holder := some .w, wpc := .unlockRet (if f then decide (s.rc = 0) else true) }
  else { s with holder := some .w, wpc := .held f }

def doLockT (s : State) : State :=
  if s.ready then { s with holder := some .w, wpc := .unlockRet true }
  else advRst { s with holder := some .w } s.lo

def doRstLoad (s : State) (i : Nat) (x : Word) : State :=
  if x = .result then advRst s (i + 1) else { s with wpc := .rstCas i x }

def doRstCasOk (s : State) (i : Nat) : State :=
  advRst { s with fut := upd s.fut i { s.fut i with word := .empty, prev := .empty, g := .back }, rc := s.rc + 1 } (i + 1)

def doSub2 (s : State) : State :=
  let s1 := { s with counter := s.counter - (s.rc : Int), sub2done := true }
  if s.counter = (s.rc : Int) then { s1 with wpc := .unlockRet false } else finalWait s1

def doUnlockRet (s : State) (b : Bool) : State := toRet { s with holder := none } b

def doRet (s : State) : State := { s with wpc := .idle, calls := s.calls.tail }

def doFin (s : State) (i : Nat) (k : Fin) : State :=
  match k with
  | .none => { s with fi := i + 1 }
  | .attach => { s with wpc := .att i }
  | .get => doBegin s i (i + 1) false true

def doAttLoad (s : State) (i : Nat) (x : Word) : State :=
  if x = .empty then { s with wpc := .attCas i } else { s with wpc := .attFail i }

def doAttCasOk (s : State) (i : Nat) : State :=
  { s with fut := upd s.fut i { s.fut i with word := .cont, prev := .cont }, wpc := .idle, fi := i + 1 }

def doDeliverW (s : State) (i : Nat) : State :=
  { s with fut := upd s.fut i { s.fut i with ndel := (s.fut i).ndel + 1 }, wpc := .idle, fi := i + 1 }

/-- `SetResultImpl<·,false>`: `exchange(kResult)`; a callback that was there is run by the producer -/
def doXchg (s : State) (i : Nat) : State :=
  match (s.fut i).word with
  | .ev =>
      if s.hi - s.lo = 1 then   -- OneCounter: `Sub` is `Set` at once, no atomic operation in between
        { s with fut := upd s.fut i { s.fut i with word := .result, ppc := .setting, g := .decd }, setter := some i }
      else { s with fut := upd s.fut i { s.fut i with word := .result, ppc := .took, g := .taken } }
  | .cont => { s with fut := upd s.fut i { s.fut i with word := .result, ppc := .fire } }
  | _ => { s with fut := upd s.fut i { s.fut i with word := .result, ppc := .done } }

/-- `CallCallback::Impl` → `AtomicCounter::Sub(1)`: `fetch_sub(1)`; `SetDeleter` runs iff it returned 1 -/
def doPSub (s : State) (i : Nat) : State :=
  let s1 := { s with counter := s.counter - 1, uaf := s.uaf || !s.alive }
  if s.counter = 1 then
    { s1 with fut := upd s.fut i { s.fut i with ppc := .setting, g := .decd }, setter := some i }
  else { s1 with fut := upd s.fut i { s.fut i with ppc := .done, g := .decd } }

/-- `MutexEvent::Set`: lock, `_is_ready = true`, notify (under the mutex) … -/
def doPLock (s : State) (i : Nat) : State :=
  { s with fut := upd s.fut i { s.fut i with ppc := .locked }, holder := some (.p i), ready := true,
           evSet := s.evSet + 1, uaf := s.uaf || !s.alive }

/-- … unlock: the producer's last access to the event -/
def doPUnlock (s : State) (i : Nat) : State :=
  { s with fut := upd s.fut i { s.fut i with ppc := .done }, holder := none, uaf := s.uaf || !s.alive }

def doPInvoke (s : State) (i : Nat) : State :=
  { s with fut := upd s.fut i { s.fut i with ppc := .done, ndel := (s.fut i).ndel + 1 } }

inductive Step : State → Label → State → Prop where
  /-- the client calls the next Wait / WaitFor / WaitUntil -/
  | wCall (s : State) (c : Call) (rest : List Call) (h : s.wpc = .idle) (hc : s.calls = c :: rest) :
      Step s (.call c.lo c.hi c.timed) (doBegin s c.lo c.hi c.timed false)
  /-- `SetCallbackImpl`: pre-check load (may be stale) … -/
  | wRegLoad (s : State) (i : Nat) (x : Word) (h : s.wpc = .reg i) (hx : loadOk (s.fut i) x) :
      Step s (.wLoad i x) (doRegLoad s i x)
  /-- … and the CAS `empty → event` (strong for unique, weak for shared futures) -/
  | wRegCasOk (s : State) (i : Nat) (h : s.wpc = .regCas i) (hw : (s.fut i).word = .empty) :
      Step s (.wCas i true) (doRegCasOk s i)
  | wRegCasFail (s : State) (i : Nat) (h : s.wpc = .regCas i) (hw : (s.fut i).word ≠ .empty) :
      Step s (.wCas i false) (advReg s (i + 1))
  /-- `compare_exchange_weak` failing spuriously re-reads the word -/
  | wRegSpur (s : State) (i : Nat) (x : Word) (h : s.wpc = .regCas i) (hs : s.w.shared i = true)
      (hx : loadOk (s.fut i) x) : Step s (.wSpur i x) (doRegLoad s i x)
  | wSub1 (s : State) (h : s.wpc = .sub1) :
      Step s (.wSub ((s.hi - s.lo) - s.wc + 1) s.counter) (doSub1 s)
  | wLock1 (s : State) (h : s.wpc = .lock1) (hm : s.holder = none) : Step s (.lock .w) (doLock1 s)
  | wSleep (s : State) (f : Bool) (h : s.wpc = .held f) :
      Step s (.unlock .w) { s with wpc := .asleep f, holder := none }
  /-- wake-up (the model also allows it while the flag is not set: spurious wake-up) -/
  | wWake (s : State) (f : Bool) (h : s.wpc = .asleep f) (hm : s.holder = none) : Step s (.lock .w) (doWake s f)
  /-- the deadline of the timed wait passes; only the timed (first) wait of a timed call can time out -/
  | wTimeout (s : State) (h : s.wpc = .asleep false) (ht : s.timed = true) :
      Step s .timeout { s with wpc := .timedOut, timedOutSeen := true }
  | wLockT (s : State) (h : s.wpc = .timedOut) (hm : s.holder = none) : Step s (.lock .w) (doLockT s)
  /-- `ResetImpl`: relaxed load (may be stale) … -/
  | wRstLoad (s : State) (i : Nat) (x : Word) (h : s.wpc = .rst i) (hx : loadOk (s.fut i) x) :
      Step s (.wLoad i x) (doRstLoad s i x)
  /-- … and the strong CAS `x → empty` -/
  | wRstCasOk (s : State) (i : Nat) (x : Word) (h : s.wpc = .rstCas i x) (hw : (s.fut i).word = x) :
      Step s (.wCas i true) (doRstCasOk s i)
  | wRstCasFail (s : State) (i : Nat) (x : Word) (h : s.wpc = .rstCas i x) (hw : (s.fut i).word ≠ x) :
      Step s (.wCas i false) (advRst s (i + 1))
  | wSub2 (s : State) (h : s.wpc = .sub2) : Step s (.wSub s.rc s.counter) (doSub2 s)
  | wUnlockRet (s : State) (b : Bool) (h : s.wpc = .unlockRet b) : Step s (.unlock .w) (doUnlockRet s b)
  | wRet (s : State) (b : Bool) (h : s.wpc = .retn b) : Step s (.ret b) (doRet s)
  /-- after the wait calls: the consuming operations, future by future -/
  | wFin (s : State) (h : s.wpc = .idle) (hc : s.calls = []) (hi : s.fi < s.w.n) :
      Step s (.fin s.fi (s.w.fin s.fi)) (doFin s s.fi (s.w.fin s.fi))
  | wAttLoad (s : State) (i : Nat) (x : Word) (h : s.wpc = .att i) (hx : loadOk (s.fut i) x) :
      Step s (.wLoad i x) (doAttLoad s i x)
  | wAttCasOk (s : State) (i : Nat) (h : s.wpc = .attCas i) (hw : (s.fut i).word = .empty) :
      Step s (.wCas i true) (doAttCasOk s i)
  | wAttCasFail (s : State) (i : Nat) (h : s.wpc = .attCas i) (hw : (s.fut i).word ≠ .empty) :
      Step s (.wCas i false) { s with wpc := .attFail i }
  /-- the result was there: the waiter runs its continuation inline -/
  | wInvoke (s : State) (i : Nat) (h : s.wpc = .attFail i) (hw : (s.fut i).word = .result) :
      Step s (.invoke .w i (s.w.res i)) (doDeliverW s i)
  | wGot (s : State) (i : Nat) (h : s.wpc = .gotRep i) (hw : (s.fut i).word = .result) :
      Step s (.got i (s.w.res i)) (doDeliverW s i)
  /-- producers -/
  | pXchg (s : State) (i : Nat) (hi : i < s.w.n) (h : (s.fut i).ppc = .start) (hw : (s.fut i).word ≠ .result) :
      Step s (.pXchg i (s.fut i).word) (doXchg s i)
  | pSub (s : State) (i : Nat) (h : (s.fut i).ppc = .took) : Step s (.pSub i s.counter) (doPSub s i)
  | pLock (s : State) (i : Nat) (h : (s.fut i).ppc = .setting) (hm : s.holder = none) :
      Step s (.lock (.p i)) (doPLock s i)
  | pUnlock (s : State) (i : Nat) (h : (s.fut i).ppc = .locked) : Step s (.unlock (.p i)) (doPUnlock s i)
  | pInvoke (s : State) (i : Nat) (h : (s.fut i).ppc = .fire) :
      Step s (.invoke (.p i) i (s.w.res i)) (doPInvoke s i)

inductive Reachable (w : Workload) : State → Prop where
  | init : Reachable w (init w)
  | step {s l s'} : Reachable w s → Step s l s' → Reachable w s'

/-- executable transition function used by the trace validator (`ymdriver`) -/
def next (s : State) : Label → Option State
  | .call lo hi timed =>
      match s.calls with
      | c :: _ => if s.wpc = .idle ∧ c.lo = lo ∧ c.hi = hi ∧ c.timed = timed then some (doBegin s c.lo c.hi c.timed false) else none
      | [] => none
  | .wLoad i x =>
      if loadOk (s.fut i) x then
        if s.wpc = .reg i then some (doRegLoad s i x)
        else if s.wpc = .rst i then some (doRstLoad s i x)
        else if s.wpc = .att i then some (doAttLoad s i x)
        else none
      else none
  | .wCas i ok =>
      match s.wpc with
      | .regCas j =>
          if j = i then
            if ok then (if (s.fut i).word = .empty then some (doRegCasOk s i) else none)
            else (if (s.fut i).word ≠ .empty then some (advReg s (i + 1)) else none)
          else none
      | .rstCas j x =>
          if j = i then
            if ok then (if (s.fut i).word = x then some (doRstCasOk s i) else none)
            else (if (s.fut i).word ≠ x then some (advRst s (i + 1)) else none)
          else none
      | .attCas j =>
          if j = i then
            if ok then (if (s.fut i).word = .empty then some (doAttCasOk s i) else none)
            else (if (s.fut i).word ≠ .empty then some { s with wpc := .attFail i } else none)
          else none
      | _ => none
  | .wSpur i x =>
      if s.wpc = .regCas i ∧ s.w.shared i = true ∧ loadOk (s.fut i) x then some (doRegLoad s i x) else none
  | .wSub a old =>
      if s.wpc = .sub1 ∧ a = (s.hi - s.lo) - s.wc + 1 ∧ old = s.counter then some (doSub1 s)
      else if s.wpc = .sub2 ∧ a = s.rc ∧ old = s.counter then some (doSub2 s)
      else none
  | .timeout =>
      if s.wpc = .asleep false ∧ s.timed = true then some { s with wpc := .timedOut, timedOutSeen := true } else none
  | .ret b => if s.wpc = .retn b then some (doRet s) else none
  | .fin i k =>
      if s.wpc = .idle ∧ s.calls = [] ∧ s.fi < s.w.n ∧ i = s.fi ∧ k = s.w.fin s.fi then some (doFin s s.fi (s.w.fin s.fi))
      else none
  | .got i r =>
      if s.wpc = .gotRep i ∧ (s.fut i).word = .result ∧ r = s.w.res i then some (doDeliverW s i) else none
  | .pXchg i old =>
      if i < s.w.n ∧ (s.fut i).ppc = .start ∧ (s.fut i).word ≠ .result ∧ old = (s.fut i).word then some (doXchg s i)
      else none
  | .pSub i old => if (s.fut i).ppc = .took ∧ old = s.counter then some (doPSub s i) else none
  | .lock .w =>
      if s.holder = none then
        match s.wpc with
        | .lock1 => some (doLock1 s)
        | .asleep f => some (doWake s f)
        | .timedOut => some (doLockT s)
        | _ => none
      else none
  | .lock (.p i) => if (s.fut i).ppc = .setting ∧ s.holder = none then some (doPLock s i) else none
  | .unlock .w =>
      match s.wpc with
      | .held f => some { s with wpc := .asleep f, holder := none }
      | .unlockRet b => some (doUnlockRet s b)
      | _ => none
  | .unlock (.p i) => if (s.fut i).ppc = .locked then some (doPUnlock s i) else none
  | .invoke .w i r =>
      if s.wpc = .attFail i ∧ (s.fut i).word = .result ∧ r = s.w.res i then some (doDeliverW s i) else none
  | .invoke (.p j) i r =>
      if j = i ∧ (s.fut i).ppc = .fire ∧ r = s.w.res i then some (doPInvoke s i) else none

theorem next_sound {s : State} {l : Label} {s' : State} (h : next s l = some s') : Step s l s' := by
  cases l with
  | call lo hi timed =>
      simp only [next] at h
      split at h
      · rename_i c rest hc
        split at h
        · rename_i hg; obtain ⟨h1, h2, h3, h4⟩ := hg; cases h; subst h2 h3 h4; exact .wCall s c rest h1 hc
        · cases h
      · cases h
  | wLoad i x =>
      simp only [next] at h
      split at h
      · rename_i hx
        split at h
        · rename_i hp; cases h; exact .wRegLoad s i x hp hx
        · split at h
          · rename_i hp; cases h; exact .wRstLoad s i x hp hx
          · split at h
            · rename_i hp; cases h; exact .wAttLoad s i x hp hx
            · cases h
      · cases h
  | wCas i ok =>
      simp only [next] at h
      split at h
      · rename_i j hp
        split at h
        · rename_i hj; subst hj
          cases ok with
          | true =>
              simp only [↓reduceIte] at h
              split at h
              · rename_i hw; cases h; exact .wRegCasOk s j hp hw
              · cases h
          | false =>
              simp only [Bool.false_eq_true, ↓reduceIte] at h
              split at h
              · rename_i hw; cases h; exact .wRegCasFail s j hp hw
              · cases h
        · cases h
      · rename_i j x hp
        split at h
        · rename_i hj; subst hj
          cases ok with
          | true =>
              simp only [↓reduceIte] at h
              split at h
              · rename_i hw; cases h; exact .wRstCasOk s j x hp hw
              · cases h
          | false =>
              simp only [Bool.false_eq_true, ↓reduceIte] at h
              split at h
              · rename_i hw; cases h; exact .wRstCasFail s j x hp hw
              · cases h
        · cases h
      · rename_i j hp
        split at h
        · rename_i hj; subst hj
          cases ok with
          | true =>
              simp only [↓reduceIte] at h
              split at h
              · rename_i hw; cases h; exact .wAttCasOk s j hp hw
              · cases h
          | false =>
              simp only [Bool.false_eq_true, ↓reduceIte] at h
              split at h
              · rename_i hw; cases h; exact .wAttCasFail s j hp hw
              · cases h
        · cases h
      · cases h
  | wSpur i x =>
      simp only [next] at h
      split at h
      · rename_i hg; cases h; exact .wRegSpur s i x hg.1 hg.2.1 hg.2.2
      · cases h
  | wSub a old =>
      simp only [next] at h
      split at h
      · rename_i hg; obtain ⟨h1, h2, h3⟩ := hg; cases h; subst h2 h3; exact .wSub1 s h1
      · split at h
        · rename_i hg; obtain ⟨h1, h2, h3⟩ := hg; cases h; subst h2 h3; exact .wSub2 s h1
        · cases h
  | timeout =>
      simp only [next] at h
      split at h
      · rename_i hg; cases h; exact .wTimeout s hg.1 hg.2
      · cases h
  | ret b =>
      simp only [next] at h
      split at h
      · rename_i hg; cases h; exact .wRet s b hg
      · cases h
  | fin i k =>
      simp only [next] at h
      split at h
      · rename_i hg; obtain ⟨h1, h2, h3, h4, h5⟩ := hg; cases h; subst h4 h5; exact .wFin s h1 h2 h3
      · cases h
  | got i r =>
      simp only [next] at h
      split at h
      · rename_i hg; obtain ⟨h1, h2, h3⟩ := hg; cases h; subst h3; exact .wGot s i h1 h2
      · cases h
  | pXchg i old =>
      simp only [next] at h
      split at h
      · rename_i hg; obtain ⟨h1, h2, h3, h4⟩ := hg; cases h; subst h4; exact .pXchg s i h1 h2 h3
      · cases h
  | pSub i old =>
      simp only [next] at h
      split at h
      · rename_i hg; obtain ⟨h1, h2⟩ := hg; cases h; subst h2; exact .pSub s i h1
      · cases h
  | lock t =>
      cases t with
      | w =>
          simp only [next] at h
          split at h
          · rename_i hm
            split at h
            · rename_i hp; cases h; exact .wLock1 s hp hm
            · rename_i f hp; cases h; exact .wWake s f hp hm
            · rename_i hp; cases h; exact .wLockT s hp hm
            · cases h
          · cases h
      | p i =>
          simp only [next] at h
          split at h
          · rename_i hg; cases h; exact .pLock s i hg.1 hg.2
          · cases h
  | unlock t =>
      cases t with
      | w =>
          simp only [next] at h
          split at h
          · rename_i f hp; cases h; exact .wSleep s f hp
          · rename_i b hp; cases h; exact .wUnlockRet s b hp
          · cases h
      | p i =>
          simp only [next] at h
          split at h
          · rename_i hg; cases h; exact .pUnlock s i hg
          · cases h
  | invoke t i r =>
      cases t with
      | w =>
          simp only [next] at h
          split at h
          · rename_i hg; obtain ⟨h1, h2, h3⟩ := hg; cases h; subst h3; exact .wInvoke s i h1 h2
          · cases h
      | p j =>
          simp only [next] at h
          split at h
          · rename_i hg; obtain ⟨h1, h2, h3⟩ := hg; cases h; subst h1 h3; exact .pInvoke s j h2
          · cases h

end Yaclib.Wait
