/-
C18 — model `Th` of `fiber::Thread::join`, `this_thread::sleep_for` and the thread-local pointer proxy.

Written from /repo: src/fault/fiber/{thread,fiber_base,thread_local_proxy,scheduler}.cpp,
include/yaclib/fault/detail/fiber/thread_local_proxy.hpp, include/yaclib_std/detail/this_thread.hpp
(scheduler abstraction and conventions as in Model/FiberSync.lean).

Thread-local pointers: any number of variables `YACLIB_THREAD_LOCAL_PTR(T) x{initialiser};`, numbered by the one global
index counter (`NextFreeIndex()`), of any pointee types.  The workload gives the initialiser of every variable
(`none` = declared without one / with nullptr); the constructor stores a non-null initialiser in the process-wide
defaults map (`SetDefault`), which nothing else writes.  A pointer value is `Option Nat` (`none` = nullptr); a fiber's
slot is `Option (Option Nat)`: `none` = the fiber has no entry for the variable (`_tls.find(i) == _tls.end()`), `some none` =
it stored nullptr — the difference matters exactly when the initialiser is not null.

History: until the fix commit 33c5ab3 the code had
  D13  the index counter was a static member of the class *template* (one per pointee type) while the per-fiber map and
       the defaults map are keyed by the index alone: an `int*` and a `long*` variable shared slot 0 — scenario
       `tls f0=GL,P1,GL f1=GL,G` (`f0 tls_getl -> -1; tls_set 1; tls_getl -> 1`, every schedule);
  D14  `ThreadLocalPtrProxy::operator=(const ThreadLocalPtrProxy&)` (`q = p`) called `SetDefault`, i.e. wrote the
       process-wide default of `q`: other fibers saw the value, a fiber that had assigned `q` itself did not see its own
       copy — scenarios `tls f0=P1,C,GQ,E,GQ f1=GQ,P2,E,GQ` and `tls f0=PQ3,GQ,P1,C,GQ f1=GQ,PQ2,GQ` (every schedule),
and this model contained them (two variables + an aliasing third; see git history and notes/C18.md).  It now describes
the repaired code: `Set(GetImpl(other._i), _i)` in the copy assignment, one slot per variable.
-/
import YaclibModel.Model.FiberSync

namespace Yaclib.FiberSync.Th
open Yaclib.FiberSync

inductive Pc where
  | idle | done
  | joining (k : Fid)          -- inside `Thread::join`: `while (state != Completed) { SetJoiningFiber(me); Suspend(); }`
  | sleeping (dl : Nat)
  deriving DecidableEq, Repr

abbrev Var := Nat
abbrev Ptr := Option Nat       -- `none` = nullptr

structure State where
  pc : Fid → Pc
  fin : Fid → Bool                      -- `FiberBase::_state == Completed` (the thread function returned, `Exit()` ran)
  slot : Var → Fid → Option Ptr         -- `FiberBase::_tls` of each fiber
  dflt : Var → Ptr                      -- `sDefaults` (thread_local_proxy.cpp), written by the constructors only
  now : Nat
  -- ghost
  last : Var → Fid → Option Ptr         -- what this fiber itself last assigned to the variable (`none` = never)

/-- `inits v` = the initialiser variable `v` was declared with -/
def init (inits : Var → Ptr) (n : Nat) : State :=
  { pc := fun g => if g < n then .idle else .done, fin := fun _ => false, slot := fun _ _ => none, dflt := inits, now := 0,
    last := fun _ _ => none }

/-- `FiberBase::GetTLS(i, defaults)`: own entry (whatever it holds), else the default -/
def read (s : State) (v : Var) (f : Fid) : Ptr := match s.slot v f with | some x => x | none => s.dflt v

/-- what `thread_local T* x = initialiser;` semantics say the fiber reads -/
def specRead (inits : Var → Ptr) (s : State) (v : Var) (f : Fid) : Ptr :=
  match s.last v f with | some x => x | none => inits v

inductive Label where
  | joinStart (f k : Fid)                 -- `f E call join k`
  | joinRet (f k : Fid)                   -- `f E ret join k`
  | work (f : Fid)                        -- `f E work`
  | finish (f : Fid)                      -- `f E done`
  | set (f : Fid) (v : Var) (x : Ptr)     -- `x_v = ptr` (`operator=(Type*)`: `Set(value, _i)` → `SetTLS`)
  | get (f : Fid) (v : Var) (r : Ptr)     -- `x_v.Get()`
  | copy (f : Fid) (dst src : Var)        -- `x_dst = x_src` (`Set(GetImpl(other._i), _i)`)
  | sleepStart (f : Fid) (t d : Nat) | sleepWake (f : Fid) (t : Nat)
  deriving DecidableEq, Repr

/-- `FiberBase::SetTLS(i, value)`: `_tls[i] = value` — also for a null value -/
def doSet (s : State) (f : Fid) (v : Var) (x : Ptr) : State :=
  { s with slot := upd s.slot v (upd (s.slot v) f (some x)), last := upd s.last v (upd (s.last v) f (some x)) }

inductive Step : State → Label → State → Prop where
  | joinStart (s : State) (f k : Fid) (h : s.pc f = .idle) : Step s (.joinStart f k) { s with pc := upd s.pc f (.joining k) }
  /-- leaves the loop only when the joined fiber is `Completed` -/
  | joinRet (s : State) (f k : Fid) (h : s.pc f = .joining k) (hf : s.fin k = true) :
      Step s (.joinRet f k) { s with pc := upd s.pc f .idle }
  | work (s : State) (f : Fid) (h : s.pc f = .idle) : Step s (.work f) s
  /-- the thread function returns: `FiberBase::Exit` (`_state = Completed`, schedules the joiner) -/
  | finish (s : State) (f : Fid) (h : s.pc f = .idle) :
      Step s (.finish f) { s with pc := upd s.pc f .done, fin := upd s.fin f true }
  | set (s : State) (f : Fid) (v : Var) (x : Ptr) (h : s.pc f = .idle) : Step s (.set f v x) (doSet s f v x)
  | get (s : State) (f : Fid) (v : Var) (h : s.pc f = .idle) : Step s (.get f v (read s v f)) s
  | copy (s : State) (f : Fid) (dst src : Var) (h : s.pc f = .idle) :
      Step s (.copy f dst src) (doSet s f dst (read s src f))
  | sleepStart (s : State) (f : Fid) (t d : Nat) (h : s.pc f = .idle) (ht : s.now ≤ t) :
      Step s (.sleepStart f t d) { s with pc := upd s.pc f (.sleeping (t + d)), now := t }
  | sleepWake (s : State) (f : Fid) (t dl : Nat) (h : s.pc f = .sleeping dl) (hd : dl ≤ t) (ht : s.now ≤ t) :
      Step s (.sleepWake f t) { s with pc := upd s.pc f .idle, now := t }

inductive Reachable (inits : Var → Ptr) (n : Nat) : State → Prop where
  | init : Reachable inits n (init inits n)
  | step {s l s'} : Reachable inits n s → Step s l s' → Reachable inits n s'

def next (s : State) : Label → Option State
  | .joinStart f k => if s.pc f = .idle then some { s with pc := upd s.pc f (.joining k) } else none
  | .joinRet f k => if s.pc f = .joining k ∧ s.fin k = true then some { s with pc := upd s.pc f .idle } else none
  | .work f => if s.pc f = .idle then some s else none
  | .finish f => if s.pc f = .idle then some { s with pc := upd s.pc f .done, fin := upd s.fin f true } else none
  | .set f v x => if s.pc f = .idle then some (doSet s f v x) else none
  | .get f v r => if s.pc f = .idle ∧ r = read s v f then some s else none
  | .copy f dst src => if s.pc f = .idle then some (doSet s f dst (read s src f)) else none
  | .sleepStart f t d =>
      if s.pc f = .idle ∧ s.now ≤ t then some { s with pc := upd s.pc f (.sleeping (t + d)), now := t } else none
  | .sleepWake f t =>
      match s.pc f with
      | .sleeping dl => if dl ≤ t ∧ s.now ≤ t then some { s with pc := upd s.pc f .idle, now := t } else none
      | _ => none

theorem next_sound {s : State} {l : Label} {s' : State} (h : next s l = some s') : Step s l s' := by
  cases l with
  | joinStart f k =>
      simp only [next] at h; split at h
      · rename_i hg; cases h; exact .joinStart s f k hg
      · cases h
  | joinRet f k =>
      simp only [next] at h; split at h
      · rename_i hg; cases h; exact .joinRet s f k hg.1 hg.2
      · cases h
  | work f =>
      simp only [next] at h; split at h
      · rename_i hg; cases h; exact .work s f hg
      · cases h
  | finish f =>
      simp only [next] at h; split at h
      · rename_i hg; cases h; exact .finish s f hg
      · cases h
  | set f v x =>
      simp only [next] at h; split at h
      · rename_i hg; cases h; exact .set s f v x hg
      · cases h
  | get f v r =>
      simp only [next] at h; split at h
      · rename_i hg; cases h; rw [hg.2]; exact .get s f v hg.1
      · cases h
  | copy f dst src =>
      simp only [next] at h; split at h
      · rename_i hg; cases h; exact .copy s f dst src hg
      · cases h
  | sleepStart f t d =>
      simp only [next] at h; split at h
      · rename_i hg; cases h; exact .sleepStart s f t d hg.1 hg.2
      · cases h
  | sleepWake f t =>
      simp only [next] at h; split at h
      · rename_i dl hp; split at h
        · rename_i hg; cases h; exact .sleepWake s f t dl hp hg.1 hg.2
        · cases h
      · cases h

end Yaclib.FiberSync.Th
