/-
C18 — model `Th` of `fiber::Thread::join`, `this_thread::sleep_for` and the thread-local pointer proxy.

Written from /repo: src/fault/fiber/{thread,fiber_base,thread_local_proxy,scheduler}.cpp,
include/yaclib/fault/detail/fiber/thread_local_proxy.hpp, include/yaclib_std/detail/this_thread.hpp
(scheduler abstraction and conventions as in Model/FiberSync.lean).

Three thread-local pointers are modelled, as a client would declare them:
  `p`, `q` : `YACLIB_THREAD_LOCAL_PTR(int)`, `l` : `YACLIB_THREAD_LOCAL_PTR(long)` — indices 0, 1, 2 of the one global counter.
History: until the fix commit 33c5ab3 the code had
  D13  the index counter was a static member of the class *template* (one per pointee type) while the per-fiber map and
       the defaults map are keyed by the index alone: `p` and `l` shared slot 0 — scenario `tls f0=GL,P1,GL f1=GL,G`
       (`f0 tls_getl -> -1; tls_set 1; tls_getl -> 1`, every schedule);
  D14  `ThreadLocalPtrProxy::operator=(const ThreadLocalPtrProxy&)` (`q = p`) called `SetDefault`, i.e. wrote the
       process-wide default of `q`: other fibers saw the value, a fiber that had assigned `q` itself did not see its own
       copy — scenarios `tls f0=P1,C,GQ,E,GQ f1=GQ,P2,E,GQ` and `tls f0=PQ3,GQ,P1,C,GQ f1=GQ,PQ2,GQ` (every schedule),
and this model contained them (see git history and notes/C18.md).  It now describes the repaired code:
`Set(GetImpl(other._i), _i)` in the copy assignment, `l` has its own slot (never written by the modelled operations).
-/
import YaclibModel.Model.FiberSync

namespace Yaclib.FiberSync.Th
open Yaclib.FiberSync

inductive Pc where
  | idle | done
  | joining (k : Fid)          -- inside `Thread::join`: `while (state != Completed) { SetJoiningFiber(me); Suspend(); }`
  | sleeping (dl : Nat)
  deriving DecidableEq, Repr

structure State where
  pc : Fid → Pc
  fin : Fid → Bool             -- `FiberBase::_state == Completed` (the thread function returned, `Exit()` ran)
  slot0 : Fid → Option Nat     -- `_tls[0]` of each fiber (`none` = no entry or nullptr): `p`
  slot1 : Fid → Option Nat     -- `_tls[1]`: `q`
  def0 : Option Nat            -- `sDefaults[0]`, `sDefaults[1]` (`none` = nullptr)
  def1 : Option Nat
  now : Nat
  -- ghost
  lastQ : Fid → Option (Option Nat)   -- what this fiber itself last assigned to `q` (`none` = never assigned)

def init (n : Nat) : State :=
  { pc := fun g => if g < n then .idle else .done, fin := fun _ => false, slot0 := fun _ => none, slot1 := fun _ => none,
    def0 := none, def1 := none, now := 0, lastQ := fun _ => none }

/-- `FiberBase::GetTLS(i, defaults)`: own entry, else the default -/
def read0 (s : State) (f : Fid) : Option Nat := match s.slot0 f with | some v => some v | none => s.def0
def read1 (s : State) (f : Fid) : Option Nat := match s.slot1 f with | some v => some v | none => s.def1

inductive Label where
  | joinStart (f k : Fid)                 -- `f E call join k`
  | joinRet (f k : Fid)                   -- `f E ret join k`
  | work (f : Fid)                        -- `f E work`
  | finish (f : Fid)                      -- `f E done`
  | setP (f : Fid) (v : Nat)              -- `p = &slot[v]`
  | getP (f : Fid) (r : Option Nat)       -- `p.Get()`
  | setQ (f : Fid) (v : Nat)              -- `q = &slot[v]`
  | copyQP (f : Fid)                      -- `q = p`
  | getQ (f : Fid) (r : Option Nat)
  | getL (f : Fid) (r : Option Nat)       -- `l.Get()` (a pointer of another type)
  | sleepStart (f : Fid) (t d : Nat) | sleepWake (f : Fid) (t : Nat)
  deriving DecidableEq, Repr

/-- `q = p`: `Set(GetImpl(other._i), _i)` — this fiber's slot of `q` -/
def doCopy (s : State) (f : Fid) : State :=
  { s with slot1 := upd s.slot1 f (read0 s f), lastQ := upd s.lastQ f (some (read0 s f)) }

/-- what `l.Get()` returns: its own slot (index 2), which no modelled operation writes -/
def readL (_s : State) (_f : Fid) : Option Nat := none

inductive Step : State → Label → State → Prop where
  | joinStart (s : State) (f k : Fid) (h : s.pc f = .idle) : Step s (.joinStart f k) { s with pc := upd s.pc f (.joining k) }
  /-- leaves the loop only when the joined fiber is `Completed` -/
  | joinRet (s : State) (f k : Fid) (h : s.pc f = .joining k) (hf : s.fin k = true) :
      Step s (.joinRet f k) { s with pc := upd s.pc f .idle }
  | work (s : State) (f : Fid) (h : s.pc f = .idle) : Step s (.work f) s
  /-- the thread function returns: `FiberBase::Exit` (`_state = Completed`, schedules the joiner) -/
  | finish (s : State) (f : Fid) (h : s.pc f = .idle) :
      Step s (.finish f) { s with pc := upd s.pc f .done, fin := upd s.fin f true }
  | setP (s : State) (f : Fid) (v : Nat) (h : s.pc f = .idle) :
      Step s (.setP f v) { s with slot0 := upd s.slot0 f (some v) }
  | getP (s : State) (f : Fid) (h : s.pc f = .idle) : Step s (.getP f (read0 s f)) s
  | setQ (s : State) (f : Fid) (v : Nat) (h : s.pc f = .idle) :
      Step s (.setQ f v) { s with slot1 := upd s.slot1 f (some v), lastQ := upd s.lastQ f (some (some v)) }
  | copyQP (s : State) (f : Fid) (h : s.pc f = .idle) : Step s (.copyQP f) (doCopy s f)
  | getQ (s : State) (f : Fid) (h : s.pc f = .idle) : Step s (.getQ f (read1 s f)) s
  | getL (s : State) (f : Fid) (h : s.pc f = .idle) : Step s (.getL f (readL s f)) s
  | sleepStart (s : State) (f : Fid) (t d : Nat) (h : s.pc f = .idle) (ht : s.now ≤ t) :
      Step s (.sleepStart f t d) { s with pc := upd s.pc f (.sleeping (t + d)), now := t }
  | sleepWake (s : State) (f : Fid) (t dl : Nat) (h : s.pc f = .sleeping dl) (hd : dl ≤ t) (ht : s.now ≤ t) :
      Step s (.sleepWake f t) { s with pc := upd s.pc f .idle, now := t }

inductive Reachable (n : Nat) : State → Prop where
  | init : Reachable n (init n)
  | step {s l s'} : Reachable n s → Step s l s' → Reachable n s'

def next (s : State) : Label → Option State
  | .joinStart f k => if s.pc f = .idle then some { s with pc := upd s.pc f (.joining k) } else none
  | .joinRet f k => if s.pc f = .joining k ∧ s.fin k = true then some { s with pc := upd s.pc f .idle } else none
  | .work f => if s.pc f = .idle then some s else none
  | .finish f => if s.pc f = .idle then some { s with pc := upd s.pc f .done, fin := upd s.fin f true } else none
  | .setP f v => if s.pc f = .idle then some { s with slot0 := upd s.slot0 f (some v) } else none
  | .getP f r => if s.pc f = .idle ∧ r = read0 s f then some s else none
  | .setQ f v =>
      if s.pc f = .idle then some { s with slot1 := upd s.slot1 f (some v), lastQ := upd s.lastQ f (some (some v)) }
      else none
  | .copyQP f => if s.pc f = .idle then some (doCopy s f) else none
  | .getQ f r => if s.pc f = .idle ∧ r = read1 s f then some s else none
  | .getL f r => if s.pc f = .idle ∧ r = readL s f then some s else none
  | .sleepStart f t d =>
      if s.pc f = .idle ∧ s.now ≤ t then some { s with pc := upd s.pc f (.sleeping (t + d)), now := t } else none
  | .sleepWake f t =>
      match s.pc f with
      | .sleeping dl => if dl ≤ t ∧ s.now ≤ t then some { s with pc := upd s.pc f .idle, now := t } else none
      | _ => none

theorem next_sound {s : State} {l : Label} {s' : State} (h : next s l = some s') : Step s l s' := by
  cases l with
  | joinStart f k =>
      simp only [next] at h; split at h
      · rename_i hg; cases h; exact .joinStart s f k hg
      · cases h
  | joinRet f k =>
      simp only [next] at h; split at h
      · rename_i hg; cases h; exact .joinRet s f k hg.1 hg.2
      · cases h
  | work f =>
      simp only [next] at h; split at h
      · rename_i hg; cases h; exact .work s f hg
      · cases h
  | finish f =>
      simp only [next] at h; split at h
      · rename_i hg; cases h; exact .finish s f hg
      · cases h
  | setP f v =>
      simp only [next] at h; split at h
      · rename_i hg; cases h; exact .setP s f v hg
      · cases h
  | getP f r =>
      simp only [next] at h; split at h
      · rename_i hg; cases h; rw [hg.2]; exact .getP s f hg.1
      · cases h
  | setQ f v =>
      simp only [next] at h; split at h
      · rename_i hg; cases h; exact .setQ s f v hg
      · cases h
  | copyQP f =>
      simp only [next] at h; split at h
      · rename_i hg; cases h; exact .copyQP s f hg
      · cases h
  | getQ f r =>
      simp only [next] at h; split at h
      · rename_i hg; cases h; rw [hg.2]; exact .getQ s f hg.1
      · cases h
  | getL f r =>
      simp only [next] at h; split at h
      · rename_i hg; cases h; rw [hg.2]; exact .getL s f hg.1
      · cases h
  | sleepStart f t d =>
      simp only [next] at h; split at h
      · rename_i hg; cases h; exact .sleepStart s f t d hg.1 hg.2
      · cases h
  | sleepWake f t =>
      simp only [next] at h; split at h
      · rename_i dl hp; split at h
        · rename_i hg; cases h; exact .sleepWake s f t dl hp hg.1 hg.2
        · cases h
      · cases h

end Yaclib.FiberSync.Th
