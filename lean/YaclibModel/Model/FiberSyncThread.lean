/-
C18 — model `Th` of `fiber::Thread::join`, `this_thread::sleep_for` and the thread-local pointer proxy.

Written from /repo: src/fault/fiber/{thread,fiber_base,thread_local_proxy,scheduler}.cpp,
include/yaclib/fault/detail/fiber/thread_local_proxy.hpp, include/yaclib_std/detail/this_thread.hpp
(scheduler abstraction and conventions as in Model/FiberSync.lean).

Three thread-local pointers are modelled, as a client would declare them:
  `p`, `q` : `YACLIB_THREAD_LOCAL_PTR(int)`   (indices 0 and 1 of `ThreadLocalPtrProxy<int>`)
  `l`      : `YACLIB_THREAD_LOCAL_PTR(long)`  (index 0 of `ThreadLocalPtrProxy<long>`)
The model contains the code as it is:
  D13  the per-fiber map and the defaults map are keyed by the index alone, and `sNextFreeIndex` is a static member of
       the class *template*, i.e. one counter per pointee type: `p` and `l` both have index 0 and share one slot;
  D14  `ThreadLocalPtrProxy::operator=(const ThreadLocalPtrProxy&)` (`q = p` between two thread-local pointers) calls
       `SetDefault`, i.e. it writes the process-wide default of `q` instead of this fiber's slot: fibers that have not
       assigned `q` themselves see the value, and a fiber that has does not see its own assignment.

The flag `fixed` switches on the proposed repairs (notes/C18_proposed_patches.diff): one global index counter (`l` gets
its own slot, never written here) and `Set(GetImpl(other._i), _i)` in the copy assignment.  Not the code; the
theorems for `fixed = true` show the repairs are sufficient.
-/
import YaclibModel.Model.FiberSync

namespace Yaclib.FiberSync.Th
open Yaclib.FiberSync

inductive Pc where
  | idle | done
  | joining (k : Fid)          -- inside `Thread::join`: `while (state != Completed) { SetJoiningFiber(me); Suspend(); }`
  | sleeping (dl : Nat)
  deriving DecidableEq, Repr

structure State where
  fixed : Bool                 -- hypothetical: D13, D14 repaired (see header); `false` = the code
  pc : Fid → Pc
  fin : Fid → Bool             -- `FiberBase::_state == Completed` (the thread function returned, `Exit()` ran)
  slot0 : Fid → Option Nat     -- `_tls[0]` of each fiber (`none` = no entry): shared by `p` and `l` (D13)
  slot1 : Fid → Option Nat     -- `_tls[1]`: `q`
  def0 : Option Nat            -- `sDefaults[0]`, `sDefaults[1]` (`none` = nullptr)
  def1 : Option Nat
  now : Nat
  -- ghost
  lastQ : Fid → Option (Option Nat)   -- what this fiber itself last assigned to `q` (`none` = never assigned)

def init (fixed : Bool) (n : Nat) : State :=
  { fixed := fixed, pc := fun g => if g < n then .idle else .done, fin := fun _ => false, slot0 := fun _ => none, slot1 := fun _ => none,
    def0 := none, def1 := none, now := 0, lastQ := fun _ => none }

/-- `FiberBase::GetTLS(i, defaults)`: own entry, else the default -/
def read0 (s : State) (f : Fid) : Option Nat := match s.slot0 f with | some v => some v | none => s.def0
def read1 (s : State) (f : Fid) : Option Nat := match s.slot1 f with | some v => some v | none => s.def1

inductive Label where
  | joinStart (f k : Fid)                 -- `f E call join k`
  | joinRet (f k : Fid)                   -- `f E ret join k`
  | work (f : Fid)                        -- `f E work`
  | finish (f : Fid)                      -- `f E done`
  | setP (f : Fid) (v : Nat)              -- `p = &slot[v]`
  | getP (f : Fid) (r : Option Nat)       -- `p.Get()`
  | setQ (f : Fid) (v : Nat)              -- `q = &slot[v]`
  | copyQP (f : Fid)                      -- `q = p`
  | getQ (f : Fid) (r : Option Nat)
  | getL (f : Fid) (r : Option Nat)       -- `l.Get()` (a pointer of another type)
  | sleepStart (f : Fid) (t d : Nat) | sleepWake (f : Fid) (t : Nat)
  deriving DecidableEq, Repr

/-- D14: `if (Get() == other.Get()) return; SetDefault(GetImpl(other._i), _i);` -/
def doCopy (s : State) (f : Fid) : State :=
  { s with slot1 := if s.fixed then upd s.slot1 f (read0 s f) else s.slot1,
           def1 := if s.fixed then s.def1 else (if read1 s f = read0 s f then s.def1 else read0 s f),
           lastQ := upd s.lastQ f (some (read0 s f)) }

/-- what `l.Get()` returns: slot 0 again (D13), its own never-written slot when repaired -/
def readL (s : State) (f : Fid) : Option Nat := if s.fixed then none else read0 s f

inductive Step : State → Label → State → Prop where
  | joinStart (s : State) (f k : Fid) (h : s.pc f = .idle) : Step s (.joinStart f k) { s with pc := upd s.pc f (.joining k) }
  /-- leaves the loop only when the joined fiber is `Completed` -/
  | joinRet (s : State) (f k : Fid) (h : s.pc f = .joining k) (hf : s.fin k = true) :
      Step s (.joinRet f k) { s with pc := upd s.pc f .idle }
  | work (s : State) (f : Fid) (h : s.pc f = .idle) : Step s (.work f) s
  /-- the thread function returns: `FiberBase::Exit` (`_state = Completed`, schedules the joiner) -/
  | finish (s : State) (f : Fid) (h : s.pc f = .idle) :
      Step s (.finish f) { s with pc := upd s.pc f .done, fin := upd s.fin f true }
  | setP (s : State) (f : Fid) (v : Nat) (h : s.pc f = .idle) :
      Step s (.setP f v) { s with slot0 := upd s.slot0 f (some v) }
  | getP (s : State) (f : Fid) (h : s.pc f = .idle) : Step s (.getP f (read0 s f)) s
  | setQ (s : State) (f : Fid) (v : Nat) (h : s.pc f = .idle) :
      Step s (.setQ f v) { s with slot1 := upd s.slot1 f (some v), lastQ := upd s.lastQ f (some (some v)) }
  | copyQP (s : State) (f : Fid) (h : s.pc f = .idle) : Step s (.copyQP f) (doCopy s f)
  | getQ (s : State) (f : Fid) (h : s.pc f = .idle) : Step s (.getQ f (read1 s f)) s
  /-- D13: index 0 again -/
  | getL (s : State) (f : Fid) (h : s.pc f = .idle) : Step s (.getL f (readL s f)) s
  | sleepStart (s : State) (f : Fid) (t d : Nat) (h : s.pc f = .idle) (ht : s.now ≤ t) :
      Step s (.sleepStart f t d) { s with pc := upd s.pc f (.sleeping (t + d)), now := t }
  | sleepWake (s : State) (f : Fid) (t dl : Nat) (h : s.pc f = .sleeping dl) (hd : dl ≤ t) (ht : s.now ≤ t) :
      Step s (.sleepWake f t) { s with pc := upd s.pc f .idle, now := t }

inductive Reachable (fixed : Bool) (n : Nat) : State → Prop where
  | init : Reachable fixed n (init fixed n)
  | step {s l s'} : Reachable fixed n s → Step s l s' → Reachable fixed n s'

def next (s : State) : Label → Option State
  | .joinStart f k => if s.pc f = .idle then some { s with pc := upd s.pc f (.joining k) } else none
  | .joinRet f k => if s.pc f = .joining k ∧ s.fin k = true then some { s with pc := upd s.pc f .idle } else none
  | .work f => if s.pc f = .idle then some s else none
  | .finish f => if s.pc f = .idle then some { s with pc := upd s.pc f .done, fin := upd s.fin f true } else none
  | .setP f v => if s.pc f = .idle then some { s with slot0 := upd s.slot0 f (some v) } else none
  | .getP f r => if s.pc f = .idle ∧ r = read0 s f then some s else none
  | .setQ f v =>
      if s.pc f = .idle then some { s with slot1 := upd s.slot1 f (some v), lastQ := upd s.lastQ f (some (some v)) }
      else none
  | .copyQP f => if s.pc f = .idle then some (doCopy s f) else none
  | .getQ f r => if s.pc f = .idle ∧ r = read1 s f then some s else none
  | .getL f r => if s.pc f = .idle ∧ r = readL s f then some s else none
  | .sleepStart f t d =>
      if s.pc f = .idle ∧ s.now ≤ t then some { s with pc := upd s.pc f (.sleeping (t + d)), now := t } else none
  | .sleepWake f t =>
      match s.pc f with
      | .sleeping dl => if dl ≤ t ∧ s.now ≤ t then some { s with pc := upd s.pc f .idle, now := t } else none
      | _ => none

theorem next_sound {s : State} {l : Label} {s' : State} (h : next s l = some s') : Step s l s' := by
  cases l with
  | joinStart f k =>
      simp only [next] at h; split at h
      · rename_i hg; cases h; exact .joinStart s f k hg
      · cases h
  | joinRet f k =>
      simp only [next] at h; split at h
      · rename_i hg; cases h; exact .joinRet s f k hg.1 hg.2
      · cases h
  | work f =>
      simp only [next] at h; split at h
      · rename_i hg; cases h; exact .work s f hg
      · cases h
  | finish f =>
      simp only [next] at h; split at h
      · rename_i hg; cases h; exact .finish s f hg
      · cases h
  | setP f v =>
      simp only [next] at h; split at h
      · rename_i hg; cases h; exact .setP s f v hg
      · cases h
  | getP f r =>
      simp only [next] at h; split at h
      · rename_i hg; cases h; rw [hg.2]; exact .getP s f hg.1
      · cases h
  | setQ f v =>
      simp only [next] at h; split at h
      · rename_i hg; cases h; exact .setQ s f v hg
      · cases h
  | copyQP f =>
      simp only [next] at h; split at h
      · rename_i hg; cases h; exact .copyQP s f hg
      · cases h
  | getQ f r =>
      simp only [next] at h; split at h
      · rename_i hg; cases h; rw [hg.2]; exact .getQ s f hg.1
      · cases h
  | getL f r =>
      simp only [next] at h; split at h
      · rename_i hg; cases h; rw [hg.2]; exact .getL s f hg.1
      · cases h
  | sleepStart f t d =>
      simp only [next] at h; split at h
      · rename_i hg; cases h; exact .sleepStart s f t d hg.1 hg.2
      · cases h
  | sleepWake f t =>
      simp only [next] at h; split at h
      · rename_i dl hp; split at h
        · rename_i hg; cases h; exact .sleepWake s f t dl hp hg.1 hg.2
        · cases h
      · cases h

end Yaclib.FiberSync.Th
