/-
C01 — Promise → Future hand-off through the one-word state of a unique core.

Written from /repo: `BaseCore::{SetCallbackImpl<false>, SetResultImpl<·,false>}` (src/algo/base_core.cpp),
`Promise::Set / ~Promise`, `FutureBase::{~FutureBase, Detach, Get, Ready}`, `detail::SetCallback`,
`Connect`, `WaitCore` + `MutexEvent` for the blocking forms.

Granularity: one step per atomic operation on the word (`load`, `compare_exchange_strong`,
`exchange`), per lock/unlock of the wait event's mutex, and per observable event of the client
(continuation body invoked, `Get` returned, `Ready()` reported …).  Thread-local code between two
such operations is folded into the following step; in particular the producer's plain
`Store(result)` is folded into its `exchange`.

Two threads: the producer `p` (owns the Promise) and the consumer `c` (owns the Future).
The consumer's loads may be *stale*: after the producer's exchange a load may still return the
value the consumer wrote last (coherence allows nothing older, because the consumer has seen all of
its own writes and the producer writes exactly once, with an RMW).
-/
namespace Yaclib.Unique

/-- what a Result can hold, abstracted: a value (identified by a number), the library's error
    (`StopError`, also produced by dropping the Promise) or an exception -/
inductive Res where
  | val (n : Nat) | err | exc
  deriving DecidableEq, Repr

/-- what can sit in the word as a callback -/
inductive Cb where
  | cont      -- a continuation core (ThenInline / Then(e) / DetachInline / Detach(e))
  | drop      -- the shared Drop core (Future destroyed / Detach())
  | event     -- the stack event of Wait / Get&&
  | target    -- another Promise's core (Connect)
  deriving DecidableEq, Repr

inductive Word where
  | empty | cb (k : Cb) | result
  deriving DecidableEq, Repr

/-- how the producer ends -/
inductive Prod where
  | set (r : Res)   -- Promise::Set(value / error / exception)
  | drop            -- ~Promise on a valid promise = Set(StopTag)
  deriving DecidableEq, Repr

def Prod.res : Prod → Res
  | .set r => r
  | .drop => .err

/-- consumer operations that do not consume the Future -/
inductive Pre where
  | ready      -- Future::Ready()
  | getc       -- Future::Get() const&
  | wait       -- Wait(f)
  deriving DecidableEq, Repr

/-- the consuming operation -/
inductive Fin where
  | attach (viaExec : Bool)   -- ThenInline/DetachInline (false), Then(e)/Detach(e) (true)
  | drop                      -- ~Future / Detach()
  | getMove                   -- Get() &&
  | connect                   -- Connect(std::move(f), p2)
  deriving DecidableEq, Repr

structure Workload where
  prod : Prod
  pre : List Pre
  fin : Fin
  deriving Repr

inductive Tid where | p | c deriving DecidableEq, Repr

/-- producer program counter -/
inductive PPc where
  | start                 -- has not exchanged yet
  | fire (k : Cb)         -- exchange returned callback `k`: must run it (Loop → Here)
  | submitted             -- a `viaExec` continuation was submitted, about to be invoked
  | evLocked              -- inside MutexEvent::Set (holds the mutex)
  | done
  deriving DecidableEq, Repr

/-- consumer program counter -/
inductive CPc where
  | idle                          -- between operations
  | attLoaded (k : Cb)            -- SetCallbackImpl<false>: pre-check load saw `empty`, CAS next
  | attFailed (k : Cb)            -- SetCallback returned false: the result is there, run `k` inline
  | submitted                     -- inline path of a `viaExec` continuation: submitted, invoke next
  | repReady (b : Bool)           -- Ready(): loaded, report next
  | repGetc (b : Bool)            -- Get() const&: loaded, report next
  | waitAttached                  -- Wait: event attached, lock next
  | waitLocked (ready : Bool)     -- holding the event mutex, saw the flag
  | waitSleeping                  -- released the mutex inside cv.wait
  | repGot                        -- Get()&&: waited, read + report next
  deriving DecidableEq, Repr

/-- remaining consumer program -/
inductive COp where
  | pre (o : Pre) | fin (f : Fin)
  deriving DecidableEq, Repr

structure State where
  w : Workload
  word : Word
  prev : Word                    -- the consumer's last own write (what a stale load may return)
  stored : Option Res            -- the core's result storage; `none` = not constructed
  ppc : PPc
  cpc : CPc
  todo : List COp                -- consumer operations not started yet (head = current when cpc ≠ idle)
  waitFin : Bool                 -- the running wait belongs to Get()&& (report afterwards)
  viaExec : Bool                 -- the attached continuation goes through an executor
  evReady : Bool                 -- MutexEvent::_is_ready
  evHolder : Option Tid          -- who holds MutexEvent::_m
  -- ghost history
  delivered : List (Tid × Res)   -- continuation invocations: who ran it, what it received
  got : List Res                 -- values returned by Get()&&
  forwarded : List (Tid × Res)   -- Connect: result stored into the target promise
  readyObs : List (Bool × Bool)  -- Ready() reports: (reported, storage constructed at that moment)
  getcObs : List (Option Res)    -- Get() const& reports
  dropped : List Tid             -- Drop core executed (core released without running anything)
  evSet : Nat                    -- number of MutexEvent::Set calls
  deriving Repr

def init (w : Workload) : State :=
  { w := w, word := .empty, prev := .empty, stored := none, ppc := .start, cpc := .idle,
    todo := w.pre.map .pre ++ [.fin w.fin], waitFin := false, viaExec := false,
    evReady := false, evHolder := none,
    delivered := [], got := [], forwarded := [], readyObs := [], getcObs := [], dropped := [], evSet := 0 }

/-- one line of a trace -/
inductive Label where
  -- producer
  | pXchg (old : Word)                     -- exchange(kResult, acq_rel) → old
  -- consumer, on the word
  | cLoad (x : Word)                       -- load(acquire) → x
  | cCas (k : Cb) (ok : Bool)              -- compare_exchange_strong(empty → cb k, release/acquire)
  -- event mutex
  | lock (t : Tid) | unlock (t : Tid)
  -- client-visible events
  | submit (t : Tid)                       -- continuation handed to its executor
  | invoke (t : Tid) (r : Res)             -- continuation body runs with Result r
  | forward (t : Tid) (r : Res)            -- Connect target receives r
  | ready (b : Bool) | getc (r : Option Res) | got (r : Res)
  deriving DecidableEq, Repr

def finCb : Fin → Option Cb
  | .attach _ => some .cont
  | .drop => some .drop
  | .getMove => some .event
  | .connect => some .target

/-- the callback the consumer's current operation attaches -/
def opCb : COp → Option Cb
  | .pre .wait => some .event
  | .pre _ => none
  | .fin f => finCb f

/-- what the *consumer* does once it knows the result is there and its callback was not attached -/
def afterFail (s : State) (k : Cb) : State :=
  match k with
  | .event => -- WaitRange: wait_count = 0 → return true at once
      if s.waitFin then { s with cpc := .repGot } else { s with cpc := .idle, todo := s.todo.tail }
  | .drop => -- Drop::Here releases the core; nothing is invoked (folded: no shared operation in between)
      { s with cpc := .idle, todo := s.todo.tail, dropped := s.dropped ++ [.c], stored := none }
  | _ => { s with cpc := .attFailed k }

/-! effects of the individual steps (shared by the relation `Step` and the executable `next`) -/

/-- Promise::Set / ~Promise: Store, then `exchange(kResult)` -/
def doXchg (s : State) : State :=
  match s.word with
  | .cb .drop => -- the Drop core only releases the core: no further shared operation, folded in
      { s with word := .result, stored := none, ppc := .done, dropped := s.dropped ++ [.p] }
  | .cb k => { s with word := .result, stored := some s.w.prod.res, ppc := .fire k }
  | _ => { s with word := .result, stored := some s.w.prod.res, ppc := .done }

def doPInvoke (s : State) (r : Res) : State :=
  { s with ppc := .done, delivered := s.delivered ++ [(.p, r)] }
def doPForward (s : State) (r : Res) : State :=
  { s with ppc := .done, forwarded := s.forwarded ++ [(.p, r)], stored := none }
def doPEvLock (s : State) : State :=
  { s with ppc := .evLocked, evHolder := some .p, evReady := true, evSet := s.evSet + 1 }

def doAttLoad (s : State) (op : COp) (k : Cb) (x : Word) : State :=
  let s' := { s with waitFin := decide (op = .fin .getMove), viaExec := decide (op = .fin (.attach true)) }
  if x = .empty then { s' with cpc := .attLoaded k } else afterFail s' k

def doCasOk (s : State) (k : Cb) : State :=
  match k with
  | .event => { s with word := .cb k, prev := .cb k, cpc := .waitAttached }
  | _ => { s with word := .cb k, prev := .cb k, cpc := .idle, todo := s.todo.tail }

def doCInvoke (s : State) (r : Res) : State :=
  { s with cpc := .idle, todo := s.todo.tail, delivered := s.delivered ++ [(.c, r)] }
def doCForward (s : State) (r : Res) : State :=
  { s with cpc := .idle, todo := s.todo.tail, forwarded := s.forwarded ++ [(.c, r)], stored := none }
def doCReady (s : State) (b : Bool) : State :=
  { s with cpc := .idle, todo := s.todo.tail, readyObs := s.readyObs ++ [(b, s.stored.isSome)] }
def doCGetc (s : State) (b : Bool) : State :=
  { s with cpc := .idle, todo := s.todo.tail, getcObs := s.getcObs ++ [if b then s.stored else none] }
def doCWaitDone (s : State) : State :=
  if s.waitFin then { s with cpc := .repGot, evHolder := none }
  else { s with cpc := .idle, todo := s.todo.tail, evHolder := none }
def doCGot (s : State) (r : Res) : State :=
  { s with cpc := .idle, todo := s.todo.tail, got := s.got ++ [r], stored := none }

/-- a load by the consumer returns the current word or, once the producer has exchanged, possibly
    still the consumer's own last write -/
def loadOk (s : State) (x : Word) : Prop := x = s.word ∨ (s.word = .result ∧ x = s.prev)

instance (s : State) (x : Word) : Decidable (loadOk s x) := by unfold loadOk; exact inferInstance

inductive Step : State → Label → State → Prop where
  | pXchg (s : State) (h : s.ppc = .start) (hw : s.word ≠ .result) : Step s (.pXchg s.word) (doXchg s)
  /-- producer runs a continuation it took out of the word (inline) -/
  | pInvoke (s : State) (r : Res) (h : s.ppc = .fire .cont) (hv : s.viaExec = false) (hr : s.stored = some r) :
      Step s (.invoke .p r) (doPInvoke s r)
  | pSubmit (s : State) (h : s.ppc = .fire .cont) (hv : s.viaExec = true) :
      Step s (.submit .p) { s with ppc := .submitted }
  | pInvokeSub (s : State) (r : Res) (h : s.ppc = .submitted) (hr : s.stored = some r) :
      Step s (.invoke .p r) (doPInvoke s r)
  | pForward (s : State) (r : Res) (h : s.ppc = .fire .target) (hr : s.stored = some r) :
      Step s (.forward .p r) (doPForward s r)
  /-- MutexEvent::Set: lock, `_is_ready = true`, notify, unlock -/
  | pEvLock (s : State) (h : s.ppc = .fire .event) (hm : s.evHolder = none) : Step s (.lock .p) (doPEvLock s)
  | pEvUnlock (s : State) (h : s.ppc = .evLocked) : Step s (.unlock .p) { s with ppc := .done, evHolder := none }
  /-- SetCallbackImpl<false>: the pre-check load (may be stale) … -/
  | cAttLoad (s : State) (op : COp) (rest : List COp) (k : Cb) (x : Word)
      (h : s.cpc = .idle) (ht : s.todo = op :: rest) (hk : opCb op = some k) (hx : loadOk s x) :
      Step s (.cLoad x) (doAttLoad s op k x)
  /-- … and the strong CAS empty → callback -/
  | cCasOk (s : State) (k : Cb) (h : s.cpc = .attLoaded k) (hw : s.word = .empty) :
      Step s (.cCas k true) (doCasOk s k)
  | cCasFail (s : State) (k : Cb) (h : s.cpc = .attLoaded k) (hw : s.word ≠ .empty) :
      Step s (.cCas k false) (afterFail s k)
  /-- the consumer found the result: it runs its own callback inline (`Step(*this, callback)`) -/
  | cInvoke (s : State) (r : Res) (h : s.cpc = .attFailed .cont) (hv : s.viaExec = false) (hr : s.stored = some r) :
      Step s (.invoke .c r) (doCInvoke s r)
  | cSubmit (s : State) (h : s.cpc = .attFailed .cont) (hv : s.viaExec = true) :
      Step s (.submit .c) { s with cpc := .submitted }
  | cInvokeSub (s : State) (r : Res) (h : s.cpc = .submitted) (hr : s.stored = some r) :
      Step s (.invoke .c r) (doCInvoke s r)
  | cForward (s : State) (r : Res) (h : s.cpc = .attFailed .target) (hr : s.stored = some r) :
      Step s (.forward .c r) (doCForward s r)
  /-- Ready() / Get() const&: `BaseCore::Ready()` is one acquire load compared with kResult (stale allowed) -/
  | cReadyLoad (s : State) (rest : List COp) (x : Word) (h : s.cpc = .idle) (ht : s.todo = .pre .ready :: rest)
      (hx : loadOk s x) : Step s (.cLoad x) { s with cpc := .repReady (decide (x = .result)) }
  | cReady (s : State) (b : Bool) (h : s.cpc = .repReady b) : Step s (.ready b) (doCReady s b)
  | cGetcLoad (s : State) (rest : List COp) (x : Word) (h : s.cpc = .idle) (ht : s.todo = .pre .getc :: rest)
      (hx : loadOk s x) : Step s (.cLoad x) { s with cpc := .repGetc (decide (x = .result)) }
  | cGetc (s : State) (b : Bool) (h : s.cpc = .repGetc b) :
      Step s (.getc (if b then s.stored else none)) (doCGetc s b)
  /-- blocking wait on the MutexEvent -/
  | cWaitLock (s : State) (h : s.cpc = .waitAttached ∨ s.cpc = .waitSleeping) (hm : s.evHolder = none) :
      Step s (.lock .c) { s with cpc := .waitLocked s.evReady, evHolder := some .c }
  | cWaitSleep (s : State) (h : s.cpc = .waitLocked false) :
      Step s (.unlock .c) { s with cpc := .waitSleeping, evHolder := none }
  | cWaitDone (s : State) (h : s.cpc = .waitLocked true) : Step s (.unlock .c) (doCWaitDone s)
  | cGot (s : State) (r : Res) (h : s.cpc = .repGot) (hr : s.stored = some r) : Step s (.got r) (doCGot s r)

inductive Reachable (w : Workload) : State → Prop where
  | init : Reachable w (init w)
  | step {s l s'} : Reachable w s → Step s l s' → Reachable w s'

/-- executable transition function used by the trace validator (`ymdriver`) -/
def next (s : State) : Label → Option State
  | .pXchg old => if s.ppc = .start ∧ s.word ≠ .result ∧ old = s.word then some (doXchg s) else none
  | .invoke .p r =>
      if s.ppc = .fire .cont ∧ s.viaExec = false ∧ s.stored = some r then some (doPInvoke s r)
      else if s.ppc = .submitted ∧ s.stored = some r then some (doPInvoke s r) else none
  | .invoke .c r =>
      if s.cpc = .attFailed .cont ∧ s.viaExec = false ∧ s.stored = some r then some (doCInvoke s r)
      else if s.cpc = .submitted ∧ s.stored = some r then some (doCInvoke s r) else none
  | .submit .p => if s.ppc = .fire .cont ∧ s.viaExec = true then some { s with ppc := .submitted } else none
  | .submit .c => if s.cpc = .attFailed .cont ∧ s.viaExec = true then some { s with cpc := .submitted } else none
  | .forward .p r => if s.ppc = .fire .target ∧ s.stored = some r then some (doPForward s r) else none
  | .forward .c r => if s.cpc = .attFailed .target ∧ s.stored = some r then some (doCForward s r) else none
  | .lock .p => if s.ppc = .fire .event ∧ s.evHolder = none then some (doPEvLock s) else none
  | .unlock .p => if s.ppc = .evLocked then some { s with ppc := .done, evHolder := none } else none
  | .lock .c =>
      if (s.cpc = .waitAttached ∨ s.cpc = .waitSleeping) ∧ s.evHolder = none
      then some { s with cpc := .waitLocked s.evReady, evHolder := some .c } else none
  | .unlock .c =>
      if s.cpc = .waitLocked false then some { s with cpc := .waitSleeping, evHolder := none }
      else if s.cpc = .waitLocked true then some (doCWaitDone s) else none
  | .cLoad x =>
      if s.cpc = .idle ∧ loadOk s x then
        match s.todo with
        | .pre .ready :: _ => some { s with cpc := .repReady (decide (x = .result)) }
        | .pre .getc :: _ => some { s with cpc := .repGetc (decide (x = .result)) }
        | op :: _ => match opCb op with
            | some k => some (doAttLoad s op k x)
            | none => none
        | [] => none
      else none
  | .cCas k ok =>
      if s.cpc = .attLoaded k then
        if ok then (if s.word = .empty then some (doCasOk s k) else none)
        else (if s.word ≠ .empty then some (afterFail s k) else none)
      else none
  | .ready b => if s.cpc = .repReady b then some (doCReady s b) else none
  | .getc r =>
      match s.cpc with
      | .repGetc true => if r = s.stored then some (doCGetc s true) else none
      | .repGetc false => if r = none then some (doCGetc s false) else none
      | _ => none
  | .got r => if s.cpc = .repGot ∧ s.stored = some r then some (doCGot s r) else none

theorem next_sound {s : State} {l : Label} {s' : State} (h : next s l = some s') : Step s l s' := by
  cases l with
  | pXchg old =>
      simp only [next] at h
      split at h
      · rename_i hg; obtain ⟨h1, h2, h3⟩ := hg; cases h; subst h3; exact .pXchg s h1 h2
      · cases h
  | invoke t r =>
      cases t <;> simp only [next] at h
      · split at h
        · rename_i hg; cases h; exact .pInvoke s r hg.1 hg.2.1 hg.2.2
        · split at h
          · rename_i hg; cases h; exact .pInvokeSub s r hg.1 hg.2
          · cases h
      · split at h
        · rename_i hg; cases h; exact .cInvoke s r hg.1 hg.2.1 hg.2.2
        · split at h
          · rename_i hg; cases h; exact .cInvokeSub s r hg.1 hg.2
          · cases h
  | submit t =>
      cases t <;> simp only [next] at h <;> split at h
      · rename_i hg; cases h; exact .pSubmit s hg.1 hg.2
      · cases h
      · rename_i hg; cases h; exact .cSubmit s hg.1 hg.2
      · cases h
  | forward t r =>
      cases t <;> simp only [next] at h <;> split at h
      · rename_i hg; cases h; exact .pForward s r hg.1 hg.2
      · cases h
      · rename_i hg; cases h; exact .cForward s r hg.1 hg.2
      · cases h
  | lock t =>
      cases t <;> simp only [next] at h <;> split at h
      · rename_i hg; cases h; exact .pEvLock s hg.1 hg.2
      · cases h
      · rename_i hg; cases h; exact .cWaitLock s hg.1 hg.2
      · cases h
  | unlock t =>
      cases t <;> simp only [next] at h
      · split at h
        · rename_i hg; cases h; exact .pEvUnlock s hg
        · cases h
      · split at h
        · rename_i hg; cases h; exact .cWaitSleep s hg
        · split at h
          · rename_i hg; cases h; exact .cWaitDone s hg
          · cases h
  | cLoad x =>
      simp only [next] at h
      split at h
      · rename_i hg
        split at h
        · rename_i rest ht; cases h; exact .cReadyLoad s rest x hg.1 ht hg.2
        · rename_i rest ht; cases h; exact .cGetcLoad s rest x hg.1 ht hg.2
        · rename_i op rest _ _ ht
          split at h
          · rename_i k hk; cases h; exact .cAttLoad s op rest k x hg.1 ht hk hg.2
          · cases h
        · cases h
      · cases h
  | cCas k ok =>
      simp only [next] at h
      split at h
      · rename_i hg
        split at h
        · rename_i hok; subst hok
          split at h
          · rename_i hw; cases h; exact .cCasOk s k hg hw
          · cases h
        · rename_i hok
          have : ok = false := by cases ok <;> simp_all
          subst this
          split at h
          · rename_i hw; cases h; exact .cCasFail s k hg hw
          · cases h
      · cases h
  | ready b =>
      simp only [next] at h
      split at h
      · rename_i hg; cases h; exact .cReady s b hg
      · cases h
  | getc r =>
      simp only [next] at h
      split at h
      · rename_i hb
        split at h
        · rename_i hr; cases h; subst hr; exact .cGetc s true hb
        · cases h
      · rename_i hb
        split at h
        · rename_i hr; cases h; subst hr; exact .cGetc s false hb
        · cases h
      · cases h
  | got r =>
      simp only [next] at h
      split at h
      · rename_i hg; cases h; exact .cGot s r hg.1 hg.2
      · cases h

end Yaclib.Unique
