/-
C16 — WaitGroup / OneShotEvent.

Written from /repo: `WaitGroup::{Add, Done, InsertRange<NeedMove, NeedAdd = true>, Wait, WaitFor/WaitUntil, Await*}`
(include/yaclib/algo/wait_group.hpp), `OneShotEvent::{TryAdd, Ready, Wait, TimedWait, Set}` + `SetImpl`
(algo/one_shot_event.hpp, src/algo/one_shot_event.cpp), `Waiter::Call`, `TimedWaiter::Call`, the awaiters,
`AtomicCounter::{Add, Sub, SubEqual}` + `SetDeleter`, `CallCallback::Impl`, `DropCallback::Impl`
(algo/detail/wait_event.hpp), `BaseCore::{SetCallbackImpl<false>, SetResultImpl<·,false>, Ready}`, `FutureBase::Ready`,
`MutexEvent`.  (`Ready()` is `word == kResult` since the fix of defect D3, /repo commit c9c07bc; before it was
`word != kEmpty`, which is true as soon as `Attach` has registered its callback.)

State: the counter, the event's list head (`some l` = registered waiter jobs, newest first; `none` = all-done sentinel),
any number of threads each running a program of operations, futures (one hand-off word each), waiter jobs (allocated
when a wait operation starts; a blocking waiter is a stack object, a timed waiter a heap object with two owners).

Granularity: one step per atomic operation (`fetch_add`, `fetch_sub`, `load`, each CAS attempt, `exchange`), per lock /
unlock of a waiter's mutex, plus the observable events (a wait returned, a coroutine was resumed, `Ready()` reported).
Thread-local code between two such operations is folded into the following step.

The documented rule "Add is only called while the count is non-zero" is expressed by a token discipline on the
workload (`Workload.ok`, decidable): every thread starts with some of the initial count's units; it may `Add` only
while it holds a unit, `Done(k)` only units it holds (k ≥ 1), and `Attach`/`Consume` hand one unit per registered
future to that future's callback.  `held` / `toks` are ghost fields.
-/
namespace Yaclib.Event

inductive FWord where
  | empty | call | drop | result
  deriving DecidableEq, Repr

structure Fut where
  word : FWord := .empty
  completed : Bool := false    -- ghost: the producer has exchanged
  nfree : Nat := 0             -- ghost: how often the WaitGroup machinery released the (consumed) core
  ncon : Nat := 0              -- ghost: how often a `Consume` of this future was decided (registered or found ready)
  deriving DecidableEq, Repr

inductive WKind where
  | blocking | timed | coro
  deriving DecidableEq, Repr

/-- ghost life cycle of a waiter job -/
inductive JSt where
  | fresh      -- allocated, `TryAdd` not decided yet
  | listed     -- pushed, in the event's list
  | running    -- taken out by `SetImpl`, its `Call` not finished yet
  | called     -- `Call` finished
  | failed     -- `TryAdd` returned false (or `Ready()` was true): never in the list
  deriving DecidableEq, Repr

structure Job where
  kind : WKind := .coro
  owner : Nat := 0
  slot : Nat := 0              -- which wait operation of the owner (length of its remaining program)
  st : JSt := .fresh
  ready : Bool := false        -- MutexEvent::_is_ready
  holder : Option Nat := none  -- thread holding MutexEvent::_m
  refs : Int := 0              -- TimedWaiter reference count
  oref : Bool := false         -- ghost: the owner (the thread inside WaitFor) still holds its reference
  odone : Bool := false        -- ghost: the owner's wait operation is over (returned / resumed / suspended)
  freed : Bool := false        -- the object is gone (stack waiter left scope / heap waiter deleted)
  nrel : Nat := 0              -- ghost: releases (Wait returned / WaitFor returned true / coroutine resumed)
  nfree : Nat := 0             -- ghost: deletes of the heap waiter
  deriving DecidableEq, Repr

inductive AKind where
  | inline | sticky | on | raw    -- co_await AwaitInline / AwaitSticky / AwaitOn(e), plain TryAdd(job)
  deriving DecidableEq, Repr

def AKind.checks : AKind → Bool
  | .inline => true | .sticky => true | _ => false

inductive Op where
  | add (k : Nat)                              -- WaitGroup::Add(k)
  | done (k : Nat)                             -- WaitGroup::Done(k)
  | insert (consume : Bool) (fs : List Nat)    -- Attach(fs…) / Consume(fs…)
  | fulfil (f : Nat)                           -- Promise::Set on future f
  | ready (f : Nat)                            -- the owner of (attached) future f asks Ready()
  | wait                                       -- Wait()
  | waitFor                                    -- WaitFor / WaitUntil
  | await (k : AKind)
  deriving DecidableEq, Repr

/-- what a load of the head (or the value left in `expected` by a failed CAS) can be -/
inductive Exp where
  | done                    -- the all-done sentinel
  | cur (l : List Nat)      -- a list
  | stale                   -- an older list value (only from a non-RMW load)
  deriving DecidableEq, Repr

inductive Pc where
  | idle
  | xchgHead                                    -- SetImpl: exchange next
  | run (js : List Nat) (locked : Bool)         -- SetImpl loop at js.head; locked = inside its MutexEvent::Set
  | runDec (j : Nat) (rest : List Nat)          -- TimedWaiter::Call: DecRef next
  | insReg (rest : List Nat) (c wc : Nat) (consume : Bool)            -- SetCallback on rest.head: load next
  | insCas (f : Nat) (rest : List Nat) (c wc : Nat) (consume : Bool)  -- … CAS next
  | insSub (k : Nat)                            -- Done(count - wait_count) next
  | cbSub                                       -- Call/DropCallback::Impl: Sub(1) next
  | rdy (f : Nat) (b c : Bool)                  -- Ready() loaded b (future completed: c), report next
  | tryL (j : Nat)                              -- TryAdd: load next
  | tryC (j : Nat) (x : Exp)                    -- TryAdd: CAS with expected x next
  | resume (j : Nat)                            -- not suspended (Ready / TryAdd failed): continue the coroutine
  | bLock (j : Nat) | bHeld (j : Nat) | bAsleep (j : Nat) | bTimedOut (j : Nat)
  | bUnlockRet (j : Nat) (b : Bool)
  | bDec (j : Nat) (b : Bool)                   -- IntrusivePtr<TimedWaiter> destructor: DecRef next
  | rep (j : Nat) (b : Bool)                    -- Wait / WaitFor returned b, the client observes it next
  deriving DecidableEq, Repr

structure Thr where
  prog : List Op := []
  pc : Pc := .idle
  held : Nat := 0               -- ghost: units of the count this thread is responsible for
  deriving DecidableEq, Repr

structure Workload where
  nthr : Nat
  prog : Nat → List Op
  held0 : Nat → Nat
  nfut : Nat

def sumTo (f : Nat → Nat) : Nat → Nat
  | 0 => 0
  | n + 1 => sumTo f n + f n

structure State where
  w : Workload
  count : Int
  head : Option (List Nat)
  thr : Nat → Thr
  fut : Nat → Fut
  job : Nat → Job
  njobs : Nat
  -- ghost
  toks : List Nat               -- futures whose callback carries a unit of the count (registered, not yet decremented)
  zeroed : Bool                 -- some decrement has reached zero
  nzero : Nat                   -- how many did
  zeroer : Option Nat           -- the thread whose decrement reached zero
  crash : Bool                  -- SetImpl found the sentinel already in the head (it would dereference it)
  dfulfil : Bool                -- a promise was fulfilled twice (outside every contract)
  bad : Bool                    -- a waiter object was accessed after it was freed / left scope
  readyObs : List (Nat × Bool × Bool)   -- Ready() reports: (future, reported, completed at the load)

def updT (f : Nat → Thr) (i : Nat) (x : Thr) : Nat → Thr := fun j => if j = i then x else f j
def updF (f : Nat → Fut) (i : Nat) (x : Fut) : Nat → Fut := fun j => if j = i then x else f j
def updJ (f : Nat → Job) (i : Nat) (x : Job) : Nat → Job := fun j => if j = i then x else f j

def init (w : Workload) : State :=
  { w := w, count := (sumTo w.held0 w.nthr : Nat), head := some [],
    thr := fun t => if t < w.nthr then { prog := w.prog t, pc := .idle, held := w.held0 t } else {},
    fut := fun _ => {}, job := fun _ => {}, njobs := 0,
    toks := [], zeroed := false, nzero := 0, zeroer := none, crash := false, dfulfil := false, bad := false, readyObs := [] }

inductive Label where
  | fadd (t k : Nat) (old : Int)            -- count.fetch_add(k, relaxed) → old
  | fsub (t k : Nat) (old : Int)            -- count.fetch_sub(k, release) → old
  | fLoad (t f : Nat) (x : FWord)           -- load(acquire) of future f's word
  | fCas (t f : Nat) (ok : Bool)            -- compare_exchange_strong(empty → callback)
  | pXchg (t f : Nat) (old : FWord)         -- exchange(result, acq_rel) → old
  | rdy (t f : Nat) (b : Bool)              -- Ready() returned b
  | hLoad (t : Nat) (x : Exp)               -- head.load(acquire)
  | hCas (t : Nat) (ok : Bool)              -- head.compare_exchange_weak(expected, node)
  | hSpur (t : Nat) (x : Exp)               -- … failed spuriously, re-read x
  | hXchg (t : Nat) (old : Option (List Nat))   -- head.exchange(allDone, acq_rel) → old
  | lock (t j : Nat) | unlock (t j : Nat)   -- waiter j's mutex
  | timeout (t j : Nat)
  | jDec (t j : Nat) (old : Int)            -- TimedWaiter refcount fetch_sub(1) → old
  | ret (t j : Nat) (b : Bool)              -- Wait() returned (b = true) / WaitFor returned b
  | rel (t j : Nat)                         -- coroutine / raw job j resumed (called) by thread t
  deriving DecidableEq, Repr

/-- a non-RMW load of the head: the current value, or an older list -/
def headObs (h : Option (List Nat)) (x : Exp) : Prop :=
  match x with
  | .done => h = none
  | .cur l => h = some l
  | .stale => True

instance (h : Option (List Nat)) (x : Exp) : Decidable (headObs h x) := by
  unfold headObs; cases x <;> exact inferInstance

/-- the value a failed CAS leaves in `expected` -/
def expOf (h : Option (List Nat)) : Exp :=
  match h with
  | none => .done
  | some l => .cur l

/-- pre-check load of a future's word by a thread that never wrote it: the current value or still the initial one -/
def fLoadOk (f : Fut) (x : FWord) : Prop := x = f.word ∨ (f.word = .result ∧ x = .empty)

instance (f : Fut) (x : FWord) : Decidable (fLoadOk f x) := by unfold fLoadOk; exact inferInstance

/-! ### effects -/

def setT (s : State) (t : Nat) (x : Thr) : State := { s with thr := updT s.thr t x }

/-- the running operation of thread t is complete -/
def finish (s : State) (t : Nat) : State :=
  setT s t { s.thr t with prog := (s.thr t).prog.tail, pc := .idle }

def goto (s : State) (t : Nat) (pc : Pc) : State := setT s t { s.thr t with pc := pc }

/-- `AtomicCounter::Sub(k)`: `fetch_sub(k) == k` → `SetDeleter` → `OneShotEvent::Set` -/
def doSub (s : State) (t k : Nat) (heldDelta : Nat) : State :=
  let s1 := { s with count := s.count - (k : Int) }
  let th := { s.thr t with held := (s.thr t).held - heldDelta }
  if s.count = (k : Int) then
    { s1 with thr := updT s.thr t { th with pc := .xchgHead }, zeroed := true, nzero := s.nzero + 1, zeroer := some t }
  else { s1 with thr := updT s.thr t { th with prog := th.prog.tail, pc := .idle } }

def doAdd (s : State) (t k : Nat) : State :=
  finish { s with count := s.count + (k : Int), thr := updT s.thr t { s.thr t with held := (s.thr t).held + k } } t

/-- InsertRange: `Add(count)`, then the registration loop -/
def doInsAdd (s : State) (t : Nat) (consume : Bool) (fs : List Nat) : State :=
  { s with count := s.count + (fs.length : Int),
           thr := updT s.thr t { s.thr t with held := (s.thr t).held + fs.length, pc := .insReg fs fs.length 0 consume } }

/-- after the registration loop: `if (count != wait_count) Done(count - wait_count)` -/
def insNext (s : State) (t : Nat) (rest : List Nat) (c wc : Nat) (consume : Bool) : State :=
  match rest with
  | _ :: _ => goto s t (.insReg rest c wc consume)
  | [] => if c ≠ wc then goto s t (.insSub (c - wc)) else finish s t

/-- registration failed (the result is there): a consumed core is released right away -/
def insFail (s : State) (t f : Nat) (rest : List Nat) (c wc : Nat) (consume : Bool) : State :=
  let s1 := if consume then
      { s with fut := updF s.fut f { s.fut f with nfree := (s.fut f).nfree + 1, ncon := (s.fut f).ncon + 1 } } else s
  insNext s1 t rest c wc consume

def doInsLoad (s : State) (t f : Nat) (rest : List Nat) (c wc : Nat) (consume : Bool) (x : FWord) : State :=
  if x = .empty then goto s t (.insCas f rest c wc consume) else insFail s t f rest c wc consume

def doInsCasOk (s : State) (t f : Nat) (rest : List Nat) (c wc : Nat) (consume : Bool) : State :=
  insNext { s with fut := updF s.fut f { s.fut f with word := if consume then .drop else .call,
                                                        ncon := if consume then (s.fut f).ncon + 1 else (s.fut f).ncon },
                   toks := f :: s.toks,
                   thr := updT s.thr t { s.thr t with held := (s.thr t).held - 1 } } t rest c (wc + 1) consume

/-- `SetResultImpl<·,false>`: a callback that was there is run by the producer: `CallCallback::Impl` = `Sub(1)`,
    `DropCallback::Impl` = `caller.DecRef()` (releases the consumed core) then `Sub(1)` -/
def doFulfil (s : State) (t f : Nat) : State :=
  let fu := s.fut f
  match fu.word with
  | .call => goto { s with fut := updF s.fut f { fu with word := .result, completed := true } } t .cbSub
  | .drop => goto { s with fut := updF s.fut f { fu with word := .result, completed := true, nfree := fu.nfree + 1 } } t .cbSub
  | .empty => finish { s with fut := updF s.fut f { fu with word := .result, completed := true } } t
  | .result => finish { s with dfulfil := true } t    -- a second Set on the same promise: outside every contract

def doCbSub (s : State) (t f : Nat) : State :=
  doSub { s with toks := s.toks.erase f } t 1 0

/-- SetImpl: `exchange(allDone)`, then call every job of the list that was there -/
def runNext (s : State) (t : Nat) (rest : List Nat) : State :=
  match rest with
  | [] => finish s t
  | _ :: _ => goto s t (.run rest false)

def markRunning (job : Nat → Job) (l : List Nat) : Nat → Job :=
  fun j => if j ∈ l then { job j with st := .running } else job j

def doXchgHead (s : State) (t : Nat) : State :=
  match s.head with
  | none => finish { s with crash := true } t
  | some l => runNext { s with head := none, job := markRunning s.job l } t l

def touch (s : State) (j : Nat) : Bool := s.bad || (s.job j).freed

def doRunLock (s : State) (t j : Nat) (rest : List Nat) : State :=
  goto { s with job := updJ s.job j { s.job j with holder := some t, ready := true }, bad := touch s j } t (.run (j :: rest) true)

def doRunUnlock (s : State) (t j : Nat) (rest : List Nat) : State :=
  let s1 := { s with bad := touch s j }
  match (s.job j).kind with
  | .timed => goto { s1 with job := updJ s.job j { s.job j with holder := none } } t (.runDec j rest)
  | _ => runNext { s1 with job := updJ s.job j { s.job j with holder := none, st := .called } } t rest

/-- `DecRef` on the heap waiter: `fetch_sub(1) == 1` → delete -/
def decJob (jb : Job) : Job :=
  if jb.refs = 1 then { jb with refs := jb.refs - 1, freed := true, nfree := jb.nfree + 1 } else { jb with refs := jb.refs - 1 }

def doRunDec (s : State) (t j : Nat) (rest : List Nat) : State :=
  runNext { s with job := updJ s.job j { decJob (s.job j) with st := .called }, bad := touch s j } t rest

def doRunRel (s : State) (t j : Nat) (rest : List Nat) : State :=
  runNext { s with job := updJ s.job j { s.job j with st := .called, nrel := (s.job j).nrel + 1 }, bad := touch s j } t rest

def opKind : Op → Option WKind
  | .wait => some .blocking
  | .waitFor => some .timed
  | .await _ => some .coro
  | _ => none

/-- inline / sticky awaiters ask `Ready()` before `TryAdd` -/
def opChecks : Op → Bool
  | .await a => a.checks
  | _ => false

/-- a wait operation starts: its waiter object comes into being -/
def newJob (s : State) (t : Nat) (k : WKind) : Job :=
  { kind := k, owner := t, slot := (s.thr t).prog.length, st := .fresh, refs := if k = .timed then 2 else 0,
    oref := decide (k = .timed) }

/-- `TryAdd` returned false / `Ready()` was true -/
def notAdded (s : State) (t j : Nat) : State :=
  let jb := s.job j
  match jb.kind with
  | .blocking => goto { s with job := updJ s.job j { jb with st := .failed, freed := true } } t (.rep j true)
  | .timed =>
      goto { s with job := updJ s.job j { jb with st := .failed, freed := true, oref := false, nfree := jb.nfree + 1 } } t (.rep j true)
  | .coro => goto { s with job := updJ s.job j { jb with st := .failed } } t (.resume j)

/-- the TryAdd loop with `expected = x` -/
def tryWith (s : State) (t j : Nat) (x : Exp) : State :=
  if x = .done then notAdded s t j else goto s t (.tryC j x)

def doStartLoad (s : State) (t : Nat) (k : WKind) (chk : Bool) (x : Exp) : State :=
  let j := s.njobs
  let s1 := { s with job := updJ s.job j (newJob s t k), njobs := s.njobs + 1 }
  if chk then (if x = .done then notAdded s1 t j else goto s1 t (.tryL j)) else tryWith s1 t j x

def doPushed (s : State) (t j : Nat) (l : List Nat) : State :=
  let s1 := { s with head := some (j :: l), job := updJ s.job j { s.job j with st := .listed } }
  match (s.job j).kind with
  | .coro =>                       -- suspended: control returns to the coroutine's caller
      finish { s1 with job := updJ s1.job j { s1.job j with odone := true } } t
  | _ => goto s1 t (.bLock j)

def doBLock (s : State) (t j : Nat) (timedOut : Bool) : State :=
  let jb := s.job j
  let s1 := { s with job := updJ s.job j { jb with holder := some t }, bad := touch s j }
  if jb.ready then goto s1 t (.bUnlockRet j true)
  else if timedOut then goto s1 t (.bUnlockRet j false)
  else goto s1 t (.bHeld j)

def doBSleep (s : State) (t j : Nat) : State :=
  goto { s with job := updJ s.job j { s.job j with holder := none }, bad := touch s j } t (.bAsleep j)

def doBUnlockRet (s : State) (t j : Nat) (b : Bool) : State :=
  let jb := s.job j
  let s1 := { s with bad := touch s j }
  match jb.kind with
  | .timed => goto { s1 with job := updJ s.job j { jb with holder := none } } t (.bDec j b)
  | _ => goto { s1 with job := updJ s.job j { jb with holder := none, freed := true } } t (.rep j b)

def doBDec (s : State) (t j : Nat) (b : Bool) : State :=
  goto { s with job := updJ s.job j { decJob (s.job j) with oref := false }, bad := touch s j } t (.rep j b)

def doRep (s : State) (t j : Nat) (b : Bool) : State :=
  finish { s with job := updJ s.job j { s.job j with odone := true, nrel := if b then (s.job j).nrel + 1 else (s.job j).nrel } } t

def doResume (s : State) (t j : Nat) : State :=
  finish { s with job := updJ s.job j { s.job j with odone := true, nrel := (s.job j).nrel + 1 } } t

inductive Step : State → Label → State → Prop where
  | tAdd (s : State) (t k : Nat) (rest : List Op) (h : (s.thr t).pc = .idle) (hp : (s.thr t).prog = .add k :: rest) :
      Step s (.fadd t k s.count) (doAdd s t k)
  | tDone (s : State) (t k : Nat) (rest : List Op) (h : (s.thr t).pc = .idle) (hp : (s.thr t).prog = .done k :: rest) :
      Step s (.fsub t k s.count) (doSub s t k k)
  | tInsAdd (s : State) (t : Nat) (consume : Bool) (fs : List Nat) (rest : List Op) (h : (s.thr t).pc = .idle)
      (hp : (s.thr t).prog = .insert consume fs :: rest) (hne : fs ≠ []) :
      Step s (.fadd t fs.length s.count) (doInsAdd s t consume fs)
  | tInsLoad (s : State) (t f : Nat) (rest : List Nat) (c wc : Nat) (consume : Bool) (x : FWord)
      (h : (s.thr t).pc = .insReg (f :: rest) c wc consume) (hx : fLoadOk (s.fut f) x) :
      Step s (.fLoad t f x) (doInsLoad s t f rest c wc consume x)
  | tInsCasOk (s : State) (t f : Nat) (rest : List Nat) (c wc : Nat) (consume : Bool)
      (h : (s.thr t).pc = .insCas f rest c wc consume) (hw : (s.fut f).word = .empty) :
      Step s (.fCas t f true) (doInsCasOk s t f rest c wc consume)
  | tInsCasFail (s : State) (t f : Nat) (rest : List Nat) (c wc : Nat) (consume : Bool)
      (h : (s.thr t).pc = .insCas f rest c wc consume) (hw : (s.fut f).word ≠ .empty) :
      Step s (.fCas t f false) (insFail s t f rest c wc consume)
  | tInsSub (s : State) (t k : Nat) (h : (s.thr t).pc = .insSub k) : Step s (.fsub t k s.count) (doSub s t k k)
  | tFulfil (s : State) (t f : Nat) (rest : List Op) (h : (s.thr t).pc = .idle) (hp : (s.thr t).prog = .fulfil f :: rest) :
      Step s (.pXchg t f (s.fut f).word) (doFulfil s t f)
  | tCbSub (s : State) (t f : Nat) (rest : List Op) (h : (s.thr t).pc = .cbSub) (hp : (s.thr t).prog = .fulfil f :: rest) :
      Step s (.fsub t 1 s.count) (doCbSub s t f)
  | tReadyLoad (s : State) (t f : Nat) (rest : List Op) (h : (s.thr t).pc = .idle) (hp : (s.thr t).prog = .ready f :: rest) :
      Step s (.fLoad t f (s.fut f).word) (goto s t (.rdy f (decide ((s.fut f).word = .result)) (s.fut f).completed))
  | tReady (s : State) (t f : Nat) (b c : Bool) (h : (s.thr t).pc = .rdy f b c) :
      Step s (.rdy t f b) (finish { s with readyObs := s.readyObs ++ [(f, b, c)] } t)
  /-- SetImpl -/
  | tXchgHead (s : State) (t : Nat) (h : (s.thr t).pc = .xchgHead) : Step s (.hXchg t s.head) (doXchgHead s t)
  | tRunLock (s : State) (t j : Nat) (rest : List Nat) (h : (s.thr t).pc = .run (j :: rest) false)
      (hk : (s.job j).kind ≠ .coro) (hm : (s.job j).holder = none) : Step s (.lock t j) (doRunLock s t j rest)
  | tRunUnlock (s : State) (t j : Nat) (rest : List Nat) (h : (s.thr t).pc = .run (j :: rest) true) :
      Step s (.unlock t j) (doRunUnlock s t j rest)
  | tRunDec (s : State) (t j : Nat) (rest : List Nat) (h : (s.thr t).pc = .runDec j rest) :
      Step s (.jDec t j (s.job j).refs) (doRunDec s t j rest)
  | tRunRel (s : State) (t j : Nat) (rest : List Nat) (h : (s.thr t).pc = .run (j :: rest) false)
      (hk : (s.job j).kind = .coro) : Step s (.rel t j) (doRunRel s t j rest)
  /-- a wait operation starts: `Ready()` (inline / sticky awaiters) or the load of `TryAdd` -/
  | tStart (s : State) (t : Nat) (op : Op) (rest : List Op) (k : WKind) (x : Exp) (h : (s.thr t).pc = .idle)
      (hp : (s.thr t).prog = op :: rest) (hk : opKind op = some k) (hx : headObs s.head x) :
      Step s (.hLoad t x) (doStartLoad s t k (opChecks op) x)
  | tTryLoad (s : State) (t j : Nat) (x : Exp) (h : (s.thr t).pc = .tryL j) (hx : headObs s.head x) :
      Step s (.hLoad t x) (tryWith s t j x)
  | tCasOk (s : State) (t j : Nat) (l : List Nat) (h : (s.thr t).pc = .tryC j (.cur l)) (hh : s.head = some l) :
      Step s (.hCas t true) (doPushed s t j l)
  | tCasFail (s : State) (t j : Nat) (x : Exp) (h : (s.thr t).pc = .tryC j x) (hh : expOf s.head ≠ x) :
      Step s (.hCas t false) (tryWith s t j (expOf s.head))
  | tCasSpur (s : State) (t j : Nat) (x x' : Exp) (h : (s.thr t).pc = .tryC j x) (hx : headObs s.head x') :
      Step s (.hSpur t x') (tryWith s t j x')
  | tResume (s : State) (t j : Nat) (h : (s.thr t).pc = .resume j) : Step s (.rel t j) (doResume s t j)
  /-- the waiter's side of its MutexEvent -/
  | tBLock (s : State) (t j : Nat) (h : (s.thr t).pc = .bLock j ∨ (s.thr t).pc = .bAsleep j)
      (hm : (s.job j).holder = none) : Step s (.lock t j) (doBLock s t j false)
  | tBSleep (s : State) (t j : Nat) (h : (s.thr t).pc = .bHeld j) : Step s (.unlock t j) (doBSleep s t j)
  | tBTimeout (s : State) (t j : Nat) (h : (s.thr t).pc = .bAsleep j) (hk : (s.job j).kind = .timed) :
      Step s (.timeout t j) (goto s t (.bTimedOut j))
  | tBLockT (s : State) (t j : Nat) (h : (s.thr t).pc = .bTimedOut j) (hm : (s.job j).holder = none) :
      Step s (.lock t j) (doBLock s t j true)
  | tBUnlockRet (s : State) (t j : Nat) (b : Bool) (h : (s.thr t).pc = .bUnlockRet j b) :
      Step s (.unlock t j) (doBUnlockRet s t j b)
  | tBDec (s : State) (t j : Nat) (b : Bool) (h : (s.thr t).pc = .bDec j b) :
      Step s (.jDec t j (s.job j).refs) (doBDec s t j b)
  | tRep (s : State) (t j : Nat) (b : Bool) (h : (s.thr t).pc = .rep j b) : Step s (.ret t j b) (doRep s t j b)

inductive Reachable (w : Workload) : State → Prop where
  | init : Reachable w (init w)
  | step {s l s'} : Reachable w s → Step s l s' → Reachable w s'

/-- executable transition function used by the trace validator (`ymdriver`) -/
def next (s : State) : Label → Option State
  | .fadd t k old =>
      if (s.thr t).pc = .idle ∧ old = s.count then
        match (s.thr t).prog with
        | .add k' :: _ => if k' = k then some (doAdd s t k) else none
        | .insert consume fs :: _ => if fs ≠ [] ∧ k = fs.length then some (doInsAdd s t consume fs) else none
        | _ => none
      else none
  | .fsub t k old =>
      if old = s.count then
        match (s.thr t).pc, (s.thr t).prog with
        | .idle, .done k' :: _ => if k' = k then some (doSub s t k k) else none
        | .insSub k', _ => if k' = k then some (doSub s t k k) else none
        | .cbSub, .fulfil f :: _ => if k = 1 then some (doCbSub s t f) else none
        | _, _ => none
      else none
  | .fLoad t f x =>
      match (s.thr t).pc, (s.thr t).prog with
      | .insReg (f' :: rest) c wc consume, _ =>
          if f' = f ∧ fLoadOk (s.fut f) x then some (doInsLoad s t f rest c wc consume x) else none
      | .idle, .ready f' :: _ =>
          if f' = f ∧ x = (s.fut f).word then
            some (goto s t (.rdy f (decide ((s.fut f).word = .result)) (s.fut f).completed))
          else none
      | _, _ => none
  | .fCas t f ok =>
      match (s.thr t).pc with
      | .insCas f' rest c wc consume =>
          if f' = f then
            if ok then (if (s.fut f).word = .empty then some (doInsCasOk s t f rest c wc consume) else none)
            else (if (s.fut f).word ≠ .empty then some (insFail s t f rest c wc consume) else none)
          else none
      | _ => none
  | .pXchg t f old =>
      if (s.thr t).pc = .idle ∧ old = (s.fut f).word then
        match (s.thr t).prog with
        | .fulfil f' :: _ => if f' = f then some (doFulfil s t f) else none
        | _ => none
      else none
  | .rdy t f b =>
      match (s.thr t).pc with
      | .rdy f' b' c => if f' = f ∧ b' = b then some (finish { s with readyObs := s.readyObs ++ [(f, b, c)] } t) else none
      | _ => none
  | .hLoad t x =>
      if headObs s.head x then
        match (s.thr t).pc, (s.thr t).prog with
        | .idle, op :: _ =>
            (match opKind op with
             | some k => some (doStartLoad s t k (opChecks op) x)
             | none => none)
        | .tryL j, _ => some (tryWith s t j x)
        | _, _ => none
      else none
  | .hCas t ok =>
      match (s.thr t).pc with
      | .tryC j x =>
          if ok then
            (match x, s.head with
             | .cur l, some l' => if l' = l then some (doPushed s t j l) else none
             | _, _ => none)
          else (if expOf s.head ≠ x then some (tryWith s t j (expOf s.head)) else none)
      | _ => none
  | .hSpur t x' =>
      match (s.thr t).pc with
      | .tryC j _ => if headObs s.head x' then some (tryWith s t j x') else none
      | _ => none
  | .hXchg t old => if (s.thr t).pc = .xchgHead ∧ old = s.head then some (doXchgHead s t) else none
  | .lock t j =>
      match (s.thr t).pc with
      | .run (j' :: rest) false =>
          if j' = j ∧ (s.job j).kind ≠ .coro ∧ (s.job j).holder = none then some (doRunLock s t j rest) else none
      | .bLock j' => if j' = j ∧ (s.job j).holder = none then some (doBLock s t j false) else none
      | .bAsleep j' => if j' = j ∧ (s.job j).holder = none then some (doBLock s t j false) else none
      | .bTimedOut j' => if j' = j ∧ (s.job j).holder = none then some (doBLock s t j true) else none
      | _ => none
  | .unlock t j =>
      match (s.thr t).pc with
      | .run (j' :: rest) true => if j' = j then some (doRunUnlock s t j rest) else none
      | .bHeld j' => if j' = j then some (doBSleep s t j) else none
      | .bUnlockRet j' b => if j' = j then some (doBUnlockRet s t j b) else none
      | _ => none
  | .timeout t j =>
      if (s.thr t).pc = .bAsleep j ∧ (s.job j).kind = .timed then some (goto s t (.bTimedOut j)) else none
  | .jDec t j old =>
      if old = (s.job j).refs then
        match (s.thr t).pc with
        | .runDec j' rest => if j' = j then some (doRunDec s t j rest) else none
        | .bDec j' b => if j' = j then some (doBDec s t j b) else none
        | _ => none
      else none
  | .ret t j b => if (s.thr t).pc = .rep j b then some (doRep s t j b) else none
  | .rel t j =>
      match (s.thr t).pc with
      | .run (j' :: rest) false => if j' = j ∧ (s.job j).kind = .coro then some (doRunRel s t j rest) else none
      | .resume j' => if j' = j then some (doResume s t j) else none
      | _ => none

theorem next_sound {s : State} {l : Label} {s' : State} (h : next s l = some s') : Step s l s' := by
  cases l with
  | fadd t k old =>
      simp only [next] at h
      split at h
      · rename_i hg
        obtain ⟨h1, h2⟩ := hg; subst h2
        split at h
        · rename_i k' rest hp
          split at h
          · rename_i hk; subst hk; cases h; exact .tAdd s t k' rest h1 hp
          · cases h
        · rename_i consume fs rest hp
          split at h
          · rename_i hk; obtain ⟨hne, hk⟩ := hk; subst hk; cases h; exact .tInsAdd s t consume fs rest h1 hp hne
          · cases h
        · cases h
      · cases h
  | fsub t k old =>
      simp only [next] at h
      split at h
      · rename_i hg; subst hg
        split at h
        · rename_i k' rest hpc hp
          split at h
          · rename_i hk; subst hk; cases h; exact .tDone s t k' rest hpc hp
          · cases h
        · rename_i k' hpc
          split at h
          · rename_i hk; subst hk; cases h; exact .tInsSub s t k' hpc
          · cases h
        · rename_i f rest hpc hp
          split at h
          · rename_i hk; subst hk; cases h; exact .tCbSub s t f rest hpc hp
          · cases h
        · cases h
      · cases h
  | fLoad t f x =>
      simp only [next] at h
      split at h
      · rename_i f' rest c wc consume hpc
        split at h
        · rename_i hg; obtain ⟨hf, hx⟩ := hg; subst hf; cases h; exact .tInsLoad s t f' rest c wc consume x hpc hx
        · cases h
      · rename_i f' rest hpc hp
        split at h
        · rename_i hg; obtain ⟨hf, hx⟩ := hg; subst hf; subst hx; cases h; exact .tReadyLoad s t f' rest hpc hp
        · cases h
      · cases h
  | fCas t f ok =>
      simp only [next] at h
      split at h
      · rename_i f' rest c wc consume hpc
        split at h
        · rename_i hf; subst hf
          cases ok with
          | true =>
              simp only [↓reduceIte] at h
              split at h
              · rename_i hw; cases h; exact .tInsCasOk s t f' rest c wc consume hpc hw
              · cases h
          | false =>
              simp only [Bool.false_eq_true, ↓reduceIte] at h
              split at h
              · rename_i hw; cases h; exact .tInsCasFail s t f' rest c wc consume hpc hw
              · cases h
        · cases h
      · cases h
  | pXchg t f old =>
      simp only [next] at h
      split at h
      · rename_i hg; obtain ⟨h1, h2⟩ := hg; subst h2
        split at h
        · rename_i f' rest hp
          split at h
          · rename_i hf; subst hf; cases h; exact .tFulfil s t f' rest h1 hp
          · cases h
        · cases h
      · cases h
  | rdy t f b =>
      simp only [next] at h
      split at h
      · rename_i f' b' c hpc
        split at h
        · rename_i hg; obtain ⟨hf, hb⟩ := hg; subst hf; subst hb; cases h; exact .tReady s t f' b' c hpc
        · cases h
      · cases h
  | hLoad t x =>
      simp only [next] at h
      split at h
      · rename_i hx
        split at h
        · rename_i op rest hpc hp
          split at h
          · rename_i k hk; cases h; exact .tStart s t op rest k x hpc hp hk hx
          · cases h
        · rename_i j hpc; cases h; exact .tTryLoad s t j x hpc hx
        · cases h
      · cases h
  | hCas t ok =>
      simp only [next] at h
      split at h
      · rename_i j x hpc
        cases ok with
        | true =>
            simp only [↓reduceIte] at h
            split at h
            · rename_i l l' hh
              split at h
              · rename_i hl; subst hl; cases h; exact .tCasOk s t j l' hpc hh
              · cases h
            · cases h
        | false =>
            simp only [Bool.false_eq_true, ↓reduceIte] at h
            split at h
            · rename_i hh; cases h; exact .tCasFail s t j x hpc hh
            · cases h
      · cases h
  | hSpur t x' =>
      simp only [next] at h
      split at h
      · rename_i j x hpc
        split at h
        · rename_i hx; cases h; exact .tCasSpur s t j x x' hpc hx
        · cases h
      · cases h
  | hXchg t old =>
      simp only [next] at h
      split at h
      · rename_i hg; obtain ⟨h1, h2⟩ := hg; subst h2; cases h; exact .tXchgHead s t h1
      · cases h
  | lock t j =>
      simp only [next] at h
      split at h
      · rename_i j' rest hpc
        split at h
        · rename_i hg; obtain ⟨hj, hk, hm⟩ := hg; subst hj; cases h; exact .tRunLock s t j' rest hpc hk hm
        · cases h
      · rename_i j' hpc
        split at h
        · rename_i hg; obtain ⟨hj, hm⟩ := hg; subst hj; cases h; exact .tBLock s t j' (Or.inl hpc) hm
        · cases h
      · rename_i j' hpc
        split at h
        · rename_i hg; obtain ⟨hj, hm⟩ := hg; subst hj; cases h; exact .tBLock s t j' (Or.inr hpc) hm
        · cases h
      · rename_i j' hpc
        split at h
        · rename_i hg; obtain ⟨hj, hm⟩ := hg; subst hj; cases h; exact .tBLockT s t j' hpc hm
        · cases h
      · cases h
  | unlock t j =>
      simp only [next] at h
      split at h
      · rename_i j' rest hpc
        split at h
        · rename_i hj; subst hj; cases h; exact .tRunUnlock s t j' rest hpc
        · cases h
      · rename_i j' hpc
        split at h
        · rename_i hj; subst hj; cases h; exact .tBSleep s t j' hpc
        · cases h
      · rename_i j' b hpc
        split at h
        · rename_i hj; subst hj; cases h; exact .tBUnlockRet s t j' b hpc
        · cases h
      · cases h
  | timeout t j =>
      simp only [next] at h
      split at h
      · rename_i hg; cases h; exact .tBTimeout s t j hg.1 hg.2
      · cases h
  | jDec t j old =>
      simp only [next] at h
      split at h
      · rename_i ho; subst ho
        split at h
        · rename_i j' rest hpc
          split at h
          · rename_i hj; subst hj; cases h; exact .tRunDec s t j' rest hpc
          · cases h
        · rename_i j' b hpc
          split at h
          · rename_i hj; subst hj; cases h; exact .tBDec s t j' b hpc
          · cases h
        · cases h
      · cases h
  | ret t j b =>
      simp only [next] at h
      split at h
      · rename_i hg; cases h; exact .tRep s t j b hg
      · cases h
  | rel t j =>
      simp only [next] at h
      split at h
      · rename_i j' rest hpc
        split at h
        · rename_i hg; obtain ⟨hj, hk⟩ := hg; subst hj; cases h; exact .tRunRel s t j' rest hpc hk
        · cases h
      · rename_i j' hpc
        split at h
        · rename_i hj; subst hj; cases h; exact .tResume s t j' hpc
        · cases h
      · cases h

end Yaclib.Event
