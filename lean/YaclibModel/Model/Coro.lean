/-
C13 — one coroutine (returning Future / Task / SharedFuture) and everything it co_awaits.

Written from /repo (as it is; D3 was repaired by /repo commit c9c07bc, the executor swap D12 by 8ca0444, ~Task of a completed
Task D13 by 2690a63):
  coro/detail/promise_type.hpp    PromiseType: `Here/Next(caller)` = `_executor = caller._executor` (a copy since 8ca0444; before:
                                  `std::move`, and IntrusivePtr move-assignment is a *Swap*: D12) then resume; `Call` = resume; `Drop` = `Store(StopTag)`,
                                  `SetResult`; `Destroy::await_suspend` (final_suspend) = `SetResult`; the frame is destroyed
                                  by the state's deleter (`PromiseTypeDeleter::Delete` = `handle.destroy()`)
  coro/detail/await_awaiter.hpp   AwaitSingleAwaiter<Shared> (`co_await future`), AwaitAwaiter<Handle,false> (`Await(x)`),
                                  AwaitAwaiter<Handle,true> (`AwaitSticky(x)`): `await_ready = Ready()` (word == kResult),
                                  `await_suspend = SetCallback(...)` (false ⇒ continue without suspending);
                                  MultiAwaitAwaiter<AwaitEvent<Sticky>>: counter n + 1, `await_ready: Get(acquire) == 1`,
                                  `await_suspend: next = promise; !SubEqual(1)`, the callback `AwaitEvent::Impl`:
                                  `if (SubEqual(1))` resume (`Here`: swap + resume) / Sticky: `_executor->Submit`;
                                  TransferAwaiter / TransferSingleAwaiter (Task): `StoreCallback`, start the task
  algo/detail/shared_event.hpp    SetCallbacksStatic/Dynamic: `wait_count += SetCallback(..)` for every awaited object,
                                  then `count.fetch_sub(n - wait_count, relaxed)`
  coro/detail/await_on_awaiter.hpp AwaitOnAwaiter (counter 1): always suspends, `_executor = e`, `SetCallback(*this)`, already
                                  complete ⇒ `e.Submit(core)`; the callback: `SubEqual(1)` ⇒ `Submit`;
                                  MultiAwaitOnAwaiter: counter n + 1, `await_suspend: if (SubEqual(1)) e.Submit(core)`
  coro/detail/on_awaiter.hpp, yield.hpp, current_executor.hpp   On(e): `_executor = e; e.Submit`; Yield: `_executor->Submit`;
                                  CurrentExecutor: `await_suspend` returns false, `await_resume` returns `*_executor`
  algo/base_core.cpp              `SetCallbackImpl<false>`: `load(acq) == kEmpty && compare_exchange_strong(empty → cb)`;
                                  `SetCallbackImpl<true>`: `load(acq)`; loop { result ⇒ false; compare_exchange_weak(next → cb) };
                                  `Ready()`: `load(acq) == kResult`;  `SetResultImpl`: `exchange(kResult)`, run the callback(s)

Scope: ONE coroutine against its environment.  Every awaited object ("cell" j) is abstracted by the interface its own
property proves (C01: unique hand-off word, C06: shared word = list of callbacks, push fails iff result):
the word holds the callbacks of *this* coroutine (`mine`, identified by the position p of the cell in the
current awaiter) and a flag saying that callbacks of *somebody else* are registered (`foreign`: other coroutines / subscribers
of the same SharedFuture).  The environment may, at any time,
  * fulfil a cell (`pXchg`: Store + exchange(kResult); a Task only after it was started),
  * register a foreign callback on a SharedFuture that has other observers (`envPush`),
  * change the executor stored in a started Task (`envSwap`: a running Task may move to another executor; nobody writes the
    executor of any other awaited core since 8ca0444),
  * Call or Drop a job that was submitted to an executor (the IExecutor contract: exactly one of them).
Several coroutines on one SharedFuture = several instances of this model sharing the cell; each sees the others as
`foreign` (the trace validator checks every coroutine's projection of a real multi-coroutine run).

Granularity: one step per atomic operation on an awaited word or an await counter, one per observable event of the
wrapper awaiter / executor / frame (await started, await_ready decided, submitted, Called, Dropped, resumed, local destroyed,
result published, frame destroyed).  Callbacks of one fulfilment are run in any order (the LIFO order is C06's matter).
Pre-check loads may be stale (over-approximated: see `obsOk`).
-/
namespace Yaclib.Coro

inductive Res where
  | val (n : Nat) | err | exc
  deriving DecidableEq, Repr

def Res.isFail : Res → Bool
  | .val _ => false
  | _ => true

/-- the awaiter of one `co_await` -/
inductive AKind where
  | single                    -- co_await future / shared future, Await(x): the coroutine itself is the callback
  | sticky                    -- AwaitSticky(x)
  | on (e : Nat)              -- AwaitOn(e, x)
  | multi                     -- Await(xs…)
  | multiSticky               -- AwaitSticky(xs…)
  | multiOn (e : Nat)         -- AwaitOn(e, xs…)
  | task                      -- co_await task / Await(task)
  | resched (e : Option Nat)  -- On(e) (some e) / Yield(), kYield (none: the coroutine's own executor)
  | current                   -- CurrentExecutor()
  deriving DecidableEq, Repr

structure Op where
  kind : AKind
  cells : List Nat
  /-- `await_resume` reads the awaited Result (`co_await future`, `co_await task`): value returned / failure rethrown -/
  get : Bool
  deriving DecidableEq, Repr

structure CellW where
  shared : Bool := false
  /-- the SharedFuture has other observers that may register callbacks -/
  others : Bool := false
  /-- a Task: fulfilled only after the awaiting coroutine started it -/
  lazy : Bool := false
  res : Res := .val 0
  /-- the executor stored in the awaited core (0 = the library's inline executor) -/
  exec0 : Nat := 0
  deriving DecidableEq, Repr

inductive Ret where
  | val (n : Nat) | throws
  deriving DecidableEq, Repr

structure Workload where
  prog : List Op
  cells : List CellW
  ret : Ret
  /-- a rethrown awaited failure is caught by the body (otherwise it escapes and ends the coroutine) -/
  catches : Bool
  locals : Nat
  deriving Repr

def Workload.cell (w : Workload) (j : Nat) : CellW := w.cells.getD j {}

/-- may other parties touch cell j (register callbacks, swap executors)? -/
def Workload.unsafeCell (w : Workload) (j : Nat) : Bool := (w.cell j).shared && (w.cell j).others

inductive Word where
  | open (mine : List Nat) (foreign : Bool)
  | result (walk : List Nat)     -- `walk`: my callbacks the fulfiller has not run yet
  deriving DecidableEq, Repr

def Word.isResult : Word → Bool
  | .result _ => true
  | _ => false

/-- what a load of the word can tell apart -/
inductive Obs where
  | empty | cbs | result
  deriving DecidableEq, Repr

def Word.obs : Word → Obs
  | .open [] false => .empty
  | .open _ _ => .cbs
  | .result _ => .result

/-- a load returns the current class or an older one; over-approximation of coherence:
    `result` only if it is there, `cbs` only if the word is not (any more) empty, `empty` always -/
def obsOk (wd : Word) (x : Obs) : Prop :=
  match x with
  | .result => wd.isResult = true
  | .cbs => wd.obs ≠ .empty
  | .empty => True

instance (wd : Word) (x : Obs) : Decidable (obsOk wd x) := by
  unfold obsOk; cases x <;> exact inferInstance

/-- **the await_ready predicate of AwaitSingleAwaiter / AwaitAwaiterBase**: `BaseCore::Ready()` = "the word is kResult".
    Until /repo commit c9c07bc it was `!Empty()` = `x != .empty` (defect D3: true as soon as *any* callback was registered on a
    SharedFuture, so a second awaiter did not suspend and read an unconstructed Result).  This is the only definition to switch;
    the proofs use it only through the two lemmas below. -/
def awaitReady (x : Obs) : Bool := x == .result

theorem awaitReady_true {x : Obs} (h : awaitReady x = true) : x = .result := by
  cases x <;> simp [awaitReady] at h ⊢

theorem awaitReady_false_ne_result {x : Obs} (h : awaitReady x = false) : x ≠ .result := by
  cases x <;> simp [awaitReady] at h ⊢

structure Cell where
  word : Word
  started : Bool
  /-- the executor currently stored in the core (`BaseCore::_executor`) -/
  cexec : Nat
  deriving DecidableEq, Repr

/-- per awaited object of the current awaiter -/
inductive CbSt where
  | todo       -- SetCallback not attempted yet
  | pending    -- registered, not run yet
  | failed     -- SetCallback returned false: already complete
  | fired      -- the callback was run
  deriving DecidableEq, Repr

/-- who resumes the coroutine -/
inductive Ctx where
  | inl               -- not suspended at all: continues on its own thread
  | cell (j : Nat)    -- inline, by the thread that completed cell j
  | exec (e : Nat)    -- `Call` by executor e
  deriving DecidableEq, Repr

inductive CPc where
  | idle                      -- running between co_awaits (and after the last one)
  | rdy                       -- single / sticky: the load of `Ready()` next
  | rdyL (x : Obs)            -- … loaded, `await_ready` decision next
  | reg (p : Nat)             -- SetCallback for the p-th awaited object: load next
  | cas (p : Nat)             -- … compare_exchange next
  | msub                      -- multi: `count.fetch_sub(n - wait_count)` next
  | mld                       -- multi await_ready: `Get(acquire)` next
  | mrd (v : Nat)             -- … loaded v, decision next
  | msusp                     -- multi await_suspend: `SubEqual(1)` next
  | tstore                    -- Task: `StoreCallback` + start next
  | curr                      -- CurrentExecutor: report next
  | subm (e : Nat)            -- about to be submitted to executor e (by itself or by a completing thread)
  | susp                      -- suspended, waiting for callbacks
  | queued (e : Nat)          -- submitted to e, neither Called nor Dropped yet
  | wake (c : Ctx)            -- being resumed: `await_resume` next
  | fin                       -- body left (co_return / escaped exception / Drop): Result stored, `SetResult` next
  | done                      -- Result published
  | gone                      -- frame destroyed
  deriving DecidableEq, Repr

/-- ghost: one entry per completed co_await -/
structure Rec where
  k : Nat                      -- index of the co_await in the program
  op : Op
  ctx : Ctx
  /-- every awaited object was complete (word = result, Result constructed) at that moment -/
  allDone : Bool
  /-- what `await_resume` read (`some none`: a Result that was never constructed) -/
  got : Option (Option Res)
  /-- the coroutine's executor when the co_await started / after it resumed -/
  exBefore : Nat
  exAfter : Nat
  deriving DecidableEq, Repr

structure State where
  w : Workload
  cells : Nat → Cell
  pc : CPc
  todo : List Op                 -- co_awaits not completed yet (head = current one when pc is inside an awaiter)
  k : Nat                        -- number of completed co_awaits
  st : List CbSt                 -- per awaited object of the current awaiter
  cnt : Nat                      -- the current awaiter's counter (AwaitEvent / AwaitOnEvent)
  exec : Nat                     -- PromiseType::_executor (0 = inline)
  ex0 : Nat                      -- ghost: `exec` when the current co_await started
  failed : Bool                  -- an awaited failure escaped the body
  live : Nat                     -- locals of the frame that are alive
  result : Option Res            -- the coroutine's own Result storage
  dropped : Bool                 -- ghost: completed through `Drop`
  -- ghost history
  resumed : List Rec
  submits : List (Nat × Nat)     -- (index of the co_await, executor)
  published : List Res
  frameDestroyed : Nat
  localDtors : Nat
  tasksReleased : List Nat       -- completed Tasks whose Task object was destroyed

def initCell (c : CellW) : Cell := { word := .open [] false, started := false, cexec := c.exec0 }

def init (w : Workload) : State :=
  { w := w, cells := fun j => initCell (w.cell j), pc := .idle, todo := w.prog, k := 0, st := [], cnt := 0, exec := 0, ex0 := 0,
    failed := false, live := w.locals, result := none, dropped := false,
    resumed := [], submits := [], published := [], frameDestroyed := 0, localDtors := 0, tasksReleased := [] }

inductive CasOut where
  | ok | retry | fail
  deriving DecidableEq, Repr

inductive Label where
  -- environment
  | pXchg (j : Nat)                    -- cell j is fulfilled: Store + exchange(kResult)
  | envPush (j : Nat)                  -- somebody else registers a callback on shared cell j
  | envSwap (j : Nat) (e : Nat)        -- the started Task j changes the executor stored in its core
  | fire (j : Nat) (p : Nat)           -- the fulfiller of cell j runs my callback p
  | exCall | exDrop                    -- the executor Calls / Drops the submitted coroutine
  -- the coroutine (or, for `submit`, the thread that completed the awaited object)
  | start                              -- co_await begins: the awaiter is constructed
  | rdLoad (x : Obs) | ready (b : Bool)
  | regLoad (p : Nat) (x : Obs) | cas (p : Nat) (o : CasOut)
  | msub | mload (v : Nat) | msuspend
  | tstore
  | submit (e : Nat)
  | resume (got : Option (Option Res)) (allDone : Bool)
  | current (e : Nat)
  | tdtor (j : Nat)                    -- ~Task of a Task that was only Await()ed (it completed and is still valid)
  | ldtor | ret | publish (r : Res) | fdtor
  deriving DecidableEq, Repr

/-! ### helpers -/

def upd (f : Nat → Cell) (j : Nat) (c : Cell) : Nat → Cell := fun i => if i = j then c else f i

def State.setWord (s : State) (j : Nat) (wd : Word) : State :=
  { s with cells := upd s.cells j { s.cells j with word := wd } }

def State.word (s : State) (j : Nat) : Word := (s.cells j).word

/-- the Result storage of cell j: constructed exactly when the word is `result` (Store is folded into the exchange) -/
def State.stored (s : State) (j : Nat) : Option Res :=
  if (s.word j).isResult then some (s.w.cell j).res else none

def allDoneOf (s : State) (op : Op) : Bool := op.cells.all fun j => (s.word j).isResult

def gotOf (s : State) (op : Op) : Option (Option Res) :=
  if op.get then (match op.cells.head? with
    | some j => some (s.stored j)
    | none => none) else none

/-- the awaited failure is rethrown by `await_resume` and not caught -/
def escapes (s : State) (op : Op) : Bool :=
  match gotOf s op with
  | some (some r) => r.isFail && !s.w.catches
  | _ => false

def finalRes (s : State) : Res :=
  if s.failed then .exc else match s.w.ret with
    | .val n => .val n
    | .throws => .exc

def isMulti : AKind → Bool
  | .multi | .multiSticky | .multiOn _ => true
  | _ => false

/-- kinds whose `await_ready` is `BaseCore::Ready()` (was `!Empty()`: D3) -/
def emptyBased : AKind → Bool
  | .single | .sticky => true
  | _ => false

/-- awaiters with a counter (AwaitOnEvent / AwaitEvent): a callback completes the awaiter only if its `SubEqual(1)` says so -/
def counted : AKind → Bool
  | .on _ | .multi | .multiSticky | .multiOn _ => true
  | _ => false

/-- the coroutine itself finds everything complete (SetCallback returned false / its own `SubEqual(1)` was the last):
    AwaitOn submits the coroutine to the executor, every other awaiter lets it continue (`await_suspend` returns false) -/
def selfDone : AKind → CPc
  | .on e | .multiOn e => .subm e
  | _ => .wake .inl

/-- the callback run by the fulfiller of cell j completes the awaiter: sticky awaiters submit the coroutine to its own
    executor, AwaitOn to the named one, the others resume it in place (`PromiseType::Here/Next`) -/
def cbDone (k : AKind) (j exec : Nat) : CPc :=
  match k with
  | .sticky | .multiSticky => .subm exec
  | .on e | .multiOn e => .subm e
  | _ => .wake (.cell j)

/-- after the last SetCallback of the awaiter -/
def afterReg (s : State) (op : Op) : State :=
  if isMulti op.kind then { s with pc := .msub }
  else if s.st[0]? = some .pending then { s with pc := .susp }
  else { s with pc := selfDone op.kind }

def regFrom (s : State) (op : Op) (p : Nat) : State :=
  if p < op.cells.length then { s with pc := .reg p } else afterReg s op

/-- AwaitOnAwaiter starts its counter at 1, the multi awaiters at n + 1 -/
def startCnt (op : Op) : Nat :=
  match op.kind with
  | .on _ => 1
  | _ => op.cells.length + 1

/-- On(e) / AwaitOn(e, …) store e in `PromiseType::_executor` before anything else -/
def startExec (k : AKind) (exec : Nat) : Nat :=
  match k with
  | .on e | .multiOn e | .resched (some e) => e
  | _ => exec

def doStart (s : State) (op : Op) : State :=
  let s0 := { s with st := List.replicate op.cells.length .todo, ex0 := s.exec, exec := startExec op.kind s.exec,
                     cnt := startCnt op }
  match op.kind with
  | .single | .sticky => { s0 with pc := .rdy }
  | .on _ | .multi | .multiSticky | .multiOn _ => regFrom s0 op 0
  | .task => { s0 with pc := .tstore }
  | .resched _ => { s0 with pc := .subm (startExec op.kind s.exec) }
  | .current => { s0 with pc := .curr }

def doReady (s : State) (b : Bool) : State :=
  if b then { s with pc := .wake .inl } else { s with pc := .reg 0 }

def doMReady (s : State) (b : Bool) : State :=
  if b then { s with pc := .wake .inl } else { s with pc := .msusp }

def regFail (s : State) (op : Op) (p : Nat) : State :=
  regFrom { s with st := s.st.set p .failed } op (p + 1)

/-- does the pre-check load of SetCallbackImpl let the CAS be tried? -/
def loadGoesOn (sh : Bool) (x : Obs) : Bool := if sh then x != .result else x == .empty

def doRegLoad (s : State) (op : Op) (p j : Nat) (x : Obs) : State :=
  if loadGoesOn (s.w.cell j).shared x then { s with pc := .cas p } else regFail s op p

def doCasOk (s : State) (op : Op) (p j : Nat) (l : List Nat) (f : Bool) : State :=
  regFrom { s.setWord j (.open (p :: l) f) with st := s.st.set p .pending } op (p + 1)

/-- MultiAwaitOnAwaiter has no `await_ready` load -/
def subNext : AKind → CPc
  | .multiOn _ => .msusp
  | _ => .mld

def doMsub (s : State) (op : Op) : State :=
  { s with cnt := s.cnt - (op.cells.length - (s.st.count CbSt.pending + s.st.count CbSt.fired)), pc := subNext op.kind }

def doMsuspend (s : State) (op : Op) : State :=
  if s.cnt = 1 then { s with cnt := s.cnt - 1, pc := selfDone op.kind } else { s with cnt := s.cnt - 1, pc := .susp }

/-- `StoreCallback` (a plain store: the Task has not started) and the start of the Task; a coroutine Task is started through
    `PromiseType::Next(caller)`, which copies the awaiting coroutine's executor into the Task (a Schedule()-headed Task keeps its
    own: covered by `envSwap`) -/
def doTstore (s : State) (j : Nat) : State :=
  { s with cells := upd s.cells j { word := .open [0] false, started := true, cexec := s.exec },
           st := s.st.set 0 .pending, pc := .susp }

/-- the fulfiller of cell j runs my callback p -/
def doFire (s : State) (op : Op) (j p : Nat) (walk : List Nat) : State :=
  let s1 := { s.setWord j (.result (walk.erase p)) with st := s.st.set p .fired }
  if counted op.kind then
    (if s.cnt = 1 then { s1 with cnt := s.cnt - 1, pc := cbDone op.kind j s.exec } else { s1 with cnt := s.cnt - 1 })
  else { s1 with pc := cbDone op.kind j s.exec }

def doSubmit (s : State) (e : Nat) : State :=
  { s with pc := .queued e, submits := s.submits ++ [(s.k, e)] }

def doDrop (s : State) : State :=
  { s with pc := .fin, result := some .err, dropped := true }

/-- resumption by the completing thread goes through `PromiseType::Here/Next(caller)`: the coroutine takes (a copy of) the
    executor stored in the completed core — "continue where the producer is"; the core keeps it (until 8ca0444 the two were
    swapped: D12) -/
def execAfter (s : State) (c : Ctx) : Nat :=
  match c with
  | .cell j => (s.cells j).cexec
  | _ => s.exec

def doResume (s : State) (op : Op) (rest : List Op) (c : Ctx) : State :=
  { s with pc := .idle, k := s.k + 1, todo := if escapes s op then [] else rest,
           failed := s.failed || escapes s op, exec := execAfter s c,
           resumed := s.resumed ++ [{ k := s.k, op := op, ctx := c, allDone := allDoneOf s op, got := gotOf s op,
                                       exBefore := s.ex0, exAfter := execAfter s c }] }

def doCurrent (s : State) (op : Op) (rest : List Op) : State :=
  { s with pc := .idle, k := s.k + 1, todo := rest,
           resumed := s.resumed ++ [{ k := s.k, op := op, ctx := .inl, allDone := true, got := none,
                                       exBefore := s.ex0, exAfter := s.exec }] }

def doLdtor (s : State) : State := { s with live := s.live - 1, localDtors := s.localDtors + 1 }
def doRet (s : State) : State := { s with pc := .fin, result := some (finalRes s) }
def doPublish (s : State) (r : Res) : State := { s with pc := .done, published := s.published ++ [r] }
def doFdtor (s : State) : State := { s with pc := .gone, frameDestroyed := s.frameDestroyed + 1 }

/-- who may change the executor stored in core j behind the coroutine's back: only a Task that was started (it may move to
    another executor while it runs; over-approximated: also afterwards) -/
def swapAllowed (s : State) (j : Nat) : Bool :=
  (s.w.cell j).lazy && (s.cells j).started

def doTdtor (s : State) (j : Nat) : State := { s with tasksReleased := s.tasksReleased ++ [j] }

inductive Step : State → Label → State → Prop where
  /-- Promise::Set / ~Promise / a coroutine's final_suspend: Store, exchange(kResult); my callbacks are run afterwards -/
  | pXchg (s : State) (j : Nat) (l : List Nat) (f : Bool) (hw : s.word j = .open l f)
      (hl : (s.w.cell j).lazy = false ∨ (s.cells j).started = true) :
      Step s (.pXchg j) (s.setWord j (.result l))
  | envPush (s : State) (j : Nat) (l : List Nat) (f : Bool) (hw : s.word j = .open l f) (hu : s.w.unsafeCell j = true) :
      Step s (.envPush j) (s.setWord j (.open l true))
  | envSwap (s : State) (j e : Nat) (hu : swapAllowed s j = true) :
      Step s (.envSwap j e) { s with cells := upd s.cells j { s.cells j with cexec := e } }
  | fire (s : State) (op : Op) (rest : List Op) (j p : Nat) (walk : List Nat) (ht : s.todo = op :: rest)
      (hw : s.word j = .result walk) (hp : p ∈ walk) : Step s (.fire j p) (doFire s op j p walk)
  | exCall (s : State) (e : Nat) (h : s.pc = .queued e) : Step s .exCall { s with pc := .wake (.exec e) }
  /-- PromiseType::Drop: `Store(StopTag)`, SetResult -/
  | exDrop (s : State) (e : Nat) (h : s.pc = .queued e) : Step s .exDrop (doDrop s)
  | start (s : State) (op : Op) (rest : List Op) (h : s.pc = .idle) (ht : s.todo = op :: rest) :
      Step s .start (doStart s op)
  /-- `await_ready` of AwaitSingleAwaiter / AwaitAwaiterBase: `Ready()` -/
  | rdLoad (s : State) (op : Op) (rest : List Op) (j : Nat) (x : Obs) (h : s.pc = .rdy) (ht : s.todo = op :: rest)
      (hj : op.cells[0]? = some j) (hx : obsOk (s.word j) x) : Step s (.rdLoad x) { s with pc := .rdyL x }
  | ready (s : State) (x : Obs) (h : s.pc = .rdyL x) : Step s (.ready (awaitReady x)) (doReady s (awaitReady x))
  /-- SetCallbackImpl: pre-check load … -/
  | regLoad (s : State) (op : Op) (rest : List Op) (p j : Nat) (x : Obs) (h : s.pc = .reg p) (ht : s.todo = op :: rest)
      (hj : op.cells[p]? = some j) (hx : obsOk (s.word j) x) : Step s (.regLoad p x) (doRegLoad s op p j x)
  /-- … and the CAS: strong `empty → cb` on a unique core, weak `next → cb` in a loop on a shared one -/
  | casOk (s : State) (op : Op) (rest : List Op) (p j : Nat) (l : List Nat) (f : Bool) (h : s.pc = .cas p)
      (ht : s.todo = op :: rest) (hj : op.cells[p]? = some j) (hw : s.word j = .open l f)
      (hu : (s.w.cell j).shared = true ∨ (l = [] ∧ f = false)) : Step s (.cas p .ok) (doCasOk s op p j l f)
  | casRetry (s : State) (op : Op) (rest : List Op) (p j : Nat) (h : s.pc = .cas p) (ht : s.todo = op :: rest)
      (hj : op.cells[p]? = some j) (hw : (s.word j).isResult = false) (hu : (s.w.cell j).shared = true) :
      Step s (.cas p .retry) s
  | casFail (s : State) (op : Op) (rest : List Op) (p j : Nat) (h : s.pc = .cas p) (ht : s.todo = op :: rest)
      (hj : op.cells[p]? = some j)
      (hw : ((s.w.cell j).shared = true ∧ (s.word j).isResult = true) ∨
            ((s.w.cell j).shared = false ∧ s.word j ≠ .open [] false)) : Step s (.cas p .fail) (regFail s op p)
  /-- SetCallbacksStatic/Dynamic: `count.fetch_sub(n - wait_count, relaxed)` -/
  | msub (s : State) (op : Op) (rest : List Op) (h : s.pc = .msub) (ht : s.todo = op :: rest) :
      Step s .msub (doMsub s op)
  /-- MultiAwaitAwaiter::await_ready: `Get(acquire) == 1` (the load may be stale: the counter only decreases) -/
  | mload (s : State) (v : Nat) (h : s.pc = .mld) (hv : s.cnt ≤ v) : Step s (.mload v) { s with pc := .mrd v }
  | mready (s : State) (v : Nat) (h : s.pc = .mrd v) : Step s (.ready (decide (v = 1))) (doMReady s (decide (v = 1)))
  /-- await_suspend of the multi awaiters: `SubEqual(1)` -/
  | msuspend (s : State) (op : Op) (rest : List Op) (h : s.pc = .msusp) (ht : s.todo = op :: rest) :
      Step s .msuspend (doMsuspend s op)
  | tstore (s : State) (op : Op) (rest : List Op) (j : Nat) (h : s.pc = .tstore) (ht : s.todo = op :: rest)
      (hj : op.cells[0]? = some j) : Step s .tstore (doTstore s j)
  | submit (s : State) (e : Nat) (h : s.pc = .subm e) : Step s (.submit e) (doSubmit s e)
  /-- `await_resume` -/
  | resume (s : State) (op : Op) (rest : List Op) (c : Ctx) (h : s.pc = .wake c) (ht : s.todo = op :: rest) :
      Step s (.resume (gotOf s op) (allDoneOf s op)) (doResume s op rest c)
  | current (s : State) (op : Op) (rest : List Op) (h : s.pc = .curr) (ht : s.todo = op :: rest) :
      Step s (.current s.exec) (doCurrent s op rest)
  /-- `~Task` of a Task that completed (it was started by `co_await Await(task)`) and is still valid: `Valid() && !Ready()` is
      false, so nothing is cancelled — the Task just releases its core (since 2690a63; before, it was cancelled: `StoreCallback`
      over the `result` word, `Drop` of the finished coroutine, a second `exchange`: D13).  The destructor of a Task that has not
      completed (Cancel) is C12's matter and not a step of this model. -/
  | tdtor (s : State) (j : Nat) (h : s.pc = .idle) (hl : (s.w.cell j).lazy = true) (hr : (s.word j).isResult = true) :
      Step s (.tdtor j) (doTdtor s j)
  /-- co_return (`return_value` = Store, then the scopes are left) / an exception leaves the body (the scopes are left, then
      `unhandled_exception` = Store): the body is over, the Result is determined -/
  | ret (s : State) (h : s.pc = .idle) (ht : s.todo = []) : Step s .ret (doRet s)
  /-- a local of the frame is destroyed: leaving the body, or `handle.destroy()` of a suspended (dropped) coroutine -/
  | ldtor (s : State) (h : (s.pc = .fin ∧ s.dropped = false) ∨ s.pc = .done) (hl : 0 < s.live) : Step s .ldtor (doLdtor s)
  /-- final_suspend (all locals are gone) / Drop (the coroutine stays suspended): SetResult publishes the coroutine's Result -/
  | publish (s : State) (r : Res) (h : s.pc = .fin) (hr : s.result = some r) (hl : s.dropped = true ∨ s.live = 0) :
      Step s (.publish r) (doPublish s r)
  /-- the state's deleter destroys the frame -/
  | fdtor (s : State) (h : s.pc = .done) (hl : s.live = 0) : Step s .fdtor (doFdtor s)

inductive Reachable (w : Workload) : State → Prop where
  | init : Reachable w (init w)
  | step {s l s'} : Reachable w s → Step s l s' → Reachable w s'

/-- executable transition function used by the trace validator -/
def next (s : State) : Label → Option State
  | .pXchg j =>
      match s.word j with
      | .open l _ =>
          if (s.w.cell j).lazy = false ∨ (s.cells j).started = true then some (s.setWord j (.result l)) else none
      | .result _ => none
  | .envPush j =>
      match s.word j with
      | .open l _ => if s.w.unsafeCell j = true then some (s.setWord j (.open l true)) else none
      | .result _ => none
  | .envSwap j e =>
      if swapAllowed s j = true then some { s with cells := upd s.cells j { s.cells j with cexec := e } } else none
  | .fire j p =>
      match s.todo, s.word j with
      | op :: _, .result walk => if p ∈ walk then some (doFire s op j p walk) else none
      | _, _ => none
  | .exCall =>
      match s.pc with
      | .queued e => some { s with pc := .wake (.exec e) }
      | _ => none
  | .exDrop =>
      match s.pc with
      | .queued _ => some (doDrop s)
      | _ => none
  | .start =>
      match s.todo with
      | op :: _ => if s.pc = .idle then some (doStart s op) else none
      | [] => none
  | .rdLoad x =>
      match s.todo with
      | op :: _ =>
          match op.cells[0]? with
          | some j => if s.pc = .rdy ∧ obsOk (s.word j) x then some { s with pc := .rdyL x } else none
          | none => none
      | [] => none
  | .ready b =>
      match s.pc with
      | .rdyL x => if b = awaitReady x then some (doReady s b) else none
      | .mrd v => if b = decide (v = 1) then some (doMReady s b) else none
      | _ => none
  | .regLoad p x =>
      match s.todo with
      | op :: _ =>
          match op.cells[p]? with
          | some j => if s.pc = .reg p ∧ obsOk (s.word j) x then some (doRegLoad s op p j x) else none
          | none => none
      | [] => none
  | .cas p o =>
      match s.todo with
      | op :: _ =>
          match op.cells[p]? with
          | some j =>
              if s.pc = .cas p then
                match o with
                | .ok =>
                    match s.word j with
                    | .open l f =>
                        if (s.w.cell j).shared = true ∨ (l = [] ∧ f = false) then some (doCasOk s op p j l f) else none
                    | .result _ => none
                | .retry => if (s.word j).isResult = false ∧ (s.w.cell j).shared = true then some s else none
                | .fail =>
                    if ((s.w.cell j).shared = true ∧ (s.word j).isResult = true) ∨
                       ((s.w.cell j).shared = false ∧ s.word j ≠ .open [] false) then some (regFail s op p) else none
              else none
          | none => none
      | [] => none
  | .msub =>
      match s.todo with
      | op :: _ => if s.pc = .msub then some (doMsub s op) else none
      | [] => none
  | .mload v => if s.pc = .mld ∧ s.cnt ≤ v then some { s with pc := .mrd v } else none
  | .msuspend =>
      match s.todo with
      | op :: _ => if s.pc = .msusp then some (doMsuspend s op) else none
      | [] => none
  | .tstore =>
      match s.todo with
      | op :: _ =>
          match op.cells[0]? with
          | some j => if s.pc = .tstore then some (doTstore s j) else none
          | none => none
      | [] => none
  | .submit e => if s.pc = .subm e then some (doSubmit s e) else none
  | .resume got ad =>
      match s.todo, s.pc with
      | op :: rest, .wake c => if got = gotOf s op ∧ ad = allDoneOf s op then some (doResume s op rest c) else none
      | _, _ => none
  | .current e =>
      match s.todo with
      | op :: rest => if s.pc = .curr ∧ e = s.exec then some (doCurrent s op rest) else none
      | [] => none
  | .tdtor j =>
      if s.pc = .idle ∧ (s.w.cell j).lazy = true ∧ (s.word j).isResult = true then some (doTdtor s j) else none
  | .ldtor => if ((s.pc = .fin ∧ s.dropped = false) ∨ s.pc = .done) ∧ 0 < s.live then some (doLdtor s) else none
  | .ret => if s.pc = .idle ∧ s.todo = [] then some (doRet s) else none
  | .publish r =>
      if s.pc = .fin ∧ s.result = some r ∧ (s.dropped = true ∨ s.live = 0) then some (doPublish s r) else none
  | .fdtor => if s.pc = .done ∧ s.live = 0 then some (doFdtor s) else none

theorem next_sound {s : State} {l : Label} {s' : State} (h : next s l = some s') : Step s l s' := by
  cases l with
  | pXchg j =>
      simp only [next] at h
      split at h
      · rename_i l f hw
        split at h
        · rename_i hg; cases h; exact .pXchg s j l f hw hg
        · cases h
      · cases h
  | envPush j =>
      simp only [next] at h
      split at h
      · rename_i l f hw
        split at h
        · rename_i hg; cases h; exact .envPush s j l f hw hg
        · cases h
      · cases h
  | envSwap j e =>
      simp only [next] at h
      split at h
      · rename_i hg; cases h; exact .envSwap s j e hg
      · cases h
  | fire j p =>
      simp only [next] at h
      split at h
      · rename_i op rest walk ht hw
        split at h
        · rename_i hp; cases h; exact .fire s op rest j p walk ht hw hp
        · cases h
      · cases h
  | exCall =>
      simp only [next] at h
      split at h
      · rename_i e hp; cases h; exact .exCall s e hp
      · cases h
  | exDrop =>
      simp only [next] at h
      split at h
      · rename_i e hp; cases h; exact .exDrop s e hp
      · cases h
  | start =>
      simp only [next] at h
      split at h
      · rename_i op rest ht
        split at h
        · rename_i hp; cases h; exact .start s op rest hp ht
        · cases h
      · cases h
  | rdLoad x =>
      simp only [next] at h
      split at h
      · rename_i op rest ht
        split at h
        · rename_i j hj
          split at h
          · rename_i hg; cases h; exact .rdLoad s op rest j x hg.1 ht hj hg.2
          · cases h
        · cases h
      · cases h
  | ready b =>
      simp only [next] at h
      split at h
      · rename_i x hp
        split at h
        · rename_i hb; cases h; subst hb; exact .ready s x hp
        · cases h
      · rename_i v hp
        split at h
        · rename_i hb; cases h; subst hb; exact .mready s v hp
        · cases h
      · cases h
  | regLoad p x =>
      simp only [next] at h
      split at h
      · rename_i op rest ht
        split at h
        · rename_i j hj
          split at h
          · rename_i hg; cases h; exact .regLoad s op rest p j x hg.1 ht hj hg.2
          · cases h
        · cases h
      · cases h
  | cas p o =>
      simp only [next] at h
      split at h
      · rename_i op rest ht
        split at h
        · rename_i j hj
          split at h
          · rename_i hp
            cases o with
            | ok =>
                simp only at h
                split at h
                · rename_i l f hw
                  split at h
                  · rename_i hu; cases h; exact .casOk s op rest p j l f hp ht hj hw hu
                  · cases h
                · cases h
            | retry =>
                simp only at h
                split at h
                · rename_i hg; cases h; exact .casRetry s op rest p j hp ht hj hg.1 hg.2
                · cases h
            | fail =>
                simp only at h
                split at h
                · rename_i hg; cases h; exact .casFail s op rest p j hp ht hj hg
                · cases h
          · cases h
        · cases h
      · cases h
  | msub =>
      simp only [next] at h
      split at h
      · rename_i op rest ht
        split at h
        · rename_i hp; cases h; exact .msub s op rest hp ht
        · cases h
      · cases h
  | mload v =>
      simp only [next] at h
      split at h
      · rename_i hg; cases h; exact .mload s v hg.1 hg.2
      · cases h
  | msuspend =>
      simp only [next] at h
      split at h
      · rename_i op rest ht
        split at h
        · rename_i hp; cases h; exact .msuspend s op rest hp ht
        · cases h
      · cases h
  | tstore =>
      simp only [next] at h
      split at h
      · rename_i op rest ht
        split at h
        · rename_i j hj
          split at h
          · rename_i hp; cases h; exact .tstore s op rest j hp ht hj
          · cases h
        · cases h
      · cases h
  | submit e =>
      simp only [next] at h
      split at h
      · rename_i hp; cases h; exact .submit s e hp
      · cases h
  | resume got ad =>
      simp only [next] at h
      split at h
      · rename_i op rest c ht hp
        split at h
        · rename_i hg; cases h; obtain ⟨h1, h2⟩ := hg; subst h1; subst h2; exact .resume s op rest c hp ht
        · cases h
      · cases h
  | current e =>
      simp only [next] at h
      split at h
      · rename_i op rest ht
        split at h
        · rename_i hg; cases h; obtain ⟨h1, h2⟩ := hg; subst h2; exact .current s op rest h1 ht
        · cases h
      · cases h
  | tdtor j =>
      simp only [next] at h
      split at h
      · rename_i hg; cases h; exact .tdtor s j hg.1 hg.2.1 hg.2.2
      · cases h
  | ldtor =>
      simp only [next] at h
      split at h
      · rename_i hg; cases h; exact .ldtor s hg.1 hg.2
      · cases h
  | ret =>
      simp only [next] at h
      split at h
      · rename_i hg; cases h; exact .ret s hg.1 hg.2
      · cases h
  | publish r =>
      simp only [next] at h
      split at h
      · rename_i hg; cases h; exact .publish s r hg.1 hg.2.1 hg.2.2
      · cases h
  | fdtor =>
      simp only [next] at h
      split at h
      · rename_i hg; cases h; exact .fdtor s hg.1 hg.2
      · cases h

end Yaclib.Coro
