/-
C06 — SharedFuture / SharedPromise: the callback word of a shared core used as a lock-free stack, and the
reference counter that decides between copying and moving the value out.

Written from /repo (as it is):
  `BaseCore::SetCallbackImpl<true>`  load(acq); do { if (next == kResult) return false; cb.next = next; }
                                     while (!compare_exchange_weak(next, &cb, release, acquire)); return true
  `BaseCore::SetResultImpl<·,true>`  exchange(kResult, acq_rel); walk the list head → tail running every callback,
                                     `DecRef()` *before* the last one, two more `DecRef()` after it (three if the list was empty)
  `BaseCore::Ready`                  load(acq) == kResult               (since /repo c9c07bc; the pinned tree tested
                                     `!Empty()` = "word ≠ kEmpty", true while callbacks are merely registered: defect D3)
  `SharedPromise::Set / ~SharedPromise`, `SharedFutureBase::{Ready, Get const&, Get &&, Touch const&}`, `Wait`,
  `detail::SetCallback<…FromShared…>` + `Core::Impl` (inline: run now; `Call`: `caller.IncRef()`, Submit, later
  `Call()` + `caller->DecRef()`), `Connect(const SharedFutureBase&, Promise&&)` (Share / Split targets:
  `ResultCore::Impl`: `ref = caller.GetRef(); ref >= 3 ? copy : move; if (ref == 1) caller.DecRef()`),
  `SharedCore::Retire` (When*: `GetRef() == 1 ? move : copy; DecRef()`), `AtomicCounter::{Add, SubEqual, Get}`
  (`fetch_add` relaxed, `fetch_sub` release + acquire fence, `GetRef()` = load — acquire since the D9 fix; the order
  does not matter at this level, it is C04's matter), `MakeSharedContract` (`kSharedRefWithFuture = 4` = 3 references
  of the promise + 1 of the future).

Granularity: one step per atomic operation on the word (`load`, each `compare_exchange_weak` attempt incl. the
spurious failure, `exchange`) and on the reference counter (`fetch_add`, `fetch_sub`, `load`), and one per
client-visible event (callback body invoked, job submitted, target promise fulfilled, `Ready()` reported, `Get`
returned …).  Thread-local code between two such operations is folded into the following step: the plain
`Store(result)` into the `exchange`, `Retire()`'s read of the value into its `fetch_sub`.
A combinator (When*) callback is ENTERED (`Here(caller)`: by the fulfiller's walk, or inline by the registrar when the
word already holds the result) in one step and calls `Retire()` (`GetRef()` load, then read + `DecRef()`) in two later
steps of ANY thread, with any number of steps of others in between: the Managed strategies retire at once inside `Here`,
the Owned ones keep the core and retire in the combinator's destructor, possibly on another thread.
`MutexEvent::Set` (blocking `Wait`/`Get`) is one step; the mutex/condvar protocol itself is C01/C11's matter.

Threads: ONE fulfiller (owns the SharedPromise), ANY number of observers (`obs : Nat → Obs`, the first `n` of them
have a program and one SharedFuture copy each), and an anonymous pool of executor jobs (`jobs`).
Loads of the word that are mere pre-checks (`Ready`, the first load of `SetCallbackImpl`, the value a failed CAS
returns) may be stale: they may return any value the word has ever had (any suffix of the final list).
-/
namespace Yaclib.Shared

/-- what a Result can hold, abstracted -/
inductive Res where
  | val (n : Nat) | err | exc
  deriving DecidableEq, Repr

/-- what an attached callback does when it is run (`InlineCore::Here(caller)`) -/
inductive Kind where
  | inl      -- runs the user's function at once: SubscribeInline / ThenInline / a coroutine resumed by await_suspend
  | exec     -- `Call` cores (Then(e) / Subscribe(e)): `caller.IncRef()`, Submit; the job reads the value later, then `DecRef()`
  | event    -- the stack event of Wait / Get: releases the blocked waiter
  | target   -- another promise's core (Connect / Share / Split): `ResultCore::Impl` copies or moves the value into it
  | retire   -- a combinator callback that owns one reference (When*): entered, later `Retire()` = copy-or-move + `DecRef()`
  deriving DecidableEq, Repr

/-- a callback object: created by observer `owner` as its `seq`-th one -/
structure Cb where
  owner : Nat
  seq : Nat
  kind : Kind
  deriving DecidableEq, Repr

/-- the callback word: head of the intrusive LIFO list (`[]` = kEmpty) or kResult -/
inductive Word where
  | list (l : List Cb) | result
  deriving DecidableEq, Repr

inductive Prod where
  | set (r : Res)   -- SharedPromise::Set(value / error / exception); also a `SharedFuture` coroutine's co_return
  | drop            -- ~SharedPromise on a valid promise = Set(StopTag)
  /-- the shared core is ITSELF the callback of an upstream unique core (Split(f), Connect(f, SharedPromise)) that
      completes with `r`: it is entered through `SharedCore::Here` (`sym = false`: Promise::Set / Loop) or through
      `SharedCore::Next` (`sym = true`: a coroutine finishing in final_suspend, symmetric transfer).  Both are
      `ResultCore::Impl<·, true>` with a unique caller: `GetRef()` = 1, the value is moved in, `caller.DecRef()`, and then
      the very same `SetResultImpl<·, true>` — the steps on the shared core's word and counter do not differ -/
  | up (sym : Bool) (r : Res)
  deriving DecidableEq, Repr

def Prod.res : Prod → Res
  | .set r => r
  | .drop => .err
  | .up _ r => r

/-- observer operations, each on one of the observer's own SharedFuture copies -/
inductive Op where
  | attach (k : Kind)   -- `.event` = Wait(sf)
  | getc                -- Get() const& : Wait, then read
  | getMove             -- std::move(sf).Get() : Wait, `GetRef() == 1 ? move : copy`; the copy is destroyed afterwards
  | ready               -- Ready()
  | readyTouch          -- `if (sf.Ready()) use(sf.Touch())`  (also the fast path of `co_await sf`: await_ready / await_resume)
  | copy                -- copy-construct one more SharedFuture
  | drop                -- destroy one SharedFuture
  deriving DecidableEq, Repr

/-- the kind of callback an operation attaches -/
def opKind : Op → Option Kind
  | .attach k => some k
  | .getc => some .event
  | .getMove => some .event
  | _ => none

def isReadyOp : Op → Bool
  | .ready => true
  | .readyTouch => true
  | _ => false

structure Workload where
  prod : Prod
  progs : List (List Op)
  deriving Repr

/-- progress inside one callback's `Here()` -/
inductive FSt where
  | begin
  | incd              -- exec: `caller.IncRef()` done, Submit next
  | refd (n : Nat)    -- target: `GetRef()` returned n
  | post              -- target with ref == 1: `caller.DecRef()` done (shown unreachable for a shared caller)
  deriving DecidableEq, Repr

/-- observer program counter -/
inductive OPc where
  | idle
  | att (c : Cb) (e : List Cb)   -- SetCallbackImpl<true>: `next` = e, CAS next
  | run (c : Cb) (st : FSt)      -- the push failed (result present): the observer runs its callback itself
  | evt (c : Cb)                 -- Wait part of Wait/Get: returns once `c` has fired
  | rep (x : Word)               -- Ready(): loaded x, report next
  | touching                     -- Ready() was true: Touch() const& next
  | gotRef (n : Nat)             -- Get()&&: GetRef() returned n, read next
  deriving DecidableEq, Repr

/-- fulfiller program counter -/
inductive FPc where
  | start                                        -- before the exchange
  | walk (l : List Cb) (decd : Bool) (st : FSt)  -- callbacks not yet fired (head first); `decd`: the DecRef before the last one is done
  | dec (n : Nat)                                -- n trailing DecRef()s to go; `dec 0` = finished
  deriving DecidableEq, Repr

structure Obs where
  pc : OPc
  todo : List Op
  /-- references to the core this thread owns: its SharedFuture copies, an `IncRef` made for a job that is not
      submitted yet, the reference of a When-style callback that is not pushed yet -/
  refs : Nat
  seq : Nat
  deriving Repr

structure State where
  w : Workload
  n : Nat                          -- number of observers that have a program
  word : Word
  stored : Option Res              -- result storage; `none` = not constructed
  count : Nat                      -- AtomicCounter::count of the core
  fpc : FPc
  obs : Nat → Obs
  jobs : List Cb                   -- `exec` callbacks submitted to their executor, not called yet
  jobsRun : List Cb                -- called (value read), `caller->DecRef()` pending
  rets : List Cb                   -- `retire` callbacks that were entered and still own their reference: Retire() pending
  retsLd : List (Cb × Nat)         -- … whose Retire() has read `GetRef()` = n
  -- ghost
  chain : List Cb                  -- every callback ever pushed, newest first (= the list while the word is a list)
  holders : Nat                    -- Σ refs
  registered : List Cb             -- callback objects created (SetCallback called with them)
  inflight : List Cb               -- … that are still in their owner's hands (being pushed / being run inline)
  fired : List (Cb × Option Res)   -- callback ran (entered) / waiter released / target fulfilled: with the storage content it saw
  retired : List (Cb × Option Res × Bool)   -- Retire() returned: value, moved?
  got : List (Nat × Option Res × Bool)      -- Get()&& returned: thread, value, moved?
  getcObs : List (Nat × Option Res)         -- Get() const& returned
  readyObs : List (Word × Bool)    -- Ready(): the word value it loaded, was the storage constructed when it reported
  touchObs : List (Option Res)     -- what `Touch() const&` after `Ready() == true` read
  movedOut : Bool                  -- somebody moved the value out of the core
  freed : Nat                      -- number of times the core was deleted

def upd (f : Nat → Obs) (t : Nat) (o : Obs) : Nat → Obs := fun j => if j = t then o else f j

/-- the promise's share of `kSharedRefWithFuture = 4` (= `kSharedRefNoFuture`) -/
def promiseRefs : Nat := 3

def init (w : Workload) : State :=
  { w := w, n := w.progs.length, word := .list [], stored := none, count := promiseRefs + w.progs.length, fpc := .start,
    obs := fun t => { pc := .idle, todo := w.progs.getD t [], refs := if t < w.progs.length then 1 else 0, seq := 0 },
    jobs := [], jobsRun := [], rets := [], retsLd := [], retired := [], chain := [], holders := w.progs.length, registered := [], inflight := [], fired := [],
    got := [], getcObs := [], readyObs := [], touchObs := [], movedOut := false, freed := 0 }

inductive Label where
  -- fulfiller
  | fXchg (old : Word)                                  -- exchange(kResult, acq_rel) → old
  | fDec (n : Nat)                                      -- DecRef(): fetch_sub(1, release) → n
  | fInvoke (c : Cb) (r : Option Res)                   -- inline callback body runs, sees r
  | fSet (c : Cb)                                       -- MutexEvent::Set of a waiter
  | fIncRef (n : Nat)                                   -- exec: caller.IncRef(): fetch_add(1, relaxed) → n
  | fSubmit (c : Cb)
  | fRefLoad (n : Nat)                                  -- target: GetRef(): load → n
  | fForward (c : Cb) (r : Option Res) (mv : Bool)      -- target promise fulfilled with r (moved out of the core?)
  | fEnter (c : Cb)                                     -- a combinator callback is entered by the walk
  -- observer t
  | oLoad (t : Nat) (x : Word)                          -- SetCallbackImpl: first load
  | oCasOk (t : Nat)
  | oCasFail (t : Nat) (x : Word)                       -- compare_exchange_weak failed, `next` := x
  | oCasSpur (t : Nat) (x : Word)                       -- … spuriously
  | oInvoke (t : Nat) (c : Cb) (r : Option Res)
  | oIncRef (t : Nat) (n : Nat)
  | oSubmit (t : Nat) (c : Cb)
  | oForward (t : Nat) (c : Cb) (r : Option Res)        -- Connect's else-branch: `p.Set(f.Touch())`, always a copy
  | oEnter (t : Nat) (c : Cb)                           -- … or inline by its registrar
  | oWaited (t : Nat)
  | oGetc (t : Nat) (r : Option Res)
  | oGetRef (t : Nat) (n : Nat)
  | oGot (t : Nat) (r : Option Res) (mv : Bool)
  | oRdLoad (t : Nat) (x : Word)                        -- Ready(): BaseCore::Ready()'s load
  | oReady (t : Nat) (b : Bool)
  | oTouch (t : Nat) (r : Option Res)
  | oCopy (t : Nat) (n : Nat)
  | oDrop (t : Nat) (n : Nat)
  -- executor jobs
  | jInvoke (c : Cb) (r : Option Res)
  | jDec (c : Cb) (n : Nat)
  -- Retire() of an entered combinator callback, by whoever holds the combinator
  | rRefLoad (c : Cb) (n : Nat)                         -- GetRef(): load → n
  | rRetire (c : Cb) (r : Option Res) (mv : Bool) (n : Nat)   -- read r (moved iff GetRef() was 1), DecRef(): fetch_sub → n
  deriving DecidableEq, Repr

/-! ### effects -/

/-- `l` is a value the word has had: a suffix of the chain -/
def staleOk (l chain : List Cb) : Prop := chain.drop (chain.length - l.length) = l

instance (l chain : List Cb) : Decidable (staleOk l chain) := by unfold staleOk; exact inferInstance

/-- values a (non-RMW) load of the word may return -/
def loadOk (s : State) : Word → Prop
  | .result => s.word = .result
  | .list l => staleOk l s.chain

instance (s : State) (x : Word) : Decidable (loadOk s x) := by cases x <;> (unfold loadOk; exact inferInstance)

/-- DecRef(): fetch_sub(1); the thread that takes the counter to zero deletes the core -/
def decCount (s : State) : State :=
  { s with count := s.count - 1, freed := if s.count = 1 then s.freed + 1 else s.freed }

def nextOp (o : Obs) : Obs := { o with pc := .idle, todo := o.todo.tail }

/-- where the walk goes after the head has been fired -/
def advance (rest : List Cb) : FPc := if rest = [] then .dec 2 else .walk rest false .begin

/-- the last callback is run only after the first DecRef() -/
def canFire (rest : List Cb) (d : Bool) : Prop := rest = [] → d = true

instance (rest : List Cb) (d : Bool) : Decidable (canFire rest d) := by unfold canFire; exact inferInstance

def doXchg (s : State) (l : List Cb) : State :=
  { s with word := .result, stored := some s.w.prod.res, fpc := if l = [] then .dec 3 else .walk l false .begin }

def doFFire (s : State) (c : Cb) (rest : List Cb) : State :=
  { s with fpc := advance rest, fired := s.fired ++ [(c, s.stored)] }

def doFForward (s : State) (c : Cb) (rest : List Cb) (mv : Bool) : State :=
  { s with fpc := advance rest, fired := s.fired ++ [(c, s.stored)], movedOut := s.movedOut || mv }

def doFEnter (s : State) (c : Cb) (rest : List Cb) : State :=
  { s with fpc := advance rest, fired := s.fired ++ [(c, s.stored)], rets := s.rets ++ [c] }

/-- SetCallbackImpl saw kResult: `return false`.  A waiter simply does not wait; everything else runs its callback itself. -/
def failPath (s : State) (t : Nat) (o : Obs) (c : Cb) : State :=
  if c.kind = .event then
    { s with obs := upd s.obs t { o with pc := .evt c }, fired := s.fired ++ [(c, s.stored)], inflight := s.inflight.erase c }
  else { s with obs := upd s.obs t { o with pc := .run c .begin } }

/-- `next` := x; leave the loop if it is kResult -/
def reload (s : State) (t : Nat) (o : Obs) (c : Cb) (x : Word) : State :=
  match x with
  | .list l => { s with obs := upd s.obs t { o with pc := .att c l } }
  | .result => failPath s t o c

def doLoad (s : State) (t : Nat) (k : Kind) (x : Word) : State :=
  let o := s.obs t
  let c : Cb := ⟨t, o.seq, k⟩
  reload { s with registered := s.registered ++ [c], inflight := s.inflight ++ [c] } t { o with seq := o.seq + 1 } c x

def doCasOk (s : State) (t : Nat) (c : Cb) (e : List Cb) : State :=
  let o := s.obs t
  if c.kind = .event then
    { s with word := .list (c :: e), chain := c :: s.chain, inflight := s.inflight.erase c,
             obs := upd s.obs t { o with pc := .evt c } }
  else if c.kind = .retire then
    -- the callback now owns the reference the future had (`GetCore().Release()`)
    { s with word := .list (c :: e), chain := c :: s.chain, inflight := s.inflight.erase c, holders := s.holders - 1,
             obs := upd s.obs t { nextOp o with refs := o.refs - 1 } }
  else
    { s with word := .list (c :: e), chain := c :: s.chain, inflight := s.inflight.erase c, obs := upd s.obs t (nextOp o) }

def doOInvoke (s : State) (t : Nat) (c : Cb) : State :=
  { s with fired := s.fired ++ [(c, s.stored)], inflight := s.inflight.erase c, obs := upd s.obs t (nextOp (s.obs t)) }

def doOIncRef (s : State) (t : Nat) (c : Cb) : State :=
  let o := s.obs t
  { s with count := s.count + 1, holders := s.holders + 1, obs := upd s.obs t { o with pc := .run c .incd, refs := o.refs + 1 } }

def doOSubmit (s : State) (t : Nat) (c : Cb) : State :=
  let o := s.obs t
  { s with jobs := s.jobs ++ [c], inflight := s.inflight.erase c, holders := s.holders - 1,
           obs := upd s.obs t { nextOp o with refs := o.refs - 1 } }

/-- the registrar enters its own combinator callback: the reference the future had now belongs to the combinator -/
def doOEnter (s : State) (t : Nat) (c : Cb) : State :=
  let o := s.obs t
  { s with fired := s.fired ++ [(c, s.stored)], inflight := s.inflight.erase c, rets := s.rets ++ [c],
           holders := s.holders - 1, obs := upd s.obs t { nextOp o with refs := o.refs - 1 } }

def doGetc (s : State) (t : Nat) : State :=
  { s with getcObs := s.getcObs ++ [(t, s.stored)], obs := upd s.obs t (nextOp (s.obs t)) }

def doGot (s : State) (t : Nat) (mv : Bool) : State :=
  let o := s.obs t
  { s with got := s.got ++ [(t, s.stored, mv)], movedOut := s.movedOut || mv,
           obs := upd s.obs t { o with pc := .idle, todo := .drop :: o.todo.tail } }

/-- after `Ready()` reported: `readyTouch` goes on to `Touch()` if it was true -/
def readyNext (o : Obs) (x : Word) : Obs :=
  if x = .result ∧ o.todo.head? = some .readyTouch then { o with pc := .touching } else nextOp o

def doReady (s : State) (t : Nat) (x : Word) : State :=
  { s with readyObs := s.readyObs ++ [(x, s.stored.isSome)], obs := upd s.obs t (readyNext (s.obs t) x) }

def doTouch (s : State) (t : Nat) : State :=
  { s with touchObs := s.touchObs ++ [s.stored], obs := upd s.obs t (nextOp (s.obs t)) }

def doCopy (s : State) (t : Nat) : State :=
  let o := s.obs t
  { s with count := s.count + 1, holders := s.holders + 1, obs := upd s.obs t { nextOp o with refs := o.refs + 1 } }

def doDrop (s : State) (t : Nat) : State :=
  let o := s.obs t
  { decCount s with holders := s.holders - 1, obs := upd s.obs t { nextOp o with refs := o.refs - 1 } }

def doJInvoke (s : State) (c : Cb) : State :=
  { s with fired := s.fired ++ [(c, s.stored)], jobs := s.jobs.erase c, jobsRun := s.jobsRun ++ [c] }

def doJDec (s : State) (c : Cb) : State :=
  { decCount s with jobsRun := s.jobsRun.erase c }

def doRRefLoad (s : State) (c : Cb) : State :=
  { s with rets := s.rets.erase c, retsLd := s.retsLd ++ [(c, s.count)] }

def doRRetire (s : State) (c : Cb) (n : Nat) : State :=
  { decCount s with retsLd := s.retsLd.erase (c, n), retired := s.retired ++ [(c, s.stored, decide (n = 1))],
                    movedOut := s.movedOut || decide (n = 1) }

def firedIds (s : State) : List Cb := s.fired.map (·.1)

inductive Step : State → Label → State → Prop where
  /-- SharedPromise::Set / ~SharedPromise / SharedCore::Here / SharedCore::Next: Store, then `exchange(kResult)` -/
  | fXchg (s : State) (l : List Cb) (h : s.fpc = .start) (hw : s.word = .list l) : Step s (.fXchg (.list l)) (doXchg s l)
  /-- the DecRef() placed before the last callback -/
  | fDec1 (s : State) (c : Cb) (h : s.fpc = .walk [c] false .begin) :
      Step s (.fDec s.count) { decCount s with fpc := .walk [c] true .begin }
  | fInvoke (s : State) (c : Cb) (rest : List Cb) (d : Bool) (h : s.fpc = .walk (c :: rest) d .begin)
      (hk : c.kind = .inl) (hf : canFire rest d) : Step s (.fInvoke c s.stored) (doFFire s c rest)
  | fSet (s : State) (c : Cb) (rest : List Cb) (d : Bool) (h : s.fpc = .walk (c :: rest) d .begin)
      (hk : c.kind = .event) (hf : canFire rest d) : Step s (.fSet c) (doFFire s c rest)
  | fIncRef (s : State) (c : Cb) (rest : List Cb) (d : Bool) (h : s.fpc = .walk (c :: rest) d .begin)
      (hk : c.kind = .exec) (hf : canFire rest d) :
      Step s (.fIncRef s.count) { s with count := s.count + 1, fpc := .walk (c :: rest) d .incd }
  | fSubmit (s : State) (c : Cb) (rest : List Cb) (d : Bool) (h : s.fpc = .walk (c :: rest) d .incd) :
      Step s (.fSubmit c) { s with fpc := advance rest, jobs := s.jobs ++ [c] }
  /-- ResultCore::Impl: `GetRef()` -/
  | fRefLoad (s : State) (c : Cb) (rest : List Cb) (d : Bool) (h : s.fpc = .walk (c :: rest) d .begin)
      (hk : c.kind = .target) (hf : canFire rest d) :
      Step s (.fRefLoad s.count) { s with fpc := .walk (c :: rest) d (.refd s.count) }
  /-- ResultCore::Impl: `if (ref == 1) caller.DecRef()` -/
  | fTargetDec (s : State) (c : Cb) (rest : List Cb) (d : Bool) (h : s.fpc = .walk (c :: rest) d (.refd 1))
      (hk : c.kind = .target) : Step s (.fDec s.count) { decCount s with fpc := .walk (c :: rest) d .post }
  /-- ResultCore::Impl: `ref >= 3` copies, otherwise moves; then the target's own SetResult -/
  | fForward (s : State) (c : Cb) (rest : List Cb) (d : Bool) (n : Nat) (h : s.fpc = .walk (c :: rest) d (.refd n))
      (hk : c.kind = .target) (hn : n ≠ 1) :
      Step s (.fForward c s.stored (decide (n < 3))) (doFForward s c rest (decide (n < 3)))
  | fForwardPost (s : State) (c : Cb) (rest : List Cb) (d : Bool) (h : s.fpc = .walk (c :: rest) d .post)
      (hk : c.kind = .target) : Step s (.fForward c s.stored true) (doFForward s c rest true)
  /-- a combinator callback's `Here(caller)`: from now on the combinator may `Retire()` -/
  | fEnter (s : State) (c : Cb) (rest : List Cb) (d : Bool) (h : s.fpc = .walk (c :: rest) d .begin)
      (hk : c.kind = .retire) (hf : canFire rest d) : Step s (.fEnter c) (doFEnter s c rest)
  /-- the trailing DecRef()s -/
  | fDec (s : State) (k : Nat) (h : s.fpc = .dec (k + 1)) : Step s (.fDec s.count) { decCount s with fpc := .dec k }
  /-- SetCallbackImpl<true>: the first load (may be stale) -/
  | oLoad (s : State) (t : Nat) (op : Op) (rest : List Op) (k : Kind) (x : Word)
      (h : (s.obs t).pc = .idle) (ht : (s.obs t).todo = op :: rest) (hk : opKind op = some k)
      (hr : 0 < (s.obs t).refs) (hx : loadOk s x) : Step s (.oLoad t x) (doLoad s t k x)
  | oCasOk (s : State) (t : Nat) (c : Cb) (e : List Cb) (h : (s.obs t).pc = .att c e) (hw : s.word = .list e) :
      Step s (.oCasOk t) (doCasOk s t c e)
  | oCasFail (s : State) (t : Nat) (c : Cb) (e : List Cb) (x : Word) (h : (s.obs t).pc = .att c e)
      (hw : s.word ≠ .list e) (hx : loadOk s x) : Step s (.oCasFail t x) (reload s t (s.obs t) c x)
  | oCasSpur (s : State) (t : Nat) (c : Cb) (e : List Cb) (x : Word) (h : (s.obs t).pc = .att c e)
      (hw : s.word = .list e) (hx : loadOk s x) : Step s (.oCasSpur t x) (reload s t (s.obs t) c x)
  /-- the observer found the result: it runs its own callback (`Step(*this, callback)` → `Loop`) -/
  | oInvoke (s : State) (t : Nat) (c : Cb) (h : (s.obs t).pc = .run c .begin) (hk : c.kind = .inl) :
      Step s (.oInvoke t c s.stored) (doOInvoke s t c)
  | oIncRef (s : State) (t : Nat) (c : Cb) (h : (s.obs t).pc = .run c .begin) (hk : c.kind = .exec) :
      Step s (.oIncRef t s.count) (doOIncRef s t c)
  | oSubmit (s : State) (t : Nat) (c : Cb) (h : (s.obs t).pc = .run c .incd) : Step s (.oSubmit t c) (doOSubmit s t c)
  | oForward (s : State) (t : Nat) (c : Cb) (h : (s.obs t).pc = .run c .begin) (hk : c.kind = .target) :
      Step s (.oForward t c s.stored) (doOInvoke s t c)
  | oEnter (s : State) (t : Nat) (c : Cb) (h : (s.obs t).pc = .run c .begin) (hk : c.kind = .retire) :
      Step s (.oEnter t c) (doOEnter s t c)
  /-- Wait(sf) returned -/
  | oWaited (s : State) (t : Nat) (c : Cb) (rest : List Op) (h : (s.obs t).pc = .evt c)
      (ht : (s.obs t).todo = .attach .event :: rest) (hf : c ∈ firedIds s) :
      Step s (.oWaited t) { s with obs := upd s.obs t (nextOp (s.obs t)) }
  /-- Get() const&: Wait, read -/
  | oGetc (s : State) (t : Nat) (c : Cb) (rest : List Op) (h : (s.obs t).pc = .evt c)
      (ht : (s.obs t).todo = .getc :: rest) (hf : c ∈ firedIds s) : Step s (.oGetc t s.stored) (doGetc s t)
  /-- Get() &&: Wait, `GetRef() == 1` ? move : copy -/
  | oGetRef (s : State) (t : Nat) (c : Cb) (rest : List Op) (h : (s.obs t).pc = .evt c)
      (ht : (s.obs t).todo = .getMove :: rest) (hf : c ∈ firedIds s) :
      Step s (.oGetRef t s.count) { s with obs := upd s.obs t { s.obs t with pc := .gotRef s.count } }
  | oGot (s : State) (t : Nat) (n : Nat) (h : (s.obs t).pc = .gotRef n) :
      Step s (.oGot t s.stored (decide (n = 1))) (doGot s t (decide (n = 1)))
  /-- Ready(): `BaseCore::Ready()`, one acquire load (may be stale), true iff it saw kResult -/
  | oRdLoad (s : State) (t : Nat) (op : Op) (rest : List Op) (x : Word) (h : (s.obs t).pc = .idle)
      (ht : (s.obs t).todo = op :: rest) (hop : isReadyOp op = true) (hr : 0 < (s.obs t).refs) (hx : loadOk s x) :
      Step s (.oRdLoad t x) { s with obs := upd s.obs t { s.obs t with pc := .rep x } }
  | oReady (s : State) (t : Nat) (x : Word) (h : (s.obs t).pc = .rep x) :
      Step s (.oReady t (decide (x = .result))) (doReady s t x)
  | oTouch (s : State) (t : Nat) (h : (s.obs t).pc = .touching) : Step s (.oTouch t s.stored) (doTouch s t)
  | oCopy (s : State) (t : Nat) (rest : List Op) (h : (s.obs t).pc = .idle) (ht : (s.obs t).todo = .copy :: rest)
      (hr : 0 < (s.obs t).refs) : Step s (.oCopy t s.count) (doCopy s t)
  | oDrop (s : State) (t : Nat) (rest : List Op) (h : (s.obs t).pc = .idle) (ht : (s.obs t).todo = .drop :: rest)
      (hr : 0 < (s.obs t).refs) : Step s (.oDrop t s.count) (doDrop s t)
  /-- an executor runs a submitted job: `Call()` reads the value …  -/
  | jInvoke (s : State) (c : Cb) (h : c ∈ s.jobs) : Step s (.jInvoke c s.stored) (doJInvoke s c)
  /-- … and `Done()` releases the reference taken in `Impl` -/
  | jDec (s : State) (c : Cb) (h : c ∈ s.jobsRun) : Step s (.jDec c s.count) (doJDec s c)
  /-- SharedCore::Retire, first half: `GetRef()` -/
  | rRefLoad (s : State) (c : Cb) (h : c ∈ s.rets) : Step s (.rRefLoad c s.count) (doRRefLoad s c)
  /-- … second half: `== 1 ? move : copy`, `DecRef()` -/
  | rRetire (s : State) (c : Cb) (n : Nat) (h : (c, n) ∈ s.retsLd) :
      Step s (.rRetire c s.stored (decide (n = 1)) s.count) (doRRetire s c n)

inductive Reachable (w : Workload) : State → Prop where
  | init : Reachable w (init w)
  | step {s l s'} : Reachable w s → Step s l s' → Reachable w s'

/-- executable transition function used by the trace validator (`ymdriver`) -/
def next (s : State) : Label → Option State
  | .fXchg old =>
      match s.word with
      | .list l => if s.fpc = .start ∧ old = .list l then some (doXchg s l) else none
      | .result => none
  | .fDec n =>
      if n = s.count then
        match s.fpc with
        | .walk [c] false .begin => some { decCount s with fpc := .walk [c] true .begin }
        | .walk (c :: rest) d (.refd 1) =>
            if c.kind = .target then some { decCount s with fpc := .walk (c :: rest) d .post } else none
        | .dec (k + 1) => some { decCount s with fpc := .dec k }
        | _ => none
      else none
  | .fInvoke c r =>
      match s.fpc with
      | .walk (c' :: rest) d .begin =>
          if c' = c ∧ c.kind = .inl ∧ canFire rest d ∧ r = s.stored then some (doFFire s c rest) else none
      | _ => none
  | .fSet c =>
      match s.fpc with
      | .walk (c' :: rest) d .begin =>
          if c' = c ∧ c.kind = .event ∧ canFire rest d then some (doFFire s c rest) else none
      | _ => none
  | .fIncRef n =>
      match s.fpc with
      | .walk (c :: rest) d .begin =>
          if c.kind = .exec ∧ canFire rest d ∧ n = s.count
          then some { s with count := s.count + 1, fpc := .walk (c :: rest) d .incd } else none
      | _ => none
  | .fSubmit c =>
      match s.fpc with
      | .walk (c' :: rest) _ .incd => if c' = c then some { s with fpc := advance rest, jobs := s.jobs ++ [c] } else none
      | _ => none
  | .fRefLoad n =>
      match s.fpc with
      | .walk (c :: rest) d .begin =>
          if c.kind = .target ∧ canFire rest d ∧ n = s.count
          then some { s with fpc := .walk (c :: rest) d (.refd s.count) } else none
      | _ => none
  | .fForward c r mv =>
      match s.fpc with
      | .walk (c' :: rest) _ (.refd n) =>
          if c' = c ∧ c.kind = .target ∧ n ≠ 1 ∧ r = s.stored ∧ mv = decide (n < 3)
          then some (doFForward s c rest (decide (n < 3))) else none
      | .walk (c' :: rest) _ .post =>
          if c' = c ∧ c.kind = .target ∧ r = s.stored ∧ mv = true then some (doFForward s c rest true) else none
      | _ => none
  | .fEnter c =>
      match s.fpc with
      | .walk (c' :: rest) d .begin =>
          if c' = c ∧ c.kind = .retire ∧ canFire rest d then some (doFEnter s c rest) else none
      | _ => none
  | .oLoad t x =>
      if (s.obs t).pc = .idle ∧ 0 < (s.obs t).refs ∧ loadOk s x then
        match (s.obs t).todo with
        | op :: _ => (match opKind op with
            | some k => some (doLoad s t k x)
            | none => none)
        | [] => none
      else none
  | .oCasOk t =>
      match (s.obs t).pc with
      | .att c e => if s.word = .list e then some (doCasOk s t c e) else none
      | _ => none
  | .oCasFail t x =>
      match (s.obs t).pc with
      | .att c e => if s.word ≠ .list e ∧ loadOk s x then some (reload s t (s.obs t) c x) else none
      | _ => none
  | .oCasSpur t x =>
      match (s.obs t).pc with
      | .att c e => if s.word = .list e ∧ loadOk s x then some (reload s t (s.obs t) c x) else none
      | _ => none
  | .oInvoke t c r =>
      if (s.obs t).pc = .run c .begin ∧ c.kind = .inl ∧ r = s.stored then some (doOInvoke s t c) else none
  | .oIncRef t n =>
      match (s.obs t).pc with
      | .run c .begin => if c.kind = .exec ∧ n = s.count then some (doOIncRef s t c) else none
      | _ => none
  | .oSubmit t c => if (s.obs t).pc = .run c .incd then some (doOSubmit s t c) else none
  | .oForward t c r =>
      if (s.obs t).pc = .run c .begin ∧ c.kind = .target ∧ r = s.stored then some (doOInvoke s t c) else none
  | .oEnter t c => if (s.obs t).pc = .run c .begin ∧ c.kind = .retire then some (doOEnter s t c) else none
  | .oWaited t =>
      match (s.obs t).pc, (s.obs t).todo with
      | .evt c, .attach .event :: _ => if c ∈ firedIds s then some { s with obs := upd s.obs t (nextOp (s.obs t)) } else none
      | _, _ => none
  | .oGetc t r =>
      match (s.obs t).pc, (s.obs t).todo with
      | .evt c, .getc :: _ => if c ∈ firedIds s ∧ r = s.stored then some (doGetc s t) else none
      | _, _ => none
  | .oGetRef t n =>
      match (s.obs t).pc, (s.obs t).todo with
      | .evt c, .getMove :: _ =>
          if c ∈ firedIds s ∧ n = s.count then some { s with obs := upd s.obs t { s.obs t with pc := .gotRef s.count } } else none
      | _, _ => none
  | .oGot t r mv =>
      match (s.obs t).pc with
      | .gotRef n => if r = s.stored ∧ mv = decide (n = 1) then some (doGot s t (decide (n = 1))) else none
      | _ => none
  | .oRdLoad t x =>
      if (s.obs t).pc = .idle ∧ 0 < (s.obs t).refs ∧ loadOk s x then
        match (s.obs t).todo with
        | op :: _ => if isReadyOp op = true then some { s with obs := upd s.obs t { s.obs t with pc := .rep x } } else none
        | [] => none
      else none
  | .oReady t b =>
      match (s.obs t).pc with
      | .rep x => if b = decide (x = .result) then some (doReady s t x) else none
      | _ => none
  | .oTouch t r => if (s.obs t).pc = .touching ∧ r = s.stored then some (doTouch s t) else none
  | .oCopy t n =>
      if (s.obs t).pc = .idle ∧ 0 < (s.obs t).refs ∧ n = s.count then
        match (s.obs t).todo with
        | .copy :: _ => some (doCopy s t)
        | _ => none
      else none
  | .oDrop t n =>
      if (s.obs t).pc = .idle ∧ 0 < (s.obs t).refs ∧ n = s.count then
        match (s.obs t).todo with
        | .drop :: _ => some (doDrop s t)
        | _ => none
      else none
  | .jInvoke c r => if c ∈ s.jobs ∧ r = s.stored then some (doJInvoke s c) else none
  | .jDec c n => if c ∈ s.jobsRun ∧ n = s.count then some (doJDec s c) else none
  | .rRefLoad c n => if c ∈ s.rets ∧ n = s.count then some (doRRefLoad s c) else none
  | .rRetire c r mv n =>
      match s.retsLd.find? (fun p => p.1 = c) with
      | some (c', m) =>
          if c' = c ∧ (c, m) ∈ s.retsLd ∧ r = s.stored ∧ mv = decide (m = 1) ∧ n = s.count then some (doRRetire s c m) else none
      | none => none

/-- labels of steps that read the result storage -/
def Label.reads : Label → Bool
  | .fInvoke .. => true | .fForward .. => true | .rRetire .. => true
  | .oInvoke .. => true | .oForward .. => true
  | .oGetc .. => true | .oGot .. => true | .oTouch .. => true | .jInvoke .. => true
  | _ => false

/-- labels of steps that move the value out -/
def Label.moves : Label → Bool
  | .fForward _ _ mv => mv | .rRetire _ _ mv _ => mv | .oGot _ _ mv => mv
  | _ => false

theorem next_sound {s : State} {l : Label} {s' : State} (h : next s l = some s') : Step s l s' := by
  cases l with
  | fXchg old =>
      simp only [next] at h
      split at h
      · rename_i l hw
        split at h
        · rename_i hg; cases h; rw [hg.2]; exact .fXchg s l hg.1 hw
        · cases h
      · cases h
  | fDec n =>
      simp only [next] at h
      split at h
      · rename_i hn; subst hn
        split at h
        · rename_i c hp; cases h; exact .fDec1 s c hp
        · rename_i c rest d hp
          split at h
          · rename_i hk; cases h; exact .fTargetDec s c rest d hp hk
          · cases h
        · rename_i k hp; cases h; exact .fDec s k hp
        · cases h
      · cases h
  | fInvoke c r =>
      simp only [next] at h
      split at h
      · rename_i c' rest d hp
        split at h
        · rename_i hg; obtain ⟨h1, h2, h3, h4⟩ := hg; cases h; subst h1; subst h4; exact .fInvoke s c' rest d hp h2 h3
        · cases h
      · cases h
  | fSet c =>
      simp only [next] at h
      split at h
      · rename_i c' rest d hp
        split at h
        · rename_i hg; obtain ⟨h1, h2, h3⟩ := hg; cases h; subst h1; exact .fSet s c' rest d hp h2 h3
        · cases h
      · cases h
  | fIncRef n =>
      simp only [next] at h
      split at h
      · rename_i c rest d hp
        split at h
        · rename_i hg; obtain ⟨h1, h2, h3⟩ := hg; cases h; subst h3; exact .fIncRef s c rest d hp h1 h2
        · cases h
      · cases h
  | fSubmit c =>
      simp only [next] at h
      split at h
      · rename_i c' rest d hp
        split at h
        · rename_i hg; cases h; subst hg; exact .fSubmit s c' rest d hp
        · cases h
      · cases h
  | fRefLoad n =>
      simp only [next] at h
      split at h
      · rename_i c rest d hp
        split at h
        · rename_i hg; obtain ⟨h1, h2, h3⟩ := hg; cases h; subst h3; exact .fRefLoad s c rest d hp h1 h2
        · cases h
      · cases h
  | fForward c r mv =>
      simp only [next] at h
      split at h
      · rename_i c' rest d n hp
        split at h
        · rename_i hg; obtain ⟨h1, h2, h3, h4, h5⟩ := hg; cases h; subst h1; subst h4; subst h5
          exact .fForward s c' rest d n hp h2 h3
        · cases h
      · rename_i c' rest d hp
        split at h
        · rename_i hg; obtain ⟨h1, h2, h3, h4⟩ := hg; cases h; subst h1; subst h3; subst h4
          exact .fForwardPost s c' rest d hp h2
        · cases h
      · cases h
  | fEnter c =>
      simp only [next] at h
      split at h
      · rename_i c' rest d hp
        split at h
        · rename_i hg; obtain ⟨h1, h2, h3⟩ := hg; cases h; subst h1; exact .fEnter s c' rest d hp h2 h3
        · cases h
      · cases h
  | oLoad t x =>
      simp only [next] at h
      split at h
      · rename_i hg
        split at h
        · rename_i op rest ht
          split at h
          · rename_i k hk; cases h; exact .oLoad s t op rest k x hg.1 ht hk hg.2.1 hg.2.2
          · cases h
        · cases h
      · cases h
  | oCasOk t =>
      simp only [next] at h
      split at h
      · rename_i c e hp
        split at h
        · rename_i hw; cases h; exact .oCasOk s t c e hp hw
        · cases h
      · cases h
  | oCasFail t x =>
      simp only [next] at h
      split at h
      · rename_i c e hp
        split at h
        · rename_i hg; cases h; exact .oCasFail s t c e x hp hg.1 hg.2
        · cases h
      · cases h
  | oCasSpur t x =>
      simp only [next] at h
      split at h
      · rename_i c e hp
        split at h
        · rename_i hg; cases h; exact .oCasSpur s t c e x hp hg.1 hg.2
        · cases h
      · cases h
  | oInvoke t c r =>
      simp only [next] at h
      split at h
      · rename_i hg; obtain ⟨h1, h2, h3⟩ := hg; cases h; subst h3; exact .oInvoke s t c h1 h2
      · cases h
  | oIncRef t n =>
      simp only [next] at h
      split at h
      · rename_i c hp
        split at h
        · rename_i hg; cases h; rw [hg.2]; exact .oIncRef s t c hp hg.1
        · cases h
      · cases h
  | oSubmit t c =>
      simp only [next] at h
      split at h
      · rename_i hg; cases h; exact .oSubmit s t c hg
      · cases h
  | oForward t c r =>
      simp only [next] at h
      split at h
      · rename_i hg; obtain ⟨h1, h2, h3⟩ := hg; cases h; subst h3; exact .oForward s t c h1 h2
      · cases h
  | oEnter t c =>
      simp only [next] at h
      split at h
      · rename_i hg; cases h; exact .oEnter s t c hg.1 hg.2
      · cases h
  | oWaited t =>
      simp only [next] at h
      split at h
      · rename_i c rest hp ht
        split at h
        · rename_i hf; cases h; exact .oWaited s t c rest hp ht hf
        · cases h
      · cases h
  | oGetc t r =>
      simp only [next] at h
      split at h
      · rename_i c rest hp ht
        split at h
        · rename_i hg; cases h; rw [hg.2]; exact .oGetc s t c rest hp ht hg.1
        · cases h
      · cases h
  | oGetRef t n =>
      simp only [next] at h
      split at h
      · rename_i c rest hp ht
        split at h
        · rename_i hg; cases h; rw [hg.2]; exact .oGetRef s t c rest hp ht hg.1
        · cases h
      · cases h
  | oGot t r mv =>
      simp only [next] at h
      split at h
      · rename_i n hp
        split at h
        · rename_i hg; cases h; rw [hg.1, hg.2]; exact .oGot s t n hp
        · cases h
      · cases h
  | oRdLoad t x =>
      simp only [next] at h
      split at h
      · rename_i hg
        split at h
        · rename_i op rest ht
          split at h
          · rename_i hop; cases h; exact .oRdLoad s t op rest x hg.1 ht hop hg.2.1 hg.2.2
          · cases h
        · cases h
      · cases h
  | oReady t b =>
      simp only [next] at h
      split at h
      · rename_i x hp
        split at h
        · rename_i hb; cases h; rw [hb]; exact .oReady s t x hp
        · cases h
      · cases h
  | oTouch t r =>
      simp only [next] at h
      split at h
      · rename_i hg; cases h; rw [hg.2]; exact .oTouch s t hg.1
      · cases h
  | oCopy t n =>
      simp only [next] at h
      split at h
      · rename_i hg
        split at h
        · rename_i rest ht; cases h; rw [hg.2.2]; exact .oCopy s t rest hg.1 ht hg.2.1
        · cases h
      · cases h
  | oDrop t n =>
      simp only [next] at h
      split at h
      · rename_i hg
        split at h
        · rename_i rest ht; cases h; rw [hg.2.2]; exact .oDrop s t rest hg.1 ht hg.2.1
        · cases h
      · cases h
  | jInvoke c r =>
      simp only [next] at h
      split at h
      · rename_i hg; cases h; rw [hg.2]; exact .jInvoke s c hg.1
      · cases h
  | jDec c n =>
      simp only [next] at h
      split at h
      · rename_i hg; cases h; rw [hg.2]; exact .jDec s c hg.1
      · cases h
  | rRefLoad c n =>
      simp only [next] at h
      split at h
      · rename_i hg; cases h; rw [hg.2]; exact .rRefLoad s c hg.1
      · cases h
  | rRetire c r mv n =>
      simp only [next] at h
      split at h
      · rename_i c' m hf
        split at h
        · rename_i hg; obtain ⟨h1, h2, h3, h4, h5⟩ := hg; cases h; subst h3; subst h4; subst h5
          exact .rRetire s c m h2
        · cases h
      · cases h

end Yaclib.Shared
