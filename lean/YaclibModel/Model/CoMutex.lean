/-
C14 — coroutine Mutex (`yaclib::Mutex<Batching, FIFO>`).

Written from /repo: `detail::MutexImpl<FIFO, Batching>::{TryLockAwait, AwaitLock, TryUnlockAwait, BatchingPossible,
UnlockHereAwait, AwaitUnlock, AwaitUnlockOn, TryLock, UnlockHere, GetHead}`, `UnlockAwaiter`, `UnlockOnAwaiter`
(include/yaclib/coro/mutex.hpp), `LockAwaiter`, `GuardAwaiter` (coro/detail/mutex_awaiter.hpp), `Guard`/`UniqueGuard`
(coro/guard.hpp), `LockStickyAwaiter`, `UnlockStickyAwaiter`, `StickyGuard`, `GuardStickyAwaiter` (coro/guard_sticky.hpp).

State of the implementation: the atomic word `_sender` ∈ {kNotLocked, kLockedNoWaiters, head of a LIFO stack of
parked coroutines} and the plain list `_receiver` (waiters already taken over by the holder, served first).

Granularity: one step per atomic operation on `_sender` (`load`, every `compare_exchange_*` attempt, `exchange`) and per
client-visible event (critical section entered / left, a failed try-lock reported, a coroutine handed to an
executor).  Thread-local code between two such points is folded into the following step; the list reversal of
`GetHead` (FIFO) is folded into the `exchange` step.  A parked coroutine has no step of its own: it becomes
runnable again only through the `grant` step *of the releaser* (which submits it to its executor, or — batching —
resumes it in place).  Executors accept work (hypothesis of the property): a granted coroutine is simply runnable.

Any number of coroutines (identified by natural numbers), each running its own list of rounds
`(acquire form, release form)`.

Stale loads: every plain `load` of the word is only a pre-check before an RMW (or the initial value of a CAS
loop), so the model lets it return anything coherence could allow and more: the try-lock pre-check and the initial
load of `AwaitLock` are unconstrained, the unlock pre-check may always report "no waiters".  (The FIBER backend never
produces a stale value: model behaviours ⊇ implementation behaviours.)

`co_await UnlockOn(e)` (and the sticky unlock) *first* re-submits the unlocking coroutine and only then releases, so
the rest of the release runs concurrently with the coroutine's own continuation.  The progress of the (unique)
release operation is therefore kept in the ownership token `own`, not in the coroutine's program counter; such a
detached release is executed by the agent `tail c`, every other step of a coroutine by the agent `co c`.
-/
namespace Yaclib.CoMutex

abbrev Cid := Nat

/-- how a round acquires: `Lock()`/`Guard()` (LockAwaiter), `GuardSticky()`/`StickyGuard::Lock()` (LockStickyAwaiter),
    `TryLock()`/`TryGuard()` -/
inductive Acq where
  | lock | sticky | try_
  deriving DecidableEq, Repr

/-- how a round releases: `co_await Unlock()` (UnlockAwaiter), `co_await UnlockOn(e)` (UnlockOnAwaiter),
    `UnlockHere()` / guard destruction, `co_await StickyGuard::Unlock()` (UnlockStickyAwaiter) -/
inductive Rel where
  | unlock | unlockOn | here | stickyUnlock
  deriving DecidableEq, Repr

/-- the release code actually executed -/
inductive RelK where
  | unlock | unlockOn | here
  deriving DecidableEq, Repr

structure Round where
  acq : Acq
  rel : Rel
  deriving DecidableEq, Repr

structure Cfg where
  batching : Bool
  fifo : Bool
  prog : Cid → List Round

inductive Word where
  | notLocked
  | locked (l : List Cid)          -- `[]` = kLockedNoWaiters, otherwise the stack of parked coroutines (head = newest)
  deriving DecidableEq, Repr

/-- what a coroutine can know about the word: the value of the machine word (a head pointer) -/
inductive Exp where
  | free
  | locked (h : Option Cid)
  deriving DecidableEq, Repr

def Word.cls : Word → Exp
  | .notLocked => .free
  | .locked l => .locked l.head?

inductive Pc where
  | idle                  -- between rounds (finished when nothing is left to do)
  | tlLoaded              -- TryLockAwait: pre-check load saw kNotLocked, strong CAS next
  | tryFailed             -- TryLock()/TryGuard() is about to report failure
  | alStart               -- await_ready was false: AwaitLock, initial load next
  | alLoop (e : Exp)      -- AwaitLock loop with `expected = e`: weak CAS next
  | parked                -- suspended, linked into `_sender` or `_receiver`
  | acq                   -- owns the mutex, runnable (CAS succeeded / submitted by the releaser / resumed in place)
  | cs                    -- inside the critical section
  | unlocking             -- inside a release operation that it executes itself
  deriving DecidableEq, Repr

/-- progress of the release operation -/
inductive RelPc where
  | pre                   -- AwaitUnlockOn: `executor.Submit(curr)` next
  | start                 -- TryUnlockAwait / GetHead entry: serve `_receiver` if non-empty, else pre-check load
  | cas                   -- pre-check saw kLockedNoWaiters: strong CAS → kNotLocked next
  | xchg                  -- new waiters exist: `exchange(kLockedNoWaiters)` in GetHead next
  | took                  -- the exchanged stack was moved to `_receiver`: hand over to its head
  deriving DecidableEq, Repr

/-- the ownership token (ghost for `held`; the control state of the releaser for `rel`) -/
inductive Own where
  | free
  | held (c : Cid)
  | rel (c : Cid) (p : RelPc) (k : RelK) (det : Bool)   -- `det`: the releasing coroutine was already re-submitted
  deriving DecidableEq, Repr

def Own.holder : Own → Option Cid
  | .held c => some c
  | _ => none

/-- the coroutine that is executing the release itself (and therefore cannot do anything else) -/
def Own.blocked : Own → Option Cid
  | .rel c _ _ false => some c
  | _ => none

def Own.relPc : Own → Option RelPc
  | .rel _ p _ _ => some p
  | _ => none

def Own.det : Own → Bool
  | .rel _ _ _ d => d
  | _ => false

/-- who executes a step -/
inductive Agent where
  | co (c : Cid)          -- the coroutine itself
  | tail (c : Cid)        -- the thread finishing `AwaitUnlockOn` of `c` after `c` was re-submitted
  deriving DecidableEq, Repr

def agentOf (c : Cid) (det : Bool) : Agent := if det then .tail c else .co c

structure State where
  cfg : Cfg
  word : Word
  receiver : List Cid
  pc : Cid → Pc
  todo : Cid → List Round
  sticky : Cid → Bool              -- StickyGuard::_executor ≠ nullptr (the lock was obtained by parking)
  own : Own
  -- ghost history
  arrivals : List Cid              -- order of successful pushes
  granted : List Cid               -- order of hand-overs to parked coroutines
  enters : Cid → Nat               -- critical sections entered
  fails : Cid → Nat                -- failed try-locks reported

def init (cfg : Cfg) : State :=
  { cfg := cfg, word := .notLocked, receiver := [], pc := fun _ => .idle, todo := cfg.prog, sticky := fun _ => false,
    own := .free, arrivals := [], granted := [], enters := fun _ => 0, fails := fun _ => 0 }

inductive Label where
  | tlLoad (c : Cid) (sawFree : Bool)       -- TryLockAwait: load(relaxed)
  | tlCas (c : Cid) (ok : Bool)             -- TryLockAwait: compare_exchange_strong(kNotLocked → kLockedNoWaiters)
  | tryFail (c : Cid)                       -- TryLock()/TryGuard() returned false / a guard that owns nothing
  | alLoad (c : Cid) (e : Exp)              -- AwaitLock: initial load(relaxed)
  | alCas (c : Cid) (ok : Bool)             -- AwaitLock: one compare_exchange_weak attempt (either branch)
  | enter (c : Cid)                         -- critical section entered
  | exit (c : Cid)                          -- critical section left: a release form is called
  | resubmit (c : Cid)                      -- AwaitUnlockOn: `executor.Submit(curr)` before releasing
  | ulLoad (a : Agent) (sawEmpty : Bool)    -- TryUnlockAwait: load(relaxed)
  | ulCas (a : Agent) (ok : Bool)           -- TryUnlockAwait: compare_exchange_strong(kLockedNoWaiters → kNotLocked)
  | ulXchg (a : Agent)                      -- GetHead: exchange(kLockedNoWaiters)
  | grant (a : Agent) (n : Cid) (inl : Bool) -- the lock is handed to parked `n` (`inl`: resumed in place, batching)
  deriving DecidableEq, Repr

/-- the agent executing a step -/
def Label.agent : Label → Agent
  | .tlLoad c _ => .co c | .tlCas c _ => .co c | .tryFail c => .co c | .alLoad c _ => .co c | .alCas c _ => .co c
  | .enter c => .co c | .exit c => .co c | .resubmit c => .co c
  | .ulLoad a _ => a | .ulCas a _ => a | .ulXchg a => a | .grant a _ _ => a

def upd {α : Type} (f : Cid → α) (c : Cid) (v : α) : Cid → α := fun x => if x = c then v else f x

def Word.list : Word → List Cid
  | .notLocked => []
  | .locked l => l

/-- the stack of parked coroutines in `_sender` -/
def senderList (s : State) : List Cid := s.word.list

def curAcq (s : State) (c : Cid) : Acq :=
  match s.todo c with
  | r :: _ => r.acq
  | [] => .lock

def curRel (s : State) (c : Cid) : Rel :=
  match s.todo c with
  | r :: _ => r.rel
  | [] => .here

def relKind (r : Rel) (sticky : Bool) : RelK :=
  match r with
  | .unlock => .unlock
  | .unlockOn => .unlockOn
  | .here => .here
  | .stickyUnlock => if sticky then .unlockOn else .here

/-! effects of the steps (shared by `Step` and `next`) -/

/-- TryLockAwait returned false -/
def failAcq (s : State) (c : Cid) : State :=
  { s with pc := upd s.pc c (if curAcq s c = .try_ then .tryFailed else .alStart) }

def doTlLoad (s : State) (c : Cid) (sawFree : Bool) : State :=
  if sawFree then { s with pc := upd s.pc c .tlLoaded } else failAcq s c

/-- a CAS kNotLocked → kLockedNoWaiters succeeded -/
def doAcquire (s : State) (c : Cid) : State :=
  { s with word := .locked [], own := .held c, pc := upd s.pc c .acq, sticky := upd s.sticky c false }

def doTryFail (s : State) (c : Cid) : State :=
  { s with pc := upd s.pc c .idle, todo := upd s.todo c (s.todo c).tail, fails := upd s.fails c (s.fails c + 1) }

/-- the push CAS of AwaitLock succeeded: parked -/
def doPush (s : State) (c : Cid) (l : List Cid) : State :=
  { s with word := .locked (c :: l), pc := upd s.pc c .parked,
           sticky := upd s.sticky c (decide (curAcq s c = .sticky)), arrivals := s.arrivals ++ [c] }

def doEnter (s : State) (c : Cid) : State :=
  { s with pc := upd s.pc c .cs, enters := upd s.enters c (s.enters c + 1) }

def exitKind (s : State) (c : Cid) : RelK := relKind (curRel s c) (s.sticky c)

def doExit (s : State) (c : Cid) : State :=
  { s with pc := upd s.pc c .unlocking,
           own := .rel c (if exitKind s c = .unlockOn then .pre else .start) (exitKind s c) false }

def doResubmit (s : State) (c : Cid) (k : RelK) : State :=
  { s with own := .rel c .start k true, pc := upd s.pc c .idle, todo := upd s.todo c (s.todo c).tail }

/-- the release operation of `c` is over; unless it was detached `c` goes on with its next round -/
def finish (s : State) (c : Cid) (det : Bool) : State :=
  if det then s else { s with pc := upd s.pc c .idle, todo := upd s.todo c (s.todo c).tail }

def doRelease (s : State) (c : Cid) (det : Bool) : State :=
  { finish s c det with word := .notLocked, own := .free }

def doXchg (s : State) (c : Cid) (k : RelK) (det : Bool) (l : List Cid) : State :=
  { s with word := .locked [], receiver := if s.cfg.fifo then l.reverse else l, own := .rel c .took k det }

def doGrant (s : State) (c : Cid) (det : Bool) (n : Cid) (rest : List Cid) : State :=
  { finish s c det with receiver := rest, granted := s.granted ++ [n], own := .held n,
                        pc := upd (finish s c det).pc n .acq }

/-- the next holder is resumed in place (symmetric transfer) instead of being submitted:
    `Batching`, a suspending release form, and the next holder comes from the *old* `_receiver` -/
def inlineOf (s : State) (p : RelPc) (k : RelK) : Bool :=
  s.cfg.batching && decide (k ≠ .here) && decide (p = .start)

inductive Step : State → Label → State → Prop where
  /-- TryLockAwait (await_ready of every lock form, TryLock): pre-check load, possibly stale -/
  | tlLoad (s : State) (c : Cid) (sawFree : Bool) (h : s.pc c = .idle) (ht : s.todo c ≠ []) :
      Step s (.tlLoad c sawFree) (doTlLoad s c sawFree)
  | tlCasOk (s : State) (c : Cid) (h : s.pc c = .tlLoaded) (hw : s.word = .notLocked) :
      Step s (.tlCas c true) (doAcquire s c)
  | tlCasFail (s : State) (c : Cid) (h : s.pc c = .tlLoaded) (hw : s.word ≠ .notLocked) :
      Step s (.tlCas c false) (failAcq s c)
  | tryFail (s : State) (c : Cid) (h : s.pc c = .tryFailed) : Step s (.tryFail c) (doTryFail s c)
  /-- AwaitLock: the initial load (possibly stale: any value) -/
  | alLoad (s : State) (c : Cid) (e : Exp) (h : s.pc c = .alStart) :
      Step s (.alLoad c e) { s with pc := upd s.pc c (.alLoop e) }
  /-- AwaitLock, branch `expected == kNotLocked`: weak CAS → kLockedNoWaiters -/
  | alCasLock (s : State) (c : Cid) (h : s.pc c = .alLoop .free) (hw : s.word = .notLocked) :
      Step s (.alCas c true) (doAcquire s c)
  /-- AwaitLock, other branch: `curr.next = expected`, weak CAS expected → &curr (compares the head pointer only) -/
  | alCasPush (s : State) (c : Cid) (hd : Option Cid) (l : List Cid) (h : s.pc c = .alLoop (.locked hd))
      (hw : s.word = .locked l) (hh : l.head? = hd) : Step s (.alCas c true) (doPush s c l)
  /-- a failed weak CAS (spuriously, or because the word differs) reloads `expected` -/
  | alCasFail (s : State) (c : Cid) (e : Exp) (h : s.pc c = .alLoop e) :
      Step s (.alCas c false) { s with pc := upd s.pc c (.alLoop s.word.cls) }
  | enter (s : State) (c : Cid) (h : s.pc c = .acq) : Step s (.enter c) (doEnter s c)
  | exit (s : State) (c : Cid) (h : s.pc c = .cs) : Step s (.exit c) (doExit s c)
  /-- AwaitUnlockOn: the unlocking coroutine is handed to its executor *before* the mutex is released -/
  | resubmit (s : State) (c : Cid) (k : RelK) (h : s.own = .rel c .pre k false) :
      Step s (.resubmit c) (doResubmit s c k)
  /-- TryUnlockAwait with empty `_receiver`: pre-check load (may report a stale kLockedNoWaiters) -/
  | ulLoad (s : State) (c : Cid) (k : RelK) (d : Bool) (sawEmpty : Bool) (h : s.own = .rel c .start k d)
      (hr : s.receiver = []) (hs : sawEmpty = false → senderList s ≠ []) :
      Step s (.ulLoad (agentOf c d) sawEmpty) { s with own := .rel c (if sawEmpty then .cas else .xchg) k d }
  | ulCasOk (s : State) (c : Cid) (k : RelK) (d : Bool) (h : s.own = .rel c .cas k d) (hw : s.word = .locked []) :
      Step s (.ulCas (agentOf c d) true) (doRelease s c d)
  | ulCasFail (s : State) (c : Cid) (k : RelK) (d : Bool) (h : s.own = .rel c .cas k d) (hw : s.word ≠ .locked []) :
      Step s (.ulCas (agentOf c d) false) { s with own := .rel c .xchg k d }
  /-- GetHead with empty `_receiver`: take over the whole stack (reversed when FIFO) -/
  | ulXchg (s : State) (c : Cid) (k : RelK) (d : Bool) (l : List Cid) (h : s.own = .rel c .xchg k d)
      (hw : s.word = .locked l) (hl : l ≠ []) : Step s (.ulXchg (agentOf c d)) (doXchg s c k d l)
  /-- hand the mutex to the head of `_receiver` (`_receiver = next.next`; Submit(next) or transfer to it) -/
  | grant (s : State) (c : Cid) (p : RelPc) (k : RelK) (d : Bool) (n : Cid) (rest : List Cid)
      (h : s.own = .rel c p k d) (hp : p = .start ∨ p = .took) (hr : s.receiver = n :: rest) :
      Step s (.grant (agentOf c d) n (inlineOf s p k)) (doGrant s c d n rest)

inductive Reachable (cfg : Cfg) : State → Prop where
  | init : Reachable cfg (init cfg)
  | step {s l s'} : Reachable cfg s → Step s l s' → Reachable cfg s'

/-- executable transition function used by the trace validator (`ymdriver`) -/
def next (s : State) : Label → Option State
  | .tlLoad c sawFree => if s.pc c = .idle ∧ s.todo c ≠ [] then some (doTlLoad s c sawFree) else none
  | .tlCas c ok =>
      if s.pc c = .tlLoaded then
        if ok then (if s.word = .notLocked then some (doAcquire s c) else none)
        else (if s.word ≠ .notLocked then some (failAcq s c) else none)
      else none
  | .tryFail c => if s.pc c = .tryFailed then some (doTryFail s c) else none
  | .alLoad c e => if s.pc c = .alStart then some { s with pc := upd s.pc c (.alLoop e) } else none
  | .alCas c ok =>
      match s.pc c with
      | .alLoop e =>
          if ok then
            match e, s.word with
            | .free, .notLocked => some (doAcquire s c)
            | .locked hd, .locked l => if l.head? = hd then some (doPush s c l) else none
            | _, _ => none
          else some { s with pc := upd s.pc c (.alLoop s.word.cls) }
      | _ => none
  | .enter c => if s.pc c = .acq then some (doEnter s c) else none
  | .exit c => if s.pc c = .cs then some (doExit s c) else none
  | .resubmit c =>
      match s.own with
      | .rel c' .pre k false => if c' = c then some (doResubmit s c k) else none
      | _ => none
  | .ulLoad a sawEmpty =>
      match s.own with
      | .rel c .start k d =>
          if a = agentOf c d ∧ s.receiver = [] ∧ (sawEmpty = false → senderList s ≠ []) then
            some { s with own := .rel c (if sawEmpty then .cas else .xchg) k d }
          else none
      | _ => none
  | .ulCas a ok =>
      match s.own with
      | .rel c .cas k d =>
          if a = agentOf c d then
            if ok then (if s.word = .locked [] then some (doRelease s c d) else none)
            else (if s.word ≠ .locked [] then some { s with own := .rel c .xchg k d } else none)
          else none
      | _ => none
  | .ulXchg a =>
      match s.own, s.word with
      | .rel c .xchg k d, .locked l => if a = agentOf c d ∧ l ≠ [] then some (doXchg s c k d l) else none
      | _, _ => none
  | .grant a n inl =>
      match s.own, s.receiver with
      | .rel c p k d, m :: rest =>
          if a = agentOf c d ∧ (p = .start ∨ p = .took) ∧ m = n ∧ inl = inlineOf s p k then some (doGrant s c d n rest)
          else none
      | _, _ => none

theorem next_sound {s : State} {l : Label} {s' : State} (h : next s l = some s') : Step s l s' := by
  cases l with
  | tlLoad c sawFree =>
      simp only [next] at h
      split at h
      · rename_i hg; cases h; exact .tlLoad s c sawFree hg.1 hg.2
      · cases h
  | tlCas c ok =>
      simp only [next] at h
      split at h
      · rename_i hg
        cases ok with
        | true =>
            simp only [↓reduceIte] at h
            split at h
            · rename_i hw; cases h; exact .tlCasOk s c hg hw
            · cases h
        | false =>
            simp only [Bool.false_eq_true, ↓reduceIte] at h
            split at h
            · rename_i hw; cases h; exact .tlCasFail s c hg hw
            · cases h
      · cases h
  | tryFail c =>
      simp only [next] at h
      split at h
      · rename_i hg; cases h; exact .tryFail s c hg
      · cases h
  | alLoad c e =>
      simp only [next] at h
      split at h
      · rename_i hg; cases h; exact .alLoad s c e hg
      · cases h
  | alCas c ok =>
      simp only [next] at h
      split at h
      · rename_i e hpc
        cases ok with
        | true =>
            simp only [↓reduceIte] at h
            split at h
            · rename_i he hw; cases h; exact .alCasLock s c hpc hw
            · rename_i hd l hw
              split at h
              · rename_i hh; cases h; exact .alCasPush s c hd l hpc hw hh
              · cases h
            · cases h
        | false =>
            simp only [Bool.false_eq_true, ↓reduceIte] at h
            cases h; exact .alCasFail s c e hpc
      · cases h
  | enter c =>
      simp only [next] at h
      split at h
      · rename_i hg; cases h; exact .enter s c hg
      · cases h
  | exit c =>
      simp only [next] at h
      split at h
      · rename_i hg; cases h; exact .exit s c hg
      · cases h
  | resubmit c =>
      simp only [next] at h
      split at h
      · rename_i c' k ho
        split at h
        · rename_i hc; subst hc; cases h; exact .resubmit s c' k ho
        · cases h
      · cases h
  | ulLoad a sawEmpty =>
      simp only [next] at h
      split at h
      · rename_i c k d ho
        split at h
        · rename_i hg; cases h; obtain ⟨ha, hr, hs⟩ := hg; subst ha; exact .ulLoad s c k d sawEmpty ho hr hs
        · cases h
      · cases h
  | ulCas a ok =>
      simp only [next] at h
      split at h
      · rename_i c k d ho
        split at h
        · rename_i ha; subst ha
          cases ok with
          | true =>
              simp only [↓reduceIte] at h
              split at h
              · rename_i hw; cases h; exact .ulCasOk s c k d ho hw
              · cases h
          | false =>
              simp only [Bool.false_eq_true, ↓reduceIte] at h
              split at h
              · rename_i hw; cases h; exact .ulCasFail s c k d ho hw
              · cases h
        · cases h
      · cases h
  | ulXchg a =>
      simp only [next] at h
      split at h
      · rename_i c k d l ho hw
        split at h
        · rename_i hg; cases h; obtain ⟨ha, hl⟩ := hg; subst ha; exact .ulXchg s c k d l ho hw hl
        · cases h
      · cases h
  | grant a n inl =>
      simp only [next] at h
      split at h
      · rename_i c p k d m rest ho hr
        split at h
        · rename_i hg; cases h; obtain ⟨ha, hp, hm, hi⟩ := hg; subst ha; subst hm; subst hi
          exact .grant s c p k d m rest ho hp hr
        · cases h
      · cases h

end Yaclib.CoMutex
