/-
C07 — Strand: the lock-free MPSC inbox with an idle marker (src/exe/strand.cpp).

Written from /repo: `Strand::Submit` (relaxed load, weak-CAS push loop, whoever replaces the idle marker
schedules the strand on the underlying executor), `Strand::Call` (`exchange(nullptr)`, reverse, Call every
job, `load` + strong CAS `nullptr → Mark()` or resubmit itself) and `Strand::Drop` (`exchange(Mark())`,
Drop every job **in inbox order, i.e. most recently pushed first**).

Granularity: one step per atomic operation on `_jobs` (`load`, each `compare_exchange_weak` attempt,
`exchange`, `compare_exchange_strong`) and per observable event (job body entered / left, job dropped,
`_executor->Submit(*this)`).  Thread-local code between two such operations is folded into the following
step (building `job.next`, reversing the batch, `IncRef`/`DecRef` of the strand's own reference counter,
which is a different atomic object and is accounted for by C03).

Threads: unboundedly many submitters `i = 0, 1, …` (submitter `i` submits the jobs `⟨i, 0⟩, ⟨i, 1⟩, …,
⟨i, w[i] - 1⟩` in program order) and unboundedly many *activations* `a = 0, 1, …` of the strand (the strand
as a `Job` of the underlying executor).  The underlying executor is the most general executor that honours
the `IExecutor` contract: every activation handed to it is started exactly once, at any later moment,
either as `Call` or as `Drop`, on any thread (also inline inside `Submit`), concurrently with anything
else.  Nothing in the model restricts the number of activations that run at the same time — that at most
one does is a theorem.

Stale loads: the relaxed pre-check loads (`Submit` line 25, `Call` line 49) and the value a failed CAS
reads may be older values of the word permitted by coherence; the model over-approximates them
(`loadOk`: any value the word ever had; the batch runner may still see its own `nullptr`).
-/
namespace Yaclib.Strand

/-- job `idx` (in program order) of submitter `sub` -/
structure JobId where
  sub : Nat
  idx : Nat
  deriving DecidableEq, Repr

/-- a pointer value as seen by a load / kept in `expected` -/
inductive Ptr where
  | mark                -- `Mark()` = the strand itself: idle
  | null                -- scheduled, inbox empty
  | job (j : JobId)     -- head of the inbox
  deriving DecidableEq, Repr

/-- `_jobs`: the idle marker or the intrusive LIFO list (head = most recently pushed; `list []` = nullptr) -/
inductive Word where
  | mark
  | list (js : List JobId)
  deriving DecidableEq, Repr

def Word.head : Word → Ptr
  | .mark => .mark
  | .list [] => .null
  | .list (j :: _) => .job j

def Word.inbox : Word → List JobId
  | .mark => []
  | .list js => js

def Word.nonempty : Word → Bool
  | .list (_ :: _) => true
  | _ => false

/-- number of jobs of each submitter: `jobs[i]` for the listed submitters, `rest` for every other one
    (`rest = 0`: a closed system with finitely many submitters; `⟨[], 1⟩`: the strand as an open executor, every
    client job is handed over by its own `Submit` call — used for the lower levels of a tower of strands) -/
structure Workload where
  jobs : List Nat
  rest : Nat := 0
  deriving Repr

instance : Coe (List Nat) Workload := ⟨fun l => { jobs := l }⟩

def jobsOf (w : Workload) (i : Nat) : Nat := w.jobs.getD i w.rest

/-- submitter program counter (inside `Strand::Submit`) -/
inductive SPc where
  | idle                -- between two Submits (or finished)
  | cas (exp : Ptr)     -- in the CAS loop, `expected = exp`
  | sched               -- the CAS replaced the idle marker: `IncRef(); _executor->Submit(*this)` next
  deriving DecidableEq, Repr

/-- activation program counter (`Strand::Call` / `Strand::Drop` run by the underlying executor) -/
inductive APc where
  | none                                  -- not created yet
  | queued                                -- handed to the underlying executor, not started
  | run (rem : List JobId)                -- Call: batch exchanged and reversed, `rem` still to be Called
  | busy (j : JobId) (rem : List JobId)   -- Call: inside the body of `j`
  | cas                                   -- Call: the final load saw nullptr, strong CAS next
  | resub                                 -- Call: must `_executor->Submit(*this)` again
  | drain (rem : List JobId)              -- Drop: exchanged, `rem` still to be Dropped (inbox order)
  | crashed                               -- dereferenced nullptr / the marker (`node->next` on an empty batch)
  | done
  deriving DecidableEq, Repr

/-- ghost: who is responsible for the strand being scheduled (owner of the "token") -/
inductive Holder where
  | sub (i : Nat)
  | act (a : Nat)
  deriving DecidableEq, Repr

structure State where
  w : Workload
  word : Word
  spc : Nat → SPc
  sidx : Nat → Nat                 -- number of successful pushes of submitter i = index of its current job
  acts : Nat → APc
  nacts : Nat                      -- activations created so far (`_executor->Submit(*this)` calls)
  -- ghost history
  holder : Option Holder
  pushOrder : List JobId           -- order of the successful CASes of Submit
  taken : List (JobId × Bool)      -- jobs removed from the inbox by an exchange, in push order; true = by Call
  takenBy : JobId → Nat            -- which activation removed it
  executed : List JobId            -- order in which job bodies were entered (Call)
  dropped : List JobId             -- order in which jobs were Dropped
  running : Nat                    -- job bodies entered and not left
  execDrops : Nat                  -- activations the underlying executor refused (started as Drop)

def init (w : Workload) : State :=
  { w := w, word := .mark, spc := fun _ => .idle, sidx := fun _ => 0, acts := fun _ => .none, nacts := 0,
    holder := none, pushOrder := [], taken := [], takenBy := fun _ => 0, executed := [], dropped := [],
    running := 0, execDrops := 0 }

inductive Label where
  | sLoad (i : Nat) (v : Ptr)        -- `_jobs.load(relaxed)` → v
  | sCasOk (i : Nat)                 -- `compare_exchange_weak(expected, &job, acq_rel, relaxed)` succeeded
  | sCasFail (i : Nat) (v : Ptr)     -- … failed, `expected` reloaded with v ≠ expected
  | sCasSpur (i : Nat)               -- … failed spuriously (`expected` unchanged)
  | sSched (i : Nat)                 -- `_executor->Submit(*this)` by the submitter that replaced the marker
  | aCall (a : Nat)                  -- the underlying executor Calls activation a: `exchange(nullptr, acquire)`
  | aBegin (a : Nat) (j : JobId)     -- body of j entered
  | aEnd (a : Nat) (j : JobId)       -- body of j left
  | aLoad (a : Nat) (sawNull : Bool) -- `_jobs.load(relaxed) == nullptr`
  | aCasOk (a : Nat)                 -- `compare_exchange_strong(nullptr, Mark(), release, relaxed)` succeeded
  | aCasFail (a : Nat)               -- … failed
  | aResub (a : Nat)                 -- `_executor->Submit(*this)` by the batch runner
  | aDropX (a : Nat)                 -- the underlying executor Drops activation a: `exchange(Mark(), acq_rel)`
  | aDrop (a : Nat) (j : JobId)      -- job j Dropped
  deriving DecidableEq, Repr

/-- the strand thread a label belongs to -/
def Label.actor : Label → Holder
  | .sLoad i _ | .sCasOk i | .sCasFail i _ | .sCasSpur i | .sSched i => .sub i
  | .aCall a | .aBegin a _ | .aEnd a _ | .aLoad a _ | .aCasOk a | .aCasFail a | .aResub a | .aDropX a
  | .aDrop a _ => .act a

/-- ghost tag of a job removed from the inbox: by a Call (`true`) or by a Drop (`false`) exchange -/
def tag (b : Bool) (j : JobId) : JobId × Bool := (j, b)

def upd {α : Type} (f : Nat → α) (i : Nat) (v : α) : Nat → α := fun x => if x = i then v else f x

/-- a stale value a relaxed load (or the read of a failed CAS) may still return -/
def staleOk (s : State) : Ptr → Prop
  | .job j => j ∈ s.pushOrder
  | _ => True

instance (s : State) (v : Ptr) : Decidable (staleOk s v) := by
  cases v <;> simp only [staleOk] <;> exact inferInstance

def loadOk (s : State) (v : Ptr) : Prop := v = s.word.head ∨ staleOk s v

instance (s : State) (v : Ptr) : Decidable (loadOk s v) := by unfold loadOk; exact inferInstance

/-! effects of the individual steps (shared by `Step` and `next`) -/

/-- `expected := v` (first load, or reload by a failed CAS) -/
def doLoad (s : State) (i : Nat) (v : Ptr) : State := { s with spc := upd s.spc i (.cas v) }

/-- successful push: `job.next = expected == Mark() ? nullptr : expected`, the word points to the job -/
def doCasOk (s : State) (i : Nat) (exp : Ptr) : State :=
  let j : JobId := ⟨i, s.sidx i⟩
  { s with word := .list (j :: s.word.inbox), sidx := upd s.sidx i (s.sidx i + 1),
           pushOrder := s.pushOrder ++ [j],
           spc := upd s.spc i (if exp = .mark then .sched else .idle),
           holder := if exp = .mark then some (.sub i) else s.holder }

def doSched (s : State) (i : Nat) : State :=
  { s with spc := upd s.spc i .idle, acts := upd s.acts s.nacts .queued, nacts := s.nacts + 1,
           holder := some (.act s.nacts) }

/-- `Strand::Call`: `exchange(nullptr)` and the reversal of the batch -/
def doCall (s : State) (a : Nat) : State :=
  match s.word with
  | .list (j :: js) =>
      { s with word := .list [], acts := upd s.acts a (.run (j :: js).reverse),
               taken := s.taken ++ (j :: js).reverse.map (tag true),
               takenBy := fun x => if x ∈ j :: js then a else s.takenBy x }
  | _ => { s with word := .list [], acts := upd s.acts a .crashed }

def doBegin (s : State) (a : Nat) (j : JobId) (rem : List JobId) : State :=
  { s with acts := upd s.acts a (.busy j rem), executed := s.executed ++ [j], running := s.running + 1 }

def doEnd (s : State) (a : Nat) (rem : List JobId) : State :=
  { s with acts := upd s.acts a (.run rem), running := s.running - 1 }

def doALoad (s : State) (a : Nat) (sawNull : Bool) : State :=
  { s with acts := upd s.acts a (if sawNull then .cas else .resub) }

def doACasOk (s : State) (a : Nat) : State :=
  { s with word := .mark, acts := upd s.acts a .done, holder := none }

def doACasFail (s : State) (a : Nat) : State := { s with acts := upd s.acts a .resub }

def doResub (s : State) (a : Nat) : State :=
  { s with acts := upd (upd s.acts a .done) s.nacts .queued, nacts := s.nacts + 1, holder := some (.act s.nacts) }

/-- `Strand::Drop`: `exchange(Mark())` -/
def doDropX (s : State) (a : Nat) : State :=
  match s.word with
  | .list (j :: js) =>
      { s with word := .mark, acts := upd s.acts a (.drain (j :: js)), holder := none,
               taken := s.taken ++ (j :: js).reverse.map (tag false),
               takenBy := fun x => if x ∈ j :: js then a else s.takenBy x, execDrops := s.execDrops + 1 }
  | _ => { s with word := .mark, acts := upd s.acts a .crashed, holder := none, execDrops := s.execDrops + 1 }

def doDrop (s : State) (a : Nat) (j : JobId) (rem : List JobId) : State :=
  { s with acts := upd s.acts a (if rem = [] then .done else .drain rem), dropped := s.dropped ++ [j] }

inductive Step : State → Label → State → Prop where
  /-- Submit: `auto* expected = _jobs.load(relaxed)` (may be stale) -/
  | sLoad (s : State) (i : Nat) (v : Ptr) (h : s.spc i = .idle) (hj : s.sidx i < jobsOf s.w i) (hv : loadOk s v) :
      Step s (.sLoad i v) (doLoad s i v)
  /-- the weak CAS succeeds: the word holds exactly the expected pointer -/
  | sCasOk (s : State) (i : Nat) (exp : Ptr) (h : s.spc i = .cas exp) (he : exp = s.word.head) :
      Step s (.sCasOk i) (doCasOk s i exp)
  /-- the CAS read something else (possibly stale) -/
  | sCasFail (s : State) (i : Nat) (exp v : Ptr) (h : s.spc i = .cas exp) (hne : v ≠ exp) (hv : loadOk s v) :
      Step s (.sCasFail i v) (doLoad s i v)
  | sCasSpur (s : State) (i : Nat) (exp : Ptr) (h : s.spc i = .cas exp) : Step s (.sCasSpur i) s
  /-- `if (expected == Mark()) { IncRef(); _executor->Submit(*this); }` -/
  | sSched (s : State) (i : Nat) (h : s.spc i = .sched) : Step s (.sSched i) (doSched s i)
  /-- the underlying executor starts a queued activation as Call … -/
  | aCall (s : State) (a : Nat) (h : s.acts a = .queued) : Step s (.aCall a) (doCall s a)
  | aBegin (s : State) (a : Nat) (j : JobId) (rem : List JobId) (h : s.acts a = .run (j :: rem)) :
      Step s (.aBegin a j) (doBegin s a j rem)
  | aEnd (s : State) (a : Nat) (j : JobId) (rem : List JobId) (h : s.acts a = .busy j rem) :
      Step s (.aEnd a j) (doEnd s a rem)
  /-- `_jobs.load(relaxed) == node` (node = nullptr after the reversal); the runner may still see its own nullptr -/
  | aLoad (s : State) (a : Nat) (sawNull : Bool) (h : s.acts a = .run [])
      (hv : sawNull = false → s.word.nonempty = true) : Step s (.aLoad a sawNull) (doALoad s a sawNull)
  | aCasOk (s : State) (a : Nat) (h : s.acts a = .cas) (hw : s.word = .list []) : Step s (.aCasOk a) (doACasOk s a)
  | aCasFail (s : State) (a : Nat) (h : s.acts a = .cas) (hw : s.word ≠ .list []) :
      Step s (.aCasFail a) (doACasFail s a)
  | aResub (s : State) (a : Nat) (h : s.acts a = .resub) : Step s (.aResub a) (doResub s a)
  /-- … or as Drop (it refuses work) -/
  | aDropX (s : State) (a : Nat) (h : s.acts a = .queued) : Step s (.aDropX a) (doDropX s a)
  | aDrop (s : State) (a : Nat) (j : JobId) (rem : List JobId) (h : s.acts a = .drain (j :: rem)) :
      Step s (.aDrop a j) (doDrop s a j rem)

inductive Reachable (w : Workload) : State → Prop where
  | init : Reachable w (init w)
  | step {s l s'} : Reachable w s → Step s l s' → Reachable w s'

/-- executable transition function used by the trace validator (`ymdriver`) -/
def next (s : State) : Label → Option State
  | .sLoad i v => if s.spc i = .idle ∧ s.sidx i < jobsOf s.w i ∧ loadOk s v then some (doLoad s i v) else none
  | .sCasOk i =>
      match s.spc i with
      | .cas exp => if exp = s.word.head then some (doCasOk s i exp) else none
      | _ => none
  | .sCasFail i v =>
      match s.spc i with
      | .cas exp => if v ≠ exp ∧ loadOk s v then some (doLoad s i v) else none
      | _ => none
  | .sCasSpur i =>
      match s.spc i with
      | .cas _ => some s
      | _ => none
  | .sSched i => if s.spc i = .sched then some (doSched s i) else none
  | .aCall a => if s.acts a = .queued then some (doCall s a) else none
  | .aBegin a j =>
      match s.acts a with
      | .run (j' :: rem) => if j' = j then some (doBegin s a j rem) else none
      | _ => none
  | .aEnd a j =>
      match s.acts a with
      | .busy j' rem => if j' = j then some (doEnd s a rem) else none
      | _ => none
  | .aLoad a sawNull =>
      if s.acts a = .run [] ∧ (sawNull = false → s.word.nonempty = true) then some (doALoad s a sawNull) else none
  | .aCasOk a => if s.acts a = .cas ∧ s.word = .list [] then some (doACasOk s a) else none
  | .aCasFail a => if s.acts a = .cas ∧ s.word ≠ .list [] then some (doACasFail s a) else none
  | .aResub a => if s.acts a = .resub then some (doResub s a) else none
  | .aDropX a => if s.acts a = .queued then some (doDropX s a) else none
  | .aDrop a j =>
      match s.acts a with
      | .drain (j' :: rem) => if j' = j then some (doDrop s a j rem) else none
      | _ => none

theorem next_sound {s : State} {l : Label} {s' : State} (h : next s l = some s') : Step s l s' := by
  cases l with
  | sLoad i v =>
      simp only [next] at h
      split at h
      · rename_i hg; cases h; exact .sLoad s i v hg.1 hg.2.1 hg.2.2
      · cases h
  | sCasOk i =>
      simp only [next] at h
      split at h
      · rename_i exp hp
        split at h
        · rename_i he; cases h; exact .sCasOk s i exp hp he
        · cases h
      · cases h
  | sCasFail i v =>
      simp only [next] at h
      split at h
      · rename_i exp hp
        split at h
        · rename_i hg; cases h; exact .sCasFail s i exp v hp hg.1 hg.2
        · cases h
      · cases h
  | sCasSpur i =>
      simp only [next] at h
      split at h
      · rename_i exp hp; cases h; exact .sCasSpur s i exp hp
      · cases h
  | sSched i =>
      simp only [next] at h
      split at h
      · rename_i hg; cases h; exact .sSched s i hg
      · cases h
  | aCall a =>
      simp only [next] at h
      split at h
      · rename_i hg; cases h; exact .aCall s a hg
      · cases h
  | aBegin a j =>
      simp only [next] at h
      split at h
      · rename_i j' rem hp
        split at h
        · rename_i hj; cases h; subst hj; exact .aBegin s a j' rem hp
        · cases h
      · cases h
  | aEnd a j =>
      simp only [next] at h
      split at h
      · rename_i j' rem hp
        split at h
        · rename_i hj; cases h; subst hj; exact .aEnd s a j' rem hp
        · cases h
      · cases h
  | aLoad a sawNull =>
      simp only [next] at h
      split at h
      · rename_i hg; cases h; exact .aLoad s a sawNull hg.1 hg.2
      · cases h
  | aCasOk a =>
      simp only [next] at h
      split at h
      · rename_i hg; cases h; exact .aCasOk s a hg.1 hg.2
      · cases h
  | aCasFail a =>
      simp only [next] at h
      split at h
      · rename_i hg; cases h; exact .aCasFail s a hg.1 hg.2
      · cases h
  | aResub a =>
      simp only [next] at h
      split at h
      · rename_i hg; cases h; exact .aResub s a hg
      · cases h
  | aDropX a =>
      simp only [next] at h
      split at h
      · rename_i hg; cases h; exact .aDropX s a hg
      · cases h
  | aDrop a j =>
      simp only [next] at h
      split at h
      · rename_i j' rem hp
        split at h
        · rename_i hj; cases h; subst hj; exact .aDrop s a j' rem hp
        · cases h
      · cases h

end Yaclib.Strand
