/-
C18 — model `Rm` of `fiber::RecursiveMutex` / `fiber::RecursiveTimedMutex`.

Written from /repo: src/fault/fiber/recursive_mutex.cpp, include/yaclib/fault/detail/fiber/recursive_timed_mutex.hpp
(scheduler abstraction and conventions as in Model/FiberSync.lean).

History: until the fix commit 4d75ee5 the code had
  D4  `RecursiveMutex::unlock` never called `_queue.NotifyOne()`: a fiber parked by `lock()` slept forever although the
      mutex was released — scenario `rec f0=L,L,U,U f1=L,U`, choices `k0/2 p0/2 p0/2 p1/2`;
  D6  `lock()` / `TimedWaitHelper` called `LockHelper()` after the wait without re-checking the condition (single `if`) —
      masked by D4 (nobody was ever woken); repairing D4 alone would have produced two owners
      (f0 holds, f1 parks, f0 unlocks and notifies f1, f2 locks, f1 resumes → `LockHelper()`),
and this model contained them (see git history and notes/C18.md).  It now describes the repaired code: `unlock()`
notifies one waiter when the count drops to 0, `lock()` waits in a `while`, `TimedWaitHelper` in
`while (r && …)` with the deadline computed once at the call.
-/
import YaclibModel.Model.FiberSync

namespace Yaclib.FiberSync.Rm
open Yaclib.FiberSync

inductive Pc where
  | idle | done
  | parked                     -- `lock()`: on `_queue`, no deadline
  | tParked (req dl : Nat)     -- `TimedWaitHelper`: on `_queue` and the sleep list
  | locking                    -- notified: evaluates the `while` condition of `lock()` again
  | tLocking (req : Nat)       -- notified: evaluates `while (r && …)` of `TimedWaitHelper` again
  | sleeping (dl : Nat)
  deriving DecidableEq, Repr

def Pc.inQ : Pc → Bool
  | .parked => true
  | .tParked _ _ => true
  | _ => false

def Pc.rechecks : Pc → Bool
  | .locking => true
  | .tLocking _ => true
  | _ => false

def wake : Pc → Pc
  | .parked => .locking
  | .tParked req _ => .tLocking req
  | p => p

structure State where
  timed : Bool
  pc : Fid → Pc
  owner : Option Fid           -- `_owner_id` (0 = nobody)
  count : Nat                  -- `_occupied_count`
  rq : List Fid                -- `_queue`
  now : Nat
  -- ghost
  holders : List Fid           -- one entry per successful acquisition not yet released
  transit : List Fid           -- fibers made runnable by a NotifyOne that have not run yet

def init (timed : Bool) (n : Nat) : State :=
  { timed := timed, pc := fun g => if g < n then .idle else .done, owner := none,
    count := 0, rq := [], now := 0, holders := [], transit := [] }

/-- the condition under which `lock()` / `try_lock()` do not wait: `!(_occupied_count != 0 && _owner_id != me)` -/
def Free (s : State) (f : Fid) : Prop := s.count = 0 ∨ s.owner = some f

instance (s : State) (f : Fid) : Decidable (Free s f) := by unfold Free; exact inferInstance

/-- whom `unlock` wakes: a waiter iff the count dropped to 0 -/
def PatchPick (s : State) (w : Option Fid) : Prop := if s.count - 1 = 0 then PickOk s.rq w else w = none

instance (s : State) (w : Option Fid) : Decidable (PatchPick s w) := by unfold PatchPick; exact inferInstance

inductive Label where
  | lockAcq (f : Fid)                            -- `f E ret lock`
  | lockPark (f : Fid)                           -- `f M rq park 0`
  | tryLock (f : Fid) (ok : Bool)                -- `f E ret try_lock b`
  | unlock (f : Fid) (w : Option Fid)            -- `f M rq notify_one r idx` (last unlock only) + `f E ret unlock`
  | tlfAcq (f : Fid)                             -- `f E ret try_lock_for 1`
  | tlfPark (f : Fid) (t d j : Nat)              -- `f M rq park_timed 0 @t j=j`
  | tlfTimeout (f : Fid) (t : Nat)               -- `f M rq wake 1 @t`
  | tlfRepark (f : Fid) (j : Nat)                -- `f M rq park_timed 0 j=j` after a wake-up
  | sleepStart (f : Fid) (t d : Nat) | sleepWake (f : Fid) (t : Nat)
  | finish (f : Fid)
  deriving DecidableEq, Repr

/-- `LockHelper()`: `_occupied_count++; _owner_id = me` -/
def lockHelper (s : State) (f : Fid) : State :=
  { s with count := s.count + 1, owner := some f, holders := s.holders ++ [f], pc := upd s.pc f .idle,
           transit := rm s.transit f }

/-- `unlock()` without its notification: `_occupied_count--; if (_occupied_count == 0) _owner_id = 0;` -/
def doUnlock (s : State) (f : Fid) : State :=
  { s with count := s.count - 1, owner := if s.count - 1 = 0 then none else s.owner, holders := s.holders.erase f }

def notifyR (s : State) : Option Fid → State
  | none => s
  | some g => { s with rq := rm s.rq g, pc := upd s.pc g (wake (s.pc g)), transit := s.transit ++ [g] }

def doPark (s : State) (f : Fid) : State :=
  { s with rq := s.rq ++ [f], pc := upd s.pc f .parked, transit := rm s.transit f }

def doTlfRepark (s : State) (f : Fid) (req j : Nat) : State :=
  { s with rq := s.rq ++ [f], pc := upd s.pc f (.tParked req (req + j)), transit := rm s.transit f }

def doTlfPark (s : State) (f : Fid) (t d j : Nat) : State :=
  { s with rq := s.rq ++ [f], pc := upd s.pc f (.tParked (t + d) (t + d + j)), now := t }

def doTlfTimeout (s : State) (f : Fid) (t : Nat) : State :=
  { s with rq := rm s.rq f, pc := upd s.pc f .idle, now := t }

inductive Step : State → Label → State → Prop where
  | lockFast (s : State) (f : Fid) (h : s.pc f = .idle) (hf : Free s f) : Step s (.lockAcq f) (lockHelper s f)
  | lockPark (s : State) (f : Fid) (h : s.pc f = .idle) (hf : ¬ Free s f) : Step s (.lockPark f) (doPark s f)
  /-- after the wake-up: the `while` condition again -/
  | lockRecheckAcq (s : State) (f : Fid) (h : s.pc f = .locking) (hf : Free s f) : Step s (.lockAcq f) (lockHelper s f)
  | lockRepark (s : State) (f : Fid) (h : s.pc f = .locking) (hf : ¬ Free s f) : Step s (.lockPark f) (doPark s f)
  | tryOk (s : State) (f : Fid) (h : s.pc f = .idle) (hf : Free s f) : Step s (.tryLock f true) (lockHelper s f)
  | tryFail (s : State) (f : Fid) (h : s.pc f = .idle) (hf : ¬ Free s f) : Step s (.tryLock f false) s
  /-- `unlock()`: … `if (_occupied_count == 0) { _owner_id = 0; _queue.NotifyOne(); }` -/
  | unlock (s : State) (f : Fid) (w : Option Fid) (h : s.pc f = .idle) (hh : f ∈ s.holders) (hw : PatchPick s w) :
      Step s (.unlock f w) (notifyR (doUnlock s f) w)
  | tlfFast (s : State) (f : Fid) (hk : s.timed = true) (h : s.pc f = .idle) (hf : Free s f) :
      Step s (.tlfAcq f) (lockHelper s f)
  | tlfPark (s : State) (f : Fid) (t d j : Nat) (hk : s.timed = true) (h : s.pc f = .idle) (hf : ¬ Free s f)
      (ht : s.now ≤ t) : Step s (.tlfPark f t d j) (doTlfPark s f t d j)
  | tlfRecheckAcq (s : State) (f : Fid) (req : Nat) (hk : s.timed = true) (h : s.pc f = .tLocking req) (hf : Free s f) :
      Step s (.tlfAcq f) (lockHelper s f)
  | tlfRepark (s : State) (f : Fid) (req j : Nat) (hk : s.timed = true) (h : s.pc f = .tLocking req) (hf : ¬ Free s f) :
      Step s (.tlfRepark f j) (doTlfRepark s f req j)
  | tlfTimeout (s : State) (f : Fid) (t req dl : Nat) (hk : s.timed = true) (h : s.pc f = .tParked req dl)
      (hd : dl ≤ t) (ht : s.now ≤ t) : Step s (.tlfTimeout f t) (doTlfTimeout s f t)
  | sleepStart (s : State) (f : Fid) (t d : Nat) (h : s.pc f = .idle) (ht : s.now ≤ t) :
      Step s (.sleepStart f t d) { s with pc := upd s.pc f (.sleeping (t + d)), now := t }
  | sleepWake (s : State) (f : Fid) (t dl : Nat) (h : s.pc f = .sleeping dl) (hd : dl ≤ t) (ht : s.now ≤ t) :
      Step s (.sleepWake f t) { s with pc := upd s.pc f .idle, now := t }
  | finish (s : State) (f : Fid) (h : s.pc f = .idle) : Step s (.finish f) { s with pc := upd s.pc f .done }

inductive Reachable (timed : Bool) (n : Nat) : State → Prop where
  | init : Reachable timed n (init timed n)
  | step {s l s'} : Reachable timed n s → Step s l s' → Reachable timed n s'

def Quiescent (s : State) : Prop := ∀ l s', ¬ Step s l s'

def next (s : State) : Label → Option State
  | .lockAcq f =>
      match s.pc f with
      | .idle => if Free s f then some (lockHelper s f) else none
      | .locking => if Free s f then some (lockHelper s f) else none
      | _ => none
  | .lockPark f =>
      match s.pc f with
      | .idle => if ¬ Free s f then some (doPark s f) else none
      | .locking => if ¬ Free s f then some (doPark s f) else none
      | _ => none
  | .tryLock f ok =>
      if s.pc f = .idle then
        if ok then (if Free s f then some (lockHelper s f) else none)
        else (if ¬ Free s f then some s else none)
      else none
  | .unlock f w =>
      if s.pc f = .idle ∧ f ∈ s.holders ∧ PatchPick s w then some (notifyR (doUnlock s f) w) else none
  | .tlfAcq f =>
      if s.timed = true then
        match s.pc f with
        | .idle => if Free s f then some (lockHelper s f) else none
        | .tLocking _ => if Free s f then some (lockHelper s f) else none
        | _ => none
      else none
  | .tlfRepark f j =>
      if s.timed = true then
        match s.pc f with
        | .tLocking req => if ¬ Free s f then some (doTlfRepark s f req j) else none
        | _ => none
      else none
  | .tlfPark f t d j =>
      if s.timed = true ∧ s.pc f = .idle ∧ ¬ Free s f ∧ s.now ≤ t then some (doTlfPark s f t d j) else none
  | .tlfTimeout f t =>
      if s.timed = true then
        match s.pc f with
        | .tParked _ dl => if dl ≤ t ∧ s.now ≤ t then some (doTlfTimeout s f t) else none
        | _ => none
      else none
  | .sleepStart f t d =>
      if s.pc f = .idle ∧ s.now ≤ t then some { s with pc := upd s.pc f (.sleeping (t + d)), now := t } else none
  | .sleepWake f t =>
      match s.pc f with
      | .sleeping dl => if dl ≤ t ∧ s.now ≤ t then some { s with pc := upd s.pc f .idle, now := t } else none
      | _ => none
  | .finish f => if s.pc f = .idle then some { s with pc := upd s.pc f .done } else none

theorem next_sound {s : State} {l : Label} {s' : State} (h : next s l = some s') : Step s l s' := by
  cases l with
  | lockAcq f =>
      simp only [next] at h; split at h
      · rename_i hp; split at h
        · rename_i hf; cases h; exact .lockFast s f hp hf
        · cases h
      · rename_i hp; split at h
        · rename_i hf; cases h; exact .lockRecheckAcq s f hp hf
        · cases h
      · cases h
  | lockPark f =>
      simp only [next] at h; split at h
      · rename_i hp; split at h
        · rename_i hf; cases h; exact .lockPark s f hp hf
        · cases h
      · rename_i hp; split at h
        · rename_i hf; cases h; exact .lockRepark s f hp hf
        · cases h
      · cases h
  | tryLock f ok =>
      simp only [next] at h; split at h
      · rename_i hp; cases ok
        · simp only [Bool.false_eq_true, if_false] at h; split at h
          · rename_i hf; cases h; exact .tryFail s f hp hf
          · cases h
        · simp only [if_true] at h; split at h
          · rename_i hf; cases h; exact .tryOk s f hp hf
          · cases h
      · cases h
  | unlock f w =>
      simp only [next] at h; split at h
      · rename_i hg; cases h; exact .unlock s f w hg.1 hg.2.1 hg.2.2
      · cases h
  | tlfAcq f =>
      simp only [next] at h; split at h
      · rename_i hk; split at h
        · rename_i hp; split at h
          · rename_i hf; cases h; exact .tlfFast s f hk hp hf
          · cases h
        · rename_i req hp; split at h
          · rename_i hf; cases h; exact .tlfRecheckAcq s f req hk hp hf
          · cases h
        · cases h
      · cases h
  | tlfRepark f j =>
      simp only [next] at h; split at h
      · rename_i hk; split at h
        · rename_i req hp; split at h
          · rename_i hf; cases h; exact .tlfRepark s f req j hk hp hf
          · cases h
        · cases h
      · cases h
  | tlfPark f t d j =>
      simp only [next] at h; split at h
      · rename_i hg; cases h; exact .tlfPark s f t d j hg.1 hg.2.1 hg.2.2.1 hg.2.2.2
      · cases h
  | tlfTimeout f t =>
      simp only [next] at h; split at h
      · rename_i hk; split at h
        · rename_i req dl hp; split at h
          · rename_i hg; cases h; exact .tlfTimeout s f t req dl hk hp hg.1 hg.2
          · cases h
        · cases h
      · cases h
  | sleepStart f t d =>
      simp only [next] at h; split at h
      · rename_i hg; cases h; exact .sleepStart s f t d hg.1 hg.2
      · cases h
  | sleepWake f t =>
      simp only [next] at h; split at h
      · rename_i dl hp; split at h
        · rename_i hg; cases h; exact .sleepWake s f t dl hp hg.1 hg.2
        · cases h
      · cases h
  | finish f =>
      simp only [next] at h; split at h
      · rename_i hg; cases h; exact .finish s f hg
      · cases h

end Yaclib.FiberSync.Rm
