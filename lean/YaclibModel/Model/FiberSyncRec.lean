/-
C18 — model `Rm` of `fiber::RecursiveMutex` / `fiber::RecursiveTimedMutex`.

Written from /repo: src/fault/fiber/recursive_mutex.cpp, include/yaclib/fault/detail/fiber/recursive_timed_mutex.hpp
(scheduler abstraction and conventions as in Model/FiberSync.lean).

The model contains the code as it is:
  D4  `RecursiveMutex::unlock` never calls `_queue.NotifyOne()`: no rule ever wakes a fiber parked by `lock()`;
      a fiber parked by `try_lock_for` can only time out.
  D6  `lock()` / `TimedWaitHelper` call `LockHelper()` after the wait without re-checking the condition
      (single `if`): rules `lockWokenAcq`, `tlfWokenAcq` — unreachable as long as D4 is there (nobody is ever woken).

The flag `patch` switches on the *proposed minimal repair of D4 alone* (`unlock` notifies one waiter when the count
drops to 0): it is not the code, it is there to show what the repair has to contain — with D4 repaired and D6 left
in, two fibers own the mutex at once (`Props/C18.lean`, `patchD4_alone_violated_witness`).  The flag `loop` switches
on the proposed repair of D6 (`while` instead of `if`, in `lock()` and — with the deadline fixed at the call — in
`TimedWaitHelper`).  `patch = loop = true` is the code of notes/C18_proposed_patches.diff, for which the full theorems
are proved.  Every theorem about the code as it is is stated for `patch = false` (and any `loop`: without a notify the
continuation after the wait is dead code).
-/
import YaclibModel.Model.FiberSync

namespace Yaclib.FiberSync.Rm
open Yaclib.FiberSync

inductive Pc where
  | idle | done
  | parked                     -- `lock()`: on `_queue`, no deadline
  | woken                      -- … notified: `LockHelper()` next
  | tParked (req dl : Nat)     -- `TimedWaitHelper`: on `_queue` and the sleep list
  | tWoken
  | locking                    -- (repaired, `loop`) notified: evaluates the `while` condition of `lock()` again
  | tLocking (req : Nat)       -- (repaired, `loop`) notified: evaluates `while (r && …)` of `TimedWaitHelper` again
  | sleeping (dl : Nat)
  deriving DecidableEq, Repr

def Pc.inQ : Pc → Bool
  | .parked => true
  | .tParked _ _ => true
  | _ => false

def Pc.woke : Pc → Bool
  | .woken => true
  | .tWoken => true
  | _ => false

def Pc.rechecks : Pc → Bool
  | .locking => true
  | .tLocking _ => true
  | _ => false

def wake (loop : Bool) : Pc → Pc
  | .parked => if loop then .locking else .woken
  | .tParked req _ => if loop then .tLocking req else .tWoken
  | p => p

structure State where
  timed : Bool
  patch : Bool                 -- hypothetical: D4 repaired (see header); `false` = the code
  loop : Bool                  -- hypothetical: D6 repaired (see header); `false` = the code
  pc : Fid → Pc
  owner : Option Fid           -- `_owner_id` (0 = nobody)
  count : Nat                  -- `_occupied_count`
  rq : List Fid                -- `_queue`
  now : Nat
  -- ghost
  holders : List Fid           -- one entry per successful acquisition not yet released
  transit : List Fid           -- fibers made runnable by a NotifyOne that have not run yet (repaired variant)
  barge : Nat                  -- D6 hits: `LockHelper()` by a woken fiber while another fiber owns the mutex

def init (timed patch loop : Bool) (n : Nat) : State :=
  { timed := timed, patch := patch, loop := loop, pc := fun g => if g < n then .idle else .done, owner := none,
    count := 0, rq := [], now := 0, holders := [], transit := [], barge := 0 }

/-- the condition under which `lock()` / `try_lock()` do not wait: `!(_occupied_count != 0 && _owner_id != me)` -/
def Free (s : State) (f : Fid) : Prop := s.count = 0 ∨ s.owner = some f

instance (s : State) (f : Fid) : Decidable (Free s f) := by unfold Free; exact inferInstance

/-- whom the patched `unlock` wakes: a waiter iff the count dropped to 0 -/
def PatchPick (s : State) (w : Option Fid) : Prop := if s.count - 1 = 0 then PickOk s.rq w else w = none

instance (s : State) (w : Option Fid) : Decidable (PatchPick s w) := by unfold PatchPick; exact inferInstance

inductive Label where
  | lockAcq (f : Fid)                            -- `f E ret lock`
  | lockPark (f : Fid)                           -- `f M rq park 0`
  | tryLock (f : Fid) (ok : Bool)                -- `f E ret try_lock b`
  | unlock (f : Fid) (w : Option Fid)            -- `f E ret unlock` (w ≠ none only in the patched variant)
  | tlfAcq (f : Fid)                             -- `f E ret try_lock_for 1`
  | tlfPark (f : Fid) (t d j : Nat)              -- `f M rq park_timed 0 @t j=j`
  | tlfTimeout (f : Fid) (t : Nat)               -- `f M rq wake 1 @t`
  | tlfRepark (f : Fid) (j : Nat)                -- (repaired) `f M rq park_timed 0 j=j` after a wake-up
  | sleepStart (f : Fid) (t d : Nat) | sleepWake (f : Fid) (t : Nat)
  | finish (f : Fid)
  deriving DecidableEq, Repr

/-- `LockHelper()`: `_occupied_count++; _owner_id = me` -/
def lockHelper (s : State) (f : Fid) : State :=
  { s with count := s.count + 1, owner := some f, holders := s.holders ++ [f], pc := upd s.pc f .idle,
           transit := rm s.transit f }

def doWokenAcq (s : State) (f : Fid) : State :=
  { lockHelper s f with barge := s.barge + (if s.count ≠ 0 ∧ s.owner ≠ some f then 1 else 0) }

/-- `unlock()`: `_occupied_count--; if (_occupied_count == 0) _owner_id = 0;` — and nothing else -/
def doUnlock (s : State) (f : Fid) : State :=
  { s with count := s.count - 1, owner := if s.count - 1 = 0 then none else s.owner, holders := s.holders.erase f }

def notifyR (s : State) : Option Fid → State
  | none => s
  | some g => { s with rq := rm s.rq g, pc := upd s.pc g (wake s.loop (s.pc g)), transit := s.transit ++ [g] }

def doPark (s : State) (f : Fid) : State :=
  { s with rq := s.rq ++ [f], pc := upd s.pc f .parked, transit := rm s.transit f }

def doTlfRepark (s : State) (f : Fid) (req j : Nat) : State :=
  { s with rq := s.rq ++ [f], pc := upd s.pc f (.tParked req (req + j)), transit := rm s.transit f }

def doTlfPark (s : State) (f : Fid) (t d j : Nat) : State :=
  { s with rq := s.rq ++ [f], pc := upd s.pc f (.tParked (t + d) (t + d + j)), now := t }

def doTlfTimeout (s : State) (f : Fid) (t : Nat) : State :=
  { s with rq := rm s.rq f, pc := upd s.pc f .idle, now := t }

inductive Step : State → Label → State → Prop where
  | lockFast (s : State) (f : Fid) (h : s.pc f = .idle) (hf : Free s f) : Step s (.lockAcq f) (lockHelper s f)
  | lockPark (s : State) (f : Fid) (h : s.pc f = .idle) (hf : ¬ Free s f) : Step s (.lockPark f) (doPark s f)
  /-- D6: `if (…) { _queue.Wait(); } LockHelper();` -/
  | lockWokenAcq (s : State) (f : Fid) (h : s.pc f = .woken) : Step s (.lockAcq f) (doWokenAcq s f)
  /-- (repaired) the `while` condition again -/
  | lockRecheckAcq (s : State) (f : Fid) (h : s.pc f = .locking) (hf : Free s f) : Step s (.lockAcq f) (lockHelper s f)
  | lockRepark (s : State) (f : Fid) (h : s.pc f = .locking) (hf : ¬ Free s f) : Step s (.lockPark f) (doPark s f)
  | tryOk (s : State) (f : Fid) (h : s.pc f = .idle) (hf : Free s f) : Step s (.tryLock f true) (lockHelper s f)
  | tryFail (s : State) (f : Fid) (h : s.pc f = .idle) (hf : ¬ Free s f) : Step s (.tryLock f false) s
  /-- D4: no notify -/
  | unlock (s : State) (f : Fid) (h : s.pc f = .idle) (hh : f ∈ s.holders) (hp : s.patch = false) :
      Step s (.unlock f none) (doUnlock s f)
  /-- the proposed repair of D4 alone (not the code) -/
  | unlockPatched (s : State) (f : Fid) (w : Option Fid) (h : s.pc f = .idle) (hh : f ∈ s.holders)
      (hp : s.patch = true) (hw : PatchPick s w) :
      Step s (.unlock f w) (notifyR (doUnlock s f) w)
  | tlfFast (s : State) (f : Fid) (hk : s.timed = true) (h : s.pc f = .idle) (hf : Free s f) :
      Step s (.tlfAcq f) (lockHelper s f)
  | tlfPark (s : State) (f : Fid) (t d j : Nat) (hk : s.timed = true) (h : s.pc f = .idle) (hf : ¬ Free s f)
      (ht : s.now ≤ t) : Step s (.tlfPark f t d j) (doTlfPark s f t d j)
  | tlfWokenAcq (s : State) (f : Fid) (hk : s.timed = true) (h : s.pc f = .tWoken) :
      Step s (.tlfAcq f) (doWokenAcq s f)
  | tlfRecheckAcq (s : State) (f : Fid) (req : Nat) (hk : s.timed = true) (h : s.pc f = .tLocking req) (hf : Free s f) :
      Step s (.tlfAcq f) (lockHelper s f)
  | tlfRepark (s : State) (f : Fid) (req j : Nat) (hk : s.timed = true) (h : s.pc f = .tLocking req) (hf : ¬ Free s f) :
      Step s (.tlfRepark f j) (doTlfRepark s f req j)
  | tlfTimeout (s : State) (f : Fid) (t req dl : Nat) (hk : s.timed = true) (h : s.pc f = .tParked req dl)
      (hd : dl ≤ t) (ht : s.now ≤ t) : Step s (.tlfTimeout f t) (doTlfTimeout s f t)
  | sleepStart (s : State) (f : Fid) (t d : Nat) (h : s.pc f = .idle) (ht : s.now ≤ t) :
      Step s (.sleepStart f t d) { s with pc := upd s.pc f (.sleeping (t + d)), now := t }
  | sleepWake (s : State) (f : Fid) (t dl : Nat) (h : s.pc f = .sleeping dl) (hd : dl ≤ t) (ht : s.now ≤ t) :
      Step s (.sleepWake f t) { s with pc := upd s.pc f .idle, now := t }
  | finish (s : State) (f : Fid) (h : s.pc f = .idle) : Step s (.finish f) { s with pc := upd s.pc f .done }

inductive Reachable (timed patch loop : Bool) (n : Nat) : State → Prop where
  | init : Reachable timed patch loop n (init timed patch loop n)
  | step {s l s'} : Reachable timed patch loop n s → Step s l s' → Reachable timed patch loop n s'

def Quiescent (s : State) : Prop := ∀ l s', ¬ Step s l s'

def next (s : State) : Label → Option State
  | .lockAcq f =>
      match s.pc f with
      | .idle => if Free s f then some (lockHelper s f) else none
      | .woken => some (doWokenAcq s f)
      | .locking => if Free s f then some (lockHelper s f) else none
      | _ => none
  | .lockPark f =>
      match s.pc f with
      | .idle => if ¬ Free s f then some (doPark s f) else none
      | .locking => if ¬ Free s f then some (doPark s f) else none
      | _ => none
  | .tryLock f ok =>
      if s.pc f = .idle then
        if ok then (if Free s f then some (lockHelper s f) else none)
        else (if ¬ Free s f then some s else none)
      else none
  | .unlock f w =>
      if s.pc f = .idle ∧ f ∈ s.holders then
        if s.patch = false then (if w = none then some (doUnlock s f) else none)
        else if PatchPick s w then some (notifyR (doUnlock s f) w) else none
      else none
  | .tlfAcq f =>
      if s.timed = true then
        match s.pc f with
        | .idle => if Free s f then some (lockHelper s f) else none
        | .tWoken => some (doWokenAcq s f)
        | .tLocking _ => if Free s f then some (lockHelper s f) else none
        | _ => none
      else none
  | .tlfRepark f j =>
      if s.timed = true then
        match s.pc f with
        | .tLocking req => if ¬ Free s f then some (doTlfRepark s f req j) else none
        | _ => none
      else none
  | .tlfPark f t d j =>
      if s.timed = true ∧ s.pc f = .idle ∧ ¬ Free s f ∧ s.now ≤ t then some (doTlfPark s f t d j) else none
  | .tlfTimeout f t =>
      if s.timed = true then
        match s.pc f with
        | .tParked _ dl => if dl ≤ t ∧ s.now ≤ t then some (doTlfTimeout s f t) else none
        | _ => none
      else none
  | .sleepStart f t d =>
      if s.pc f = .idle ∧ s.now ≤ t then some { s with pc := upd s.pc f (.sleeping (t + d)), now := t } else none
  | .sleepWake f t =>
      match s.pc f with
      | .sleeping dl => if dl ≤ t ∧ s.now ≤ t then some { s with pc := upd s.pc f .idle, now := t } else none
      | _ => none
  | .finish f => if s.pc f = .idle then some { s with pc := upd s.pc f .done } else none

theorem next_sound {s : State} {l : Label} {s' : State} (h : next s l = some s') : Step s l s' := by
  cases l with
  | lockAcq f =>
      simp only [next] at h; split at h
      · rename_i hp; split at h
        · rename_i hf; cases h; exact .lockFast s f hp hf
        · cases h
      · rename_i hp; cases h; exact .lockWokenAcq s f hp
      · rename_i hp; split at h
        · rename_i hf; cases h; exact .lockRecheckAcq s f hp hf
        · cases h
      · cases h
  | lockPark f =>
      simp only [next] at h; split at h
      · rename_i hp; split at h
        · rename_i hf; cases h; exact .lockPark s f hp hf
        · cases h
      · rename_i hp; split at h
        · rename_i hf; cases h; exact .lockRepark s f hp hf
        · cases h
      · cases h
  | tryLock f ok =>
      simp only [next] at h; split at h
      · rename_i hp; cases ok
        · simp only [Bool.false_eq_true, if_false] at h; split at h
          · rename_i hf; cases h; exact .tryFail s f hp hf
          · cases h
        · simp only [if_true] at h; split at h
          · rename_i hf; cases h; exact .tryOk s f hp hf
          · cases h
      · cases h
  | unlock f w =>
      simp only [next] at h; split at h
      · rename_i hg; split at h
        · rename_i hp; split at h
          · rename_i hw; cases h; subst hw; exact .unlock s f hg.1 hg.2 hp
          · cases h
        · rename_i hp; split at h
          · rename_i hw; cases h
            exact .unlockPatched s f w hg.1 hg.2 (by cases hpp : s.patch <;> simp_all) hw
          · cases h
      · cases h
  | tlfAcq f =>
      simp only [next] at h; split at h
      · rename_i hk; split at h
        · rename_i hp; split at h
          · rename_i hf; cases h; exact .tlfFast s f hk hp hf
          · cases h
        · rename_i hp; cases h; exact .tlfWokenAcq s f hk hp
        · rename_i req hp; split at h
          · rename_i hf; cases h; exact .tlfRecheckAcq s f req hk hp hf
          · cases h
        · cases h
      · cases h
  | tlfRepark f j =>
      simp only [next] at h; split at h
      · rename_i hk; split at h
        · rename_i req hp; split at h
          · rename_i hf; cases h; exact .tlfRepark s f req j hk hp hf
          · cases h
        · cases h
      · cases h
  | tlfPark f t d j =>
      simp only [next] at h; split at h
      · rename_i hg; cases h; exact .tlfPark s f t d j hg.1 hg.2.1 hg.2.2.1 hg.2.2.2
      · cases h
  | tlfTimeout f t =>
      simp only [next] at h; split at h
      · rename_i hk; split at h
        · rename_i req dl hp; split at h
          · rename_i hg; cases h; exact .tlfTimeout s f t req dl hk hp hg.1 hg.2
          · cases h
        · cases h
      · cases h
  | sleepStart f t d =>
      simp only [next] at h; split at h
      · rename_i hg; cases h; exact .sleepStart s f t d hg.1 hg.2
      · cases h
  | sleepWake f t =>
      simp only [next] at h; split at h
      · rename_i dl hp; split at h
        · rename_i hg; cases h; exact .sleepWake s f t dl hp hg.1 hg.2
        · cases h
      · cases h
  | finish f =>
      simp only [next] at h; split at h
      · rename_i hg; cases h; exact .finish s f hg
      · cases h

end Yaclib.FiberSync.Rm
