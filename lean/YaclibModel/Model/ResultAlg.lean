/- The Result algebra (C02; include/yaclib/util/result.hpp): `Result<V, E>` is a sum of four alternatives
   (`std::variant<V, std::exception_ptr, E, std::monostate>`, `State()` = its index) with compiler-generated copy / move
   construction and assignment, converting assignment from a value / error / exception_ptr / StopTag, and the accessors
   `Ok()`, `Value()`, `Error()`, `Exception()` in const& and && flavours.

   The model is written from the pristine code and tracks what the C++ leaves behind: a moved-from payload is VISIBLE
   (`Pay.dead`: the harness types PV / PE mark themselves when moved from; a moved-from std::exception_ptr is null), a moved-from
   Result keeps its state (std::variant moves the alternative, it does not change the index).  `unit = true` is the
   `Result<void, E>` family: the value is `Unit`, which has nothing to move.

   Four slots hold optional Results; an operation that violates a C++ precondition (missing object, self-assignment, `Value()`
   of a Result that holds no value, `Ok()` on a null exception_ptr — all undefined or terminating in C++) answers `bad` and
   changes nothing: such lines are never generated. -/
namespace Yaclib.ResultAlg

/-- payload of a value / error object: a number, or the visible moved-from mark -/
inductive Pay
  | live (k : Int)
  | dead
deriving DecidableEq, Repr

inductive RS
  | value (p : Pay)
  | exception (x : Option Nat)     -- `none`: a null exception_ptr (moved-from)
  | error (p : Pay)
  | empty
deriving DecidableEq, Repr

/-- ResultState -/
inductive Tag | value | exception | error | empty
deriving DecidableEq, Repr

def RS.tag : RS → Tag
  | .value _ => .value
  | .exception _ => .exception
  | .error _ => .error
  | .empty => .empty

/-- what a move (construction or assignment FROM it, `std::move(r).Value()` …) leaves in the source: the same alternative,
    with a moved-from payload -/
def movedFrom (unit : Bool) : RS → RS
  | .value p => .value (if unit then p else .dead)
  | .exception _ => .exception none
  | .error _ => .error .dead
  | .empty => .empty

inductive Ctor
  | empty                -- Result()
  | val (k : Int)        -- Result(PV{k})                 (Result<void>: Result(Unit{}), k = 0)
  | inplace (k : Int)    -- Result(std::in_place, k)
  | err (k : Int)        -- Result(PE{k})
  | stop                 -- Result(StopTag{})             E{StopTag}: code 0
  | exc (k : Nat)        -- Result(std::make_exception_ptr(TagExc{k}))
deriving DecidableEq, Repr

def Ctor.build : Ctor → RS
  | .empty => .empty
  | .val k => .value (.live k)
  | .inplace k => .value (.live k)
  | .err k => .error (.live k)
  | .stop => .error (.live 0)
  | .exc k => .exception (some k)

inductive Op
  | new (i : Nat) (c : Ctor)
  | copyC (i j : Nat) | moveC (i j : Nat)      -- slot i (re)constructed from slot j
  | copyA (i j : Nat) | moveA (i j : Nat)      -- *ri = *rj / *ri = std::move(*rj)
  | set (i : Nat) (c : Ctor)                   -- *ri = PV{k} / PE{k} / exception_ptr / StopTag{}   (converting assignment)
  | del (i : Nat)
  | ok (i : Nat)                               -- const& Ok()
  | okMove (i : Nat)                           -- && Ok()
  | takeV (i : Nat) | takeE (i : Nat) | takeX (i : Nat)
deriving DecidableEq, Repr

/-- what an operation shows -/
inductive Obs
  | none
  | bad
  | val (p : Pay)
  | err (p : Pay)                  -- takeE
  | exc (x : Option Nat)           -- takeX
  | throwExc (k : Nat)             -- Ok(): std::rethrow_exception
  | throwErr (p : Pay)             -- Ok(): throw ResultError{error}
  | throwEmpty                     -- Ok(): throw ResultEmpty{}
deriving DecidableEq, Repr

abbrev Store := Nat → Option RS

def upd (s : Store) (i : Nat) (v : Option RS) : Store := fun k => if k = i then v else s k

structure St where
  unit : Bool := false
  slots : Store := fun _ => none

def St.put (s : St) (i : Nat) (v : Option RS) : St := { s with slots := upd s.slots i v }

/-- `Ok()`: Get(r) dispatches on State() -/
def okObs : RS → Obs
  | .value p => .val p
  | .exception (some k) => .throwExc k
  | .exception none => .bad
  | .error p => .throwErr p
  | .empty => .throwEmpty

def step (s : St) : Op → St × Obs
  | .new i c => (s.put i (some c.build), .none)
  | .copyC i j =>
    (match s.slots j with
     | some b => if i = j then (s, .bad) else (s.put i (some b), .none)
     | none => (s, .bad))
  | .moveC i j =>
    (match s.slots j with
     | some b => if i = j then (s, .bad) else ((s.put i (some b)).put j (some (movedFrom s.unit b)), .none)
     | none => (s, .bad))
  | .copyA i j =>
    (match s.slots i, s.slots j with
     | some _, some b => if i = j then (s, .bad) else (s.put i (some b), .none)
     | _, _ => (s, .bad))
  | .moveA i j =>
    (match s.slots i, s.slots j with
     | some _, some b => if i = j then (s, .bad) else ((s.put i (some b)).put j (some (movedFrom s.unit b)), .none)
     | _, _ => (s, .bad))
  | .set i c =>
    (match s.slots i with
     | some _ => (s.put i (some c.build), .none)
     | none => (s, .bad))
  | .del i =>
    (match s.slots i with
     | some _ => (s.put i none, .none)
     | none => (s, .bad))
  | .ok i =>
    (match s.slots i with
     | some a => (s, okObs a)
     | none => (s, .bad))
  | .okMove i =>
    (match s.slots i with
     | some a => if okObs a = .bad then (s, .bad) else (s.put i (some (movedFrom s.unit a)), okObs a)
     | none => (s, .bad))
  | .takeV i =>
    (match s.slots i with
     | some (.value p) => (s.put i (some (movedFrom s.unit (.value p))), .val p)
     | _ => (s, .bad))
  | .takeE i =>
    (match s.slots i with
     | some (.error p) => (s.put i (some (movedFrom s.unit (.error p))), .err p)
     | _ => (s, .bad))
  | .takeX i =>
    (match s.slots i with
     | some (.exception x) => (s.put i (some (movedFrom s.unit (.exception x))), .exc x)
     | _ => (s, .bad))

/-- live value / error objects among the first n slots (a moved-from object is still an object) -/
def liveCount (t : Tag) (s : Store) : Nat → Nat
  | 0 => 0
  | n + 1 => liveCount t s n + (match s n with
                                | some a => if a.tag = t then 1 else 0
                                | none => 0)

end Yaclib.ResultAlg
