/- what the C04 tie theorems are about, as computable lists (also `#eval`ed by the check to name sites) -/
import YaclibModel.Model.OrdersRequired
import YaclibModel.Extracted.Orders

namespace Yaclib.OrdersCheck
open Yaclib

/-- sites whose order in the source is weaker than their role needs -/
def insufficient : List Site := Extracted.Orders.sites.filter (fun s => !OrdersRequired.siteOk s && (OrdersRequired.roleOf s).isSome)

/-- sites without a role -/
def unknown : List Site := Extracted.Orders.sites.filter (fun s => (OrdersRequired.roleOf s).isNone)

def showSite (s : Site) : String :=
  s!"{s.file} {s.fn} {s.obj}.{s.op}#{s.idx} orders={reprStr s.succ}/{reprStr s.fail} role={reprStr (OrdersRequired.roleOf s)}"

end Yaclib.OrdersCheck
