/-
`WhenU` — the combinator model (Model/When.lean) composed with n instances of the unique hand-off model of C01
(Model/Unique.lean), one per input.

Model/When.lean abstracts each input by an interface: "the combinator callback of input i is entered exactly once, either
inline by the registering thread (`regSet i false`: `SetCallback` returned false, the input was already complete) or by the
completing thread after the callback was installed (`regSet i true` … `fire i`)".  Here that interface is not assumed: input i
is a full Unique instance with producer `Promise::Set(outcome of input i)` and consumer program `[attach]` (the combinator's
`core.SetCallback(callback)`), run at its own atomic-operation granularity:

  Unique instance i                                   combinator (When)
  ------------------------------------------------    -------------------------------------------------
  consumer `cLoad x`   (pre-check load of the word)   —            (the registering thread is inside SetCallback)
  consumer `cCas cont true`  (callback installed)     `regSet i true`
  consumer `cCas cont false` (result arrived)         —
  consumer `invoke c r` (inline: SetCallback = false) `regSet i false`   (callback entered by the registering thread)
  producer `pXchg old`  (Promise::Set: exchange)      —
  producer `invoke p r` (took the callback, runs it)  `fire i`           (callback entered by the completing thread)

The consumer of instance i is the registering thread: it moves only while the registration loop is at input i
(`reg = i`) and is not busy consuming an earlier input inline (`busy = none`).  The When component's state is updated with
the effect functions of its two interface steps WITHOUT asking for their guards: that the guards hold whenever the
Unique instances produce the events is the theorem (Proofs/WhenCompose.lean, `sim`).
-/
import YaclibModel.Model.When
import YaclibModel.Model.Unique

namespace Yaclib.WhenU
open Yaclib

/-- what a unique core can tell apart of an input's outcome -/
def conv : When.Res → Unique.Res
  | .val v => .val v
  | .err _ => .err
  | .exc _ => .exc

/-- input i as a C01 workload: `Promise::Set(outcome)`; the consumer attaches one inline continuation (the combinator callback) -/
def wU (w : When.Workload) (i : Nat) : Unique.Workload := ⟨.set (conv (w.inp i)), [], .attach false⟩

structure State where
  wh : When.State
  u : Nat → Unique.State

def init (w : When.Workload) : State := ⟨When.init w, fun i => Unique.init (wU w i)⟩

inductive Label where
  | when (l : When.Label)                    -- a step of the combinator that is not an interface event
  | prod (i : Nat) (old : Unique.Word)       -- Promise::Set of input i: the exchange on its word
  | cload (i : Nat) (x : Unique.Word)        -- SetCallback on input i: the pre-check load
  | casOk (i : Nat)                          -- … the CAS succeeded: callback installed
  | casFail (i : Nat)                        -- … the CAS failed: the result is there
  | enterC (i : Nat) (r : Unique.Res)        -- the registering thread enters the callback of input i (inline)
  | enterP (i : Nat) (r : Unique.Res)        -- the completing thread enters the callback of input i
  deriving DecidableEq, Repr

/-- the When model's interface (environment) steps -/
def isEnv : When.Label → Bool
  | .regSet _ _ => true
  | .fire _ => true
  | _ => false

/-- the registering thread is at input i and free -/
def regAt (w : When.Workload) (s : When.State) (i : Nat) : Prop :=
  s.reg = i ∧ s.busy = none ∧ i < w.n ∧ s.crashed = false

instance (w : When.Workload) (s : When.State) (i : Nat) : Decidable (regAt w s i) := by unfold regAt; exact inferInstance

inductive Step (w : When.Workload) : State → Label → State → Prop where
  | when (S : State) (l : When.Label) (wh' : When.State) (hl : isEnv l = false) (h : When.Step w S.wh l wh') :
      Step w S (.when l) { S with wh := wh' }
  | prod (S : State) (i : Nat) (old : Unique.Word) (u' : Unique.State) (hi : i < w.n)
      (h : Unique.Step (S.u i) (.pXchg old) u') : Step w S (.prod i old) { S with u := When.upd S.u i u' }
  | cload (S : State) (i : Nat) (x : Unique.Word) (u' : Unique.State) (hr : regAt w S.wh i)
      (h : Unique.Step (S.u i) (.cLoad x) u') : Step w S (.cload i x) { S with u := When.upd S.u i u' }
  | casOk (S : State) (i : Nat) (u' : Unique.State) (hr : regAt w S.wh i)
      (h : Unique.Step (S.u i) (.cCas .cont true) u') :
      Step w S (.casOk i) ⟨When.doRegSet w S.wh i true, When.upd S.u i u'⟩
  | casFail (S : State) (i : Nat) (u' : Unique.State) (hr : regAt w S.wh i)
      (h : Unique.Step (S.u i) (.cCas .cont false) u') : Step w S (.casFail i) { S with u := When.upd S.u i u' }
  | enterC (S : State) (i : Nat) (r : Unique.Res) (u' : Unique.State) (hr : regAt w S.wh i)
      (h : Unique.Step (S.u i) (.invoke .c r) u') :
      Step w S (.enterC i r) ⟨When.doRegSet w S.wh i false, When.upd S.u i u'⟩
  | enterP (S : State) (i : Nat) (r : Unique.Res) (u' : Unique.State) (hi : i < w.n)
      (h : Unique.Step (S.u i) (.invoke .p r) u') :
      Step w S (.enterP i r) ⟨When.doFire w S.wh i, When.upd S.u i u'⟩

inductive Reachable (w : When.Workload) : State → Prop where
  | init : Reachable w (init w)
  | step {S l S'} : Reachable w S → Step w S l S' → Reachable w S'

/-- executable transition function: the components' own `next` -/
def next (w : When.Workload) (S : State) : Label → Option State
  | .when l => if isEnv l = false then (When.next w S.wh l).map (fun wh' => { S with wh := wh' }) else none
  | .prod i old =>
      if i < w.n then (Unique.next (S.u i) (.pXchg old)).map (fun u' => { S with u := When.upd S.u i u' }) else none
  | .cload i x =>
      if regAt w S.wh i then (Unique.next (S.u i) (.cLoad x)).map (fun u' => { S with u := When.upd S.u i u' }) else none
  | .casOk i =>
      if regAt w S.wh i then
        (Unique.next (S.u i) (.cCas .cont true)).map (fun u' => ⟨When.doRegSet w S.wh i true, When.upd S.u i u'⟩)
      else none
  | .casFail i =>
      if regAt w S.wh i then
        (Unique.next (S.u i) (.cCas .cont false)).map (fun u' => { S with u := When.upd S.u i u' })
      else none
  | .enterC i r =>
      if regAt w S.wh i then
        (Unique.next (S.u i) (.invoke .c r)).map (fun u' => ⟨When.doRegSet w S.wh i false, When.upd S.u i u'⟩)
      else none
  | .enterP i r =>
      if i < w.n then (Unique.next (S.u i) (.invoke .p r)).map (fun u' => ⟨When.doFire w S.wh i, When.upd S.u i u'⟩)
      else none

theorem next_sound {w : When.Workload} {S : State} {l : Label} {S' : State} (h : next w S l = some S') : Step w S l S' := by
  cases l with
  | when l =>
      simp only [next] at h
      split at h
      · rename_i hl
        cases hn : When.next w S.wh l with
        | none => rw [hn] at h; cases h
        | some wh' => rw [hn] at h; cases h; exact .when S l wh' hl (When.next_sound hn)
      · cases h
  | prod i old =>
      simp only [next] at h
      split at h
      · rename_i hi
        cases hn : Unique.next (S.u i) (.pXchg old) with
        | none => rw [hn] at h; cases h
        | some u' => rw [hn] at h; cases h; exact .prod S i old u' hi (Unique.next_sound hn)
      · cases h
  | cload i x =>
      simp only [next] at h
      split at h
      · rename_i hr
        cases hn : Unique.next (S.u i) (.cLoad x) with
        | none => rw [hn] at h; cases h
        | some u' => rw [hn] at h; cases h; exact .cload S i x u' hr (Unique.next_sound hn)
      · cases h
  | casOk i =>
      simp only [next] at h
      split at h
      · rename_i hr
        cases hn : Unique.next (S.u i) (.cCas .cont true) with
        | none => rw [hn] at h; cases h
        | some u' => rw [hn] at h; cases h; exact .casOk S i u' hr (Unique.next_sound hn)
      · cases h
  | casFail i =>
      simp only [next] at h
      split at h
      · rename_i hr
        cases hn : Unique.next (S.u i) (.cCas .cont false) with
        | none => rw [hn] at h; cases h
        | some u' => rw [hn] at h; cases h; exact .casFail S i u' hr (Unique.next_sound hn)
      · cases h
  | enterC i r =>
      simp only [next] at h
      split at h
      · rename_i hr
        cases hn : Unique.next (S.u i) (.invoke .c r) with
        | none => rw [hn] at h; cases h
        | some u' => rw [hn] at h; cases h; exact .enterC S i r u' hr (Unique.next_sound hn)
      · cases h
  | enterP i r =>
      simp only [next] at h
      split at h
      · rename_i hi
        cases hn : Unique.next (S.u i) (.invoke .p r) with
        | none => rw [hn] at h; cases h
        | some u' => rw [hn] at h; cases h; exact .enterP S i r u' hi (Unique.next_sound hn)
      · cases h

end Yaclib.WhenU
