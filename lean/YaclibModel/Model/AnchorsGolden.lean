/- Digests of the code of the files each property is anchored in, as reviewed (committed copy; refreshed only by
   tools/regolden.py).  `Extracted/Anchors.lean` is regenerated on every run. -/

namespace Yaclib.AnchorsGolden

def C01 : List (String × String) := [
  ("include/yaclib/algo/detail/base_core.hpp", "d4f7543ad13b4486f612"),
  ("src/algo/base_core.cpp", "6e716eaf9126fd64aa99"),
  ("include/yaclib/algo/detail/unique_core.hpp", "713951baa75ffbed829e"),
  ("include/yaclib/algo/detail/result_core.hpp", "faa60f28da4fd1e231b3"),
  ("include/yaclib/async/promise.hpp", "36fd66927f663f84c729"),
  ("include/yaclib/async/future.hpp", "b14260c664557261bb87"),
  ("include/yaclib/async/connect.hpp", "5d756ef787b5f9f63113"),
  ("src/algo/drop_core.cpp", "77ff928d6cc55b71ae03")
]

def C02 : List (String × String) := [
  ("include/yaclib/algo/detail/core.hpp", "1d0336f00b781746ae47"),
  ("include/yaclib/algo/detail/func_core.hpp", "5b2c97c8b5dd8e9e1231"),
  ("include/yaclib/algo/detail/promise_core.hpp", "17eebd9fe9b94cd3bece"),
  ("include/yaclib/util/result.hpp", "02d528214cef9257e50a"),
  ("include/yaclib/async/run.hpp", "19c1cc499826161a806e"),
  ("include/yaclib/lazy/schedule.hpp", "73c97044f1102579d26e"),
  ("include/yaclib/lazy/make.hpp", "6b3f7ad711644a70901b"),
  ("include/yaclib/util/type_traits.hpp", "25a495806f426fb92900")
]

def C03 : List (String × String) := [
  ("include/yaclib/algo/detail/core.hpp", "1d0336f00b781746ae47"),
  ("include/yaclib/algo/detail/result_core.hpp", "faa60f28da4fd1e231b3"),
  ("src/algo/base_core.cpp", "6e716eaf9126fd64aa99"),
  ("src/algo/drop_core.cpp", "77ff928d6cc55b71ae03"),
  ("include/yaclib/util/detail/atomic_counter.hpp", "6a30f50c44f462065466"),
  ("include/yaclib/util/detail/unique_counter.hpp", "0f5f03dcdd7c4dfebf1c"),
  ("include/yaclib/util/helper.hpp", "bb9e65033037138cbffb"),
  ("include/yaclib/coro/detail/promise_type.hpp", "d6e0f9a70907f69ffd5b"),
  ("include/yaclib/exe/detail/unique_job.hpp", "e77c6f9ca5a2f5d9fa65"),
  ("include/yaclib/async/when/when.hpp", "e810da9eeedd97de2b8b"),
  ("include/yaclib/lazy/task.hpp", "3aa984341b41464b4558"),
  ("src/lazy/task_impl.cpp", "c3755748bab68930bd88")
]

def C04 : List (String × String) := [
  ("src/algo/base_core.cpp", "6e716eaf9126fd64aa99"),
  ("include/yaclib/util/detail/atomic_counter.hpp", "6a30f50c44f462065466"),
  ("src/exe/strand.cpp", "36aaa6c29d5732654b66"),
  ("src/runtime/fair_thread_pool.cpp", "96a5c07fed98b5e9f96d"),
  ("include/yaclib/coro/mutex.hpp", "a784f0d9034993712fea"),
  ("include/yaclib/coro/shared_mutex.hpp", "525f6b841760da7dcfef"),
  ("src/algo/one_shot_event.cpp", "08639fc0453d7370d811"),
  ("include/yaclib/async/when/any.hpp", "b2ef5da4ab245770103e"),
  ("include/yaclib/async/when/all.hpp", "14a48f417959ed64fced"),
  ("src/util/mutex_event.cpp", "969a76c859c2001486bb"),
  ("src/util/atomic_event.cpp", "afae8f8931f84331eaa3")
]

def C05 : List (String × String) := [
  ("include/yaclib/exe/executor.hpp", "1b405b8ae087bdc00100"),
  ("src/exe/inline.cpp", "2967de58473efcbf9b0f"),
  ("src/exe/manual.cpp", "23635a68766cc4531179"),
  ("src/exe/strand.cpp", "36aaa6c29d5732654b66"),
  ("src/runtime/fair_thread_pool.cpp", "96a5c07fed98b5e9f96d"),
  ("include/yaclib/algo/detail/base_core.hpp", "d4f7543ad13b4486f612"),
  ("include/yaclib/algo/detail/core.hpp", "1d0336f00b781746ae47"),
  ("include/yaclib/async/future.hpp", "b14260c664557261bb87"),
  ("include/yaclib/async/contract.hpp", "cf7e1c10481324ef8e2d"),
  ("include/yaclib/coro/detail/on_awaiter.hpp", "2f5ecd17391e1aace3c5"),
  ("include/yaclib/exe/submit.hpp", "ded7fea3137d1df5b7a7"),
  ("include/yaclib/exe/detail/unique_job.hpp", "e77c6f9ca5a2f5d9fa65")
]

def C06 : List (String × String) := [
  ("include/yaclib/async/shared_future.hpp", "c106c65e90bd37de3f5a"),
  ("include/yaclib/async/shared_promise.hpp", "e981223351dfea4ac4b0"),
  ("include/yaclib/async/shared_contract.hpp", "1156b89f593ecdb40412"),
  ("include/yaclib/algo/detail/shared_core.hpp", "6741ebf12d26d3a5e6ed"),
  ("include/yaclib/algo/detail/result_core.hpp", "faa60f28da4fd1e231b3"),
  ("src/algo/base_core.cpp", "6e716eaf9126fd64aa99"),
  ("include/yaclib/algo/detail/base_core.hpp", "d4f7543ad13b4486f612"),
  ("include/yaclib/async/share.hpp", "b339645516b40215f1a0"),
  ("include/yaclib/async/split.hpp", "69a50c61fd01e3aae86b"),
  ("include/yaclib/async/connect.hpp", "5d756ef787b5f9f63113"),
  ("include/yaclib/coro/detail/await_awaiter.hpp", "5ce61d550dd1a06d8309"),
  ("include/yaclib/algo/detail/shared_event.hpp", "6095645c494222003ef0")
]

def C07 : List (String × String) := [
  ("src/exe/strand.cpp", "36aaa6c29d5732654b66"),
  ("include/yaclib/exe/strand.hpp", "7f64e0a789c02ab36b0e"),
  ("include/yaclib/exe/job.hpp", "ed45ffe3194e228a2229"),
  ("include/yaclib/util/detail/node.hpp", "56344029595aa158546c")
]

def C08 : List (String × String) := [
  ("src/runtime/fair_thread_pool.cpp", "96a5c07fed98b5e9f96d"),
  ("include/yaclib/runtime/fair_thread_pool.hpp", "f79663582b17dc9b8eaf"),
  ("src/util/intrusive_list.cpp", "d7fed89acba189e52d05")
]

def C09 : List (String × String) := [
  ("include/yaclib/async/when/when.hpp", "e810da9eeedd97de2b8b"),
  ("include/yaclib/async/when/all.hpp", "14a48f417959ed64fced"),
  ("include/yaclib/async/when/all_tuple.hpp", "02a1cd23d91b1c65d9c0"),
  ("include/yaclib/async/when/join.hpp", "c2cac28ce4987f41570e"),
  ("include/yaclib/async/when_all.hpp", "58dd334c5a8b35f83a2f"),
  ("include/yaclib/async/join.hpp", "bc10406a094fc34f0c49"),
  ("include/yaclib/util/combinator_strategy.hpp", "8333b9afbdb52ed66f18")
]

def C10 : List (String × String) := [
  ("include/yaclib/async/when/any.hpp", "b2ef5da4ab245770103e"),
  ("include/yaclib/async/when_any.hpp", "9bbeff8022b96b6fb7fd"),
  ("include/yaclib/async/when/when.hpp", "e810da9eeedd97de2b8b")
]

def C11 : List (String × String) := [
  ("include/yaclib/async/detail/wait_impl.hpp", "6310027c91e78cbd8fc3"),
  ("include/yaclib/algo/detail/wait_event.hpp", "16303f7c2a3e9cd0b442"),
  ("include/yaclib/algo/detail/shared_event.hpp", "6095645c494222003ef0"),
  ("src/algo/base_core.cpp", "6e716eaf9126fd64aa99"),
  ("src/util/mutex_event.cpp", "969a76c859c2001486bb"),
  ("include/yaclib/util/detail/mutex_event.hpp", "55c3f20a46c5f8f52898"),
  ("include/yaclib/async/wait.hpp", "c114f008d15518d6328e"),
  ("include/yaclib/async/wait_for.hpp", "fc6c98e6ec95cd519652"),
  ("include/yaclib/async/wait_until.hpp", "e8df4cedb13822adcd60")
]

def C12 : List (String × String) := [
  ("include/yaclib/lazy/task.hpp", "3aa984341b41464b4558"),
  ("src/lazy/task_impl.cpp", "c3755748bab68930bd88"),
  ("include/yaclib/lazy/schedule.hpp", "73c97044f1102579d26e"),
  ("include/yaclib/lazy/make.hpp", "6b3f7ad711644a70901b"),
  ("include/yaclib/algo/detail/core.hpp", "1d0336f00b781746ae47"),
  ("include/yaclib/algo/detail/promise_core.hpp", "17eebd9fe9b94cd3bece"),
  ("include/yaclib/coro/detail/await_awaiter.hpp", "5ce61d550dd1a06d8309"),
  ("include/yaclib/coro/detail/promise_type.hpp", "d6e0f9a70907f69ffd5b")
]

def C13 : List (String × String) := [
  ("include/yaclib/coro/detail/promise_type.hpp", "d6e0f9a70907f69ffd5b"),
  ("include/yaclib/coro/detail/await_awaiter.hpp", "5ce61d550dd1a06d8309"),
  ("include/yaclib/coro/detail/await_on_awaiter.hpp", "ec485e15cec7becc5f49"),
  ("include/yaclib/coro/detail/on_awaiter.hpp", "2f5ecd17391e1aace3c5"),
  ("include/yaclib/coro/await.hpp", "934c6cae2f1ae636988a"),
  ("include/yaclib/coro/await_inline.hpp", "1933dfc347860cafae9b"),
  ("include/yaclib/coro/await_on.hpp", "799e832ec74638225192"),
  ("include/yaclib/coro/await_sticky.hpp", "bafa5e139e90a5f398da"),
  ("include/yaclib/coro/yield.hpp", "2fa71ed1885406099ff4"),
  ("include/yaclib/coro/current_executor.hpp", "73ad7bf78bc38d0951e6"),
  ("include/yaclib/coro/coro.hpp", "b2deef7b5dfed7fabb1e"),
  ("include/yaclib/algo/detail/shared_event.hpp", "6095645c494222003ef0")
]

def C14 : List (String × String) := [
  ("include/yaclib/coro/mutex.hpp", "a784f0d9034993712fea"),
  ("include/yaclib/coro/detail/mutex_awaiter.hpp", "088cf1279d9c7a3f34e6"),
  ("include/yaclib/coro/guard.hpp", "7d343d7552476a7da5ce"),
  ("include/yaclib/coro/guard_sticky.hpp", "b56de9ace7c38e75fd05"),
  ("include/yaclib/coro/detail/guard_state.hpp", "ef9f3359cd3bb45c84e9")
]

def C15 : List (String × String) := [
  ("include/yaclib/coro/shared_mutex.hpp", "525f6b841760da7dcfef"),
  ("include/yaclib/coro/detail/mutex_awaiter.hpp", "088cf1279d9c7a3f34e6"),
  ("include/yaclib/coro/guard.hpp", "7d343d7552476a7da5ce"),
  ("include/yaclib/util/detail/spinlock.hpp", "75a4758f5a57e41633e6")
]

def C16 : List (String × String) := [
  ("include/yaclib/algo/wait_group.hpp", "ee158e79b655a93d6acf"),
  ("include/yaclib/algo/one_shot_event.hpp", "bf633765ae74b890b759"),
  ("src/algo/one_shot_event.cpp", "08639fc0453d7370d811"),
  ("include/yaclib/algo/detail/wait_event.hpp", "16303f7c2a3e9cd0b442"),
  ("include/yaclib/util/detail/atomic_counter.hpp", "6a30f50c44f462065466"),
  ("include/yaclib/util/detail/set_deleter.hpp", "12a35024e6ed801a7386")
]

def C17 : List (String × String) := [
  ("src/fault/fiber/scheduler.cpp", "6ea1910195e5d24f4026"),
  ("include/yaclib/fault/detail/fiber/scheduler.hpp", "4cf61e744afaf83db624"),
  ("src/fault/util.cpp", "faa03cbbbf8660f7c1b5"),
  ("src/fault/injector.cpp", "ac18b61a79f31fbc99dc"),
  ("src/fault/config.cpp", "f2aa47fb3f135c5af01a"),
  ("src/fault/atomic.cpp", "89de559d02d732d49938"),
  ("src/fault/fiber/queue.cpp", "0d71e77327b7a24b11a6"),
  ("src/fault/fiber/bidirectional_intrusive_list.cpp", "d40cc1349151db1e0291"),
  ("src/fault/fiber/system_clock.cpp", "5b9bb6e37b287b24c8c3"),
  ("include/yaclib/fault/config.hpp", "8f861ef4ea6b50cab7c9")
]

def C18 : List (String × String) := [
  ("src/fault/fiber/mutex.cpp", "762e7275dc9d55525449"),
  ("src/fault/fiber/recursive_mutex.cpp", "56cc036c07cb31a64836"),
  ("src/fault/fiber/shared_mutex.cpp", "7d1b6a1ea9140a5581f1"),
  ("include/yaclib/fault/detail/fiber/timed_mutex.hpp", "f80af2ff626e4d023e97"),
  ("include/yaclib/fault/detail/fiber/recursive_timed_mutex.hpp", "8ecd8432dee5bff2e186"),
  ("include/yaclib/fault/detail/fiber/shared_timed_mutex.hpp", "50a1ab552d0aa2c4fc44"),
  ("include/yaclib/fault/detail/fiber/condition_variable.hpp", "82904c57e3d6697f3db7"),
  ("src/fault/fiber/condition_variable.cpp", "eff8d8034e4f988f8a25"),
  ("src/fault/fiber/queue.cpp", "0d71e77327b7a24b11a6"),
  ("include/yaclib/fault/detail/fiber/queue.hpp", "7ea7f9e09ad0f7bd0496"),
  ("src/fault/fiber/thread.cpp", "ba87a6b4c823eeb9cdc9"),
  ("src/fault/fiber/fiber_base.cpp", "8d172d38a73a888bcbe4"),
  ("src/fault/fiber/scheduler.cpp", "6ea1910195e5d24f4026"),
  ("src/fault/fiber/thread_local_proxy.cpp", "05f71a779d7c5b556f38"),
  ("include/yaclib/fault/detail/mutex.hpp", "ab2057fd98eff7e045a8"),
  ("include/yaclib/fault/detail/condition_variable.hpp", "301fa53a69bb940bceae")
]

def C19 : List (String × String) := [
  ("include/yaclib/fault/detail/fiber/atomic.hpp", "fa7b10112d4ba33cc5cb"),
  ("include/yaclib/fault/detail/fiber/atomic_wait.hpp", "f5c278235d15b1f1eb2f"),
  ("include/yaclib/fault/detail/fiber/atomic_flag.hpp", "4e9a4c7244517dd4e016"),
  ("include/yaclib/fault/detail/atomic.hpp", "e7e36f64bb8736a64217"),
  ("include/yaclib/fault/detail/atomic_flag.hpp", "69045e16a611e7905f18"),
  ("src/fault/atomic.cpp", "89de559d02d732d49938"),
  ("include/yaclib_std/detail/atomic.hpp", "a6869407ca48f654a7bf"),
  ("include/yaclib_std/detail/atomic_flag.hpp", "fd7419da60c444190e81"),
  ("include/yaclib_std/detail/atomic_fence.hpp", "334cc389bc5055b8bac0")
]

def C20 : List (String × String) := [
  ("include/yaclib/algo/detail/core.hpp", "1d0336f00b781746ae47"),
  ("include/yaclib/util/helper.hpp", "bb9e65033037138cbffb"),
  ("include/yaclib/async/contract.hpp", "cf7e1c10481324ef8e2d"),
  ("include/yaclib/async/make.hpp", "e730641969ec244a379d"),
  ("include/yaclib/async/when/when.hpp", "e810da9eeedd97de2b8b"),
  ("include/yaclib/async/when/all.hpp", "14a48f417959ed64fced"),
  ("include/yaclib/async/detail/wait_impl.hpp", "6310027c91e78cbd8fc3"),
  ("src/exe/strand.cpp", "36aaa6c29d5732654b66"),
  ("include/yaclib/coro/detail/await_awaiter.hpp", "5ce61d550dd1a06d8309"),
  ("README.md", "5446c0dc1083ad8bfabb"),
  ("doc/design.md", "48e6dfec0c0e0dcb1c64")
]

end Yaclib.AnchorsGolden
