/-
C09 / C10 — the generic combinator machinery `yaclib::when::When` with its strategies.

Written from /repo (as it is; defect D2 of the pinned tree was fixed by /repo 2b9a400 and the model follows the fixed code):
  include/yaclib/async/when/when.hpp   `When` (both forms), `StaticCombinator/DynamicCombinator/SingleCombinator::{Set,SetCore}`
                                       (the registration loop), `CombinatorCallback::Impl`, `Consume/ConsumeImpl`
  include/yaclib/async/when/all.hpp    `All<None>` (everything in the destructor), `All<FirstFail>` (done flag, destructor)
  include/yaclib/async/when/all_tuple.hpp  `AllTuple<None>`, `AllTuple<FirstFail>` (`else if (result)`: only values are stored)
  include/yaclib/async/when/join.hpp   `Join<None>`, `Join<FirstFail>`
  include/yaclib/async/when/any.hpp    `Any<None>` (flag), `Any<FirstFail>` (empty/error/value + saved error published by the
                                       destructor), `Any<LastFail>` (packed counter `2*count`, low bit = done)
  util/helper.hpp + atomic_counter.hpp the combinator's reference count (`MakeShared(count, …)`, `DecRef`)

Each input's one-word hand-off is abstracted by its proven C01 / C06 interface: the combinator callback of input `i` is
invoked exactly once, either by the registering thread (the input was already complete: `SetCallback` returned false,
label `regSet i false`) or by the completing thread after the callback was installed (`regSet i true` … `fire i`).

Granularity: one step per atomic operation (strategy word `load` / `exchange` / `compare_exchange_strong` / `fetch_sub`,
the combinator's `fetch_sub`, the output promise's `Set` — an exchange on the output core —, the release of an input
core) — thread-local code is folded into the FOLLOWING step (the slot write of `AllTuple`, the `error = …` of
`Any<FirstFail>` are folded into the `DecRef` that follows them).
Pre-check loads may be stale (any older value of the modification order).
-/
namespace Yaclib.When

/-- what an input's Result holds: a value, an error or an exception (the payload identifies the input it came from) -/
inductive Res where
  | val (v : Nat) | err (c : Nat) | exc (c : Nat)
  deriving DecidableEq, Repr

def ok : Res → Bool
  | .val _ => true
  | _ => false

/-- the nine strategies that exist (`LastFail` is rejected by a static_assert for All / AllTuple / Join) -/
inductive Strat where
  | allVec (ff : Bool)     -- when::All      (vector output; Owned cores)        None / FirstFail
  | allTuple (ff : Bool)   -- when::AllTuple (tuple output; Managed, Static)     None / FirstFail
  | join (ff : Bool)       -- when::Join     (void output; Managed)              None / FirstFail
  | anyNone | anyFF | anyLF
  deriving DecidableEq, Repr

/-- CorePolicy::Managed: the combinator retires (releases) the input before / instead of `Consume` -/
def Strat.managed : Strat → Bool
  | .allVec _ => false
  | .allTuple _ => true
  | .join _ => true
  | .anyNone => true
  | .anyFF => true
  | .anyLF => true

/-- strategies whose word is the `atomic_bool _done` -/
def Strat.usesFlag : Strat → Bool
  | .allVec true | .allTuple true | .join true | .anyNone => true
  | _ => false

structure Workload where
  strat : Strat
  inputs : List Res          -- outcome of input i; n = inputs.length
  deriving Repr

def Workload.n (w : Workload) : Nat := w.inputs.length
def Workload.inp (w : Workload) (i : Nat) : Res := w.inputs.getD i (.err 0)

/-- what the output promise is fulfilled with -/
inductive OutVal where
  | vec (l : List (Option Res))   -- vector / tuple, slot j = `none` if never written (default constructed)
  | unit                          -- Join: Set()
  | one (r : Res)                 -- a single input's outcome (the failure for All/Join<FirstFail>, the winner for Any)
  | broken                        -- `~Promise` on a still valid promise (nobody set it)
  deriving DecidableEq, Repr

inductive St3 where
  | empty | error | value
  deriving DecidableEq, Repr

def St3.le : St3 → St3 → Bool
  | .empty, _ => true
  | .error, .empty => false
  | .error, _ => true
  | .value, .value => true
  | .value, _ => false

/-- per input: where the (unique) activity that consumes it stands -/
inductive IPc where
  | unreg                 -- the registration loop has not reached this input
  | pending               -- `SetCallback` installed the combinator callback; the input has not completed yet
  | retire                -- callback entered; Managed: about to `core.Retire()` / `core.DecRef()` (releases the input)
  | load                  -- about to read the strategy word (pre-check)
  | rmw                   -- about to do the deciding read-modify-write on the strategy word
  | setOut (o : OutVal)   -- won: about to `std::move(_p).Set(o)`
  | dec (store : Bool)    -- about to `_self->DecRef()`; `store`: a plain write of the own Result precedes it
  | dtorRel (j : Nat)     -- dropped the last reference, inside `~All`: about to retire / release core j
  | dtorSet               -- inside the strategy destructor (or `~Promise`): about to publish the output
  | boom                  -- inside `Consume`: about to throw out of a noexcept function (unreachable since the D2 fix)
  | dboom                 -- inside the strategy destructor: about to throw
  | done
  deriving DecidableEq, Repr

def holding : IPc → Bool
  | .unreg => true
  | .pending => true
  | .retire => true
  | .load => true
  | .rmw => true
  | .setOut _ => true
  | .dec _ => true
  | .dtorRel _ => false
  | .dtorSet => false
  | .boom => true
  | .dboom => false
  | .done => false

def inDtor : IPc → Bool
  | .unreg => false
  | .pending => false
  | .retire => false
  | .load => false
  | .rmw => false
  | .setOut _ => false
  | .dec _ => false
  | .dtorRel _ => true
  | .dtorSet => true
  | .boom => false
  | .dboom => true
  | .done => false

/-- the callback has been entered -/
def entered : IPc → Bool
  | .unreg => false
  | .pending => false
  | .retire => true
  | .load => true
  | .rmw => true
  | .setOut _ => true
  | .dec _ => true
  | .dtorRel _ => true
  | .dtorSet => true
  | .boom => true
  | .dboom => true
  | .done => true

/-- the consumption is past its decision on the strategy word -/
def past : IPc → Bool
  | .unreg => false
  | .pending => false
  | .retire => false
  | .load => false
  | .rmw => false
  | .setOut _ => true
  | .dec _ => true
  | .dtorRel _ => true
  | .dtorSet => true
  | .boom => true
  | .dboom => true
  | .done => true

structure State where
  reg : Nat                      -- loop index of the registration loop
  busy : Option Nat              -- the input the registering thread is consuming inline right now
  pc : Nat → IPc
  count : Nat                    -- combinator reference count
  flag : Bool                    -- `_done`
  st3 : St3                      -- Any<FirstFail>::_state
  lf : Nat                       -- Any<LastFail>::_state (a size_t: arithmetic modulo 2^64)
  saved : Option Res             -- Any<FirstFail>::error
  slots : Nat → Option Res       -- AllTuple::_tuple / the vector being built by ~All
  relIdx : Nat                   -- loop index of the loop over `_cores` in `~All`
  pValid : Bool                  -- `_p.Valid()`
  crashed : Bool                 -- an exception escaped (std::terminate / propagated out of WhenAll)
  -- ghost history
  outSet : List OutVal           -- every `Set` of the output promise
  consumed : Nat → Nat           -- callback entries per input
  released : Nat → Nat           -- releases per input
  win : Option Nat               -- the input whose RMW elected it to set the output
  errBy : Option Nat             -- Any<FirstFail>: the input whose CAS empty→error succeeded
  dt : Option Nat                -- the input whose consumption dropped the last combinator reference
  rmwDone : Nat → Bool           -- the input has done its RMW on the strategy word
  rmwOrder : List Nat            -- inputs in the order of their RMWs on the strategy word (linearisation order)

def two64 : Nat := 18446744073709551616

def init (w : Workload) : State :=
  { reg := 0, busy := none, pc := fun _ => .unreg, count := w.n, flag := false, st3 := .empty, lf := 2 * w.n % two64,
    saved := none, slots := fun _ => none, relIdx := 0, pValid := true, crashed := false,
    outSet := [], consumed := fun _ => 0, released := fun _ => 0, win := none, errBy := none, dt := none,
    rmwDone := fun _ => false, rmwOrder := [] }

def upd {α : Type} (f : Nat → α) (i : Nat) (x : α) : Nat → α := fun j => if j = i then x else f j

/-- where `Consume` goes after the input was retired (Managed) / straight away (Owned) -/
def afterRetire (st : Strat) (r : Res) : IPc :=
  match st with
  | .allVec false => .dec false                            -- ConsumePolicy::None
  | .allVec true => if ok r then .dec false else .load
  | .allTuple false => .dec true                           -- `std::get<Index>(_tuple) = result`
  | .allTuple true => if ok r then .dec true else .load    -- `… = result.Value()` (else branch) / the flag
  | .join false => .dec false
  | .join true => if ok r then .dec false else .load
  | .anyNone | .anyFF | .anyLF => .load

def consumeStart (st : Strat) (r : Res) : IPc :=
  if st.managed then .retire else afterRetire st r

/-- the flag was already set (seen by the load or returned by the exchange): a failing consumption that lost the race does
    nothing more.  (Up to /repo 2b9a400 `AllTuple<FirstFail>::Consume` ran `result.Value()` here — defect D2 — and the model
    had `lose (.allTuple true) = .boom`.) -/
def lose (_st : Strat) : IPc := .dec false

def finish (s : State) (i : Nat) : State :=
  { s with pc := upd s.pc i .done, busy := if s.busy = some i then none else s.busy }

def setPc (s : State) (i : Nat) (p : IPc) : State := { s with pc := upd s.pc i p }

/-- the thread that dropped the last reference runs `~Strategy` (then `~Promise`) and frees the combinator -/
def dtorStart (st : Strat) (pValid : Bool) : Option IPc :=
  match st with
  | .allVec _ => some (.dtorRel 0)
  | .allTuple false | .join false => some .dtorSet
  | _ => if pValid then some .dtorSet else none

def doRegSet (w : Workload) (s : State) (i : Nat) (okb : Bool) : State :=
  if okb then { s with reg := i + 1, pc := upd s.pc i .pending }
  else { s with reg := i + 1, pc := upd s.pc i (consumeStart w.strat (w.inp i)), busy := some i,
                consumed := upd s.consumed i (s.consumed i + 1) }

def doFire (w : Workload) (s : State) (i : Nat) : State :=
  { s with pc := upd s.pc i (consumeStart w.strat (w.inp i)), consumed := upd s.consumed i (s.consumed i + 1) }

def doRetire (w : Workload) (s : State) (i : Nat) : State :=
  { s with pc := upd s.pc i (afterRetire w.strat (w.inp i)), released := upd s.released i (s.released i + 1) }

def doLoadFlag (w : Workload) (s : State) (i : Nat) (b : Bool) : State :=
  setPc s i (if b then lose w.strat else .rmw)

def doXchgFlag (w : Workload) (s : State) (i : Nat) : State :=
  if s.flag then
    { s with pc := upd s.pc i (lose w.strat), rmwDone := upd s.rmwDone i true, rmwOrder := s.rmwOrder ++ [i] }
  else
    { s with pc := upd s.pc i (.setOut (.one (w.inp i))), flag := true, win := some i,
             rmwDone := upd s.rmwDone i true, rmwOrder := s.rmwOrder ++ [i] }

def doLoad3 (w : Workload) (s : State) (i : Nat) (x : St3) : State :=
  if ok (w.inp i) then setPc s i (if x = .value then .dec false else .rmw)
  else setPc s i (if x = .empty then .rmw else .dec false)

def doXchg3 (w : Workload) (s : State) (i : Nat) : State :=
  if s.st3 = .value then
    { s with pc := upd s.pc i (.dec false), rmwDone := upd s.rmwDone i true, rmwOrder := s.rmwOrder ++ [i] }
  else
    { s with pc := upd s.pc i (.setOut (.one (w.inp i))), st3 := .value, win := some i,
             rmwDone := upd s.rmwDone i true, rmwOrder := s.rmwOrder ++ [i] }

def doCas3 (s : State) (i : Nat) : State :=
  if s.st3 = .empty then
    { s with pc := upd s.pc i (.dec true), st3 := .error, errBy := some i,
             rmwDone := upd s.rmwDone i true, rmwOrder := s.rmwOrder ++ [i] }
  else
    { s with pc := upd s.pc i (.dec false), rmwDone := upd s.rmwDone i true, rmwOrder := s.rmwOrder ++ [i] }

def doLoadLf (s : State) (i : Nat) (d : Bool) : State :=
  setPc s i (if d then .dec false else .rmw)

def doXchgLf (w : Workload) (s : State) (i : Nat) : State :=
  if s.lf % 2 = 0 then
    { s with pc := upd s.pc i (.setOut (.one (w.inp i))), lf := 1, win := some i,
             rmwDone := upd s.rmwDone i true, rmwOrder := s.rmwOrder ++ [i] }
  else
    { s with pc := upd s.pc i (.dec false), lf := 1, rmwDone := upd s.rmwDone i true, rmwOrder := s.rmwOrder ++ [i] }

/-- `fetch_sub(2)` on a size_t -/
def subWrap (x : Nat) : Nat := (x + two64 - 2) % two64

def doFsubLf (w : Workload) (s : State) (i : Nat) : State :=
  if s.lf = 2 then
    { s with pc := upd s.pc i (.setOut (.one (w.inp i))), lf := subWrap s.lf, win := some i,
             rmwDone := upd s.rmwDone i true, rmwOrder := s.rmwOrder ++ [i] }
  else
    { s with pc := upd s.pc i (.dec false), lf := subWrap s.lf,
             rmwDone := upd s.rmwDone i true, rmwOrder := s.rmwOrder ++ [i] }

def doSetOut (s : State) (i : Nat) (o : OutVal) : State :=
  { s with pc := upd s.pc i (.dec false), outSet := s.outSet ++ [o], pValid := false }

/-- the plain write folded into the DecRef: `std::get<Index>(_tuple) = …` (AllTuple) / `error = …` (Any<FirstFail>) -/
def storeSlots (w : Workload) (s : State) (i : Nat) (store : Bool) : Nat → Option Res :=
  if store = true ∧ (w.strat = .allTuple false ∨ w.strat = .allTuple true) then upd s.slots i (some (w.inp i)) else s.slots

def storeSaved (w : Workload) (s : State) (i : Nat) (store : Bool) : Option Res :=
  if store = true ∧ w.strat = .anyFF then some (w.inp i) else s.saved

def doDec (w : Workload) (s : State) (i : Nat) (store : Bool) : State :=
  let s2 := { s with count := s.count - 1, dt := if s.count = 1 then some i else s.dt,
                     slots := storeSlots w s i store, saved := storeSaved w s i store }
  if s.count = 1 then
    match dtorStart w.strat s.pValid with
    | some p => setPc s2 i p
    | none => finish s2 i
  else finish s2 i

/-- `~All`: one iteration of the loop over `_cores` -/
def doDtorRel (w : Workload) (s : State) (i j : Nat) : State :=
  let s1 := { s with released := upd s.released j (s.released j + 1), relIdx := j + 1 }
  match w.strat with
  | .allVec true =>
      if s.pValid then
        if ok (w.inp j) then
          setPc { s1 with slots := upd s.slots j (some (w.inp j)) } i (if j + 1 < w.n then .dtorRel (j + 1) else .dtorSet)
        else setPc s1 i .dboom                   -- `core->Retire().Value()` on a failure, inside a destructor
      else if j + 1 < w.n then setPc s1 i (.dtorRel (j + 1)) else finish s1 i
  | _ =>
      setPc { s1 with slots := upd s.slots j (some (w.inp j)) } i (if j + 1 < w.n then .dtorRel (j + 1) else .dtorSet)

/-- what the destructor publishes; `none`: it throws (`error` still Empty) -/
def dtorOut (w : Workload) (s : State) : Option OutVal :=
  match w.strat with
  | .allVec _ | .allTuple _ => some (.vec ((List.range w.n).map s.slots))
  | .join _ => some .unit
  | .anyFF => s.saved.map .one
  | .anyNone | .anyLF => some .broken

def doDtorSet (s : State) (i : Nat) (o : OutVal) : State :=
  finish { s with outSet := s.outSet ++ [o], pValid := false } i

/-- one line of a trace -/
inductive Label where
  | regSet (i : Nat) (okb : Bool)     -- `core.SetCallback(callback)` of input i returned okb
  | fire (i : Nat)                    -- the completing thread takes the installed callback out of input i and enters it
  | retire (i : Nat)                  -- release of input i by its own consumption (Managed)
  | loadFlag (i : Nat) (b : Bool)
  | xchgFlag (i : Nat) (old : Bool)
  | load3 (i : Nat) (x : St3)
  | xchg3 (i : Nat) (old : St3)
  | cas3 (i : Nat) (okb : Bool)
  | loadLf (i : Nat) (d : Bool)       -- d = low bit of the value read
  | xchgLf (i : Nat) (old : Nat)
  | fsubLf (i : Nat) (old : Nat)
  | setOut (i : Nat) (o : OutVal)
  | dec (i : Nat) (old : Nat)
  | dtorRel (i j : Nat)
  | dtorSet (i : Nat) (o : OutVal)
  | dtorThrow (i : Nat)               -- the destructor of Any<FirstFail> reads an Empty `error`
  | crash (i : Nat)
  deriving DecidableEq, Repr

inductive Step (w : Workload) : State → Label → State → Prop where
  /-- registration loop, iteration i: (`Register`,) `SetCallback` -/
  | regSet (s : State) (i : Nat) (okb : Bool) (hc : s.crashed = false) (hb : s.busy = none) (hr : s.reg = i) (hn : i < w.n) :
      Step w s (.regSet i okb) (doRegSet w s i okb)
  | fire (s : State) (i : Nat) (hc : s.crashed = false) (hp : s.pc i = .pending) : Step w s (.fire i) (doFire w s i)
  | retire (s : State) (i : Nat) (hc : s.crashed = false) (hp : s.pc i = .retire) : Step w s (.retire i) (doRetire w s i)
  /-- `_done.load(relaxed)`: may still read false after the flag was set -/
  | loadFlag (s : State) (i : Nat) (b : Bool) (hc : s.crashed = false) (hp : s.pc i = .load) (hs : w.strat.usesFlag = true)
      (hb : b = true → s.flag = true) : Step w s (.loadFlag i b) (doLoadFlag w s i b)
  | xchgFlag (s : State) (i : Nat) (hc : s.crashed = false) (hp : s.pc i = .rmw) (hs : w.strat.usesFlag = true) :
      Step w s (.xchgFlag i s.flag) (doXchgFlag w s i)
  /-- Any<FirstFail>: `_state.load(relaxed)`: any value not newer than the current one -/
  | load3 (s : State) (i : Nat) (x : St3) (hc : s.crashed = false) (hp : s.pc i = .load) (hs : w.strat = .anyFF)
      (hx : x.le s.st3 = true) : Step w s (.load3 i x) (doLoad3 w s i x)
  | xchg3 (s : State) (i : Nat) (hc : s.crashed = false) (hp : s.pc i = .rmw) (hs : w.strat = .anyFF) (hv : ok (w.inp i) = true) :
      Step w s (.xchg3 i s.st3) (doXchg3 w s i)
  | cas3 (s : State) (i : Nat) (hc : s.crashed = false) (hp : s.pc i = .rmw) (hs : w.strat = .anyFF) (hv : ok (w.inp i) = false) :
      Step w s (.cas3 i (decide (s.st3 = .empty))) (doCas3 s i)
  /-- Any<LastFail>: `_state.load(acquire)`; only the done bit matters; a stale read cannot invent it -/
  | loadLf (s : State) (i : Nat) (d : Bool) (hc : s.crashed = false) (hp : s.pc i = .load) (hs : w.strat = .anyLF)
      (hd : d = true → s.lf % 2 = 1) : Step w s (.loadLf i d) (doLoadLf s i d)
  | xchgLf (s : State) (i : Nat) (hc : s.crashed = false) (hp : s.pc i = .rmw) (hs : w.strat = .anyLF) (hv : ok (w.inp i) = true) :
      Step w s (.xchgLf i s.lf) (doXchgLf w s i)
  | fsubLf (s : State) (i : Nat) (hc : s.crashed = false) (hp : s.pc i = .rmw) (hs : w.strat = .anyLF) (hv : ok (w.inp i) = false) :
      Step w s (.fsubLf i s.lf) (doFsubLf w s i)
  | setOut (s : State) (i : Nat) (o : OutVal) (hc : s.crashed = false) (hp : s.pc i = .setOut o) :
      Step w s (.setOut i o) (doSetOut s i o)
  /-- `_self->DecRef()` (preceded by the folded plain store) -/
  | dec (s : State) (i : Nat) (store : Bool) (hc : s.crashed = false) (hp : s.pc i = .dec store) :
      Step w s (.dec i s.count) (doDec w s i store)
  | dtorRel (s : State) (i j : Nat) (hc : s.crashed = false) (hp : s.pc i = .dtorRel j) :
      Step w s (.dtorRel i j) (doDtorRel w s i j)
  | dtorSet (s : State) (i : Nat) (o : OutVal) (hc : s.crashed = false) (hp : s.pc i = .dtorSet) (ho : dtorOut w s = some o) :
      Step w s (.dtorSet i o) (doDtorSet s i o)
  | dtorThrow (s : State) (i : Nat) (hc : s.crashed = false) (hp : s.pc i = .dtorSet) (ho : dtorOut w s = none) :
      Step w s (.dtorThrow i) (setPc s i .dboom)
  | crash (s : State) (i : Nat) (hc : s.crashed = false) (hp : s.pc i = .boom ∨ s.pc i = .dboom) :
      Step w s (.crash i) { s with crashed := true }

inductive Reachable (w : Workload) : State → Prop where
  | init : Reachable w (init w)
  | step {s l s'} : Reachable w s → Step w s l s' → Reachable w s'

/-- executable transition function used by the trace validator (`ymdriver`) -/
def next (w : Workload) (s : State) : Label → Option State
  | .regSet i okb =>
      if s.crashed = false ∧ s.busy = none ∧ s.reg = i ∧ i < w.n then some (doRegSet w s i okb) else none
  | .fire i => if s.crashed = false ∧ s.pc i = .pending then some (doFire w s i) else none
  | .retire i => if s.crashed = false ∧ s.pc i = .retire then some (doRetire w s i) else none
  | .loadFlag i b =>
      if s.crashed = false ∧ s.pc i = .load ∧ w.strat.usesFlag = true ∧ (b = true → s.flag = true)
      then some (doLoadFlag w s i b) else none
  | .xchgFlag i old =>
      if s.crashed = false ∧ s.pc i = .rmw ∧ w.strat.usesFlag = true ∧ old = s.flag then some (doXchgFlag w s i) else none
  | .load3 i x =>
      if s.crashed = false ∧ s.pc i = .load ∧ w.strat = .anyFF ∧ x.le s.st3 = true then some (doLoad3 w s i x) else none
  | .xchg3 i old =>
      if s.crashed = false ∧ s.pc i = .rmw ∧ w.strat = .anyFF ∧ ok (w.inp i) = true ∧ old = s.st3
      then some (doXchg3 w s i) else none
  | .cas3 i okb =>
      if s.crashed = false ∧ s.pc i = .rmw ∧ w.strat = .anyFF ∧ ok (w.inp i) = false ∧ okb = decide (s.st3 = .empty)
      then some (doCas3 s i) else none
  | .loadLf i d =>
      if s.crashed = false ∧ s.pc i = .load ∧ w.strat = .anyLF ∧ (d = true → s.lf % 2 = 1) then some (doLoadLf s i d) else none
  | .xchgLf i old =>
      if s.crashed = false ∧ s.pc i = .rmw ∧ w.strat = .anyLF ∧ ok (w.inp i) = true ∧ old = s.lf
      then some (doXchgLf w s i) else none
  | .fsubLf i old =>
      if s.crashed = false ∧ s.pc i = .rmw ∧ w.strat = .anyLF ∧ ok (w.inp i) = false ∧ old = s.lf
      then some (doFsubLf w s i) else none
  | .setOut i o => if s.crashed = false ∧ s.pc i = .setOut o then some (doSetOut s i o) else none
  | .dec i old =>
      if s.crashed = false ∧ old = s.count then
        match s.pc i with
        | .dec store => some (doDec w s i store)
        | _ => none
      else none
  | .dtorRel i j => if s.crashed = false ∧ s.pc i = .dtorRel j then some (doDtorRel w s i j) else none
  | .dtorSet i o =>
      if s.crashed = false ∧ s.pc i = .dtorSet ∧ dtorOut w s = some o then some (doDtorSet s i o) else none
  | .dtorThrow i =>
      if s.crashed = false ∧ s.pc i = .dtorSet ∧ dtorOut w s = none then some (setPc s i .dboom) else none
  | .crash i => if s.crashed = false ∧ (s.pc i = .boom ∨ s.pc i = .dboom) then some { s with crashed := true } else none

theorem next_sound {w : Workload} {s : State} {l : Label} {s' : State} (h : next w s l = some s') : Step w s l s' := by
  cases l with
  | regSet i okb =>
      simp only [next] at h; split at h
      · rename_i hg; cases h; exact .regSet s i okb hg.1 hg.2.1 hg.2.2.1 hg.2.2.2
      · cases h
  | fire i =>
      simp only [next] at h; split at h
      · rename_i hg; cases h; exact .fire s i hg.1 hg.2
      · cases h
  | retire i =>
      simp only [next] at h; split at h
      · rename_i hg; cases h; exact .retire s i hg.1 hg.2
      · cases h
  | loadFlag i b =>
      simp only [next] at h; split at h
      · rename_i hg; cases h; exact .loadFlag s i b hg.1 hg.2.1 hg.2.2.1 hg.2.2.2
      · cases h
  | xchgFlag i old =>
      simp only [next] at h; split at h
      · rename_i hg; cases h; obtain ⟨h1, h2, h3, h4⟩ := hg; subst h4; exact .xchgFlag s i h1 h2 h3
      · cases h
  | load3 i x =>
      simp only [next] at h; split at h
      · rename_i hg; cases h; exact .load3 s i x hg.1 hg.2.1 hg.2.2.1 hg.2.2.2
      · cases h
  | xchg3 i old =>
      simp only [next] at h; split at h
      · rename_i hg; cases h; obtain ⟨h1, h2, h3, h4, h5⟩ := hg; subst h5; exact .xchg3 s i h1 h2 h3 h4
      · cases h
  | cas3 i okb =>
      simp only [next] at h; split at h
      · rename_i hg; cases h; obtain ⟨h1, h2, h3, h4, h5⟩ := hg; subst h5; exact .cas3 s i h1 h2 h3 h4
      · cases h
  | loadLf i d =>
      simp only [next] at h; split at h
      · rename_i hg; cases h; exact .loadLf s i d hg.1 hg.2.1 hg.2.2.1 hg.2.2.2
      · cases h
  | xchgLf i old =>
      simp only [next] at h; split at h
      · rename_i hg; cases h; obtain ⟨h1, h2, h3, h4, h5⟩ := hg; subst h5; exact .xchgLf s i h1 h2 h3 h4
      · cases h
  | fsubLf i old =>
      simp only [next] at h; split at h
      · rename_i hg; cases h; obtain ⟨h1, h2, h3, h4, h5⟩ := hg; subst h5; exact .fsubLf s i h1 h2 h3 h4
      · cases h
  | setOut i o =>
      simp only [next] at h; split at h
      · rename_i hg; cases h; exact .setOut s i o hg.1 hg.2
      · cases h
  | dec i old =>
      simp only [next] at h; split at h
      · rename_i hg
        split at h
        · rename_i store hp; cases h; obtain ⟨h1, h2⟩ := hg; subst h2; exact .dec s i store h1 hp
        · cases h
      · cases h
  | dtorRel i j =>
      simp only [next] at h; split at h
      · rename_i hg; cases h; exact .dtorRel s i j hg.1 hg.2
      · cases h
  | dtorSet i o =>
      simp only [next] at h; split at h
      · rename_i hg; cases h; exact .dtorSet s i o hg.1 hg.2.1 hg.2.2
      · cases h
  | dtorThrow i =>
      simp only [next] at h; split at h
      · rename_i hg; cases h; exact .dtorThrow s i hg.1 hg.2.1 hg.2.2
      · cases h
  | crash i =>
      simp only [next] at h; split at h
      · rename_i hg; cases h; exact .crash s i hg.1 hg.2
      · cases h

end Yaclib.When
