/-
C08 — FairThreadPool.

Written from /repo: `FairThreadPool::{FairThreadPool, Submit, SoftStop, Stop, HardStop, Wait, Loop, WasStop,
WantStop, NoJobs, Stop(unique_lock&&)}` (src/runtime/fair_thread_pool.cpp) and the FIFO `detail::List`
(src/util/intrusive_list.cpp: PushBack / PopFront / Empty / move constructor).

Everything the pool owns (`_jobs`, `_jobs_count`) is protected by the one mutex `_m`.  The model keeps the
packed counter word as it is in the source (a natural number manipulated only through the definitions that
`vlib/x_pool.py` extracts from the source on every run: `Extracted/PoolConsts.lean`) and the queue as a list.

Granularity: one step per `lock`, one per `unlock` of `_m`; the thread-local code of a critical section is
folded into the step that ends it (the `unlock`), so every critical section of the source is exactly one atomic
update of the protected record.  `_idle.wait(lock)` releases the mutex and parks in one step (that is the
contract of a condition variable and also what the fiber implementation does); `notify_one` wakes one parked
worker chosen by the scheduler (the label says which) or nobody if none is parked; `notify_all` wakes all;
a parked worker may also wake spuriously.  Jobs run outside the lock (`call`), Drops happen outside the lock.

Threads: `w.workers` workers running `Loop()`, one submitter per entry of `w.subs` (submitter `i` submits
`w.subs[i]` jobs one after the other; job identities are (submitter, sequence number) and therefore distinct),
at most one stopper calling one of Stop / SoftStop / HardStop at any moment, and `Wait()` (= join of every worker),
which can return as soon as every worker has left `Loop`.

The arithmetic on the counter is on ℕ: `-= 4` is truncated subtraction, and Props/C08.lean proves that it never
truncates (`counter_no_underflow`).  Wrap-around of `+= 4` at 2^64 (2^62 outstanding jobs) is outside the model.
-/
import YaclibModel.Extracted.PoolConsts

namespace Yaclib.Pool
open Yaclib.Extracted.PoolConsts

/-- a job: the `seq`-th job of submitter `sub` -/
structure JobId where
  sub : Nat
  seq : Nat
  deriving DecidableEq, Repr

inductive StopKind where
  | stop | soft | hard
  deriving DecidableEq, Repr

structure Workload where
  workers : Nat
  subs : List Nat                 -- number of jobs of each submitter
  stop : Option StopKind          -- what the stopper thread calls (none: nobody ever stops the pool)
  deriving Repr

inductive Tid where
  | worker (i : Nat) | sub (i : Nat) | stopper
  deriving DecidableEq, Repr

/-- program counter of a worker (`Loop`) -/
inductive WPc where
  | start                    -- thread created, `unique_lock lock{_m}` next
  | held (afterCall : Bool)  -- holds `_m`; `afterCall`: has just re-locked after a Call (`_jobs_count -= 4` next)
  | calling (j : JobId)      -- popped `j`, unlocked, `Call` next
  | relock                   -- `Call` returned, `lock.lock()` next
  | parked                   -- inside `_idle.wait`, mutex released
  | woken                    -- left the wait queue, re-acquiring the mutex next
  | stopping                 -- `Stop(lock)`: bit set, unlocked, `notify_all` next
  | exited                   -- returned from `Loop`
  deriving DecidableEq, Repr

/-- program counter of a submitter inside `Submit` -/
inductive SPc where
  | idle                     -- between two Submits
  | want                     -- `Submit(job)` called, `lock` next
  | held                     -- holds `_m`
  | dropping                 -- saw WasStop, unlocked, `job.Drop()` next
  | notifying                -- pushed, unlocked, `_idle.notify_one()` next
  deriving DecidableEq, Repr

structure Sub where
  pc : SPc
  k : Nat                    -- sequence number of the current / next job
  total : Nat
  deriving DecidableEq, Repr

/-- program counter of the stopper -/
inductive XPc where
  | idle                     -- has not called yet
  | want                     -- called, `lock` next
  | held
  | notifyAll                -- `Stop(lock)`: bit set, unlocked, `notify_all` next
  | dropping (rest : List JobId)   -- HardStop: Drop loop over the stolen list (never empty in this state)
  | done
  deriving DecidableEq, Repr

structure State where
  cnt : Nat                  -- `_jobs_count`
  queue : List JobId         -- `_jobs`
  locked : Bool              -- `_m`
  workers : List WPc
  subs : List Sub
  kind : Option StopKind
  xpc : XPc
  -- ghost history (only grows)
  submitted : List JobId     -- `Submit(j)` was called
  accepted : List JobId      -- pushed, in push order
  popped : List JobId        -- popped by a worker, in pop order
  started : List JobId       -- `Call` invoked, in that order (= the list of Calls)
  stolen : List JobId        -- the queue HardStop moved out
  rejected : List JobId      -- Dropped by `Submit` (pool already stopped)
  hardDropped : List JobId   -- Dropped by `HardStop`
  waitReturned : Bool
  deriving Repr

def init (w : Workload) : State :=
  { cnt := initCount, queue := [], locked := false,
    workers := List.replicate w.workers .start,
    subs := w.subs.map fun n => { pc := .idle, k := 0, total := n },
    kind := w.stop, xpc := if w.stop = none then .done else .idle,
    submitted := [], accepted := [], popped := [], started := [], stolen := [], rejected := [], hardDropped := [],
    waitReturned := false }

inductive Label where
  | submit (i : Nat) (j : JobId)             -- client: `Submit(j)` called by submitter i
  | stopBegin (k : StopKind)                 -- client: Stop / SoftStop / HardStop called
  | lock (t : Tid)
  | unlock (t : Tid)
  | call (i : Nat) (j : JobId)               -- worker i: `j.Call()`
  | drop (t : Tid) (j : JobId)               -- `j.Drop()` by a submitter (rejected) or the stopper (HardStop)
  | notifyOne (i : Nat) (woke : Option Nat)  -- submitter i: `_idle.notify_one()`, which worker it woke
  | notifyAll (t : Tid)                      -- `_idle.notify_all()` by the stopper or a worker
  | spurious (i : Nat)                       -- worker i wakes up without a notification
  | waitReturn                               -- `Wait()` returned (all workers joined)
  deriving DecidableEq, Repr

def Label.isSpurious : Label → Bool
  | .spurious _ => true
  | _ => false

/-- what a notification does to a worker -/
def wake : WPc → WPc
  | .parked => .woken
  | pc => pc

/-- the Drop loop of HardStop -/
def dropPc : List JobId → XPc
  | [] => .done
  | l => .dropping l

/-- the counter as the worker sees it when it evaluates the loop conditions -/
def cntAfter (afterCall : Bool) (c : Nat) : Nat := if afterCall then loopSub c else c

/-! effects of the individual steps (shared by the relation `Step` and the executable `next`) -/

def doSubmit (s : State) (i : Nat) (sb : Sub) : State :=
  { s with subs := s.subs.set i { sb with pc := .want }, submitted := s.submitted ++ [⟨i, sb.k⟩] }

def doSLock (s : State) (i : Nat) (sb : Sub) : State :=
  { s with subs := s.subs.set i { sb with pc := .held }, locked := true }

/-- Submit, pool not stopped: `_jobs.PushBack(job); _jobs_count += 4; lock.unlock()` -/
def doAccept (s : State) (i : Nat) (sb : Sub) : State :=
  { s with subs := s.subs.set i { sb with pc := .notifying }, locked := false,
           queue := s.queue ++ [⟨i, sb.k⟩], cnt := submitAdd s.cnt, accepted := s.accepted ++ [⟨i, sb.k⟩] }

/-- Submit, `WasStop()`: `lock.unlock()` -/
def doReject (s : State) (i : Nat) (sb : Sub) : State :=
  { s with subs := s.subs.set i { sb with pc := .dropping }, locked := false }

def doSDrop (s : State) (i : Nat) (sb : Sub) : State :=
  { s with subs := s.subs.set i { sb with pc := .idle, k := sb.k + 1 }, rejected := s.rejected ++ [⟨i, sb.k⟩] }

def doNotifyNone (s : State) (i : Nat) (sb : Sub) : State :=
  { s with subs := s.subs.set i { sb with pc := .idle, k := sb.k + 1 } }

def doNotifyOne (s : State) (i : Nat) (sb : Sub) (v : Nat) : State :=
  { s with subs := s.subs.set i { sb with pc := .idle, k := sb.k + 1 }, workers := s.workers.set v .woken }

def doWLock (s : State) (i : Nat) (afterCall : Bool) : State :=
  { s with workers := s.workers.set i (.held afterCall), locked := true }

/-- `auto& job = _jobs.PopFront(); lock.unlock()` -/
def doPop (s : State) (i : Nat) (b : Bool) (j : JobId) (rest : List JobId) : State :=
  { s with workers := s.workers.set i (.calling j), locked := false, queue := rest, cnt := cntAfter b s.cnt,
           popped := s.popped ++ [j] }

/-- `NoJobs() && WantStop()`: `Stop(std::move(lock))` = `_jobs_count |= 1; lock.unlock()` -/
def doWStop (s : State) (i : Nat) (b : Bool) : State :=
  { s with workers := s.workers.set i .stopping, locked := false, cnt := stopSet (cntAfter b s.cnt) }

/-- `WasStop()`: return (the unique_lock destructor unlocks) -/
def doWExit (s : State) (i : Nat) (b : Bool) : State :=
  { s with workers := s.workers.set i .exited, locked := false, cnt := cntAfter b s.cnt }

/-- `_idle.wait(lock)`: release the mutex and park -/
def doWWait (s : State) (i : Nat) (b : Bool) : State :=
  { s with workers := s.workers.set i .parked, locked := false, cnt := cntAfter b s.cnt }

def doCall (s : State) (i : Nat) (j : JobId) : State :=
  { s with workers := s.workers.set i .relock, started := s.started ++ [j] }

def doWNotifyAll (s : State) (i : Nat) : State :=
  { s with workers := (s.workers.set i .exited).map wake }

def doSpurious (s : State) (i : Nat) : State :=
  { s with workers := s.workers.set i .woken }

def doXLock (s : State) : State := { s with xpc := .held, locked := true }

/-- Stop(), or SoftStop() with `NoJobs()`: `_jobs_count |= 1; lock.unlock()` -/
def doXStop (s : State) : State := { s with xpc := .notifyAll, locked := false, cnt := stopSet s.cnt }

/-- SoftStop() with jobs outstanding: `_jobs_count |= 2` (the unique_lock destructor unlocks) -/
def doXSoftWant (s : State) : State := { s with xpc := .done, locked := false, cnt := softWant s.cnt }

/-- HardStop(): `List jobs{std::move(_jobs)}; _jobs_count |= 1; lock.unlock()` -/
def doXHard (s : State) : State :=
  { s with xpc := .notifyAll, locked := false, cnt := stopSet s.cnt, stolen := s.queue, queue := [] }

def doXNotifyAll (s : State) : State :=
  { s with workers := s.workers.map wake, xpc := if s.kind = some .hard then dropPc s.stolen else .done }

def doXDrop (s : State) (j : JobId) (rest : List JobId) : State :=
  { s with xpc := dropPc rest, hardDropped := s.hardDropped ++ [j] }

inductive Step : State → Label → State → Prop where
  /-- a submitter calls `Submit(job)` -/
  | sBegin (s : State) (i : Nat) (sb : Sub) (h : s.subs[i]? = some sb) (hpc : sb.pc = .idle) (hk : sb.k < sb.total) :
      Step s (.submit i ⟨i, sb.k⟩) (doSubmit s i sb)
  | sLock (s : State) (i : Nat) (sb : Sub) (h : s.subs[i]? = some sb) (hpc : sb.pc = .want) (hl : s.locked = false) :
      Step s (.lock (.sub i)) (doSLock s i sb)
  | sAccept (s : State) (i : Nat) (sb : Sub) (h : s.subs[i]? = some sb) (hpc : sb.pc = .held)
      (hw : wasStop s.cnt = false) : Step s (.unlock (.sub i)) (doAccept s i sb)
  | sReject (s : State) (i : Nat) (sb : Sub) (h : s.subs[i]? = some sb) (hpc : sb.pc = .held)
      (hw : wasStop s.cnt = true) : Step s (.unlock (.sub i)) (doReject s i sb)
  | sDrop (s : State) (i : Nat) (sb : Sub) (h : s.subs[i]? = some sb) (hpc : sb.pc = .dropping) :
      Step s (.drop (.sub i) ⟨i, sb.k⟩) (doSDrop s i sb)
  /-- `_idle.notify_one()` with nobody waiting -/
  | sNotifyNone (s : State) (i : Nat) (sb : Sub) (h : s.subs[i]? = some sb) (hpc : sb.pc = .notifying)
      (hn : WPc.parked ∉ s.workers) : Step s (.notifyOne i none) (doNotifyNone s i sb)
  /-- `_idle.notify_one()` wakes the parked worker `v` -/
  | sNotifyOne (s : State) (i : Nat) (sb : Sub) (v : Nat) (h : s.subs[i]? = some sb) (hpc : sb.pc = .notifying)
      (hv : s.workers[v]? = some .parked) : Step s (.notifyOne i (some v)) (doNotifyOne s i sb v)
  /-- a worker acquires the mutex: on entry to `Loop` or when returning from `_idle.wait` … -/
  | wLock (s : State) (i : Nat) (pc : WPc) (h : s.workers[i]? = some pc) (hpc : pc = .start ∨ pc = .woken)
      (hl : s.locked = false) : Step s (.lock (.worker i)) (doWLock s i false)
  /-- … or after a Call -/
  | wRelock (s : State) (i : Nat) (h : s.workers[i]? = some .relock) (hl : s.locked = false) :
      Step s (.lock (.worker i)) (doWLock s i true)
  /-- the worker's critical section ends by popping a job … -/
  | wPop (s : State) (i : Nat) (b : Bool) (j : JobId) (rest : List JobId) (h : s.workers[i]? = some (.held b))
      (hq : s.queue = j :: rest) : Step s (.unlock (.worker i)) (doPop s i b j rest)
  /-- … by `Stop(std::move(lock))` … -/
  | wStop (s : State) (i : Nat) (b : Bool) (h : s.workers[i]? = some (.held b)) (hq : s.queue = [])
      (hc : (noJobs (cntAfter b s.cnt) && wantStop (cntAfter b s.cnt)) = true) :
      Step s (.unlock (.worker i)) (doWStop s i b)
  /-- … by returning … -/
  | wExit (s : State) (i : Nat) (b : Bool) (h : s.workers[i]? = some (.held b)) (hq : s.queue = [])
      (hc : (noJobs (cntAfter b s.cnt) && wantStop (cntAfter b s.cnt)) = false)
      (hw : wasStop (cntAfter b s.cnt) = true) : Step s (.unlock (.worker i)) (doWExit s i b)
  /-- … or by waiting -/
  | wWait (s : State) (i : Nat) (b : Bool) (h : s.workers[i]? = some (.held b)) (hq : s.queue = [])
      (hc : (noJobs (cntAfter b s.cnt) && wantStop (cntAfter b s.cnt)) = false)
      (hw : wasStop (cntAfter b s.cnt) = false) : Step s (.unlock (.worker i)) (doWWait s i b)
  | wCall (s : State) (i : Nat) (j : JobId) (h : s.workers[i]? = some (.calling j)) : Step s (.call i j) (doCall s i j)
  | wNotifyAll (s : State) (i : Nat) (h : s.workers[i]? = some .stopping) :
      Step s (.notifyAll (.worker i)) (doWNotifyAll s i)
  | wSpurious (s : State) (i : Nat) (h : s.workers[i]? = some .parked) : Step s (.spurious i) (doSpurious s i)
  /-- the stopper -/
  | xBegin (s : State) (k : StopKind) (h : s.xpc = .idle) (hk : s.kind = some k) :
      Step s (.stopBegin k) { s with xpc := .want }
  | xLock (s : State) (h : s.xpc = .want) (hl : s.locked = false) : Step s (.lock .stopper) (doXLock s)
  | xStop (s : State) (h : s.xpc = .held) (hk : s.kind = some .stop) : Step s (.unlock .stopper) (doXStop s)
  | xSoftNow (s : State) (h : s.xpc = .held) (hk : s.kind = some .soft) (hn : noJobs s.cnt = true) :
      Step s (.unlock .stopper) (doXStop s)
  | xSoftWant (s : State) (h : s.xpc = .held) (hk : s.kind = some .soft) (hn : noJobs s.cnt = false) :
      Step s (.unlock .stopper) (doXSoftWant s)
  | xHard (s : State) (h : s.xpc = .held) (hk : s.kind = some .hard) : Step s (.unlock .stopper) (doXHard s)
  | xNotifyAll (s : State) (h : s.xpc = .notifyAll) : Step s (.notifyAll .stopper) (doXNotifyAll s)
  | xDrop (s : State) (j : JobId) (rest : List JobId) (h : s.xpc = .dropping (j :: rest)) :
      Step s (.drop .stopper j) (doXDrop s j rest)
  /-- `Wait()`: every `worker.join()` has returned -/
  | waitRet (s : State) (h : ∀ pc ∈ s.workers, pc = .exited) (hr : s.waitReturned = false) :
      Step s .waitReturn { s with waitReturned := true }

inductive Reachable (w : Workload) : State → Prop where
  | init : Reachable w (init w)
  | step {s l s'} : Reachable w s → Step s l s' → Reachable w s'

/-- executable transition function used by the trace validator (`ymdriver`) -/
def next (s : State) : Label → Option State
  | .submit i j =>
      match s.subs[i]? with
      | some sb => if sb.pc = .idle ∧ sb.k < sb.total ∧ j = ⟨i, sb.k⟩ then some (doSubmit s i sb) else none
      | none => none
  | .stopBegin k => if s.xpc = .idle ∧ s.kind = some k then some { s with xpc := .want } else none
  | .lock (.sub i) =>
      match s.subs[i]? with
      | some sb => if sb.pc = .want ∧ s.locked = false then some (doSLock s i sb) else none
      | none => none
  | .lock (.worker i) =>
      match s.workers[i]? with
      | some .relock => if s.locked = false then some (doWLock s i true) else none
      | some pc => if (pc = .start ∨ pc = .woken) ∧ s.locked = false then some (doWLock s i false) else none
      | none => none
  | .lock .stopper => if s.xpc = .want ∧ s.locked = false then some (doXLock s) else none
  | .unlock (.sub i) =>
      match s.subs[i]? with
      | some sb =>
          if sb.pc = .held then (if wasStop s.cnt = true then some (doReject s i sb) else some (doAccept s i sb))
          else none
      | none => none
  | .unlock (.worker i) =>
      match s.workers[i]? with
      | some (.held b) =>
          match s.queue with
          | j :: rest => some (doPop s i b j rest)
          | [] =>
              if (noJobs (cntAfter b s.cnt) && wantStop (cntAfter b s.cnt)) = true then some (doWStop s i b)
              else if wasStop (cntAfter b s.cnt) = true then some (doWExit s i b)
              else some (doWWait s i b)
      | _ => none
  | .unlock .stopper =>
      if s.xpc = .held then
        match s.kind with
        | some .stop => some (doXStop s)
        | some .soft => if noJobs s.cnt = true then some (doXStop s) else some (doXSoftWant s)
        | some .hard => some (doXHard s)
        | none => none
      else none
  | .call i j => if s.workers[i]? = some (.calling j) then some (doCall s i j) else none
  | .drop (.sub i) j =>
      match s.subs[i]? with
      | some sb => if sb.pc = .dropping ∧ j = ⟨i, sb.k⟩ then some (doSDrop s i sb) else none
      | none => none
  | .drop .stopper j =>
      match s.xpc with
      | .dropping (j' :: rest) => if j = j' then some (doXDrop s j rest) else none
      | _ => none
  | .drop (.worker _) _ => none
  | .notifyOne i none =>
      match s.subs[i]? with
      | some sb => if sb.pc = .notifying ∧ WPc.parked ∉ s.workers then some (doNotifyNone s i sb) else none
      | none => none
  | .notifyOne i (some v) =>
      match s.subs[i]? with
      | some sb =>
          if sb.pc = .notifying ∧ s.workers[v]? = some .parked then some (doNotifyOne s i sb v) else none
      | none => none
  | .notifyAll (.worker i) => if s.workers[i]? = some .stopping then some (doWNotifyAll s i) else none
  | .notifyAll .stopper => if s.xpc = .notifyAll then some (doXNotifyAll s) else none
  | .notifyAll (.sub _) => none
  | .spurious i => if s.workers[i]? = some .parked then some (doSpurious s i) else none
  | .waitReturn =>
      if (∀ pc ∈ s.workers, pc = .exited) ∧ s.waitReturned = false then some { s with waitReturned := true } else none

theorem next_sound {s : State} {l : Label} {s' : State} (h : next s l = some s') : Step s l s' := by
  cases l with
  | submit i j =>
      simp only [next] at h
      split at h
      · rename_i sb hsb
        split at h
        · rename_i hg; obtain ⟨h1, h2, h3⟩ := hg; cases h; subst h3; exact .sBegin s i sb hsb h1 h2
        · cases h
      · cases h
  | stopBegin k =>
      simp only [next] at h
      split at h
      · rename_i hg; cases h; exact .xBegin s k hg.1 hg.2
      · cases h
  | lock t =>
      cases t with
      | sub i =>
          simp only [next] at h
          split at h
          · rename_i sb hsb
            split at h
            · rename_i hg; cases h; exact .sLock s i sb hsb hg.1 hg.2
            · cases h
          · cases h
      | worker i =>
          simp only [next] at h
          split at h
          · rename_i hw
            split at h
            · rename_i hl; cases h; exact .wRelock s i hw hl
            · cases h
          · rename_i pc _ hw
            split at h
            · rename_i hg; cases h; exact .wLock s i pc hw hg.1 hg.2
            · cases h
          · cases h
      | stopper =>
          simp only [next] at h
          split at h
          · rename_i hg; cases h; exact .xLock s hg.1 hg.2
          · cases h
  | unlock t =>
      cases t with
      | sub i =>
          simp only [next] at h
          split at h
          · rename_i sb hsb
            split at h
            · rename_i hpc
              split at h
              · rename_i hw; cases h; exact .sReject s i sb hsb hpc hw
              · rename_i hw; cases h; exact .sAccept s i sb hsb hpc (by simpa using hw)
            · cases h
          · cases h
      | worker i =>
          simp only [next] at h
          split at h
          · rename_i b hw
            split at h
            · rename_i j rest hq; cases h; exact .wPop s i b j rest hw hq
            · rename_i hq
              split at h
              · rename_i hc; cases h; exact .wStop s i b hw hq hc
              · rename_i hc
                split at h
                · rename_i hws; cases h; exact .wExit s i b hw hq (by simpa using hc) hws
                · rename_i hws; cases h; exact .wWait s i b hw hq (by simpa using hc) (by simpa using hws)
          · cases h
      | stopper =>
          simp only [next] at h
          split at h
          · rename_i hx
            split at h
            · rename_i hk; cases h; exact .xStop s hx hk
            · rename_i hk
              split at h
              · rename_i hn; cases h; exact .xSoftNow s hx hk hn
              · rename_i hn; cases h; exact .xSoftWant s hx hk (by simpa using hn)
            · rename_i hk; cases h; exact .xHard s hx hk
            · cases h
          · cases h
  | call i j =>
      simp only [next] at h
      split at h
      · rename_i hg; cases h; exact .wCall s i j hg
      · cases h
  | drop t j =>
      cases t with
      | sub i =>
          simp only [next] at h
          split at h
          · rename_i sb hsb
            split at h
            · rename_i hg; cases h; obtain ⟨h1, h2⟩ := hg; subst h2; exact .sDrop s i sb hsb h1
            · cases h
          · cases h
      | stopper =>
          simp only [next] at h
          split at h
          · rename_i j' rest hx
            split at h
            · rename_i hj; cases h; subst hj; exact .xDrop s j rest hx
            · cases h
          · cases h
      | worker i => simp [next] at h
  | notifyOne i woke =>
      cases woke with
      | none =>
          simp only [next] at h
          split at h
          · rename_i sb hsb
            split at h
            · rename_i hg; cases h; exact .sNotifyNone s i sb hsb hg.1 hg.2
            · cases h
          · cases h
      | some v =>
          simp only [next] at h
          split at h
          · rename_i sb hsb
            split at h
            · rename_i hg; cases h; exact .sNotifyOne s i sb v hsb hg.1 hg.2
            · cases h
          · cases h
  | notifyAll t =>
      cases t with
      | worker i =>
          simp only [next] at h
          split at h
          · rename_i hg; cases h; exact .wNotifyAll s i hg
          · cases h
      | stopper =>
          simp only [next] at h
          split at h
          · rename_i hg; cases h; exact .xNotifyAll s hg
          · cases h
      | sub i => simp [next] at h
  | spurious i =>
      simp only [next] at h
      split at h
      · rename_i hg; cases h; exact .wSpurious s i hg
      · cases h
  | waitReturn =>
      simp only [next] at h
      split at h
      · rename_i hg; cases h; exact .waitRet s hg.1 hg.2
      · cases h

end Yaclib.Pool
