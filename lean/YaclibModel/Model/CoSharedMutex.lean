/-
C15 — coroutine SharedMutex (`yaclib::SharedMutex<FIFO, ReadersFIFO>`).

Written from /repo: `detail::SharedMutexImpl<FIFO, ReadersFIFO>::{TryLockSharedAwait, TryLockAwait, AwaitLockShared,
AwaitLock, TryLockShared, TryLock, UnlockHereShared, UnlockHere, Run, RunWriter, PassReaders, RunReaders, SlowUnlock}`
(include/yaclib/coro/shared_mutex.hpp), `LockAwaiter<M, Shared>`/`GuardAwaiter` (coro/detail/mutex_awaiter.hpp),
`Guard<M, Shared>` (coro/guard.hpp), `Spinlock::{lock, unlock}` (util/detail/spinlock.hpp).

State of the implementation
* `_state`: 64-bit word, writers (holding + waiting) in the high 32 bits, readers (holding + registered) in the low 32:
  modelled as the pair `(W, R)` of naturals.  `fetch_add(kWriter)`/`fetch_sub(kWriter)` act on `W`, `fetch_add(kReader)`/
  `fetch_sub(kReader)` on `R`; that no carry/borrow crosses the halves is *proved* (Props/C15: `no_borrow`, `no_carry`).
* `_readers_wait`: 32-bit unsigned "debt"; modelled as an `Int` (`rwait`), the tests `== 1` and `!= -r` are made on the
  integer; `Props/C15.u32_compare_exact` + `rwait_bounds` show that the unsigned wrap-around comparison agrees.
* the record protected by the spinlock `_lock`: `_readers` (`Q`, in service order: `PopFront` takes the head), `_readers_size`
  (`qsize`), `_readers_pass` (`pass`), `_writers_first` (`wfirst`), the writers' queue `_writers_head…_writers_tail` (`WQ`),
  `_writers_prio` (`prio`, maintained only when FIFO).

Granularity: one step per atomic operation (`_state`: load, fetch_add, fetch_sub, every CAS attempt; `_readers_wait`:
fetch_add, fetch_sub, store; the spinlock word: every `exchange`, every spin `load`, the unlocking `store`) and per
client-visible event (section entered / left, failed try reported, a coroutine handed to its executor by `Run`).
The plain updates inside a spinlock-protected block are folded into the following atomic step of the block (they are
invisible to everybody else until the unlocking store).

Only `UnlockHere`/`UnlockHereShared`/guard destruction release a SharedMutex (`Guard<M,Shared>::Unlock/UnlockOn` name
members `UnlockShared`, `Unlock`, `UnlockOn…` that SharedMutex does not have: they do not compile for it).

A parked coroutine has no step; it becomes runnable only in a `run…` step of a releaser (executors accept work).
The first writer of a batch posts its debt (`_readers_wait.fetch_add(r)`) while it still holds the spinlock; from that
moment the last paying reader may resume it — before it has executed `_lock.unlock()`.  That last store is therefore
executed by the detached agent `tail c` (`spin = tailOf c`), as in the C14 model.

Stale loads: the pre-check of `TryLockAwait`, the initial load of `TryLockShared` and the spin load are pre-checks
before an RMW; the model lets them return anything.
-/
namespace Yaclib.CoSharedMutex

abbrev Cid := Nat

inductive Op where
  | rd       -- co_await LockShared()/GuardShared() … UnlockHereShared()/~SharedGuard
  | wr       -- co_await Lock()/Guard() … UnlockHere()/~UniqueGuard
  | tryRd    -- TryLockShared()/TryGuardShared()
  | tryWr    -- TryLock()/TryGuard()
  deriving DecidableEq, Repr

structure Cfg where
  fifo : Bool
  rfifo : Bool
  prog : Cid → List Op

/-- who wants / got the spinlock -/
inductive SpinK where
  | rd       -- AwaitLockShared
  | wr       -- AwaitLock
  | un       -- SlowUnlock
  deriving DecidableEq, Repr

/-- what AwaitLock does when it releases the spinlock -/
inductive WUnl where
  | acq      -- it returned false: the writer owns the mutex and continues
  | enq      -- linked at `_writers_tail` (and `_writers_prio` adjusted): parked
  deriving DecidableEq, Repr

/-- the path SlowUnlock takes (decided by the value `s` of `fetch_sub(kWriter)` and the protected record) -/
inductive Branch where
  | runWriter                -- RunWriter()
  | stored (sw : Nat)        -- RunReaders(s), other writers wait (`w ≠ 1`): `_readers_wait.store` done / to do
  | readersPass (sr : Nat)   -- RunReaders(s), no other writer: PassReaders(s)
  | passOnly (sr : Nat)      -- PassReaders(s); unlock
  deriving DecidableEq, Repr

inductive Pc where
  | idle
  -- readers
  | rLocked                        -- AwaitLockShared holds the spinlock (decision + unlocking store next)
  | rparked                        -- linked in `_readers`
  | rgranted                       -- taken out of `_readers` by RunReaders, `Run` (Submit) not yet called
  | racq                           -- owns a shared lock, runnable
  | rcs                            -- inside the shared section
  | rUn1                           -- UnlockHereShared: `_state.fetch_sub(kReader)` next
  | rUn2                           -- a writer waits: `_readers_wait.fetch_sub(1)` next
  | rRun                           -- it was the last payer: `Run(_writers_first)` next
  | trLoop (w r : Nat)             -- TryLockShared loop with `s = (w, r)`
  | tryFailed                      -- a Try* form is about to report failure
  -- writers
  | twLoaded                       -- TryLockAwait: pre-check saw 0, strong CAS next
  | wLocked                        -- AwaitLock holds the spinlock: `_state.fetch_add(kWriter)` next
  | wPost (r : Nat)                -- first writer, `r` readers counted: `_readers_wait.fetch_add(r)` next
  | wUnl (k : WUnl)                -- AwaitLock: unlocking store next
  | wparkedQ                       -- parked in the writers' queue
  | wparkedF                       -- parked as `_writers_first`, waiting for the counted readers
  | wgranted                       -- taken out of the writers' queue by RunWriter, `Run` (Submit) not yet called
  | wacq                           -- owns the exclusive lock, runnable
  | wcs                            -- inside the exclusive section
  | wUn0                           -- UnlockHere: strong CAS kWriter → 0 next
  | uLocked                        -- SlowUnlock holds the spinlock: `_state.fetch_sub(kWriter)` next
  | uStore (sw : Nat)              -- RunReaders, `w ≠ 1`: `_readers_wait.store(_readers_size)` next
  | uUnl (b : Branch)              -- SlowUnlock: unlocking store next
  | uRunW (n : Cid)                -- RunWriter: `Run(node)` next
  | uRunR                          -- RunReaders: `Run(&readers.PopFront())` loop
  -- all three users of the spinlock
  | spinning (k : SpinK) (inner : Bool)   -- `exchange(1)` next / inside the inner `load` loop
  deriving DecidableEq, Repr

/-! classification of program counters (used by the invariants; every case explicit so that the equation lemmas are unconditional) -/

def Pc.isAR : Pc → Bool
  | .idle => false
  | .rLocked => false
  | .rparked => false
  | .rgranted => false
  | .racq => true
  | .rcs => true
  | .rUn1 => true
  | .rUn2 => false
  | .rRun => false
  | .trLoop _ _ => false
  | .tryFailed => false
  | .twLoaded => false
  | .wLocked => false
  | .wPost _ => false
  | .wUnl .acq => false
  | .wUnl .enq => false
  | .wparkedQ => false
  | .wparkedF => false
  | .wgranted => false
  | .wacq => false
  | .wcs => false
  | .wUn0 => false
  | .uLocked => false
  | .uStore _ => false
  | .uUnl .runWriter => false
  | .uUnl (.stored _) => false
  | .uUnl (.readersPass _) => false
  | .uUnl (.passOnly _) => false
  | .uRunW _ => false
  | .uRunR => false
  | .spinning .rd _ => false
  | .spinning .wr _ => false
  | .spinning .un _ => false

def Pc.isIFL : Pc → Bool
  | .idle => false
  | .rLocked => true
  | .rparked => false
  | .rgranted => false
  | .racq => false
  | .rcs => false
  | .rUn1 => false
  | .rUn2 => false
  | .rRun => false
  | .trLoop _ _ => false
  | .tryFailed => false
  | .twLoaded => false
  | .wLocked => false
  | .wPost _ => false
  | .wUnl .acq => false
  | .wUnl .enq => false
  | .wparkedQ => false
  | .wparkedF => false
  | .wgranted => false
  | .wacq => false
  | .wcs => false
  | .wUn0 => false
  | .uLocked => false
  | .uStore _ => false
  | .uUnl .runWriter => false
  | .uUnl (.stored _) => false
  | .uUnl (.readersPass _) => false
  | .uUnl (.passOnly _) => false
  | .uRunW _ => false
  | .uRunR => false
  | .spinning .rd _ => true
  | .spinning .wr _ => false
  | .spinning .un _ => false

def Pc.isExcl : Pc → Bool
  | .idle => false
  | .rLocked => false
  | .rparked => false
  | .rgranted => false
  | .racq => false
  | .rcs => false
  | .rUn1 => false
  | .rUn2 => false
  | .rRun => false
  | .trLoop _ _ => false
  | .tryFailed => false
  | .twLoaded => false
  | .wLocked => false
  | .wPost _ => false
  | .wUnl .acq => true
  | .wUnl .enq => false
  | .wparkedQ => false
  | .wparkedF => false
  | .wgranted => true
  | .wacq => true
  | .wcs => true
  | .wUn0 => true
  | .uLocked => true
  | .uStore _ => true
  | .uUnl .runWriter => true
  | .uUnl (.stored _) => true
  | .uUnl (.readersPass _) => false
  | .uUnl (.passOnly _) => false
  | .uRunW _ => false
  | .uRunR => false
  | .spinning .rd _ => false
  | .spinning .wr _ => false
  | .spinning .un _ => true

def Pc.isCntW : Pc → Bool
  | .idle => false
  | .rLocked => false
  | .rparked => false
  | .rgranted => false
  | .racq => false
  | .rcs => false
  | .rUn1 => false
  | .rUn2 => false
  | .rRun => false
  | .trLoop _ _ => false
  | .tryFailed => false
  | .twLoaded => false
  | .wLocked => false
  | .wPost _ => false
  | .wUnl .acq => true
  | .wUnl .enq => false
  | .wparkedQ => false
  | .wparkedF => false
  | .wgranted => true
  | .wacq => true
  | .wcs => true
  | .wUn0 => true
  | .uLocked => true
  | .uStore _ => false
  | .uUnl .runWriter => false
  | .uUnl (.stored _) => false
  | .uUnl (.readersPass _) => false
  | .uUnl (.passOnly _) => false
  | .uRunW _ => false
  | .uRunR => false
  | .spinning .rd _ => false
  | .spinning .wr _ => false
  | .spinning .un _ => true

def Pc.isHeld : Pc → Bool
  | .idle => false
  | .rLocked => true
  | .rparked => false
  | .rgranted => false
  | .racq => false
  | .rcs => false
  | .rUn1 => false
  | .rUn2 => false
  | .rRun => false
  | .trLoop _ _ => false
  | .tryFailed => false
  | .twLoaded => false
  | .wLocked => true
  | .wPost _ => true
  | .wUnl .acq => true
  | .wUnl .enq => true
  | .wparkedQ => false
  | .wparkedF => false
  | .wgranted => false
  | .wacq => false
  | .wcs => false
  | .wUn0 => false
  | .uLocked => true
  | .uStore _ => true
  | .uUnl .runWriter => true
  | .uUnl (.stored _) => true
  | .uUnl (.readersPass _) => true
  | .uUnl (.passOnly _) => true
  | .uRunW _ => false
  | .uRunR => false
  | .spinning .rd _ => false
  | .spinning .wr _ => false
  | .spinning .un _ => false

def Pc.isParked : Pc → Bool
  | .idle => false
  | .rLocked => false
  | .rparked => true
  | .rgranted => true
  | .racq => false
  | .rcs => false
  | .rUn1 => false
  | .rUn2 => false
  | .rRun => false
  | .trLoop _ _ => false
  | .tryFailed => false
  | .twLoaded => false
  | .wLocked => false
  | .wPost _ => false
  | .wUnl .acq => false
  | .wUnl .enq => false
  | .wparkedQ => true
  | .wparkedF => true
  | .wgranted => true
  | .wacq => false
  | .wcs => false
  | .wUn0 => false
  | .uLocked => false
  | .uStore _ => false
  | .uUnl .runWriter => false
  | .uUnl (.stored _) => false
  | .uUnl (.readersPass _) => false
  | .uUnl (.passOnly _) => false
  | .uRunW _ => false
  | .uRunR => false
  | .spinning .rd _ => false
  | .spinning .wr _ => false
  | .spinning .un _ => false

def Pc.isInRound : Pc → Bool
  | .idle => false
  | .rLocked => false
  | .rparked => false
  | .rgranted => false
  | .racq => false
  | .rcs => true
  | .rUn1 => true
  | .rUn2 => true
  | .rRun => true
  | .trLoop _ _ => false
  | .tryFailed => false
  | .twLoaded => false
  | .wLocked => false
  | .wPost _ => false
  | .wUnl .acq => false
  | .wUnl .enq => false
  | .wparkedQ => false
  | .wparkedF => false
  | .wgranted => false
  | .wacq => false
  | .wcs => true
  | .wUn0 => true
  | .uLocked => true
  | .uStore _ => true
  | .uUnl .runWriter => true
  | .uUnl (.stored _) => true
  | .uUnl (.readersPass _) => true
  | .uUnl (.passOnly _) => true
  | .uRunW _ => true
  | .uRunR => true
  | .spinning .rd _ => false
  | .spinning .wr _ => false
  | .spinning .un _ => true

def Pc.isStoredUnl : Pc → Bool
  | .idle => false
  | .rLocked => false
  | .rparked => false
  | .rgranted => false
  | .racq => false
  | .rcs => false
  | .rUn1 => false
  | .rUn2 => false
  | .rRun => false
  | .trLoop _ _ => false
  | .tryFailed => false
  | .twLoaded => false
  | .wLocked => false
  | .wPost _ => false
  | .wUnl .acq => false
  | .wUnl .enq => false
  | .wparkedQ => false
  | .wparkedF => false
  | .wgranted => false
  | .wacq => false
  | .wcs => false
  | .wUn0 => false
  | .uLocked => false
  | .uStore _ => false
  | .uUnl .runWriter => false
  | .uUnl (.stored _) => true
  | .uUnl (.readersPass _) => false
  | .uUnl (.passOnly _) => false
  | .uRunW _ => false
  | .uRunR => false
  | .spinning .rd _ => false
  | .spinning .wr _ => false
  | .spinning .un _ => false

def Pc.isPassUnl : Pc → Bool
  | .idle => false
  | .rLocked => false
  | .rparked => false
  | .rgranted => false
  | .racq => false
  | .rcs => false
  | .rUn1 => false
  | .rUn2 => false
  | .rRun => false
  | .trLoop _ _ => false
  | .tryFailed => false
  | .twLoaded => false
  | .wLocked => false
  | .wPost _ => false
  | .wUnl .acq => false
  | .wUnl .enq => false
  | .wparkedQ => false
  | .wparkedF => false
  | .wgranted => false
  | .wacq => false
  | .wcs => false
  | .wUn0 => false
  | .uLocked => false
  | .uStore _ => false
  | .uUnl .runWriter => false
  | .uUnl (.stored _) => false
  | .uUnl (.readersPass _) => true
  | .uUnl (.passOnly _) => true
  | .uRunW _ => false
  | .uRunR => false
  | .spinning .rd _ => false
  | .spinning .wr _ => false
  | .spinning .un _ => false

def Pc.isULock : Pc → Bool
  | .idle => false
  | .rLocked => false
  | .rparked => false
  | .rgranted => false
  | .racq => false
  | .rcs => false
  | .rUn1 => false
  | .rUn2 => false
  | .rRun => false
  | .trLoop _ _ => false
  | .tryFailed => false
  | .twLoaded => false
  | .wLocked => false
  | .wPost _ => false
  | .wUnl .acq => false
  | .wUnl .enq => false
  | .wparkedQ => false
  | .wparkedF => false
  | .wgranted => false
  | .wacq => false
  | .wcs => false
  | .wUn0 => false
  | .uLocked => true
  | .uStore _ => true
  | .uUnl .runWriter => true
  | .uUnl (.stored _) => true
  | .uUnl (.readersPass _) => true
  | .uUnl (.passOnly _) => true
  | .uRunW _ => false
  | .uRunR => false
  | .spinning .rd _ => false
  | .spinning .wr _ => false
  | .spinning .un _ => false

def Pc.isURunW : Pc → Bool
  | .idle => false
  | .rLocked => false
  | .rparked => false
  | .rgranted => false
  | .racq => false
  | .rcs => false
  | .rUn1 => false
  | .rUn2 => false
  | .rRun => false
  | .trLoop _ _ => false
  | .tryFailed => false
  | .twLoaded => false
  | .wLocked => false
  | .wPost _ => false
  | .wUnl .acq => false
  | .wUnl .enq => false
  | .wparkedQ => false
  | .wparkedF => false
  | .wgranted => false
  | .wacq => false
  | .wcs => false
  | .wUn0 => false
  | .uLocked => false
  | .uStore _ => false
  | .uUnl .runWriter => false
  | .uUnl (.stored _) => false
  | .uUnl (.readersPass _) => false
  | .uUnl (.passOnly _) => false
  | .uRunW _ => true
  | .uRunR => false
  | .spinning .rd _ => false
  | .spinning .wr _ => false
  | .spinning .un _ => false

def Pc.isNeedW : Pc → Bool
  | .idle => false
  | .rLocked => false
  | .rparked => false
  | .rgranted => false
  | .racq => false
  | .rcs => false
  | .rUn1 => false
  | .rUn2 => false
  | .rRun => false
  | .trLoop _ _ => false
  | .tryFailed => false
  | .twLoaded => false
  | .wLocked => false
  | .wPost _ => false
  | .wUnl .acq => false
  | .wUnl .enq => false
  | .wparkedQ => false
  | .wparkedF => false
  | .wgranted => false
  | .wacq => false
  | .wcs => false
  | .wUn0 => false
  | .uLocked => false
  | .uStore _ => true
  | .uUnl .runWriter => true
  | .uUnl (.stored _) => true
  | .uUnl (.readersPass _) => false
  | .uUnl (.passOnly _) => false
  | .uRunW _ => false
  | .uRunR => false
  | .spinning .rd _ => false
  | .spinning .wr _ => false
  | .spinning .un _ => false

inductive Spin where
  | free
  | held (c : Cid)
  | tailOf (c : Cid)       -- only the unlocking store of `c`'s AwaitLock is left; `c` itself is already resumable
  deriving DecidableEq, Repr

/-- the pending first writer (ghost) -/
inductive PW where
  | none
  | a (n : Cid) (r : Nat)   -- counted in the word, debt `r` not yet posted
  | b (n : Cid)             -- debt posted, payers remain
  | c (n : Cid) (by_ : Cid) -- the last payer `by_` is about to run it
  deriving DecidableEq, Repr

def PW.isSome : PW → Bool
  | .none => false
  | _ => true

def PW.who : PW → Option Cid
  | .none => Option.none
  | .a n _ => some n
  | .b n => some n
  | .c n _ => some n

/-- the reader that is about to run the pending writer -/
def PW.by_ : PW → Option Cid
  | .c _ r => some r
  | _ => Option.none

/-- payers are still expected -/
def PW.isAB : PW → Bool
  | .a _ _ => true
  | .b _ => true
  | _ => false

inductive Agent where
  | co (c : Cid)
  | tail (c : Cid)
  deriving DecidableEq, Repr

structure State where
  cfg : Cfg
  W : Nat
  R : Nat
  rwait : Int
  spin : Spin
  Q : List Cid
  qsize : Nat
  pass : Nat
  wfirst : Option Cid
  WQ : List Cid
  prio : Nat
  pc : Cid → Pc
  todo : Cid → List Op
  -- ghost
  ar : List Cid            -- readers that own a shared lock and are runnable / inside / about to release
  ifl : List Cid           -- readers registered while a writer was counted, not yet through the locked section ("in flight")
  lv : List Cid            -- readers between the two atomics of UnlockHereShared
  torun : List Cid         -- `readers` local of RunReaders: they own a shared lock but are not yet submitted
  excl : Option Cid        -- the writer that owns exclusivity (until it gives it up or hands it over)
  pw : PW
  runner : Option Cid      -- the writer inside the Run loop of RunReaders
  wrun : Option Cid        -- the writer about to `Run` its successor (RunWriter)
  ew : Nat                 -- 1 iff the exclusivity owner is still counted in `W`
  enq : Nat                -- 1 iff a writer is counted in `W` but not yet linked into the queue
  pend : Nat               -- pass credits a departing writer is about to add (PassReaders)
  pendBy : Option Cid      -- that writer
  enters : Cid → Nat
  fails : Cid → Nat
  parks : Cid → Nat
  grants : Cid → Nat

def init (cfg : Cfg) : State :=
  { cfg := cfg, W := 0, R := 0, rwait := 0, spin := .free, Q := [], qsize := 0, pass := 0, wfirst := none, WQ := [], prio := 0,
    pc := fun _ => .idle, todo := cfg.prog, ar := [], ifl := [], lv := [], torun := [], excl := none, pw := .none,
    runner := none, wrun := none, ew := 0, enq := 0, pend := 0, pendBy := none, enters := fun _ => 0, fails := fun _ => 0, parks := fun _ => 0, grants := fun _ => 0 }

inductive Label where
  | rdFadd (c : Cid)                        -- TryLockSharedAwait: `_state.fetch_add(kReader)`
  | spinXchg (c : Cid) (ok : Bool)          -- Spinlock::lock: `exchange(1)` returned 0 / 1
  | spinLoad (c : Cid) (sawFree : Bool)     -- Spinlock::lock: inner `load`
  | rdUnlock (c : Cid)                      -- AwaitLockShared: take a pass credit or enqueue; unlocking store
  | enter (c : Cid)
  | exit (c : Cid)
  | rdFsub (c : Cid)                        -- UnlockHereShared: `_state.fetch_sub(kReader)`
  | rwFsub (c : Cid)                        -- UnlockHereShared: `_readers_wait.fetch_sub(1)`
  | runFirst (c : Cid) (n : Cid)            -- UnlockHereShared: `Run(_writers_first)`
  | trLoad (c : Cid) (w r : Nat)            -- TryLockShared: initial load
  | trCas (c : Cid) (ok : Bool)             -- TryLockShared: one weak CAS attempt
  | tryFail (c : Cid)                       -- a Try* form reports failure
  | twLoad (c : Cid) (sawZero : Bool)       -- TryLockAwait: load
  | twCas (c : Cid) (ok : Bool)             -- TryLockAwait: strong CAS 0 → kWriter
  | wrFadd (c : Cid)                        -- AwaitLock: `_state.fetch_add(kWriter)`
  | wrPost (c : Cid)                        -- AwaitLock: `_readers_wait.fetch_add(r)`
  | wUnlock (c : Cid)                       -- AwaitLock: unlocking store (by the coroutine itself)
  | tailUnlock (a : Agent)                  -- AwaitLock: unlocking store after the writer became resumable
  | wuCas (c : Cid) (ok : Bool)             -- UnlockHere: strong CAS kWriter → 0
  | wuFsub (c : Cid)                        -- SlowUnlock: `_state.fetch_sub(kWriter)`
  | rwStore (c : Cid)                       -- RunReaders: `_readers_wait.store(_readers_size)`
  | uUnlock (c : Cid)                       -- SlowUnlock: plain updates of the chosen path; unlocking store
  | runW (c : Cid) (n : Cid)                -- RunWriter: `Run(node)`
  | runR (c : Cid) (n : Cid)                -- RunReaders: `Run(&readers.PopFront())`
  deriving DecidableEq, Repr

def Label.agent : Label → Agent
  | .rdFadd c => .co c | .spinXchg c _ => .co c | .spinLoad c _ => .co c | .rdUnlock c => .co c | .enter c => .co c
  | .exit c => .co c | .rdFsub c => .co c | .rwFsub c => .co c | .runFirst c _ => .co c | .trLoad c _ _ => .co c
  | .trCas c _ => .co c | .tryFail c => .co c | .twLoad c _ => .co c | .twCas c _ => .co c | .wrFadd c => .co c
  | .wrPost c => .co c | .wUnlock c => .co c | .tailUnlock a => a | .wuCas c _ => .co c | .wuFsub c => .co c
  | .rwStore c => .co c | .uUnlock c => .co c | .runW c _ => .co c | .runR c _ => .co c

def upd {α : Type} (f : Cid → α) (c : Cid) (v : α) : Cid → α := fun x => if x = c then v else f x

def curOp (s : State) (c : Cid) : Op :=
  match s.todo c with
  | o :: _ => o
  | [] => .rd

/-! effects -/

/-- the current round of `c` is over -/
def done (s : State) (c : Cid) : State :=
  { s with pc := upd s.pc c .idle, todo := upd s.todo c (s.todo c).tail }

def doRdFadd (s : State) (c : Cid) : State :=
  if s.W = 0 then { s with R := s.R + 1, ar := c :: s.ar, pc := upd s.pc c .racq }
  else { s with R := s.R + 1, ifl := c :: s.ifl, pc := upd s.pc c (.spinning .rd false) }

def lockedPc : SpinK → Pc
  | .rd => .rLocked
  | .wr => .wLocked
  | .un => .uLocked

def doSpinOk (s : State) (c : Cid) (k : SpinK) : State :=
  { s with spin := .held c, pc := upd s.pc c (lockedPc k) }

/-- AwaitLockShared under the spinlock + unlock -/
def doRdUnlock (s : State) (c : Cid) : State :=
  if s.pass ≠ 0 then
    { s with spin := .free, pass := s.pass - 1, ifl := s.ifl.erase c, ar := c :: s.ar, pc := upd s.pc c .racq }
  else
    { s with spin := .free, Q := if s.cfg.rfifo then s.Q ++ [c] else c :: s.Q, qsize := s.qsize + 1,
             ifl := s.ifl.erase c, pc := upd s.pc c .rparked, parks := upd s.parks c (s.parks c + 1) }

def doEnter (s : State) (c : Cid) (p : Pc) : State :=
  { s with pc := upd s.pc c p, enters := upd s.enters c (s.enters c + 1) }

def doRdFsub (s : State) (c : Cid) : State :=
  if s.W = 0 then { done s c with R := s.R - 1, ar := s.ar.erase c }
  else { s with R := s.R - 1, ar := s.ar.erase c, lv := c :: s.lv, pc := upd s.pc c .rUn2 }

def doRwFsub (s : State) (c : Cid) : State :=
  if s.rwait = 1 then
    { s with rwait := s.rwait - 1, lv := s.lv.erase c, pc := upd s.pc c .rRun,
             pw := match s.pw with | .b n => .c n c | x => x }
  else { done s c with rwait := s.rwait - 1, lv := s.lv.erase c }

/-- `Run(node)` of a parked writer -/
def doRunWriter (s : State) (c : Cid) (n : Cid) : State :=
  { done s c with pc := upd (done s c).pc n .wacq, excl := some n, ew := 1, pw := .none, wrun := none,
                  grants := upd s.grants n (s.grants n + 1) }

/-- `Run(_writers_first)` by the last paying reader -/
def doRunFirst (s : State) (c : Cid) (n : Cid) : State :=
  { done s c with pc := upd (done s c).pc n .wacq, excl := some n, ew := 1, pw := .none,
                  grants := upd s.grants n (s.grants n + 1) }

def doTryFail (s : State) (c : Cid) : State :=
  { done s c with fails := upd s.fails c (s.fails c + 1) }

def doTrCasOk (s : State) (c : Cid) : State :=
  { s with R := s.R + 1, ar := c :: s.ar, pc := upd s.pc c .racq }

/-- TryLockAwait returned false -/
def failW (s : State) (c : Cid) : State :=
  { s with pc := upd s.pc c (if curOp s c = .tryWr then .tryFailed else .spinning .wr false) }

def doTwLoad (s : State) (c : Cid) (sawZero : Bool) : State :=
  if sawZero then { s with pc := upd s.pc c .twLoaded } else failW s c

def doTwCasOk (s : State) (c : Cid) : State :=
  { s with W := 1, excl := some c, ew := 1, pc := upd s.pc c .wacq }

def doWrFadd (s : State) (c : Cid) : State :=
  if s.W = 0 then
    if s.R = 0 then { s with W := s.W + 1, wfirst := some c, excl := some c, ew := 1, pc := upd s.pc c (.wUnl .acq) }
    else { s with W := s.W + 1, wfirst := some c, pw := .a c s.R, pc := upd s.pc c (.wPost s.R) }
  else { s with W := s.W + 1, enq := 1, pc := upd s.pc c (.wUnl .enq) }

def doWrPost (s : State) (c : Cid) (r : Nat) : State :=
  if s.rwait = -(r : Int) then
    { s with rwait := s.rwait + r, pw := .none, excl := some c, ew := 1, pc := upd s.pc c (.wUnl .acq) }
  else
    { s with rwait := s.rwait + r, pw := .b c, pc := upd s.pc c .wparkedF, spin := .tailOf c,
             parks := upd s.parks c (s.parks c + 1) }

def doWUnlock (s : State) (c : Cid) (k : WUnl) : State :=
  match k with
  | .acq => { s with spin := .free, pc := upd s.pc c .wacq }
  | .enq =>
      { s with spin := .free, WQ := s.WQ ++ [c], enq := 0,
               prio := if s.cfg.fifo ∧ s.Q = [] then s.prio + 1 else s.prio,
               pc := upd s.pc c .wparkedQ, parks := upd s.parks c (s.parks c + 1) }

def doWuCasOk (s : State) (c : Cid) : State :=
  { done s c with W := 0, excl := none, ew := 0 }

/-- the path of SlowUnlock -/
def branchOf (s : State) : Branch :=
  if s.cfg.fifo ∧ s.prio ≠ 0 then .runWriter
  else if s.Q ≠ [] then (if s.W ≠ 1 then .stored s.W else .readersPass s.R)
  else if ¬ s.cfg.fifo ∧ s.W ≠ 1 then .runWriter
  else .passOnly s.R

def givesUp : Branch → Bool
  | .readersPass _ => true
  | .passOnly _ => true
  | _ => false

def doWuFsub (s : State) (c : Cid) : State :=
  let b := branchOf s
  { s with W := s.W - 1, ew := 0, excl := if givesUp b then none else s.excl,
           pendBy := if givesUp b then some c else s.pendBy, pend := if givesUp b then s.R - s.qsize else s.pend,
           pc := upd s.pc c (match b with | .stored sw => .uStore sw | b => .uUnl b) }

def doRwStore (s : State) (c : Cid) (sw : Nat) : State :=
  { s with rwait := (s.qsize : Int), pc := upd s.pc c (.uUnl (.stored sw)) }

/-- `auto readers = std::move(_readers); _readers_size = 0;`: all queued readers now own a shared lock -/
def releaseReaders (s : State) (c : Cid) : State :=
  { s with torun := s.Q, Q := [], qsize := 0, runner := some c,
           pc := fun x => if x ∈ s.Q then .rgranted else upd s.pc c .uRunR x }

def doUUnlock (s : State) (c : Cid) (b : Branch) (n : Cid) (rest : List Cid) : State :=
  match b with
  | .runWriter =>
      { s with spin := .free, prio := if s.cfg.fifo then s.prio - 1 else s.prio, WQ := rest, excl := some n, ew := 1,
               wrun := some c, pc := upd (upd s.pc n .wgranted) c (.uRunW n) }
  | .stored sw =>
      let s1 : State := { s with spin := .free, WQ := rest, wfirst := some n, prio := if s.cfg.fifo then sw - 2 else s.prio,
                                 pw := .b n, excl := none, pc := upd s.pc n .wparkedF }
      releaseReaders s1 c
  | .readersPass sr =>
      releaseReaders { s with spin := .free, pass := s.pass + (sr - s.qsize), pend := 0, pendBy := none } c
  | .passOnly sr => { done s c with spin := .free, pass := s.pass + (sr - s.qsize), pend := 0, pendBy := none }

def needsWriter : Branch → Bool
  | .runWriter => true
  | .stored _ => true
  | _ => false

def doRunR (s : State) (c : Cid) (n : Cid) (rest : List Cid) : State :=
  let s1 : State := { s with torun := rest, ar := n :: s.ar, pc := upd s.pc n .racq,
                             grants := upd s.grants n (s.grants n + 1) }
  if rest = [] then { done s1 c with runner := none } else s1

inductive Step : State → Label → State → Prop where
  /-- LockShared: `fetch_add(kReader)`; no writer counted ⇒ owns a shared lock, else AwaitLockShared -/
  | rdFadd (s : State) (c : Cid) (h : s.pc c = .idle) (ht : s.todo c ≠ []) (ho : curOp s c = .rd) :
      Step s (.rdFadd c) (doRdFadd s c)
  | spinOk (s : State) (c : Cid) (k : SpinK) (h : s.pc c = .spinning k false) (hf : s.spin = .free) :
      Step s (.spinXchg c true) (doSpinOk s c k)
  | spinBusy (s : State) (c : Cid) (k : SpinK) (h : s.pc c = .spinning k false) (hf : s.spin ≠ .free) :
      Step s (.spinXchg c false) { s with pc := upd s.pc c (.spinning k true) }
  /-- the inner spin load (a pre-check: may be stale) -/
  | spinLoad (s : State) (c : Cid) (k : SpinK) (sawFree : Bool) (h : s.pc c = .spinning k true) :
      Step s (.spinLoad c sawFree) { s with pc := upd s.pc c (.spinning k (!sawFree)) }
  | rdUnlock (s : State) (c : Cid) (h : s.pc c = .rLocked) (hs : s.spin = .held c) :
      Step s (.rdUnlock c) (doRdUnlock s c)
  | enterR (s : State) (c : Cid) (h : s.pc c = .racq) : Step s (.enter c) (doEnter s c .rcs)
  | enterW (s : State) (c : Cid) (h : s.pc c = .wacq) : Step s (.enter c) (doEnter s c .wcs)
  | exitR (s : State) (c : Cid) (h : s.pc c = .rcs) : Step s (.exit c) { s with pc := upd s.pc c .rUn1 }
  | exitW (s : State) (c : Cid) (h : s.pc c = .wcs) : Step s (.exit c) { s with pc := upd s.pc c .wUn0 }
  | rdFsub (s : State) (c : Cid) (h : s.pc c = .rUn1) : Step s (.rdFsub c) (doRdFsub s c)
  | rwFsub (s : State) (c : Cid) (h : s.pc c = .rUn2) : Step s (.rwFsub c) (doRwFsub s c)
  | runFirst (s : State) (c : Cid) (n : Cid) (h : s.pc c = .rRun) (hf : s.wfirst = some n) :
      Step s (.runFirst c n) (doRunFirst s c n)
  /-- TryLockShared -/
  | trBegin (s : State) (c : Cid) (w r : Nat) (h : s.pc c = .idle) (ht : s.todo c ≠ []) (ho : curOp s c = .tryRd) :
      Step s (.trLoad c w r) { s with pc := upd s.pc c (.trLoop w r) }
  | trFail (s : State) (c : Cid) (w r : Nat) (h : s.pc c = .trLoop w r) (hw : w ≠ 0) :
      Step s (.tryFail c) (doTryFail s c)
  | trCasOk (s : State) (c : Cid) (r : Nat) (h : s.pc c = .trLoop 0 r) (hW : s.W = 0) (hR : s.R = r) :
      Step s (.trCas c true) (doTrCasOk s c)
  | trCasFail (s : State) (c : Cid) (r : Nat) (h : s.pc c = .trLoop 0 r) :
      Step s (.trCas c false) { s with pc := upd s.pc c (.trLoop s.W s.R) }
  /-- TryLockAwait (await_ready of Lock/Guard; TryLock/TryGuard) -/
  | twLoad (s : State) (c : Cid) (sawZero : Bool) (h : s.pc c = .idle) (ht : s.todo c ≠ [])
      (ho : curOp s c = .wr ∨ curOp s c = .tryWr) : Step s (.twLoad c sawZero) (doTwLoad s c sawZero)
  | twCasOk (s : State) (c : Cid) (h : s.pc c = .twLoaded) (hW : s.W = 0) (hR : s.R = 0) :
      Step s (.twCas c true) (doTwCasOk s c)
  | twCasFail (s : State) (c : Cid) (h : s.pc c = .twLoaded) (hne : ¬ (s.W = 0 ∧ s.R = 0)) :
      Step s (.twCas c false) (failW s c)
  | tryFailW (s : State) (c : Cid) (h : s.pc c = .tryFailed) : Step s (.tryFail c) (doTryFail s c)
  /-- AwaitLock under the spinlock -/
  | wrFadd (s : State) (c : Cid) (h : s.pc c = .wLocked) (hs : s.spin = .held c) : Step s (.wrFadd c) (doWrFadd s c)
  | wrPost (s : State) (c : Cid) (r : Nat) (h : s.pc c = .wPost r) (hs : s.spin = .held c) :
      Step s (.wrPost c) (doWrPost s c r)
  | wUnlock (s : State) (c : Cid) (k : WUnl) (h : s.pc c = .wUnl k) (hs : s.spin = .held c) :
      Step s (.wUnlock c) (doWUnlock s c k)
  | tailUnlock (s : State) (c : Cid) (hs : s.spin = .tailOf c) : Step s (.tailUnlock (.tail c)) { s with spin := .free }
  /-- UnlockHere -/
  | wuCasOk (s : State) (c : Cid) (h : s.pc c = .wUn0) (hW : s.W = 1) (hR : s.R = 0) :
      Step s (.wuCas c true) (doWuCasOk s c)
  | wuCasFail (s : State) (c : Cid) (h : s.pc c = .wUn0) (hne : ¬ (s.W = 1 ∧ s.R = 0)) :
      Step s (.wuCas c false) { s with pc := upd s.pc c (.spinning .un false) }
  | wuFsub (s : State) (c : Cid) (h : s.pc c = .uLocked) (hs : s.spin = .held c) : Step s (.wuFsub c) (doWuFsub s c)
  | rwStore (s : State) (c : Cid) (sw : Nat) (h : s.pc c = .uStore sw) (hs : s.spin = .held c) :
      Step s (.rwStore c) (doRwStore s c sw)
  /-- the unlocking store of SlowUnlock; paths that pop the writers' queue need it non-empty (else the code
      dereferences null) -/
  | uUnlockW (s : State) (c : Cid) (b : Branch) (n : Cid) (rest : List Cid) (h : s.pc c = .uUnl b) (hs : s.spin = .held c)
      (hb : needsWriter b = true) (hq : s.WQ = n :: rest) : Step s (.uUnlock c) (doUUnlock s c b n rest)
  | uUnlockP (s : State) (c : Cid) (b : Branch) (h : s.pc c = .uUnl b) (hs : s.spin = .held c)
      (hb : needsWriter b = false) : Step s (.uUnlock c) (doUUnlock s c b 0 [])
  | runW (s : State) (c : Cid) (n : Cid) (h : s.pc c = .uRunW n) : Step s (.runW c n) (doRunWriter s c n)
  | runR (s : State) (c : Cid) (n : Cid) (rest : List Cid) (h : s.pc c = .uRunR) (ht : s.torun = n :: rest) :
      Step s (.runR c n) (doRunR s c n rest)

inductive Reachable (cfg : Cfg) : State → Prop where
  | init : Reachable cfg (init cfg)
  | step {s l s'} : Reachable cfg s → Step s l s' → Reachable cfg s'

/-- executable transition function used by the trace validator (`ymdriver`) -/
def next (s : State) : Label → Option State
  | .rdFadd c => if s.pc c = .idle ∧ s.todo c ≠ [] ∧ curOp s c = .rd then some (doRdFadd s c) else none
  | .spinXchg c ok =>
      match s.pc c with
      | .spinning k false =>
          if ok then (if s.spin = .free then some (doSpinOk s c k) else none)
          else (if s.spin ≠ .free then some { s with pc := upd s.pc c (.spinning k true) } else none)
      | _ => none
  | .spinLoad c sawFree =>
      match s.pc c with
      | .spinning k true => some { s with pc := upd s.pc c (.spinning k (!sawFree)) }
      | _ => none
  | .rdUnlock c => if s.pc c = .rLocked ∧ s.spin = .held c then some (doRdUnlock s c) else none
  | .enter c =>
      if s.pc c = .racq then some (doEnter s c .rcs)
      else if s.pc c = .wacq then some (doEnter s c .wcs) else none
  | .exit c =>
      if s.pc c = .rcs then some { s with pc := upd s.pc c .rUn1 }
      else if s.pc c = .wcs then some { s with pc := upd s.pc c .wUn0 } else none
  | .rdFsub c => if s.pc c = .rUn1 then some (doRdFsub s c) else none
  | .rwFsub c => if s.pc c = .rUn2 then some (doRwFsub s c) else none
  | .runFirst c n => if s.pc c = .rRun ∧ s.wfirst = some n then some (doRunFirst s c n) else none
  | .trLoad c w r =>
      if s.pc c = .idle ∧ s.todo c ≠ [] ∧ curOp s c = .tryRd then some { s with pc := upd s.pc c (.trLoop w r) } else none
  | .trCas c ok =>
      match s.pc c with
      | .trLoop 0 r =>
          if ok then (if s.W = 0 ∧ s.R = r then some (doTrCasOk s c) else none)
          else some { s with pc := upd s.pc c (.trLoop s.W s.R) }
      | _ => none
  | .tryFail c =>
      match s.pc c with
      | .trLoop w _ => if w ≠ 0 then some (doTryFail s c) else none
      | .tryFailed => some (doTryFail s c)
      | _ => none
  | .twLoad c sawZero =>
      if s.pc c = .idle ∧ s.todo c ≠ [] ∧ (curOp s c = .wr ∨ curOp s c = .tryWr) then some (doTwLoad s c sawZero) else none
  | .twCas c ok =>
      if s.pc c = .twLoaded then
        if ok then (if s.W = 0 ∧ s.R = 0 then some (doTwCasOk s c) else none)
        else (if ¬ (s.W = 0 ∧ s.R = 0) then some (failW s c) else none)
      else none
  | .wrFadd c => if s.pc c = .wLocked ∧ s.spin = .held c then some (doWrFadd s c) else none
  | .wrPost c =>
      match s.pc c with
      | .wPost r => if s.spin = .held c then some (doWrPost s c r) else none
      | _ => none
  | .wUnlock c =>
      match s.pc c with
      | .wUnl k => if s.spin = .held c then some (doWUnlock s c k) else none
      | _ => none
  | .tailUnlock a =>
      match a with
      | .tail c => if s.spin = .tailOf c then some { s with spin := .free } else none
      | .co _ => none
  | .wuCas c ok =>
      if s.pc c = .wUn0 then
        if ok then (if s.W = 1 ∧ s.R = 0 then some (doWuCasOk s c) else none)
        else (if ¬ (s.W = 1 ∧ s.R = 0) then some { s with pc := upd s.pc c (.spinning .un false) } else none)
      else none
  | .wuFsub c => if s.pc c = .uLocked ∧ s.spin = .held c then some (doWuFsub s c) else none
  | .rwStore c =>
      match s.pc c with
      | .uStore sw => if s.spin = .held c then some (doRwStore s c sw) else none
      | _ => none
  | .uUnlock c =>
      match s.pc c with
      | .uUnl b =>
          if s.spin = .held c then
            if needsWriter b = true then
              match s.WQ with
              | n :: rest => some (doUUnlock s c b n rest)
              | [] => none
            else some (doUUnlock s c b 0 [])
          else none
      | _ => none
  | .runW c n => if s.pc c = .uRunW n then some (doRunWriter s c n) else none
  | .runR c n =>
      match s.torun with
      | m :: rest => if s.pc c = .uRunR ∧ m = n then some (doRunR s c n rest) else none
      | [] => none

theorem next_sound {s : State} {l : Label} {s' : State} (h : next s l = some s') : Step s l s' := by
  cases l with
  | rdFadd c =>
      simp only [next] at h; split at h
      · rename_i hg; cases h; exact .rdFadd s c hg.1 hg.2.1 hg.2.2
      · cases h
  | spinXchg c ok =>
      simp only [next] at h; split at h
      · rename_i k hpc
        cases ok with
        | true =>
            simp only [↓reduceIte] at h; split at h
            · rename_i hf; cases h; exact .spinOk s c k hpc hf
            · cases h
        | false =>
            simp only [Bool.false_eq_true, ↓reduceIte] at h; split at h
            · rename_i hf; cases h; exact .spinBusy s c k hpc hf
            · cases h
      · cases h
  | spinLoad c sawFree =>
      simp only [next] at h; split at h
      · rename_i k hpc; cases h; exact .spinLoad s c k sawFree hpc
      · cases h
  | rdUnlock c =>
      simp only [next] at h; split at h
      · rename_i hg; cases h; exact .rdUnlock s c hg.1 hg.2
      · cases h
  | enter c =>
      simp only [next] at h; split at h
      · rename_i hg; cases h; exact .enterR s c hg
      · split at h
        · rename_i hg; cases h; exact .enterW s c hg
        · cases h
  | exit c =>
      simp only [next] at h; split at h
      · rename_i hg; cases h; exact .exitR s c hg
      · split at h
        · rename_i hg; cases h; exact .exitW s c hg
        · cases h
  | rdFsub c =>
      simp only [next] at h; split at h
      · rename_i hg; cases h; exact .rdFsub s c hg
      · cases h
  | rwFsub c =>
      simp only [next] at h; split at h
      · rename_i hg; cases h; exact .rwFsub s c hg
      · cases h
  | runFirst c n =>
      simp only [next] at h; split at h
      · rename_i hg; cases h; exact .runFirst s c n hg.1 hg.2
      · cases h
  | trLoad c w r =>
      simp only [next] at h; split at h
      · rename_i hg; cases h; exact .trBegin s c w r hg.1 hg.2.1 hg.2.2
      · cases h
  | trCas c ok =>
      simp only [next] at h; split at h
      · rename_i r hpc
        cases ok with
        | true =>
            simp only [↓reduceIte] at h; split at h
            · rename_i hg; cases h; exact .trCasOk s c r hpc hg.1 hg.2
            · cases h
        | false =>
            simp only [Bool.false_eq_true, ↓reduceIte] at h
            cases h; exact .trCasFail s c r hpc
      · cases h
  | tryFail c =>
      simp only [next] at h; split at h
      · rename_i w r hpc
        split at h
        · rename_i hw; cases h; exact .trFail s c w r hpc hw
        · cases h
      · rename_i hpc; cases h; exact .tryFailW s c hpc
      · cases h
  | twLoad c sawZero =>
      simp only [next] at h; split at h
      · rename_i hg; cases h; exact .twLoad s c sawZero hg.1 hg.2.1 hg.2.2
      · cases h
  | twCas c ok =>
      simp only [next] at h; split at h
      · rename_i hpc
        cases ok with
        | true =>
            simp only [↓reduceIte] at h; split at h
            · rename_i hg; cases h; exact .twCasOk s c hpc hg.1 hg.2
            · cases h
        | false =>
            simp only [Bool.false_eq_true, ↓reduceIte] at h; split at h
            · rename_i hg; cases h; exact .twCasFail s c hpc hg
            · cases h
      · cases h
  | wrFadd c =>
      simp only [next] at h; split at h
      · rename_i hg; cases h; exact .wrFadd s c hg.1 hg.2
      · cases h
  | wrPost c =>
      simp only [next] at h; split at h
      · rename_i r hpc
        split at h
        · rename_i hs; cases h; exact .wrPost s c r hpc hs
        · cases h
      · cases h
  | wUnlock c =>
      simp only [next] at h; split at h
      · rename_i k hpc
        split at h
        · rename_i hs; cases h; exact .wUnlock s c k hpc hs
        · cases h
      · cases h
  | tailUnlock a =>
      simp only [next] at h; split at h
      · rename_i c
        split at h
        · rename_i hs; cases h; exact .tailUnlock s c hs
        · cases h
      · cases h
  | wuCas c ok =>
      simp only [next] at h; split at h
      · rename_i hpc
        cases ok with
        | true =>
            simp only [↓reduceIte] at h; split at h
            · rename_i hg; cases h; exact .wuCasOk s c hpc hg.1 hg.2
            · cases h
        | false =>
            simp only [Bool.false_eq_true, ↓reduceIte] at h; split at h
            · rename_i hg; cases h; exact .wuCasFail s c hpc hg
            · cases h
      · cases h
  | wuFsub c =>
      simp only [next] at h; split at h
      · rename_i hg; cases h; exact .wuFsub s c hg.1 hg.2
      · cases h
  | rwStore c =>
      simp only [next] at h; split at h
      · rename_i sw hpc
        split at h
        · rename_i hs; cases h; exact .rwStore s c sw hpc hs
        · cases h
      · cases h
  | uUnlock c =>
      simp only [next] at h; split at h
      · rename_i b hpc
        split at h
        · rename_i hs
          split at h
          · rename_i hb
            split at h
            · rename_i n rest hq; cases h; exact .uUnlockW s c b n rest hpc hs hb hq
            · cases h
          · rename_i hb
            cases h
            exact .uUnlockP s c b hpc hs (by cases hnb : needsWriter b <;> simp_all)
        · cases h
      · cases h
  | runW c n =>
      simp only [next] at h; split at h
      · rename_i hg; cases h; exact .runW s c n hg
      · cases h
  | runR c n =>
      simp only [next] at h; split at h
      · rename_i m rest ht
        split at h
        · rename_i hg; cases h; obtain ⟨hpc, hm⟩ := hg; subst hm; exact .runR s c m rest hpc ht
        · cases h
      · cases h

end Yaclib.CoSharedMutex
