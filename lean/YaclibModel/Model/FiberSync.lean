/-
C18 — the yaclib_std locks, condition variable and thread of the FIBER backend.

Common layer + the model `Mx` of `fiber::Mutex`, `fiber::TimedMutex` and `fiber::ConditionVariable`
(the two primitives the library proper uses, and the ones expected to be correct).

Written from /repo: src/fault/fiber/{mutex,condition_variable,queue,scheduler}.cpp,
include/yaclib/fault/detail/fiber/{mutex,timed_mutex,condition_variable,queue}.hpp.

Scheduler abstraction (cooperative): all "threads" are fibers on one OS thread, a fiber runs *atomically* from
one switch point (`Suspend`, i.e. a park on a wait queue / the sleep list / a join, or an injected yield) to the
next.  One `Step` = one such atomic segment that touches the primitive.  The run queue is not modelled: any fiber
that is not blocked may take its next step at any time (a superset of what the real scheduler does; injected
yields are therefore invisible).  `NotifyOne` makes a *scheduler-chosen* waiter runnable (the label carries the
choice) — it does not hand over the lock.  Virtual time is a number carried by the labels that read the clock;
it never decreases.

Fibers are natural numbers and there are unboundedly many of them; every idle fiber may start any operation at
any time (so "all op sequences of k fibers" is built in), or `finish`.  The only discipline assumed is the
std contract that the caller of `unlock` / `cv.wait` holds the lock (`f ∈ holders`).

History: until the fix commits 32ae58e (TimedMutex) and 33a96a1 (Scheduler) the code had
  D6  `TimedMutex::TimedWaitHelper` took the lock after a wake-up without re-checking `_occupied` (single `if`): two
      holders of a `timed_mutex` after barging — scenario `timed f0=L,U f1=F50,U f2=L,U`,
      choices `k0/3 p1/2 k0/2 x0/2 k1/2 p0/2 k0/3 p1/2 k0/2 k0/2`;
  D8  `Scheduler::SleepPreemptive` dereferenced `_sleep_list.end()` when the jittered deadline equalled the current time —
      scenario `timed f0=L,U f1=F0,U`, choices `k0/2 p1/2 x0/2 p0/2 p0/2`;
and this model contained them (rule `tlfWokenAcq`, ghost counters `barge`, `endDeref`; see git history and
notes/C18.md).  It now describes the repaired code: `while (r && _occupied) r = _queue.Wait(deadline) == Ready;` with the
deadline computed once at the call.
-/
namespace Yaclib.FiberSync

abbrev Fid := Nat

/-- function update -/
def upd {α : Type} (m : Fid → α) (f : Fid) (x : α) : Fid → α := fun g => if g = f then x else m g

@[simp] theorem upd_same {α : Type} (m : Fid → α) (f : Fid) (x : α) : upd m f x f = x := by simp [upd]
theorem upd_other {α : Type} (m : Fid → α) {f g : Fid} (x : α) (h : g ≠ f) : upd m f x g = m g := by simp [upd, h]
theorem upd_apply {α : Type} (m : Fid → α) (f g : Fid) (x : α) : upd m f x g = if g = f then x else m g := rfl

/-- remove a fiber from a wait queue (`Node::Erase`) -/
def rm (q : List Fid) (f : Fid) : List Fid := q.filter (fun g => g ≠ f)

theorem mem_rm {q : List Fid} {f g : Fid} : g ∈ rm q f ↔ g ∈ q ∧ g ≠ f := by simp [rm]
theorem not_mem_rm_self (q : List Fid) (f : Fid) : f ∉ rm q f := by simp [rm]
theorem rm_ne_nil {q : List Fid} {f g : Fid} (h : g ∈ q) (hne : g ≠ f) : rm q f ≠ [] := by
  intro h0
  have : g ∈ rm q f := mem_rm.mpr ⟨h, hne⟩
  rw [h0] at this; cases this

/-- the choice a `NotifyOne` makes on queue `q`: nobody iff the queue is empty, else a member -/
def PickOk (q : List Fid) : Option Fid → Prop
  | none => q = []
  | some g => g ∈ q

instance (q : List Fid) (w : Option Fid) : Decidable (PickOk q w) := by
  cases w <;> simp only [PickOk] <;> exact inferInstance

end Yaclib.FiberSync

namespace Yaclib.FiberSync.Mx

/-- what `Mutex::lock` was called for -/
inductive Kont where
  | plain                 -- `mutex.lock()`
  | cv (tmo : Bool)       -- the re-lock at the end of `ConditionVariable::WaitImpl` (after a timeout?)
  deriving DecidableEq, Repr

inductive Pc where
  | idle | done
  | locking (k : Kont)          -- inside `Mutex::lock`, about to evaluate `while (_occupied)`
  | lockParked (k : Kont)       -- parked on the mutex queue by `Mutex::lock`
  | tlfParked (req dl : Nat)    -- `TimedMutex::TimedWaitHelper`: on the mutex queue and the sleep list
  | tlfLocking (req : Nat)      -- … notified: evaluates `while (r && _occupied)` again
  | cvParked                    -- `cv.wait`: mutex released, on the cv queue
  | cvTimed (req dl : Nat)      -- `cv.wait_for`: on the cv queue and the sleep list
  | sleeping (dl : Nat)         -- `this_thread::sleep_for`
  deriving DecidableEq, Repr

/-- notified waiters that have not run yet -/
def Pc.woken : Pc → Bool
  | .locking _ => true
  | .tlfLocking _ => true
  | _ => false

def Pc.inMq : Pc → Bool
  | .lockParked _ => true
  | .tlfParked _ _ => true
  | _ => false

def Pc.inCq : Pc → Bool
  | .cvParked => true
  | .cvTimed _ _ => true
  | _ => false

/-- the state in which a fiber removed from the mutex queue by `NotifyOne` resumes -/
def wake : Pc → Pc
  | .lockParked k => .locking k
  | .tlfParked req _ => .tlfLocking req
  | p => p

structure State where
  timed : Bool                 -- the mutex is a `timed_mutex` (has `try_lock_for/until`)
  pc : Fid → Pc
  occupied : Bool              -- `Mutex::_occupied`
  mq : List Fid                -- `Mutex::_queue`, in list order (PushBack at the end)
  cq : List Fid                -- `ConditionVariable::_queue`
  now : Nat                    -- last virtual time seen
  -- ghost
  holders : List Fid           -- fibers whose last acquisition succeeded and that have not released since
  transit : List Fid           -- fibers made runnable by a NotifyOne on the mutex queue that have not run yet

/-- `n` fibers (0 … n-1) exist; the others never run -/
def init (timed : Bool) (n : Nat) : State :=
  { timed := timed, pc := fun g => if g < n then .idle else .done, occupied := false, mq := [], cq := [], now := 0,
    holders := [], transit := [] }

inductive Label where
  | lockStart (f : Fid)                          -- `f E call lock`
  | lockAcq (f : Fid)                            -- `f M m lock 1`
  | lockPark (f : Fid)                           -- `f M m park 0`
  | tryLock (f : Fid) (ok : Bool)                -- `f M m try_lock b`
  | unlock (f : Fid) (w : Option Fid)            -- `f M m unlock 1` + `f M m notify_one r idx`
  | tlfAcq (f : Fid)                             -- `f E ret try_lock_for 1`
  | tlfPark (f : Fid) (t d j : Nat)              -- `f M m park_timed 0 @t j=j` after `call try_lock_for d`
  | tlfTimeout (f : Fid) (t : Nat)               -- `f M m wake 1 @t`
  | tlfRepark (f : Fid) (j : Nat)                -- `f M m park_timed 0 j=j` after a wake-up
  | cvWait (f : Fid) (w : Option Fid)            -- unlock + notify_one + `f M cq park 0`
  | cvWaitFor (f : Fid) (w : Option Fid) (t d j : Nat)
  | cvWaitUntil (f : Fid) (w : Option Fid) (t req j : Nat)   -- `cv.wait_until(lk, tp)`: `req` = `tp`, possibly in the past
  | cvTimeout (f : Fid) (t : Nat)                -- `f M cq wake 1 @t`
  | notifyOne (f : Fid) (w : Option Fid)         -- `f M cq notify_one r idx`
  | notifyAll (f : Fid)                          -- `f M cq notify_all r`
  | sleepStart (f : Fid) (t d : Nat)             -- `f E call sleep d @t`
  | sleepWake (f : Fid) (t : Nat)                -- `f E ret sleep @t`
  | finish (f : Fid)                             -- `f E done`
  deriving DecidableEq, Repr

/-! effects -/

/-- `FiberQueue::NotifyOne` on the mutex queue -/
def notifyM (s : State) : Option Fid → State
  | none => s
  | some g => { s with mq := rm s.mq g, pc := upd s.pc g (wake (s.pc g)), transit := s.transit ++ [g] }

/-- `_occupied = true` by fiber `f` returning to its caller -/
def acquire (s : State) (f : Fid) : State :=
  { s with occupied := true, holders := s.holders ++ [f], pc := upd s.pc f .idle, transit := rm s.transit f }

def doLockPark (s : State) (f : Fid) (k : Kont) : State :=
  { s with mq := s.mq ++ [f], pc := upd s.pc f (.lockParked k), transit := rm s.transit f }

/-- `Mutex::unlock`: `_occupied = false; _queue.NotifyOne()` -/
def release (s : State) (f : Fid) (w : Option Fid) : State :=
  notifyM { s with occupied := false, holders := s.holders.erase f } w

def doTlfPark (s : State) (f : Fid) (t d j : Nat) : State :=
  { s with mq := s.mq ++ [f], pc := upd s.pc f (.tlfParked (t + d) (t + d + j)), now := t }

def doTlfRepark (s : State) (f : Fid) (req j : Nat) : State :=
  { s with mq := s.mq ++ [f], pc := upd s.pc f (.tlfParked req (req + j)), transit := rm s.transit f }

def doTlfTimeout (s : State) (f : Fid) (t : Nat) : State :=
  { s with mq := rm s.mq f, pc := upd s.pc f .idle, now := t }

def doCvWait (s : State) (f : Fid) (w : Option Fid) : State :=
  let s1 := release s f w
  { s1 with cq := s1.cq ++ [f], pc := upd s1.pc f .cvParked }

def doCvWaitFor (s : State) (f : Fid) (w : Option Fid) (t d j : Nat) : State :=
  let s1 := release s f w
  { s1 with cq := s1.cq ++ [f], pc := upd s1.pc f (.cvTimed (t + d) (t + d + j)), now := t }

def doCvWaitUntil (s : State) (f : Fid) (w : Option Fid) (t req j : Nat) : State :=
  let s1 := release s f w
  { s1 with cq := s1.cq ++ [f], pc := upd s1.pc f (.cvTimed req (req + j)), now := t }

def doCvTimeout (s : State) (f : Fid) (t : Nat) : State :=
  { s with cq := rm s.cq f, pc := upd s.pc f (.locking (.cv true)), now := t }

def doNotifyOne (s : State) : Option Fid → State
  | none => s
  | some g => { s with cq := rm s.cq g, pc := upd s.pc g (.locking (.cv false)) }

def doNotifyAll (s : State) : State :=
  { s with cq := [], pc := fun g => if g ∈ s.cq then .locking (.cv false) else s.pc g }

inductive Step : State → Label → State → Prop where
  /-- `Mutex::lock()` entered -/
  | lockStart (s : State) (f : Fid) (h : s.pc f = .idle) :
      Step s (.lockStart f) { s with pc := upd s.pc f (.locking .plain) }
  /-- `while (_occupied)` is false: `_occupied = true`, return (to the caller or into the end of `cv.wait`) -/
  | lockAcq (s : State) (f : Fid) (k : Kont) (h : s.pc f = .locking k) (ho : s.occupied = false) :
      Step s (.lockAcq f) (acquire s f)
  /-- `while (_occupied) _queue.Wait()` -/
  | lockPark (s : State) (f : Fid) (k : Kont) (h : s.pc f = .locking k) (ho : s.occupied = true) :
      Step s (.lockPark f) (doLockPark s f k)
  | tryOk (s : State) (f : Fid) (h : s.pc f = .idle) (ho : s.occupied = false) :
      Step s (.tryLock f true) (acquire s f)
  | tryFail (s : State) (f : Fid) (h : s.pc f = .idle) (ho : s.occupied = true) :
      Step s (.tryLock f false) s
  | unlock (s : State) (f : Fid) (w : Option Fid) (h : s.pc f = .idle) (hh : f ∈ s.holders) (hw : PickOk s.mq w) :
      Step s (.unlock f w) (release s f w)
  /-- `TimedMutex::TimedWaitHelper`, `_occupied` false on entry -/
  | tlfFast (s : State) (f : Fid) (hk : s.timed = true) (h : s.pc f = .idle) (ho : s.occupied = false) :
      Step s (.tlfAcq f) (acquire s f)
  /-- … true on entry: `_queue.Wait(deadline)` = push on the queue + `SleepPreemptive(deadline + jitter)` -/
  | tlfPark (s : State) (f : Fid) (t d j : Nat) (hk : s.timed = true) (h : s.pc f = .idle) (ho : s.occupied = true)
      (ht : s.now ≤ t) : Step s (.tlfPark f t d j) (doTlfPark s f t d j)
  /-- … woken by a notify: the loop condition is evaluated again -/
  | tlfRecheckAcq (s : State) (f : Fid) (req : Nat) (hk : s.timed = true) (h : s.pc f = .tlfLocking req)
      (ho : s.occupied = false) : Step s (.tlfAcq f) (acquire s f)
  | tlfRepark (s : State) (f : Fid) (req j : Nat) (hk : s.timed = true) (h : s.pc f = .tlfLocking req)
      (ho : s.occupied = true) : Step s (.tlfRepark f j) (doTlfRepark s f req j)
  /-- … woken by the sleep list: still on the queue, `Erase()` succeeds, returns false -/
  | tlfTimeout (s : State) (f : Fid) (t req dl : Nat) (hk : s.timed = true) (h : s.pc f = .tlfParked req dl)
      (hd : dl ≤ t) (ht : s.now ≤ t) : Step s (.tlfTimeout f t) (doTlfTimeout s f t)
  /-- `ConditionVariable::WaitImpl`: `lock.unlock(); _queue.Wait(…)` in one segment -/
  | cvWait (s : State) (f : Fid) (w : Option Fid) (h : s.pc f = .idle) (hh : f ∈ s.holders) (hw : PickOk s.mq w) :
      Step s (.cvWait f w) (doCvWait s f w)
  | cvWaitFor (s : State) (f : Fid) (w : Option Fid) (t d j : Nat) (h : s.pc f = .idle) (hh : f ∈ s.holders)
      (hw : PickOk s.mq w) (ht : s.now ≤ t) : Step s (.cvWaitFor f w t d j) (doCvWaitFor s f w t d j)
  /-- the same with an absolute deadline (`wait_until`; the predicate overload waits again for the same time point) -/
  | cvWaitUntil (s : State) (f : Fid) (w : Option Fid) (t req j : Nat) (h : s.pc f = .idle) (hh : f ∈ s.holders)
      (hw : PickOk s.mq w) (ht : s.now ≤ t) : Step s (.cvWaitUntil f w t req j) (doCvWaitUntil s f w t req j)
  | cvTimeout (s : State) (f : Fid) (t req dl : Nat) (h : s.pc f = .cvTimed req dl) (hd : dl ≤ t) (ht : s.now ≤ t) :
      Step s (.cvTimeout f t) (doCvTimeout s f t)
  | notifyOne (s : State) (f : Fid) (w : Option Fid) (h : s.pc f = .idle) (hw : PickOk s.cq w) :
      Step s (.notifyOne f w) (doNotifyOne s w)
  | notifyAll (s : State) (f : Fid) (h : s.pc f = .idle) : Step s (.notifyAll f) (doNotifyAll s)
  | sleepStart (s : State) (f : Fid) (t d : Nat) (h : s.pc f = .idle) (ht : s.now ≤ t) :
      Step s (.sleepStart f t d) { s with pc := upd s.pc f (.sleeping (t + d)), now := t }
  | sleepWake (s : State) (f : Fid) (t dl : Nat) (h : s.pc f = .sleeping dl) (hd : dl ≤ t) (ht : s.now ≤ t) :
      Step s (.sleepWake f t) { s with pc := upd s.pc f .idle, now := t }
  | finish (s : State) (f : Fid) (h : s.pc f = .idle) : Step s (.finish f) { s with pc := upd s.pc f .done }

inductive Reachable (timed : Bool) (n : Nat) : State → Prop where
  | init : Reachable timed n (init timed n)
  | step {s l s'} : Reachable timed n s → Step s l s' → Reachable timed n s'

/-- nothing can move, now or at any later virtual time (an idle fiber can always start an operation, a sleeper or
    timed waiter can always time out, so in such a state every fiber is `done` or blocked for good) -/
def Quiescent (s : State) : Prop := ∀ l s', ¬ Step s l s'

/-- executable transition function used by the trace validator -/
def next (s : State) : Label → Option State
  | .lockStart f => if s.pc f = .idle then some { s with pc := upd s.pc f (.locking .plain) } else none
  | .lockAcq f =>
      match s.pc f with
      | .locking _ => if s.occupied = false then some (acquire s f) else none
      | _ => none
  | .lockPark f =>
      match s.pc f with
      | .locking k => if s.occupied = true then some (doLockPark s f k) else none
      | _ => none
  | .tryLock f ok =>
      if s.pc f = .idle then
        if ok then (if s.occupied = false then some (acquire s f) else none)
        else (if s.occupied = true then some s else none)
      else none
  | .unlock f w => if s.pc f = .idle ∧ f ∈ s.holders ∧ PickOk s.mq w then some (release s f w) else none
  | .tlfAcq f =>
      if s.timed = true then
        match s.pc f with
        | .idle => if s.occupied = false then some (acquire s f) else none
        | .tlfLocking _ => if s.occupied = false then some (acquire s f) else none
        | _ => none
      else none
  | .tlfRepark f j =>
      if s.timed = true then
        match s.pc f with
        | .tlfLocking req => if s.occupied = true then some (doTlfRepark s f req j) else none
        | _ => none
      else none
  | .tlfPark f t d j =>
      if s.timed = true ∧ s.pc f = .idle ∧ s.occupied = true ∧ s.now ≤ t then some (doTlfPark s f t d j) else none
  | .tlfTimeout f t =>
      if s.timed = true then
        match s.pc f with
        | .tlfParked _ dl => if dl ≤ t ∧ s.now ≤ t then some (doTlfTimeout s f t) else none
        | _ => none
      else none
  | .cvWait f w => if s.pc f = .idle ∧ f ∈ s.holders ∧ PickOk s.mq w then some (doCvWait s f w) else none
  | .cvWaitFor f w t d j =>
      if s.pc f = .idle ∧ f ∈ s.holders ∧ PickOk s.mq w ∧ s.now ≤ t then some (doCvWaitFor s f w t d j) else none
  | .cvWaitUntil f w t req j =>
      if s.pc f = .idle ∧ f ∈ s.holders ∧ PickOk s.mq w ∧ s.now ≤ t then some (doCvWaitUntil s f w t req j) else none
  | .cvTimeout f t =>
      match s.pc f with
      | .cvTimed _ dl => if dl ≤ t ∧ s.now ≤ t then some (doCvTimeout s f t) else none
      | _ => none
  | .notifyOne f w => if s.pc f = .idle ∧ PickOk s.cq w then some (doNotifyOne s w) else none
  | .notifyAll f => if s.pc f = .idle then some (doNotifyAll s) else none
  | .sleepStart f t d =>
      if s.pc f = .idle ∧ s.now ≤ t then some { s with pc := upd s.pc f (.sleeping (t + d)), now := t } else none
  | .sleepWake f t =>
      match s.pc f with
      | .sleeping dl => if dl ≤ t ∧ s.now ≤ t then some { s with pc := upd s.pc f .idle, now := t } else none
      | _ => none
  | .finish f => if s.pc f = .idle then some { s with pc := upd s.pc f .done } else none

theorem next_sound {s : State} {l : Label} {s' : State} (h : next s l = some s') : Step s l s' := by
  cases l with
  | lockStart f =>
      simp only [next] at h; split at h
      · rename_i hg; cases h; exact .lockStart s f hg
      · cases h
  | lockAcq f =>
      simp only [next] at h; split at h
      · rename_i k hk; split at h
        · rename_i ho; cases h; exact .lockAcq s f k hk ho
        · cases h
      · cases h
  | lockPark f =>
      simp only [next] at h; split at h
      · rename_i k hk; split at h
        · rename_i ho; cases h; exact .lockPark s f k hk ho
        · cases h
      · cases h
  | tryLock f ok =>
      simp only [next] at h; split at h
      · rename_i hp; cases ok
        · simp only [Bool.false_eq_true, if_false] at h; split at h
          · rename_i ho; cases h; exact .tryFail s f hp ho
          · cases h
        · simp only [if_true] at h; split at h
          · rename_i ho; cases h; exact .tryOk s f hp ho
          · cases h
      · cases h
  | unlock f w =>
      simp only [next] at h; split at h
      · rename_i hg; cases h; exact .unlock s f w hg.1 hg.2.1 hg.2.2
      · cases h
  | tlfAcq f =>
      simp only [next] at h; split at h
      · rename_i hk; split at h
        · rename_i hp; split at h
          · rename_i ho; cases h; exact .tlfFast s f hk hp ho
          · cases h
        · rename_i req hp; split at h
          · rename_i ho; cases h; exact .tlfRecheckAcq s f req hk hp ho
          · cases h
        · cases h
      · cases h
  | tlfRepark f j =>
      simp only [next] at h; split at h
      · rename_i hk; split at h
        · rename_i req hp; split at h
          · rename_i ho; cases h; exact .tlfRepark s f req j hk hp ho
          · cases h
        · cases h
      · cases h
  | tlfPark f t d j =>
      simp only [next] at h; split at h
      · rename_i hg; cases h; exact .tlfPark s f t d j hg.1 hg.2.1 hg.2.2.1 hg.2.2.2
      · cases h
  | tlfTimeout f t =>
      simp only [next] at h; split at h
      · rename_i hk; split at h
        · rename_i req dl hp; split at h
          · rename_i hg; cases h; exact .tlfTimeout s f t req dl hk hp hg.1 hg.2
          · cases h
        · cases h
      · cases h
  | cvWait f w =>
      simp only [next] at h; split at h
      · rename_i hg; cases h; exact .cvWait s f w hg.1 hg.2.1 hg.2.2
      · cases h
  | cvWaitFor f w t d j =>
      simp only [next] at h; split at h
      · rename_i hg; cases h; exact .cvWaitFor s f w t d j hg.1 hg.2.1 hg.2.2.1 hg.2.2.2
      · cases h
  | cvWaitUntil f w t req j =>
      simp only [next] at h; split at h
      · rename_i hg; cases h; exact .cvWaitUntil s f w t req j hg.1 hg.2.1 hg.2.2.1 hg.2.2.2
      · cases h
  | cvTimeout f t =>
      simp only [next] at h; split at h
      · rename_i req dl hp; split at h
        · rename_i hg; cases h; exact .cvTimeout s f t req dl hp hg.1 hg.2
        · cases h
      · cases h
  | notifyOne f w =>
      simp only [next] at h; split at h
      · rename_i hg; cases h; exact .notifyOne s f w hg.1 hg.2
      · cases h
  | notifyAll f =>
      simp only [next] at h; split at h
      · rename_i hg; cases h; exact .notifyAll s f hg
      · cases h
  | sleepStart f t d =>
      simp only [next] at h; split at h
      · rename_i hg; cases h; exact .sleepStart s f t d hg.1 hg.2
      · cases h
  | sleepWake f t =>
      simp only [next] at h; split at h
      · rename_i dl hp; split at h
        · rename_i hg; cases h; exact .sleepWake s f t dl hp hg.1 hg.2
        · cases h
      · cases h
  | finish f =>
      simp only [next] at h; split at h
      · rename_i hg; cases h; exact .finish s f hg
      · cases h

end Yaclib.FiberSync.Mx
