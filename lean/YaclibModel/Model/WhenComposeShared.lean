/-
`WhenS` — the combinator model (Model/When.lean) composed with n instances of the SharedFuture model of C06
(Model/Shared.lean), one per input; the shared counterpart of `WhenU` (Model/WhenCompose.lean).

Instance i has the fulfiller `SharedPromise::Set(outcome of input i)`, observer 0 = the combinator's registration of input i
(program `[attach .retire]`: `core.SetCallback(callback)` with a callback that owns the reference the future had), and ANY number
of other observers with arbitrary programs (earlier subscribers, kept copies, waiters, other combinators …) that run freely.
Only the ENTRY of the combinator callback is synchronised:

  Shared instance i                                      combinator (When)
  ---------------------------------------------------    ------------------------------------------------
  observer 0: `oLoad` / `oCasFail` / `oCasSpur`          —        (the registering thread is inside SetCallbackImpl<true>)
  observer 0: `oCasOk 0`      (callback pushed)          `regSet i true`
  observer 0: `oEnter 0 c`    (result was there: inline) `regSet i false`
  fulfiller:  `fEnter ⟨0, 0, .retire⟩` (the walk runs it) `fire i`
  every other step of the instance                       —        (free)

`Retire()` of the entered callback (`rRefLoad` / `rRetire`: copy unless sole owner, `DecRef`) stays a free step of the
instance: what it may do is C06's `retire_moves_only_as_sole_owner`; the When model's own `retire` / `dtorRel` steps only
count the release.  As in `WhenU` the When state takes the EFFECT of its interface steps without their guards.
-/
import YaclibModel.Model.When
import YaclibModel.Model.Shared

namespace Yaclib.WhenS
open Yaclib

def convS : When.Res → Shared.Res
  | .val v => .val v
  | .err _ => .err
  | .exc _ => .exc

structure Workload where
  w : When.Workload
  /-- the programs of the other observers of input i's shared core -/
  others : Nat → List (List Shared.Op)

/-- input i as a C06 workload: observer 0 is the combinator -/
def wS (W : Workload) (i : Nat) : Shared.Workload := ⟨.set (convS (W.w.inp i)), [.attach .retire] :: W.others i⟩

/-- the combinator's callback object on every instance: observer 0's first (and only) callback -/
def cb0 : Shared.Cb := ⟨0, 0, .retire⟩

structure State where
  wh : When.State
  sh : Nat → Shared.State

def init (W : Workload) : State := ⟨When.init W.w, fun i => Shared.init (wS W i)⟩

/-- steps of an instance that do not belong to the combinator: not observer 0's, not the entry of its callback -/
def isFree : Shared.Label → Bool
  | .oLoad t _ | .oCasOk t | .oCasFail t _ | .oCasSpur t _ | .oInvoke t _ _ | .oIncRef t _ | .oSubmit t _ | .oForward t _ _
  | .oEnter t _ | .oWaited t | .oGetc t _ | .oGetRef t _ | .oGot t _ _ | .oRdLoad t _ | .oReady t _ | .oTouch t _
  | .oCopy t _ | .oDrop t _ => decide (t ≠ 0)
  | .fEnter c => decide (c ≠ cb0)
  | _ => true

/-- the registering thread inside `SetCallbackImpl<true>`: load, failed / spurious CAS -/
def isRegInternal : Shared.Label → Bool
  | .oLoad t _ | .oCasFail t _ | .oCasSpur t _ => decide (t = 0)
  | _ => false

inductive Label where
  | when (l : When.Label)
  | free (i : Nat) (l : Shared.Label)
  | reg (i : Nat) (l : Shared.Label)
  | casOk (i : Nat)
  | enterC (i : Nat)
  | enterP (i : Nat)
  deriving DecidableEq, Repr

def isEnv : When.Label → Bool
  | .regSet _ _ => true
  | .fire _ => true
  | _ => false

def regAt (w : When.Workload) (s : When.State) (i : Nat) : Prop :=
  s.reg = i ∧ s.busy = none ∧ i < w.n ∧ s.crashed = false

instance (w : When.Workload) (s : When.State) (i : Nat) : Decidable (regAt w s i) := by unfold regAt; exact inferInstance

inductive Step (W : Workload) : State → Label → State → Prop where
  | when (S : State) (l : When.Label) (wh' : When.State) (hl : isEnv l = false) (h : When.Step W.w S.wh l wh') :
      Step W S (.when l) { S with wh := wh' }
  | free (S : State) (i : Nat) (l : Shared.Label) (s' : Shared.State) (hi : i < W.w.n) (hl : isFree l = true)
      (h : Shared.Step (S.sh i) l s') : Step W S (.free i l) { S with sh := When.upd S.sh i s' }
  | reg (S : State) (i : Nat) (l : Shared.Label) (s' : Shared.State) (hr : regAt W.w S.wh i) (hl : isRegInternal l = true)
      (h : Shared.Step (S.sh i) l s') : Step W S (.reg i l) { S with sh := When.upd S.sh i s' }
  | casOk (S : State) (i : Nat) (s' : Shared.State) (hr : regAt W.w S.wh i) (h : Shared.Step (S.sh i) (.oCasOk 0) s') :
      Step W S (.casOk i) ⟨When.doRegSet W.w S.wh i true, When.upd S.sh i s'⟩
  | enterC (S : State) (i : Nat) (s' : Shared.State) (hr : regAt W.w S.wh i)
      (h : Shared.Step (S.sh i) (.oEnter 0 cb0) s') :
      Step W S (.enterC i) ⟨When.doRegSet W.w S.wh i false, When.upd S.sh i s'⟩
  | enterP (S : State) (i : Nat) (s' : Shared.State) (hi : i < W.w.n) (h : Shared.Step (S.sh i) (.fEnter cb0) s') :
      Step W S (.enterP i) ⟨When.doFire W.w S.wh i, When.upd S.sh i s'⟩

inductive Reachable (W : Workload) : State → Prop where
  | init : Reachable W (init W)
  | step {S l S'} : Reachable W S → Step W S l S' → Reachable W S'

/-- executable transition function: the components' own `next` -/
def next (W : Workload) (S : State) : Label → Option State
  | .when l => if isEnv l = false then (When.next W.w S.wh l).map (fun wh' => { S with wh := wh' }) else none
  | .free i l =>
      if i < W.w.n ∧ isFree l = true then (Shared.next (S.sh i) l).map (fun s' => { S with sh := When.upd S.sh i s' })
      else none
  | .reg i l =>
      if regAt W.w S.wh i ∧ isRegInternal l = true then
        (Shared.next (S.sh i) l).map (fun s' => { S with sh := When.upd S.sh i s' })
      else none
  | .casOk i =>
      if regAt W.w S.wh i then
        (Shared.next (S.sh i) (.oCasOk 0)).map (fun s' => ⟨When.doRegSet W.w S.wh i true, When.upd S.sh i s'⟩)
      else none
  | .enterC i =>
      if regAt W.w S.wh i then
        (Shared.next (S.sh i) (.oEnter 0 cb0)).map (fun s' => ⟨When.doRegSet W.w S.wh i false, When.upd S.sh i s'⟩)
      else none
  | .enterP i =>
      if i < W.w.n then (Shared.next (S.sh i) (.fEnter cb0)).map (fun s' => ⟨When.doFire W.w S.wh i, When.upd S.sh i s'⟩)
      else none

theorem next_sound {W : Workload} {S : State} {l : Label} {S' : State} (h : next W S l = some S') : Step W S l S' := by
  cases l with
  | when l =>
      simp only [next] at h
      split at h
      · rename_i hl
        cases hn : When.next W.w S.wh l with
        | none => rw [hn] at h; cases h
        | some wh' => rw [hn] at h; cases h; exact .when S l wh' hl (When.next_sound hn)
      · cases h
  | free i l =>
      simp only [next] at h
      split at h
      · rename_i hg
        cases hn : Shared.next (S.sh i) l with
        | none => rw [hn] at h; cases h
        | some s' => rw [hn] at h; cases h; exact .free S i l s' hg.1 hg.2 (Shared.next_sound hn)
      · cases h
  | reg i l =>
      simp only [next] at h
      split at h
      · rename_i hg
        cases hn : Shared.next (S.sh i) l with
        | none => rw [hn] at h; cases h
        | some s' => rw [hn] at h; cases h; exact .reg S i l s' hg.1 hg.2 (Shared.next_sound hn)
      · cases h
  | casOk i =>
      simp only [next] at h
      split at h
      · rename_i hr
        cases hn : Shared.next (S.sh i) (.oCasOk 0) with
        | none => rw [hn] at h; cases h
        | some s' => rw [hn] at h; cases h; exact .casOk S i s' hr (Shared.next_sound hn)
      · cases h
  | enterC i =>
      simp only [next] at h
      split at h
      · rename_i hr
        cases hn : Shared.next (S.sh i) (.oEnter 0 cb0) with
        | none => rw [hn] at h; cases h
        | some s' => rw [hn] at h; cases h; exact .enterC S i s' hr (Shared.next_sound hn)
      · cases h
  | enterP i =>
      simp only [next] at h
      split at h
      · rename_i hi
        cases hn : Shared.next (S.sh i) (.fEnter cb0) with
        | none => rw [hn] at h; cases h
        | some s' => rw [hn] at h; cases h; exact .enterP S i s' hi (Shared.next_sound hn)
      · cases h

end Yaclib.WhenS
