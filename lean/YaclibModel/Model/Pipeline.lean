/-
Program-level pipeline model (DESIGN.md §2.3 "Program-level semantics"; properties C02, C05, C12, C20, C03-sequential).

Written from /repo as it is:
  core.hpp        Core::{Call, Drop, Impl, CallImpl, Done, CallResolveState, CallResolveAsync, CallResolveVoid}, MakeCore,
                  detail::SetCallback, MoveToCaller
  base_core.hpp   TransferExecutorTo          promise_core.hpp  PromiseCore::{Call, Drop}
  future.hpp      ThenInline / Then(e,f) / Then(f) / Detach*     run.hpp, schedule.hpp, make.hpp (async + lazy), contract.hpp
  task.hpp + task_impl.cpp   Start, ToFuture, Detach, Cancel     inline.cpp, manual.cpp

A *program* is one pipeline: a source, continuation steps (attached one by one), for lazy pipelines a start / cancel.
Single-threaded: every external event (attach a step, fulfil a promise, let an executor run a job, start, drop a handle)
runs the library to quiescence; `mech` is that function.  The routing decisions inside a step are NOT written here:
they are taken from `Extracted/Dispatch.lean`, regenerated from core.hpp on every check run.

`spec` is the obvious sequential reading (a fold over the steps).  `Props/C02.lean` proves that `mech`, under every
order of external events, ends with `spec`'s result and invocation list.  (Until fix 4f7ebfc of /repo — defect D10: an inner
Task whose head is a Run-type core or a PromiseCore, returned from a continuation — `mech` crashed on such programs like the
implementation did; the crash outcome is still part of the model, reachable only if the extracted tables say so.)
-/
import YaclibModel.Extracted.Dispatch

namespace Yaclib.Pipeline
open Yaclib.Extracted

/-! ## Syntax -/

/-- `Result<int, PErr>`: value, error (payload = code; `StopError`/`StopTag` = code 0), exception (payload = tag). -/
inductive R
  | val (n : Int)
  | err (c : Nat)
  | exc (t : Nat)
deriving DecidableEq, Repr, Inhabited

/-- what `Result{StopTag{}}` holds -/
def R.stop : R := .err 0

def R.state : R → Dispatch.ResultState
  | .val _ => .value
  | .err _ => .error
  | .exc _ => .exception

/-- signature class of a continuation functor: the single argument class it is declared with -/
inductive Sig | res | val | err | exc
deriving DecidableEq, Repr

/-- executors: the library's `MakeInline()`, the library's `MakeInline(StopTag)`, user executor number k -/
inductive Exec
  | inl
  | stp
  | user (k : Nat)
deriving DecidableEq, Repr

/-- behaviour of a user executor: a FIFO queue drained by the client (ManualExecutor-like) or call-in-Submit (inline-like);
    `limit = some n`: the first n Submits are accepted, every later one is answered with `Drop` -/
structure ECfg where
  queue : Bool
  limit : Option Nat
deriving DecidableEq, Repr

abbrev Cfg := Nat → ECfg

inductive Mode
  | inline                 -- ThenInline
  | on (e : Exec)          -- Then(e, f)
  | inherit                -- Then(f) on FutureOn / Task
  | detachInline           -- DetachInline(f)
  | detach (e : Exec)      -- Detach(e, f)
  | detachInherit          -- Detach(f) on FutureOn
deriving DecidableEq, Repr

/-- how the promise of a contract is eventually used -/
inductive Ful
  | set (r : R)
  | drop                   -- promise destroyed without Set  ⇒  StopError
deriving DecidableEq, Repr

def Ful.result : Ful → R
  | .set r => r
  | .drop => R.stop

inductive Src
  | ready (r : R)                              -- MakeFuture(r)            / lazy: MakeTask(r) (ReadyCore)
  | contract (p : Nat) (f : Ful)               -- MakeContract()
  | contractOn (e : Exec) (p : Nat) (f : Ful)  -- MakeContractOn(e)
  | unit                                       -- no core of its own: the first step is the Run(e,f) / Schedule(e,f) head
  | promiseFn (e : Exec) (p : Nat) (f : Ful)   -- AsyncContract(e, fn)     / lazy: LazyContract(e, fn) (PromiseCore)
  | sharedReady (r : R)                        -- MakeSharedContract(), Set at once, the SharedFuture returned
  | sharedContract (p : Nat) (f : Ful)         -- MakeSharedContract(), the SharedFuture returned
  | sharedKept (e : Exec) (p : Nat) (f : Ful) (pre : Bool)
      -- what a SharedFuture handle the client keeps (and observes again later) gives a pipeline: a COPY of the handle (e = inl),
      -- or Share(handle) = MakeContract + Connect (e = inl) / Share(handle, e) = MakeContractOn(e) + Connect: a unique
      -- Future / FutureOn that CARRIES e.  Its promise p is used as f says; pre: fulfilled before the pipeline was built
deriving DecidableEq, Repr

mutual
  /-- what the functor does when invoked -/
  inductive Beh
    | val (k : Int)                                          -- returns arg + k (value argument) / k (otherwise)
    | res (r : R)                                            -- returns that Result
    | throw (t : Nat)                                        -- throws
    | async (src : Src) (lazy : Bool) (steps : List Step)    -- builds that pipeline and returns its Future/FutureOn/SharedFuture/Task
  inductive Step
    | mk (id : Nat) (sig : Sig) (mode : Mode) (beh : Beh)
end

def Step.id : Step → Nat | .mk i _ _ _ => i
def Step.sig : Step → Sig | .mk _ s _ _ => s
def Step.mode : Step → Mode | .mk _ _ m _ => m
def Step.beh : Step → Beh | .mk _ _ _ b => b
def Beh.isAsync : Beh → Bool
  | .async _ _ _ => true
  | _ => false

/-- the executor named at the attachment (`callback->_executor = executor`) -/
def Mode.explicit : Mode → Option Exec
  | .on e => some e
  | .detach e => some e
  | _ => none

def Mode.isDetach : Mode → Bool
  | .detachInline => true
  | .detach _ => true
  | .detachInherit => true
  | _ => false

/-- CoreType flags MakeCore is instantiated with (API flag sets extracted from future.hpp / run.hpp) -/
def stepType (m : Mode) (hd : Bool) : Nat :=
  if hd then Dispatch.apiRun else
  (match m with
   | .inline => Dispatch.apiFutureThenInline
   | .on _ => Dispatch.apiFutureThen
   | .inherit => Dispatch.apiFutureOnThen
   | .detachInline => Dispatch.apiFutureDetachInline
   | .detach _ => Dispatch.apiFutureDetach
   | .detachInherit => Dispatch.apiFutureOnDetach) ||| Dispatch.setCallbackFromUnique

/-- invocability of the harness functor classes (`is_invocable_v<Func, X>`): a functor declared with `Result<int,PErr>`
    accepts everything convertible to it; the others accept exactly their class -/
structure Flags where
  invR : Bool
  invV : Bool
  invE : Bool
  invX : Bool

def Sig.flags : Sig → Flags
  | .res => ⟨true, true, true, true⟩
  | .val => ⟨false, true, false, false⟩
  | .err => ⟨false, false, true, false⟩
  | .exc => ⟨false, false, false, true⟩

/-- Core::CallImpl + CallResolveState, composed from the extracted tables -/
def route (sig : Sig) (tIsUnit hd : Bool) (input : R) : Dispatch.Action :=
  let fl := sig.flags
  if Dispatch.callImplDirect tIsUnit fl.invR then .call
  else if Dispatch.valueCallback fl.invV hd false then Dispatch.resolveValue input.state
  else Dispatch.resolveRecovery fl.invX input.state

/-- what `Done(std::forward<Result>(r).Exception() / .Error() / std::move(r))` stores; a `std::get` of the wrong
    alternative would be undefined behaviour: marked by exception tag 999999 -/
def passThrough (a : Dispatch.Action) (input : R) : R :=
  match a, input with
  | .doneException, .exc t => .exc t
  | .doneError, .err c => .err c
  | .doneResult, r => r
  | _, _ => .exc 999999

/-- what CallImpl receives: Core::Drop builds `Result{StopTag{}}`; Core::Call of a Run-type core builds `Unit{}` /
    `Result{Unit{}}` itself (value 0 here); any other core moves the Result out of its caller -/
def seenInput (ty : Nat) (dropped : Bool) (input0 : R) : R :=
  if dropped then (match Dispatch.dropInput with | .stopTag => R.stop)
  else if Dispatch.isRun ty then .val 0 else input0

/-- `T = Unit` in CallImpl: only Core::Call of a Run-type core with a no-argument functor -/
def passesUnit (ty : Nat) (dropped : Bool) (sig : Sig) : Bool :=
  !dropped && Dispatch.callPassesUnit (Dispatch.isRun ty) (sig == .val)

def addK (input : R) (k : Int) : R :=
  match input with
  | .val n => .val (n + k)
  | _ => .val k

/-! ## Ghost log -/

structure Ran where
  id : Nat
  ctx : Option Nat     -- user executor whose Submit/Call/Drop frame the body ran in (none: the client's own call)
  via : Option Exec    -- executor the step was submitted to (none: not a Call-type step)
deriving DecidableEq, Repr

structure G where
  subs : List Nat := []            -- user executor of every Submit, in order; job id = position
  jobs : List (Nat × Bool) := []   -- finished jobs in order: (job id, true = Call / false = Drop)
  submitCalls : Nat := 0           -- all Submit calls, library inline executors included
  invoked : List Nat := []
  ran : List Ran := []
  cAlloc : Nat := 0                -- cores allocated (one heap block each: MakeUnique / MakeShared)
  cFree : Nat := 0
  fAlloc : Nat := 0                -- functors stored in cores
  fFree : Nat := 0
  setPs : List Nat := []           -- promises the client has used so far (a kept SharedFuture is ready iff its promise is here)
deriving DecidableEq, Repr

def G.allocCore (g : G) (n : Nat := 1) : G := { g with cAlloc := g.cAlloc + n }
def G.freeCore (g : G) : G := { g with cFree := g.cFree + 1 }
def G.allocFunctor (g : G) (n : Nat := 1) : G := { g with fAlloc := g.fAlloc + n }
def G.freeFunctor (g : G) : G := { g with fFree := g.fFree + 1 }
def G.invoke (g : G) (id : Nat) (ctx : Option Nat) (via : Option Exec) : G :=
  { g with invoked := g.invoked ++ [id], ran := g.ran ++ [⟨id, ctx, via⟩] }
def G.finishJob (g : G) (jid : Nat) (called : Bool) : G := { g with jobs := g.jobs ++ [(jid, called)] }
def G.markSet (g : G) (p : Nat) : G := { g with setPs := p :: g.setPs }
/-- is the kept SharedFuture with promise p ready? -/
def G.isSet (g : G) (p : Nat) (pre : Bool) : Bool := pre || g.setPs.contains p

def subCount (subs : List Nat) (k : Nat) : Nat := subs.count k

/-- the executor's acceptance decision for the next Submit -/
def rejects (cfg : Cfg) (subs : List Nat) (k : Nat) : Bool :=
  match (cfg k).limit with
  | none => false
  | some n => decide (n ≤ subCount subs k)

/-! ## Executors: `Submit` -/

inductive Sub
  | callNow (ctx : Option Nat) (g : G)      -- Inline / user inline: job.Call() inside Submit
  | dropNow (ctx : Option Nat) (g : G)      -- stopped: job.Drop() inside Submit
  | queued (jid : Nat) (k : Nat) (g : G)    -- user queue executor: PushBack

def submit (cfg : Cfg) (e : Exec) (ctx : Option Nat) (g : G) : Sub :=
  let g := { g with submitCalls := g.submitCalls + 1 }
  match e with
  | .inl => .callNow ctx g
  | .stp => .dropNow ctx g
  | .user k =>
    let jid := g.subs.length
    let g1 := { g with subs := g.subs ++ [k] }
    if rejects cfg g.subs k then .dropNow (some k) (g1.finishJob jid false)
    else if (cfg k).queue then .queued jid k g1
    else .callNow (some k) (g1.finishJob jid true)

/-! ## Suspended control -/

/-- what a queued job is -/
inductive JobK
  | step (s : Step) (input : R) (hd : Bool)   -- a Core (Call-type step); `input` = the predecessor's stored Result
  | readyHead (r : R)                          -- ReadyCore started on a queue executor
  | promiseHead (p : Nat) (f : Ful)            -- PromiseCore (AsyncContract / LazyContract functor)

inductive Wait
  | job (jid : Nat) (k : Nat) (jk : JobK)     -- in the queue of user executor k
  | promise (p : Nat) (f : Ful)                -- until the client uses promise p

/-- an outer step that is unwrapping (`_self.unwrapping = 1`) and the rest of its chain -/
structure Frame where
  ty : Nat
  own : Exec
  rest : List Step

/-- the one point of control of a pipeline that cannot proceed: what it waits for, the executor the waiting core
    carries (`_executor`), the continuations already attached behind it, and the unwrapping outer steps -/
structure Thread where
  wait : Wait
  inh : Exec
  rest : List Step
  outer : List Frame

inductive Out
  | done (r : R) (inh : Exec) (ctx : Option Nat) (g : G)
  | parked (t : Thread) (g : G)
  | crash (g : G)

/-- Core::Done<_, false>: release the caller (condition extracted), destroy the functor, publish
    (a Detach core carries the Drop callback, which releases the core itself when it is published: see `settle`) -/
def doneAcct (ty : Nat) (kAsync : Bool) (g : G) : G :=
  let g := if Dispatch.doneDecRef ty kAsync false then g.freeCore else g
  if Dispatch.doneDestroysFunctor false then g.freeFunctor else g

/-- Core::CallResolveAsync after the functor returned: release the caller, destroy the functor -/
def asyncRetAcct (ty : Nat) (g : G) : G :=
  let g := if Dispatch.asyncDecRefsCaller ty then g.freeCore else g
  g.freeFunctor

/-- Core::Done<_, true> (async_done): release the inner state -/
def asyncDoneAcct (ty : Nat) (g : G) : G :=
  let g := if Dispatch.doneDecRef ty true true then g.freeCore else g
  if Dispatch.doneDestroysFunctor true then g.freeFunctor else g

def Src.isReady : Src → Bool
  | .ready _ => true
  | _ => false

def srcCores : Src → Nat
  | .unit => 0
  | _ => 1

def srcFunctors : Src → Nat
  | .promiseFn _ _ _ => 1
  | _ => 0

inductive Started
  | go (r : R) (inh : Exec) (ctx : Option Nat) (g : G)
  | wait (w : Wait) (inh : Exec) (g : G)
  | crash (g : G)

/-- an eager source right after its construction -/
def startSrc (cfg : Cfg) (src : Src) (ctx : Option Nat) (g : G) : Started :=
  match src with
  | .ready r => .go r .inl ctx g
  | .contract p f => .wait (.promise p f) .inl g
  | .contractOn e p f => .wait (.promise p f) e g
  | .unit => .go (.val 0) .inl ctx g
  | .promiseFn e p f =>
    match submit cfg e ctx g with
    | .callNow _ g' => .wait (.promise p f) e g'.freeFunctor
    | .dropNow c g' => .go R.stop e c g'.freeFunctor
    | .queued jid k g' => .wait (.job jid k (.promiseHead p f)) e g'
  | .sharedReady r => .go r .inl ctx g
  | .sharedContract p f => .wait (.promise p f) .inl g
  | .sharedKept e p f pre =>
    -- the copy of the kept handle (or the contract core of Share) is the source "core" of the ghost accounting: released by its
    -- consumer.  Whether the SharedFuture is ready already or not, the state the next step is attached to carries `e`
    -- (Share(sf, e) always goes through MakeContractOn(e): /repo async/share.hpp)
    if g.isSet p pre then .go f.result e ctx g else .wait (.promise p f) e g

/-- detail::Start(head[, e]): the head of a Task is submitted to its executor (`ovr`: ToFuture(e) / Detach(e) / Cancel) -/
def startLazy (cfg : Cfg) (src : Src) (ovr : Option Exec) (ctx : Option Nat) (g : G) : Started :=
  match src with
  | .ready r =>
    let e := ovr.getD .inl
    (match submit cfg e ctx g with
     | .callNow c g' => .go r e c g'
     | .dropNow c g' => .go R.stop e c g'
     | .queued jid k g' => .wait (.job jid k (.readyHead r)) e g')
  | .promiseFn e p f => startSrc cfg (.promiseFn (ovr.getD e) p f) ctx g
  | s => startSrc cfg s ctx g

/-- CallResolveAsync, Task branch: `Step(*this, *MoveToCaller(core))` ⇒ `head->Here(*this)`.
    ReadyCore::Here publishes its value (no Submit).  A Run-type Core (Schedule) entered without a caller and a PromiseCore
    (LazyContract) start themselves: `_executor->Submit(*this)` — since fix 4f7ebfc; before it (defect D10) the Run-type
    Core took Here for the completion of its own async result and dereferenced `_self.caller == nullptr`, and the
    PromiseCore ran UniqueCore::Here on the outer core's Callback bytes.  Which of the two the source does is extracted
    (`Dispatch.implRunEntry`, `Dispatch.promiseCoreHere`, `Dispatch.asyncEntry`). -/
def enterHere (cfg : Cfg) (src : Src) (ctx : Option Nat) (g : G) : Started :=
  match Dispatch.asyncEntry true with
  | .stepHereOnHead =>
    (match src with
     | .unit =>
       (match Dispatch.implRunEntry with
        | .asyncDoneIfCallerElseSubmit => startSrc cfg .unit ctx g   -- the head step follows and is submitted like any head
        | .asyncDoneOnly => .crash g)
     | .promiseFn e p f =>
       (match Dispatch.promiseCoreHere with
        | .submit => startSrc cfg (.promiseFn e p f) ctx g
        | .inherited => .crash g)
     | s => startSrc cfg s ctx g)                                     -- ReadyCore::Here = SetResult; other states: SetInline
  | .setInline => startSrc cfg src ctx g

def overrideHead (steps : List Step) (ovr : Option Exec) : List Step :=
  match ovr, steps with
  | some e, (.mk i s _ b) :: ss => (.mk i s (.on e) b) :: ss
  | _, ss => ss

/-! ## The mechanism -/

/-- the inner pipeline built by the functor of an outer step has run as far as it can: either its result is there and
    the outer step completes with it (async_done), or the outer step stays behind as an unwrapping frame -/
def asyncFinish (ty : Nat) (own : Exec) (k : List Step) (lazy : Bool) (ctx : Option Nat) : Out → Out
  | .done r' _ c' g4 =>
    let g5 := if lazy then g4 else asyncRetAcct ty g4
    .done r' own (if lazy then c' else ctx) (asyncDoneAcct ty g5)
  | .parked t g4 => .parked { t with outer := t.outer ++ [⟨ty, own, k⟩] } (if lazy then g4 else asyncRetAcct ty g4)
  | .crash g4 => .crash g4

mutual
  /-- Core::Call / Core::Drop of step `s` (`k` = the continuations already attached behind it, only stored when parking) -/
  def callStep (cfg : Cfg) : Step → List Step → Bool → Bool → Option Nat → Option Exec → R → Exec → G → Out
    | .mk id sig mode beh, k, hd, dropped, ctx, via, input0, own, g =>
      let ty := stepType mode hd
      let input := seenInput ty dropped input0
      match route sig (passesUnit ty dropped sig) (Dispatch.isRun ty) input with
      | .call =>
        let g1 := g.invoke id ctx via
        (match beh with
         | .val n => .done (addK input n) own ctx (doneAcct ty false g1)
         | .res r => .done r own ctx (doneAcct ty false g1)
         | .throw t => .done (.exc t) own ctx (doneAcct ty false g1)
         | .async src lazy steps =>
           -- the functor body builds the inner pipeline: one core per source / step
           let g2 := ((g1.allocCore (srcCores src + steps.length)).allocFunctor (srcFunctors src + steps.length))
           let st := if lazy then enterHere cfg src ctx (asyncRetAcct ty g2) else startSrc cfg src ctx g2
           (match st with
            | .go r0 inh0 c0 g3 =>
              asyncFinish ty own k lazy ctx
                (runSteps cfg steps (src == .unit) lazy (if lazy then c0 else ctx) r0 inh0 g3)
            | .wait w inh0 g3 =>
              .parked ⟨w, inh0, steps, [⟨ty, own, k⟩]⟩ (if lazy then g3 else asyncRetAcct ty g3)
            | .crash g3 => .crash g3))
      | a => .done (passThrough a input) own ctx (doneAcct ty beh.isAsync g)

  /-- a chain of continuations receiving `r` from a core whose executor is `inh`.
      `hd`: the first one is a Run/Schedule head.  `flow = true`: the continuations are already attached (one cascade,
      the executor context flows on); `false`: they are attached one by one by client code running in context `ctx`. -/
  def runSteps (cfg : Cfg) : List Step → Bool → Bool → Option Nat → R → Exec → G → Out
    | [], _, _, ctx, r, inh, g => .done r inh ctx g
    | s :: ss, hd, flow, ctx, r, inh, g =>
      let own := Dispatch.transferExecutorTo s.mode.explicit inh
      let ty := stepType s.mode hd
      let o :=
        if Dispatch.implSubmits ty then
          (match submit cfg own ctx g with
           | .callNow c g' => callStep cfg s ss hd false c (some own) r own g'
           | .dropNow c g' => callStep cfg s ss hd true c (some own) r own g'
           | .queued jid k g' => .parked ⟨.job jid k (.step s r hd), own, ss, []⟩ g')
        else callStep cfg s ss hd false ctx none r own g
      match o with
      | .done r' inh' c' g' => runSteps cfg ss false flow (if flow then c' else ctx) r' inh' g'
      | o => o
end

/-- the outer steps complete with the inner result, innermost first -/
def unwind (cfg : Cfg) : List Frame → Out → Out
  | [], o => o
  | f :: fs, .done r _ c g => unwind cfg fs (runSteps cfg f.rest false true c r f.own (asyncDoneAcct f.ty g))
  | fs, .parked t g => .parked { t with outer := t.outer ++ fs } g
  | _, .crash g => .crash g

/-- the thing the thread waits for happens (ctx = some k: the executor calls the job; none: the client sets the promise) -/
def fire (cfg : Cfg) (t : Thread) (ctx : Option Nat) (g : G) : Out :=
  match t.wait with
  | .promise _ f => .done f.result t.inh ctx g
  | .job jid k jk =>
    let g := g.finishJob jid true
    (match jk with
     | .step s input hd => callStep cfg s t.rest hd false (some k) (some t.inh) input t.inh g
     | .readyHead r => .done r t.inh (some k) g
     | .promiseHead p f => .parked ⟨.promise p f, t.inh, t.rest, []⟩ g.freeFunctor)

def resume (cfg : Cfg) (t : Thread) (ctx : Option Nat) (g : G) : Out :=
  let o := match fire cfg t ctx g with
    | .done r inh c g' => runSteps cfg t.rest false true c r inh g'
    | o => o
  unwind cfg t.outer o

/-! ## Client-level state and events -/

inductive Ctl
  | idle
  | future (r : R) (inh : Exec)          -- a ready Future / FutureOn is held
  | pending (t : Thread)                  -- the pipeline cannot proceed by itself
  | task (src : Src) (steps : List Step)  -- an unstarted Task is held
  | gone                                  -- nothing left

def Ctl.isFuture : Ctl → Bool
  | .future _ _ => true
  | _ => false

structure State where
  ctl : Ctl := .idle
  held : Bool := false      -- the client holds the Future / Task handle of the last core
  ended : Bool := false     -- the chain ends in a Detach*-step (its core carries the Drop callback)
  got : Option R := none    -- what Get() returned
  result : Option R := none -- ghost: the Result the pipeline completed with (kept when the handle is given up)
  crashed : Bool := false
  g : G := {}

inductive StartKind
  | toFuture
  | toFutureOn (e : Exec)
  | detach
  | detachOn (e : Exec)
  | cancel                  -- ~Task / Cancel(): Detach(MakeInline(StopTag{}))
deriving DecidableEq, Repr

def StartKind.ovr : StartKind → Option Exec
  | .toFuture => none
  | .toFutureOn e => some e
  | .detach => none
  | .detachOn e => some e
  | .cancel => some .stp

def StartKind.holds : StartKind → Bool
  | .toFuture => true
  | .toFutureOn _ => true
  | _ => false

inductive Event
  | src (s : Src) (lazy : Bool) (head : Option Step)
  | attach (s : Step)
  | set (p : Nat)            -- the client uses promise p (Set / destroys it, as the program says)
  | call (k : Nat)           -- user queue executor k pops one job and Calls it
  | start (k : StartKind)
  | dropFuture               -- ~Future
  | get                      -- Future::Get() && on a ready future (a future that is not ready is destroyed instead)

/-- a continuation attached to the last core of the pipeline: behind the outermost chain -/
def attachFrames : List Frame → Step → List Frame
  | [], _ => []
  | [f], s => [⟨f.ty, f.own, f.rest ++ [s]⟩]
  | f :: fs, s => f :: attachFrames fs s

def Thread.attach (t : Thread) (s : Step) : Thread :=
  match t.outer with
  | [] => { t with rest := t.rest ++ [s] }
  | fs => { t with outer := attachFrames fs s }

/-- a cascade has come to rest -/
def settle (st : State) (o : Out) : State :=
  match o with
  | .done r inh _ g =>
    if st.held then { st with ctl := .future r inh, result := some r, g := g }
    -- nobody holds the last core (~Future, Detach(), a Detach*-step): its callback is MakeDrop(), which releases it
    else { st with ctl := .gone, result := some r, g := g.freeCore }
  | .parked t g => { st with ctl := .pending t, g := g }
  | .crash g => { st with crashed := true, g := g }

def started (cfg : Cfg) (st : State) (steps : List Step) (hd flow : Bool) (s : Started) : State :=
  match s with
  | .go r inh c g => settle st (runSteps cfg steps hd flow (if flow then c else none) r inh g)
  | .wait w inh g => settle st (.parked ⟨w, inh, steps, []⟩ g)
  | .crash g => settle st (.crash g)

def mech (cfg : Cfg) (st : State) (ev : Event) : State :=
  if st.crashed then st else
  match ev, st.ctl with
  | .src s lazy head, .idle =>
    if (s == .unit) != head.isSome then st else   -- Run / Schedule come with their head functor, nothing else does
    let hs := head.toList
    let g := (st.g.allocCore (srcCores s + hs.length)).allocFunctor (srcFunctors s + hs.length)
    let st := { st with held := true, g := g }
    if lazy then { st with ctl := .task s hs }
    else started cfg st hs (s == .unit) false (startSrc cfg s none g)
  | .attach s, .future r inh =>
    if !st.held then st else
    let g := st.g.allocCore.allocFunctor
    let st := if s.mode.isDetach then { st with held := false, ended := true } else st
    settle st (runSteps cfg [s] false false none r inh g)
  | .attach s, .pending t =>
    if !st.held then st else
    let st := if s.mode.isDetach then { st with held := false, ended := true } else st
    { st with ctl := .pending (t.attach s), g := st.g.allocCore.allocFunctor }
  | .attach s, .task src steps =>
    if s.mode.isDetach then st else     -- Task has no Detach(f)
    { st with ctl := .task src (steps ++ [s]), g := st.g.allocCore.allocFunctor }
  | .set p, .pending t =>
    let st := { st with g := st.g.markSet p }
    (match t.wait with
     | .promise q _ => if p = q then settle st (resume cfg t none st.g) else st
     | _ => st)
  | .set p, .future _ _ => { st with g := st.g.markSet p }
  | .set p, .task _ _ => { st with g := st.g.markSet p }
  | .set p, .gone => { st with g := st.g.markSet p }
  | .call k, .pending t =>
    (match t.wait with
     | .job _ k' _ => if k = k' then settle st (resume cfg t (some k) st.g) else st
     | _ => st)
  | .start sk, .task src steps =>
    let st := { st with held := sk.holds }
    started cfg st (overrideHead steps (if src == .unit then sk.ovr else none)) (src == .unit) true
      (startLazy cfg src sk.ovr none st.g)
  | .dropFuture, .future _ _ => if st.held then { st with ctl := .gone, held := false, g := st.g.freeCore } else st
  | .dropFuture, .pending _ => { st with held := false }
  | .get, .future r _ => if st.held then { st with ctl := .gone, held := false, got := some r, g := st.g.freeCore } else st
  | .get, .pending _ => { st with held := false }     -- Get() would block for ever: the client gives the future up
  | _, _ => st

def run (cfg : Cfg) (st : State) (evs : List Event) : State := evs.foldl (mech cfg) st

/-- nothing can happen any more without the client attaching something new -/
def State.terminal (st : State) : Bool :=
  match st.ctl with
  | .future _ _ => true
  | .gone => true
  | _ => false

/-! ## The sequential reading -/

structure SOut where
  r : R
  inh : Exec
  subs : List Nat
  invoked : List Nat
deriving DecidableEq, Repr

/-- value callbacks run on a value, error callbacks on an error, exception callbacks on an exception, Result callbacks always -/
def runsOn : Sig → R → Bool
  | .res, _ => true
  | .val, .val _ => true
  | .err, .err _ => true
  | .exc, .exc _ => true
  | _, _ => false

def Mode.submits : Mode → Bool
  | .inline => false
  | .detachInline => false
  | _ => true

/-- the executor a step carries: the one named at its attachment, else the one of the state it is attached to -/
def ownExec (m : Mode) (inh : Exec) : Exec :=
  match m.explicit with
  | some e => e
  | none => inh

/-- what a step submitted to `e` receives: its input, or StopError when `e` refuses -/
def offered (cfg : Cfg) (e : Exec) (r : R) (subs : List Nat) : R × List Nat :=
  match e with
  | .inl => (r, subs)
  | .stp => (R.stop, subs)
  | .user k => (if rejects cfg subs k then R.stop else r, subs ++ [k])

def specSrc (cfg : Cfg) (src : Src) (ovr : Option Exec) (lazy : Bool) (subs : List Nat) : R × Exec × List Nat :=
  match src with
  | .ready r =>
    if lazy then
      let e := ovr.getD .inl
      let (r', subs') := offered cfg e r subs
      (r', e, subs')
    else (r, .inl, subs)
  | .contract _ f => (f.result, .inl, subs)
  | .contractOn e _ f => (f.result, e, subs)
  | .unit => (.val 0, .inl, subs)
  | .promiseFn e _ f =>
    let e := ovr.getD e
    let (r', subs') := offered cfg e f.result subs
    (r', e, subs')
  | .sharedReady r => (r, .inl, subs)
  | .sharedContract _ f => (f.result, .inl, subs)
  | .sharedKept e _ f _ => (f.result, e, subs)

mutual
  /-- the functor of a step is offered `input` (its own input, or StopError if its executor refused it) -/
  def specCall (cfg : Cfg) : Step → R → Exec → List Nat → List Nat → SOut
    | .mk id sig _ beh, input, own, subs, inv =>
      if runsOn sig input then
        (match beh with
         | .val k => ⟨addK input k, own, subs, inv ++ [id]⟩
         | .res r' => ⟨r', own, subs, inv ++ [id]⟩
         | .throw t => ⟨.exc t, own, subs, inv ++ [id]⟩
         | .async src _ steps =>
           let s0 := specSrc cfg src none false subs
           let o := specSteps cfg steps (src == .unit) s0.1 s0.2.1 s0.2.2 (inv ++ [id])
           ⟨o.r, own, o.subs, o.invoked⟩)
      else ⟨input, own, subs, inv⟩

  /-- a chain of steps fed with `r` by a state whose executor is `inh`; `hd`: the first step is a Run/Schedule head -/
  def specSteps (cfg : Cfg) : List Step → Bool → R → Exec → List Nat → List Nat → SOut
    | [], _, r, inh, subs, inv => ⟨r, inh, subs, inv⟩
    | s :: ss, hd, r, inh, subs, inv =>
      let own := ownExec s.mode inh
      let io := if s.mode.submits || hd then offered cfg own (if hd then .val 0 else r) subs else (r, subs)
      let o := specCall cfg s io.1 own io.2 inv
      specSteps cfg ss false o.r o.inh o.subs o.invoked
end

def specStep (cfg : Cfg) (s : Step) (hd : Bool) (r : R) (inh : Exec) (subs inv : List Nat) : SOut :=
  specSteps cfg [s] hd r inh subs inv

/-- a whole program: source, lazy?, steps, how a lazy one is started -/
structure Prog where
  src : Src
  lazy : Bool
  steps : List Step
  start : Option StartKind := none

def spec (cfg : Cfg) (p : Prog) : SOut :=
  let ovr := if p.lazy then (p.start.bind StartKind.ovr) else none
  let s0 := specSrc cfg p.src ovr p.lazy []
  specSteps cfg (overrideHead p.steps (if p.src == .unit then ovr else none)) (p.src == .unit) s0.1 s0.2.1 s0.2.2 []

/-- which handle the client holds (the C++ type system enforces this discipline: a moved-from handle cannot be used) -/
inductive Handle | none | fut | task
deriving DecidableEq, Repr

/-- the client's own view of one of its events: how the program text grows, which handle is left -/
def clientEv (ph : Prog × Handle) (ev : Event) : Prog × Handle :=
  match ev, ph.2 with
  | .attach s, .fut => ({ ph.1 with steps := ph.1.steps ++ [s] }, if s.mode.isDetach then .none else .fut)
  | .attach s, .task => if s.mode.isDetach then ph else ({ ph.1 with steps := ph.1.steps ++ [s] }, .task)
  | .start k, .task => ({ ph.1 with start := some k }, if k.holds then .fut else .none)
  | .dropFuture, .fut => (ph.1, .none)
  | .get, .fut => (ph.1, .none)
  | _, _ => ph

/-- the program a list of client events has built, and the handle left -/
def client : List Event → Option (Prog × Handle)
  | [] => none
  | .src s lazy head :: evs =>
    if (s == .unit) != head.isSome then client evs
    else some (evs.foldl clientEv (⟨s, lazy, head.toList, none⟩, if lazy then .task else .fut))
  | _ :: evs => client evs

def progOf (evs : List Event) : Option Prog := (client evs).map (·.1)

/-! ## Well-formed programs (what the C++ type system admits; the harness rejects the others) -/

mutual
  /-- a Run / Schedule source built by a functor comes with its head functor -/
  def wfStep : Step → Bool
    | .mk _ _ _ beh =>
      (match beh with
       | .async src _ steps => (!(src == .unit) || !steps.isEmpty) && wfSteps steps
       | _ => true)
  def wfSteps : List Step → Bool
    | [] => true
    | s :: ss => wfStep s && wfSteps ss
end

def wfProg (p : Prog) : Bool := wfSteps p.steps

/-! ## Step identifiers in pipeline order -/

mutual
  def idsStep : Step → List Nat
    | .mk id _ _ beh =>
      id :: (match beh with
             | .async _ _ steps => idsSteps steps
             | _ => [])
  def idsSteps : List Step → List Nat
    | [] => []
    | s :: ss => idsStep s ++ idsSteps ss
end

def Prog.ids (p : Prog) : List Nat := idsSteps p.steps

/-! ## Sizes (C20) -/

mutual
  /-- number of cores a step can ever cause to be allocated: itself + everything its functor builds -/
  def sizeStep : Step → Nat
    | .mk _ _ _ beh =>
      (match beh with
       | .async src _ steps => 1 + srcCores src + sizeSteps steps
       | _ => 1)
  def sizeSteps : List Step → Nat
    | [] => 0
    | s :: ss => sizeStep s + sizeSteps ss
end

def Prog.size (p : Prog) : Nat := srcCores p.src + sizeSteps p.steps

mutual
  /-- cores the functor of a step will allocate if it is invoked (the inner pipeline it builds, to any depth) -/
  def innerStep : Step → Nat
    | .mk _ _ _ beh =>
      (match beh with
       | .async src _ steps => srcCores src + steps.length + innerSteps steps
       | _ => 0)
  def innerSteps : List Step → Nat
    | [] => 0
    | s :: ss => innerStep s + innerSteps ss
end


end Yaclib.Pipeline
