/-
`WhenM` — the combinator model composed with n input instances of EITHER kind: instance i is a C01 unique core (as in
`WhenU`, Model/WhenCompose.lean) if `kind i = false`, a C06 shared core with arbitrary other observers (as in `WhenS`,
Model/WhenComposeShared.lean) if `kind i = true`.  The synchronised steps are the union of WhenU's and WhenS's, dispatched
on the kind of the input; the When state takes the EFFECT of `regSet` / `fire` without their guards.
-/
import YaclibModel.Model.WhenCompose
import YaclibModel.Model.WhenComposeShared

namespace Yaclib.WhenM
open Yaclib

structure Workload where
  w : When.Workload
  /-- input i is a SharedFuture (else a Future) -/
  kind : Nat → Bool
  others : Nat → List (List Shared.Op)

def wsOf (W : Workload) : WhenS.Workload := ⟨W.w, W.others⟩

structure State where
  wh : When.State
  u : Nat → Unique.State
  sh : Nat → Shared.State

def init (W : Workload) : State :=
  ⟨When.init W.w, fun i => Unique.init (WhenU.wU W.w i), fun i => Shared.init (WhenS.wS (wsOf W) i)⟩

inductive Label where
  | when (l : When.Label)
  | uprod (i : Nat) (old : Unique.Word) | ucload (i : Nat) (x : Unique.Word) | ucasOk (i : Nat) | ucasFail (i : Nat)
  | uenterC (i : Nat) (r : Unique.Res) | uenterP (i : Nat) (r : Unique.Res)
  | sfree (i : Nat) (l : Shared.Label) | sreg (i : Nat) (l : Shared.Label) | scasOk (i : Nat) | senterC (i : Nat)
  | senterP (i : Nat)
  deriving DecidableEq, Repr

abbrev regAt := WhenU.regAt

inductive Step (W : Workload) : State → Label → State → Prop where
  | when (S : State) (l : When.Label) (wh' : When.State) (hl : WhenU.isEnv l = false) (h : When.Step W.w S.wh l wh') :
      Step W S (.when l) { S with wh := wh' }
  | uprod (S : State) (i : Nat) (old : Unique.Word) (u' : Unique.State) (hk : W.kind i = false) (hi : i < W.w.n)
      (h : Unique.Step (S.u i) (.pXchg old) u') : Step W S (.uprod i old) { S with u := When.upd S.u i u' }
  | ucload (S : State) (i : Nat) (x : Unique.Word) (u' : Unique.State) (hk : W.kind i = false) (hr : regAt W.w S.wh i)
      (h : Unique.Step (S.u i) (.cLoad x) u') : Step W S (.ucload i x) { S with u := When.upd S.u i u' }
  | ucasOk (S : State) (i : Nat) (u' : Unique.State) (hk : W.kind i = false) (hr : regAt W.w S.wh i)
      (h : Unique.Step (S.u i) (.cCas .cont true) u') :
      Step W S (.ucasOk i) { S with wh := When.doRegSet W.w S.wh i true, u := When.upd S.u i u' }
  | ucasFail (S : State) (i : Nat) (u' : Unique.State) (hk : W.kind i = false) (hr : regAt W.w S.wh i)
      (h : Unique.Step (S.u i) (.cCas .cont false) u') : Step W S (.ucasFail i) { S with u := When.upd S.u i u' }
  | uenterC (S : State) (i : Nat) (r : Unique.Res) (u' : Unique.State) (hk : W.kind i = false) (hr : regAt W.w S.wh i)
      (h : Unique.Step (S.u i) (.invoke .c r) u') :
      Step W S (.uenterC i r) { S with wh := When.doRegSet W.w S.wh i false, u := When.upd S.u i u' }
  | uenterP (S : State) (i : Nat) (r : Unique.Res) (u' : Unique.State) (hk : W.kind i = false) (hi : i < W.w.n)
      (h : Unique.Step (S.u i) (.invoke .p r) u') :
      Step W S (.uenterP i r) { S with wh := When.doFire W.w S.wh i, u := When.upd S.u i u' }
  | sfree (S : State) (i : Nat) (l : Shared.Label) (s' : Shared.State) (hk : W.kind i = true) (hi : i < W.w.n)
      (hl : WhenS.isFree l = true) (h : Shared.Step (S.sh i) l s') :
      Step W S (.sfree i l) { S with sh := When.upd S.sh i s' }
  | sreg (S : State) (i : Nat) (l : Shared.Label) (s' : Shared.State) (hk : W.kind i = true) (hr : regAt W.w S.wh i)
      (hl : WhenS.isRegInternal l = true) (h : Shared.Step (S.sh i) l s') :
      Step W S (.sreg i l) { S with sh := When.upd S.sh i s' }
  | scasOk (S : State) (i : Nat) (s' : Shared.State) (hk : W.kind i = true) (hr : regAt W.w S.wh i)
      (h : Shared.Step (S.sh i) (.oCasOk 0) s') :
      Step W S (.scasOk i) { S with wh := When.doRegSet W.w S.wh i true, sh := When.upd S.sh i s' }
  | senterC (S : State) (i : Nat) (s' : Shared.State) (hk : W.kind i = true) (hr : regAt W.w S.wh i)
      (h : Shared.Step (S.sh i) (.oEnter 0 WhenS.cb0) s') :
      Step W S (.senterC i) { S with wh := When.doRegSet W.w S.wh i false, sh := When.upd S.sh i s' }
  | senterP (S : State) (i : Nat) (s' : Shared.State) (hk : W.kind i = true) (hi : i < W.w.n)
      (h : Shared.Step (S.sh i) (.fEnter WhenS.cb0) s') :
      Step W S (.senterP i) { S with wh := When.doFire W.w S.wh i, sh := When.upd S.sh i s' }

inductive Reachable (W : Workload) : State → Prop where
  | init : Reachable W (init W)
  | step {S l S'} : Reachable W S → Step W S l S' → Reachable W S'

end Yaclib.WhenM
