/-
Callback nodes of the variadic combinator (`StaticCombinator`, when.hpp) — which `CombinatorCallback` object input i is
registered with.

Written from /repo: `StaticCombinator::{OrderedCallbacks, UnorderedCallbacks, GetCallbackHelper}` (when.hpp),
`TranslateIndexImpl::Index`, `translate_index_v`, `IndexOf::Index`, `index_of_v`, `Filter`, `Unique` (util/type_traits.hpp).

Why it matters: a UniqueCore stores just a pointer to its callback, so unique inputs of one core type may share a node
(and do, for the unordered strategies); a SharedCore threads its subscriber list THROUGH the node (`callback.next`), so every
shared input needs a node of its own — this is the assumption under which Model/When.lean may treat each input's hand-off
as the proven C06 interface ("the callback registered for input i is entered exactly once").
-/
namespace Yaclib.When.Nodes

/-- a core type: `UniqueCore<V, E>` / `SharedCore<V, E>`, `val` identifies `<V, E>` -/
structure CoreTy where
  shared : Bool
  val : Nat
  deriving DecidableEq, Repr

/-- `TranslateIndexImpl<FromIndex, ToIndex, From, To>::Index()`: walk `From`, advancing in `To` whenever the heads agree.
    (`From` exhausted, or `To` empty with `FromIndex ≠ 0`, does not compile in C++: never instantiated, see `translate_rank`.) -/
def translateIndex : Nat → Nat → List CoreTy → List CoreTy → Nat
  | 0, toIdx, _, _ => toIdx
  | _ + 1, toIdx, [], _ => toIdx
  | k + 1, toIdx, _ :: fr, [] => translateIndex k toIdx fr []
  | k + 1, toIdx, f :: fr, t :: tos =>
      if f = t then translateIndex k (toIdx + 1) fr tos else translateIndex k toIdx fr (t :: tos)

/-- `IndexOf<T, tuple<Ts...>>::Index()`: position of the first element equal to `T` -/
def indexOf (c : CoreTy) : List CoreTy → Nat
  | [] => 0
  | t :: ts => if c = t then 0 else 1 + indexOf c ts

/-- `Filter<IsSharedCore, tuple<Cores...>>` -/
def sharedCores (cores : List CoreTy) : List CoreTy := cores.filter (·.shared)

/-- `Unique<Filter<IsUniqueCore, tuple<Cores...>>>`: an element is dropped if it occurs again later -/
def uniqueUnique : List CoreTy → List CoreTy
  | [] => []
  | c :: cs => if c.shared then uniqueUnique cs else if (uniqueUnique cs).contains c then uniqueUnique cs else c :: uniqueUnique cs

/-- the callback object an input is registered with -/
inductive Node where
  | ordered (i : Nat)     -- `std::get<Index>(callbacks)`                  (ordered strategies: one node per input)
  | shared (k : Nat)      -- `std::get<k>(callbacks.shared_tuple)`
  | unique (k : Nat)      -- `std::get<k>(callbacks.unique_tuple)`        (one node per unique core TYPE)
  deriving DecidableEq, Repr

/-- `StaticCombinator::GetCallbackHelper<Index, Core>()` -/
def staticNode (ordered : Bool) (cores : List CoreTy) (i : Nat) : Node :=
  if ordered then .ordered i
  else match cores[i]? with
    | some c =>
        if c.shared then .shared (translateIndex i 0 cores (sharedCores cores))
        else .unique (indexOf c (uniqueUnique cores))
    | none => .ordered i

/-- the lookup the unique cores use, applied to the shared tuple (what a "simplification" of `GetCallbackHelper` would do) -/
def staticNodeByType (cores : List CoreTy) (i : Nat) : Node :=
  match cores[i]? with
  | some c => if c.shared then .shared (indexOf c (sharedCores cores)) else .unique (indexOf c (uniqueUnique cores))
  | none => .ordered i

/-- a "simplified" `TranslateIndexImpl` that does not consume the target tuple while walking the pack: it counts the preceding
    cores whose type equals the FIRST shared core type only -/
def translateIndexNoConsume : Nat → Nat → List CoreTy → List CoreTy → Nat
  | 0, toIdx, _, _ => toIdx
  | _ + 1, toIdx, [], _ => toIdx
  | k + 1, toIdx, _ :: fr, [] => translateIndexNoConsume k toIdx fr []
  | k + 1, toIdx, f :: fr, t :: tos =>
      translateIndexNoConsume k (toIdx + (if f = t then 1 else 0)) fr (t :: tos)

end Yaclib.When.Nodes
