/-
C17 — the fiber scheduler of the fault-injection layer as a deterministic transducer.

Written from /repo/src/fault/fiber/scheduler.cpp (`Schedule`, `RunLoop`, `GetNext`, `RescheduleCurrent`, `Sleep`,
`SleepPreemptive`, `WakeUpNeeded`, `AdvanceTime`, `TickTime`, `PollRandomElementFromList`), fiber/queue.cpp
(`FiberQueue::Wait/NotifyOne/NotifyAll/ScheduleAndRemove`), injector.cpp (`MaybeInject/NeedInject/Reset`), atomic.cpp
(`ShouldFailAtomicWeak`), util.cpp (`GetRandNumber`, `ForwardToRandCount`, `SetSeed`).  Every decision is computed by the
*extracted* function (`Extracted/FiberSched.lean`, regenerated from the source on every run); what is hand-written here
is the plumbing between them (which list a fiber is pushed to, when the run loop picks the next fiber), tied to the
source by the `Sched_*`/`Fault_*` kernel skeletons (Props/C17.lean).

The client program is *not* modelled: it is any function from what it has observed so far to its next call into the
fault layer (`Client`).  The scheduler is a function `step : St → Req → St × List Out`; a run is its iteration.
Requests carry durations, never absolute times (`sleep_for`, `wait_for`; an absolute deadline computed by the client
from `now()` is `now + d`), and fibers / wait queues are named by the client (`F`, `Q`): the scheduler never inspects a
fiber's identity or address, only positions in its lists.

Integers are natural numbers (no wrap-around of `_time`, `sRandCount`, `_count`: the stated no-overflow assumption).
`Out.ub` marks the one remaining undefined behaviour: a blocking call made outside a fiber (client error).  The two
scheduler defects that used to produce it (D8, D12) were fixed in /repo 33a96a1; see notes/C17.md.
-/
import YaclibModel.Extracted.FiberSched

namespace Yaclib.Sched
open Yaclib.SchedImp

/-- the random engine, abstract: `seed x` = `eng.seed(x)` / `mt19937_64{x}`, `draw` = one call `eng()` -/
structure Engine (E : Type) where
  seed : Nat → E
  draw : E → E × Nat

/-- the engine state after `n` draws -/
def Engine.after {E : Type} (en : Engine E) : Nat → E → E
  | 0, e => e
  | n + 1, e => en.after n (en.draw e).1

/-- the fault configuration (`SetFaultFrequency`, `SetFaultSleepTime`, `SetAtomicFailFrequency`, `SetFaultTickLength`,
    `SetFaultRandomListPick`); defaults are the extracted file statics -/
structure Cfg where
  yieldFreq : Nat := Extracted.FiberSched.default_sYieldFrequency
  sleepTime : Nat := Extracted.FiberSched.default_sSleepTime
  failFreq : Nat := Extracted.FiberSched.default_sAtomicFailFrequency
  tick : Nat := Extracted.FiberSched.default_sTickLength
  pick : Nat := Extracted.FiberSched.default_sRandomListPick
  deriving Repr, DecidableEq

def upd {α β : Type} [DecidableEq α] (m : α → β) (a : α) (b : β) : α → β := fun x => if x = a then b else m x

/-- `E` engine state, `F` fiber names, `Q` wait-queue (`FiberQueue`) names -/
@[ext] structure St (E F Q : Type) where
  rc : Nat                          -- sRandCount
  eng : E                           -- the thread_local engine
  count : Nat                       -- Injector::_count
  pause : Bool                      -- Injector::_pause
  time : Nat                        -- Scheduler::_time
  queue : List F                    -- Scheduler::_queue, front first
  sleep : List (Nat × List F)       -- Scheduler::_sleep_list: ascending keys, buckets in push order (may be empty)
  waitq : Q → List F                -- FiberQueue::_queue of every wait queue
  waiting : F → Bool                -- FiberBase::_state == Waiting (set by Schedule, cleared by Resume)
  timed : F → Option (Nat × Q)      -- fiber blocked in FiberQueue::Wait(deadline): (ns after jitter, queue)
  cur : Option F                    -- sCurrent

/-- calls of the running fiber (or of the outside world when `cur = none`) into the fault layer -/
inductive Req (F Q : Type) where
  | inject                      -- yaclib::InjectFault()  (every yaclib_std operation is bracketed by two of them)
  | failWeak                    -- ShouldFailAtomicWeak() inside compare_exchange_weak
  | yield                       -- yaclib_std::this_thread::yield = Scheduler::RescheduleCurrent
  | spawn (f : F)               -- yaclib_std::thread{…}: Scheduler::Schedule(new fiber)
  | sleepFor (d : Nat)          -- this_thread::sleep_for(d) = Scheduler::Sleep(now + d)   (no jitter)
  | park (q : Q)                -- FiberQueue::Wait(NoTimeoutTag)
  | parkFor (q : Q) (d : Nat)   -- FiberQueue::Wait(now + d) = SleepPreemptive (jitter draw)
  | notifyOne (q : Q)
  | notifyAll (q : Q)
  | suspend                     -- Scheduler::Suspend (thread::join waiting for a running fiber)
  | wake (f : F)                -- ScheduleFiber(f) (FiberBase::Exit waking the joiner)
  | exit                        -- the fiber function returned
  deriving Repr

/-- what the caller / the trace observes -/
inductive Out (F : Type) where
  | unit                                        -- the call returned
  | flag (b : Bool)                             -- inject? / spurious failure? / immediate timeout
  | resumed (f : F) (timedOut : Option Bool)    -- the run loop resumed `f` (`on_resume`); result of its timed wait
  | idle                                        -- the run loop ended: nothing runnable, nothing sleeping
  | ub                                          -- a blocking call outside a fiber (null `sCurrent` dereferenced)
  deriving Repr, DecidableEq

section
variable {E F Q : Type} [DecidableEq F] [DecidableEq Q]

/-- element chosen by an index returned by `GetElement`, and the list without it (`Node::Erase`) -/
def takeAt (l : List F) : Option Nat → Option (F × List F)
  | none => none
  | some i => (l[i]?).map fun f => (f, l.eraseIdx i)

/-- `PollRandomElementFromList(list)` on a list of fibers -/
def poll (en : Engine E) (cfg : Cfg) (rc : Nat) (eng : E) (l : List F) : Nat × E × Option (F × List F) :=
  let r := Extracted.FiberSched.PollRandomElementFromList en.draw rc eng cfg.pick l.length
  (r.1, r.2.1, takeAt l r.2.2)

/-- `_sleep_list[ns].PushBack(f)` on the ordered map -/
def sleepInsert (ns : Nat) (f : F) : List (Nat × List F) → List (Nat × List F)
  | [] => [(ns, [f])]
  | (k, b) :: rest =>
    if ns < k then (ns, [f]) :: (k, b) :: rest
    else if ns = k then (k, b ++ [f]) :: rest
    else (k, b) :: sleepInsert ns f rest

/-- `static_cast<BiNodeScheduler*>(f)->Erase()` for a fiber linked into a sleep bucket -/
def sleepRemove (f : F) (sl : List (Nat × List F)) : List (Nat × List F) := sl.map fun kb => (kb.1, kb.2.erase f)

/-- `Scheduler::WakeUpNeeded`: buckets in key order until the first key for which the extracted stop condition holds;
    returns (fibers appended to the run queue, remaining map) -/
def wakeUp (time : Nat) : List (Nat × List F) → List F × List (Nat × List F)
  | [] => ([], [])
  | (k, b) :: rest =>
    if Extracted.FiberSched.Scheduler.WakeUpNeeded.stop time k then ([], (k, b) :: rest)
    else (b ++ (wakeUp time rest).1, (wakeUp time rest).2)

/-- the tail of `SleepPreemptive` (since 33a96a1): `if (auto it = _sleep_list.find(ns); it != end() && it->second.Empty())
    _sleep_list.erase(it);` — whatever the time is; nothing happens if the bucket is gone or still populated.
    (Before the fix the lookup was made only if `_time <= ns` and its result was dereferenced unchecked: D8.) -/
def cleanupBucket (ns : Nat) (sl : List (Nat × List F)) : List (Nat × List F) :=
  match sl.find? (fun kb => kb.1 == ns) with
  | none => sl
  | some kb => if kb.2.isEmpty then sl.filter (fun kb => !(kb.1 == ns)) else sl

/-- `Scheduler::Schedule(f)` while the loop is running: `SetState(Waiting); _queue.PushBack(f)` -/
def schedule (s : St E F Q) (f : F) : St E F Q :=
  { s with waiting := upd s.waiting f true, queue := s.queue ++ [f] }

/-- `FiberQueue::ScheduleAndRemove(f)`: nothing if `f` is already `Waiting`, else unlink its scheduler node (from a sleep
    bucket, or from the run queue if `WakeUpNeeded` already moved it there) and `Schedule` it -/
def scheduleAndRemove (s : St E F Q) (f : F) : St E F Q :=
  if s.waiting f then s
  else schedule { s with sleep := sleepRemove f s.sleep, queue := s.queue.erase f } f

/-- `if (_queue.Empty()) AdvanceTime();` — the time at which `WakeUpNeeded` runs -/
def advance (s : St E F Q) : Nat :=
  if s.queue.isEmpty then
    (match s.sleep.head? with
     | some kb => Extracted.FiberSched.Scheduler.AdvanceTime s.time kb.1
     | none => s.time)
  else s.time

/-- `next->Resume()` seen from the resumed fiber `f` (`s1` = state right after the switch): a fiber returning from a
    timed wait finishes `SleepPreemptive` (drop its bucket if a notify left it empty) and `FiberQueue::Wait`
    (`queue_node->Erase()`: still linked = nobody notified it = timeout) -/
def resumeIn (s1 : St E F Q) (f : F) : St E F Q × List (Out F) :=
  match s1.timed f with
  | none => (s1, [.resumed f none])
  | some (ns, q) =>
    ({ s1 with waitq := upd s1.waitq q ((s1.waitq q).erase f), timed := upd s1.timed f none, sleep := cleanupBucket ns s1.sleep },
     [.resumed f (some ((s1.waitq q).contains f))])

/-- one iteration of `Scheduler::RunLoop`; `again` is the rest of the loop after `if (_queue.Empty()) continue;` -/
def dispatchBody (en : Engine E) (cfg : Cfg) (again : St E F Q → St E F Q × List (Out F)) (s : St E F Q) :
    St E F Q × List (Out F) :=
  if s.queue.isEmpty && s.sleep.isEmpty then ({ s with cur := none }, [.idle])
  else
    let w := wakeUp (advance s) s.sleep
    if (s.queue ++ w.1).isEmpty then
      -- `WakeUpNeeded` produced nothing runnable (only emptied buckets were due): `continue` — no tick, no draw
      again { s with time := advance s, sleep := w.2 }
    else
      let p := poll en cfg s.rc s.eng (s.queue ++ w.1)
      match p.2.2 with
      | none =>   -- a pick on a non-empty list is never null (`dispatch_no_ub`)
        ({ s with time := advance s, sleep := w.2, queue := s.queue ++ w.1, rc := p.1, eng := p.2.1, cur := none }, [.ub])
      | some (f, queue) =>
        resumeIn { s with time := Extracted.FiberSched.Scheduler.TickTime cfg.tick (advance s), sleep := w.2, queue := queue, rc := p.1, eng := p.2.1, cur := some f, waiting := upd s.waiting f false } f

/-- `RunLoop` until a fiber is resumed or the loop ends.  Every `continue` erases at least the first bucket of the
    sleep map (`AdvanceTime` made it due), so `length of the sleep map` iterations suffice (`dispatch_no_ub`: the
    fuel never runs out) -/
def dispatchLoop (en : Engine E) (cfg : Cfg) : Nat → St E F Q → St E F Q × List (Out F)
  | 0, s => dispatchBody en cfg (fun s' => ({ s' with cur := none }, [.ub])) s
  | fuel + 1, s => dispatchBody en cfg (dispatchLoop en cfg fuel) s

def dispatch (en : Engine E) (cfg : Cfg) (s : St E F Q) : St E F Q × List (Out F) :=
  dispatchLoop en cfg s.sleep.length s

/-- the current fiber gives up the processor after `prep` linked it somewhere; outside a fiber: undefined behaviour
    (`sCurrent == nullptr` is dereferenced: a client error, the only producer of `Out.ub`, see `ub_only_outside_fiber`),
    except for `yield`, which checks -/
def block (en : Engine E) (cfg : Cfg) (s : St E F Q) (prep : F → St E F Q) : St E F Q × List (Out F) :=
  match s.cur with
  | none => (s, [.ub])
  | some f => dispatch en cfg (prep f)

def step (en : Engine E) (cfg : Cfg) (s : St E F Q) : Req F Q → St E F Q × List (Out F)
  | .inject =>
    let r := Extracted.FiberSched.Injector.NeedInject en.draw s.rc s.eng s.count s.pause cfg.yieldFreq
    let s1 : St E F Q := { s with rc := r.1, eng := r.2.1, count := r.2.2.1 }
    if r.2.2.2 then
      match s1.cur with
      | none => (s1, [.flag true])            -- RescheduleCurrent outside a fiber returns at once
      | some f =>
        let d := dispatch en cfg { s1 with queue := s1.queue ++ [f] }
        (d.1, .flag true :: d.2)
    else (s1, [.flag false])
  | .failWeak =>
    let r := Extracted.FiberSched.ShouldFailAtomicWeak en.draw s.rc s.eng cfg.failFreq
    ({ s with rc := r.1, eng := r.2.1 }, [.flag r.2.2])
  | .yield =>
    match s.cur with
    | none => (s, [.unit])
    | some f => dispatch en cfg { s with queue := s.queue ++ [f] }
  | .spawn f =>
    match s.cur with
    | none => dispatch en cfg (schedule s f)  -- `_running == false`: Schedule enters RunLoop
    | some _ => (schedule s f, [.unit])
  | .sleepFor d =>
    if Extracted.FiberSched.Scheduler.Sleep.skip s.time (s.time + d) then (s, [.unit])
    else block en cfg s fun f => { s with sleep := sleepInsert (s.time + d) f s.sleep }
  | .park q => block en cfg s fun f => { s with waitq := upd s.waitq q (s.waitq q ++ [f]) }
  | .parkFor q d =>
    match s.cur with
    | none => (s, [.ub])
    | some f =>
      let r := Extracted.FiberSched.Scheduler.SleepPreemptive.deadline en.draw s.rc s.eng cfg.sleepTime (s.time + d)
      let ns := r.2.2
      let s1 : St E F Q := { s with rc := r.1, eng := r.2.1 }
      if Extracted.FiberSched.Scheduler.Sleep.skip s1.time ns then
        -- Sleep returned at once; the fiber was pushed to the wait queue and erases itself again: "timeout"
        ({ s1 with sleep := cleanupBucket ns s1.sleep }, [.flag true])
      else
        dispatch en cfg { s1 with waitq := upd s1.waitq q (s1.waitq q ++ [f]), timed := upd s1.timed f (some (ns, q)), sleep := sleepInsert ns f s1.sleep }
  | .notifyOne q =>
    if (s.waitq q).isEmpty then (s, [.unit])
    else
      let p := poll en cfg s.rc s.eng (s.waitq q)
      match p.2.2 with
      | none => ({ s with rc := p.1, eng := p.2.1 }, [.ub])
      | some (f, rest) =>
        (scheduleAndRemove { s with rc := p.1, eng := p.2.1, waitq := upd s.waitq q rest } f, [.unit])
  | .notifyAll q =>
    -- `all = move(_queue)`; `while (!all.Empty()) ScheduleAndRemove(all.PopBack())`: back to front
    ((s.waitq q).reverse.foldl scheduleAndRemove { s with waitq := upd s.waitq q [] }, [.unit])
  | .suspend => block en cfg s fun _ => s
  | .wake f => (schedule s f, [.unit])
  | .exit => block en cfg s fun _ => s

/-- a client program: its next call, from everything observed so far (`none`: it is done) -/
abbrev Client (F Q : Type) := List (Out F) → Option (Req F Q)

/-- run a client for at most `n` calls; returns the final state and the complete observation sequence (fiber switches,
    injected yields, spurious failures, timed-wait results — the request sequence is a function of it) -/
def run (en : Engine E) (cfg : Cfg) (client : Client F Q) : Nat → St E F Q → List (Out F) → St E F Q × List (Out F)
  | 0, s, obs => (s, obs)
  | n + 1, s, obs =>
    match client obs with
    | none => (s, obs)
    | some r => run en cfg client n (step en cfg s r).1 (obs ++ (step en cfg s r).2)

/-- `SetSeed(seed); SetInjectorState(c)` executed in state `s`: since /repo f49f13c `SetSeed` also resets the draw counter, so
    the counter and the engine afterwards do not depend on what they were — on how many numbers the process drew before -/
def reseed (en : Engine E) (s : St E F Q) (seed c : Nat) : St E F Q :=
  { s with rc := (Extracted.FiberSched.SetSeed en.seed seed).2.1, eng := (Extracted.FiberSched.SetSeed en.seed seed).2.2,
           count := Extracted.FiberSched.Injector.SetState s.count c }

/-- a fresh `fault::Scheduler` in a process whose earlier activity left the draw counter `rc`, the engine `e` and the
    injector counter `cnt` behind -/
def leftover (rc : Nat) (e : E) (cnt : Nat) : St E F Q :=
  { rc := rc, eng := e, count := cnt, pause := Extracted.FiberSched.default_Injector_pause,
    time := Extracted.FiberSched.default_Scheduler_time, queue := [], sleep := [], waitq := fun _ => [],
    waiting := fun _ => false, timed := fun _ => none, cur := none }

/-- the start of a run: a fresh scheduler after `SetSeed(seed); SetInjectorState(c0)` (= `reseed` of any `leftover`:
    `init_after_any_prefix`) -/
def init (en : Engine E) (seed c0 : Nat) : St E F Q :=
  leftover (Extracted.FiberSched.SetSeed en.seed seed).2.1 (Extracted.FiberSched.SetSeed en.seed seed).2.2 c0

inductive Reachable (en : Engine E) (cfg : Cfg) (seed c0 : Nat) : St E F Q → Prop where
  | init : Reachable en cfg seed c0 (init en seed c0)
  | step {s : St E F Q} (r : Req F Q) : Reachable en cfg seed c0 s → Reachable en cfg seed c0 (step en cfg s r).1

/-- only the running fiber exists: nothing runnable, sleeping, parked or in a timed wait -/
structure Lone (s : St E F Q) (f : F) : Prop where
  cur : s.cur = some f
  queue : s.queue = []
  sleep : s.sleep = []
  waitq : ∀ q, s.waitq q = []
  waiting : ∀ g, s.waiting g = false
  timed : ∀ g, s.timed g = none

/-- `SetSeed(seed); ForwardToFaultRandomCount(n); SetInjectorState(c)` executed in state `s` -/
def restore (en : Engine E) (s : St E F Q) (seed n c : Nat) : St E F Q :=
  let r := Extracted.FiberSched.SetSeed en.seed seed
  let g := Extracted.FiberSched.ForwardToRandCount en.draw r.2.1 r.2.2 n
  { s with rc := g.1, eng := g.2, count := Extracted.FiberSched.Injector.SetState s.count c }

/-- translate virtual time by `d` (and the draw counter, which is only ever incremented and reported, by `k`) -/
def shift (d k : Nat) (s : St E F Q) : St E F Q :=
  { s with time := s.time + d, rc := s.rc + k, sleep := s.sleep.map (fun kb => (kb.1 + d, kb.2)), timed := fun f => (s.timed f).map (fun nq => (nq.1 + d, nq.2)) }

end
end Yaclib.Sched
