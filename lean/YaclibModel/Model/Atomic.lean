/-
C19 — `yaclib_std::atomic<T>` computes what `std::atomic<T>` computes.

* `Spec`   : std::atomic as a state machine over an abstract carrier (`Ops α δ`), written from the
             C++ standard ([atomics.types.operations], [atomics.types.int], [atomics.types.pointer],
             [atomics.flag]): what each member stores and what it returns.
* `Fiber`  : the same operations computed by the *extracted* bodies of `yaclib::detail::fiber::Atomic*`
             (`Extracted/FiberAtomic.lean`, regenerated from the source on every run) composed with
             the hand-modelled wrapper `yaclib::detail::Atomic` (spurious-failure branch of
             `compare_exchange_weak`; its forwarding is tied by `wrapper_forwards`).
-/
import YaclibModel.Base.Ops
import YaclibModel.Extracted.FiberAtomic

namespace Yaclib.Atomic
open Yaclib

/-- one operation on an atomic object; `spurious` is the outcome of `ShouldFailAtomicWeak()` -/
inductive Op (α δ : Type) where
  | store (d : α) | load | exchange (d : α)
  | casStrong (e d : α) | casWeak (e d : α) (spurious : Bool)
  | fetchAdd (a : δ) | fetchSub (a : δ) | fetchAnd (a : δ) | fetchOr (a : δ) | fetchXor (a : δ)
  | preInc | postInc | preDec | postDec
  | addAssign (a : δ) | subAssign (a : δ) | andAssign (a : δ) | orAssign (a : δ) | xorAssign (a : δ)
  deriving Repr

/-- what the caller observes: nothing, a value, or (success flag, value left in `expected`) -/
inductive Out (α : Type) where
  | unit | val (x : α) | cas (ok : Bool) (expected : α)
  deriving Repr, DecidableEq

variable {α δ : Type} [Ops α δ] [DecidableEq α]

/-- std::atomic -/
def Spec.step (v : α) : Op α δ → α × Out α
  | .store d => (d, .unit)
  | .load => (v, .val v)
  | .exchange d => (d, .val v)
  | .casStrong e d => if v = e then (d, .cas true e) else (v, .cas false v)
  | .casWeak e d spurious =>
      if spurious then (v, .cas false v)            -- may fail spuriously: false, expected := current, no change
      else if v = e then (d, .cas true e) else (v, .cas false v)
  | .fetchAdd a => (Ops.add v a, .val v)
  | .fetchSub a => (Ops.sub v a, .val v)
  | .fetchAnd a => (Ops.and v a, .val v)
  | .fetchOr a => (Ops.or v a, .val v)
  | .fetchXor a => (Ops.xor v a, .val v)
  | .preInc => (Ops.add v (Ops.one α), .val (Ops.add v (Ops.one α)))      -- ++x returns the new value
  | .postInc => (Ops.add v (Ops.one α), .val v)                             -- x++ returns the old value
  | .preDec => (Ops.sub v (Ops.one α), .val (Ops.sub v (Ops.one α)))
  | .postDec => (Ops.sub v (Ops.one α), .val v)
  | .addAssign a => (Ops.add v a, .val (Ops.add v a))
  | .subAssign a => (Ops.sub v a, .val (Ops.sub v a))
  | .andAssign a => (Ops.and v a, .val (Ops.and v a))
  | .orAssign a => (Ops.or v a, .val (Ops.or v a))
  | .xorAssign a => (Ops.xor v a, .val (Ops.xor v a))

open Extracted.FiberAtomic in
/-- the FIBER backend: wrapper (`yaclib::detail::Atomic`) over the extracted fiber implementation;
    integral / floating instantiation (`AtomicIntegralBase<T,true>` over `AtomicFloatingBase<T,true>`) -/
def Fiber.step (v : α) : Op α δ → α × Out α
  | .store d => (AtomicBase.store v d, .unit)
  | .load => let (v', r) := AtomicBase.load v; (v', .val r)
  | .exchange d => let (v', r) := AtomicBase.exchange v d; (v', .val r)
  | .casStrong e d => let (v', e', ok) := AtomicBase.compare_exchange_strong_2ord v e d; (v', .cas ok e')
  | .casWeak e d spurious =>
      if spurious then
        let (v', r) := AtomicBase.load v          -- `expected = load(failure); return false;`
        (v', .cas false r)
      else let (v', e', ok) := AtomicBase.compare_exchange_weak_2ord v e d; (v', .cas ok e')
  | .fetchAdd a => let (v', r) := AtomicFloatingBase.fetch_add v a; (v', .val r)
  | .fetchSub a => let (v', r) := AtomicFloatingBase.fetch_sub v a; (v', .val r)
  | .fetchAnd a => let (v', r) := AtomicIntegralBase.fetch_and v a; (v', .val r)
  | .fetchOr a => let (v', r) := AtomicIntegralBase.fetch_or v a; (v', .val r)
  | .fetchXor a => let (v', r) := AtomicIntegralBase.fetch_xor v a; (v', .val r)
  | .preInc => let (v', r) := AtomicIntegralBase.pre_inc (α := α) v; (v', .val r)
  | .postInc => let (v', r) := AtomicIntegralBase.post_inc (α := α) v; (v', .val r)
  | .preDec => let (v', r) := AtomicIntegralBase.pre_dec (α := α) v; (v', .val r)
  | .postDec => let (v', r) := AtomicIntegralBase.post_dec (α := α) v; (v', .val r)
  | .addAssign a => let (v', r) := AtomicFloatingBase.add_assign v a; (v', .val r)
  | .subAssign a => let (v', r) := AtomicFloatingBase.sub_assign v a; (v', .val r)
  | .andAssign a => let (v', r) := AtomicIntegralBase.and_assign v a; (v', .val r)
  | .orAssign a => let (v', r) := AtomicIntegralBase.or_assign v a; (v', .val r)
  | .xorAssign a => let (v', r) := AtomicIntegralBase.xor_assign v a; (v', .val r)

open Extracted.FiberAtomic in
/-- the pointer specialisation `Atomic<U*>`: arithmetic members come from `AtomicPtr.*`;
    the bit operations do not exist for pointers and are mapped to the spec (never generated) -/
def FiberPtr.step (v : α) : Op α δ → α × Out α
  | .fetchAdd a => let (v', r) := AtomicPtr.fetch_add v a; (v', .val r)
  | .fetchSub a => let (v', r) := AtomicPtr.fetch_sub v a; (v', .val r)
  | .preInc => let (v', r) := AtomicPtr.pre_inc (α := α) v; (v', .val r)
  | .postInc => let (v', r) := AtomicPtr.post_inc (α := α) v; (v', .val r)
  | .preDec => let (v', r) := AtomicPtr.pre_dec (α := α) v; (v', .val r)
  | .postDec => let (v', r) := AtomicPtr.post_dec (α := α) v; (v', .val r)
  | .addAssign a => let (v', r) := AtomicPtr.add_assign v a; (v', .val r)
  | .subAssign a => let (v', r) := AtomicPtr.sub_assign v a; (v', .val r)
  | .fetchAnd a => Spec.step v (.fetchAnd a)
  | .fetchOr a => Spec.step v (.fetchOr a)
  | .fetchXor a => Spec.step v (.fetchXor a)
  | .andAssign a => Spec.step v (.andAssign a)
  | .orAssign a => Spec.step v (.orAssign a)
  | .xorAssign a => Spec.step v (.xorAssign a)
  | .store d => Fiber.step v (.store d)
  | .load => Fiber.step v .load
  | .exchange d => Fiber.step v (.exchange d)
  | .casStrong e d => Fiber.step v (.casStrong e d)
  | .casWeak e d s => Fiber.step v (.casWeak e d s)

/-- run an operation sequence, collecting what the caller observed -/
def run (step : α → Op α δ → α × Out α) (v : α) : List (Op α δ) → α × List (Out α)
  | [] => (v, [])
  | op :: ops =>
      let (v', o) := step v op
      let (v'', os) := run step v' ops
      (v'', o :: os)

/-! ### atomic_flag -/
inductive FlagOp where | clear | testAndSet deriving Repr, DecidableEq

def Spec.flagStep (v : Bool) : FlagOp → Bool × Out Bool
  | .clear => (false, .unit)
  | .testAndSet => (true, .val v)

open Extracted.FiberAtomic.Flag in
def Fiber.flagStep (v : Bool) : FlagOp → Bool × Out Bool
  | .clear => (AtomicFlag.clear v, .unit)
  | .testAndSet => let (v', r) := AtomicFlag.test_and_set v; (v', .val r)

/-! ### the wrapper's forwarding shape (tie for `yaclib::detail::Atomic` / `AtomicFlag`) -/

/-- The acceptable normalised bodies of a wrapper method `name params`: bracket exactly one call of
the same-named operation of `Impl` with the same arguments between two injection points and return
its result. `compare_exchange_weak` may first take the spurious-failure exit; `++`/`--` forward to
the same operator of `Impl`; the conversion operator is `load()`. -/
def forwardShapes (name params last : String) : List String :=
  let call := name ++ params
  let bracket (c : String) := "{ InjectFault(); var r = " ++ c ++ "; InjectFault(); return r }"
  if name = "store" ∨ name = "clear" then ["{ InjectFault(); " ++ call ++ "; InjectFault() }"]
  else if name = "compare_exchange_weak" then
    ["{ if (ShouldFailAtomicWeak()) { (expected = load(" ++ last ++ ")); return false }; InjectFault(); var r = "
      ++ call ++ "; InjectFault(); return r }"]
  else if name = "operator++" then
    [bracket (if params = "()" then "(++cast((*this)))" else "(cast((*this))++)")]
  else if name = "operator--" then
    [bracket (if params = "()" then "(--cast((*this)))" else "(cast((*this))--)")]
  else if name = "operator T" then ["{ return load() }"]
  else [bracket call]

def wellForwarded (e : String × String × String × String × String) : Bool :=
  (forwardShapes e.2.1 e.2.2.1 e.2.2.2.1).contains e.2.2.2.2

end Yaclib.Atomic
