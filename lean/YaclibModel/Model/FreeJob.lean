/- Free jobs (C05): the free function `yaclib::Submit(executor, f)` of exe/submit.hpp.

     Submit(executor, f)   = job := MakeUniqueJob(f)   -- ONE allocation: the UniqueJob that stores f (exe/detail/unique_job.hpp)
                             executor.Submit(*job)      -- the executor's decision: Call now / Drop now / keep for later
     UniqueJob::Call()     = f() ; Drop()
     UniqueJob::Drop()     = delete this                -- destroys f with it

   No pipeline is involved: the job is neither a core nor a continuation.  The executors are those of Model/Pipeline.lean
   (`Pipeline.submit`: MakeInline() calls inside Submit, MakeInline(StopTag) drops inside Submit, a user executor accepts its
   first `limit` Submits and then queues or calls in place, and answers every later Submit with Drop).

   A functor OWNS state (a number); a job is identified by the state its functor had when it was submitted.  The client may
   keep NAMED functors (`fns`), submit them as lvalues (the job gets a copy), change or destroy them afterwards: none of this
   reaches a job that was submitted before.
   The ghost lists `submitted`, `called`, `dropped` record what happened to every functor (by its number); `queue` are the
   UniqueJobs lying in user queue executors.  Props/C05.lean proves: every submitted job is in exactly one of the three places,
   it is dropped iff its executor refused it, nothing is called by a stopped executor, and every UniqueJob is deleted exactly
   once when it is finished. -/
import YaclibModel.Model.Pipeline

namespace Yaclib.FreeJob
open Yaclib.Pipeline

/-- a UniqueJob lying in the queue of user executor `k`; `jid` = position of its Submit among all Submits to user executors -/
structure QJob where
  jid : Nat
  k : Nat
  id : Nat
deriving DecidableEq, Repr

structure FState where
  g : G := {}                      -- subs / jobs / invoked / ran as in the pipeline model
  queue : List QJob := []          -- FIFO
  fns : List (Nat × Nat) := []     -- the CLIENT's named functors: name ↦ the state (tag) it currently owns
  submitted : List Nat := []       -- ghost: functor states handed to Submit(e, f), in order
  called : List Nat := []          -- ghost: functors that were invoked (UniqueJob::Call), by the state they ran with
  dropped : List Nat := []         -- ghost: functors that were destroyed without being invoked (UniqueJob::Drop)
  refused : List Nat := []         -- ghost: functors whose executor refused the Submit (stopped)
  news : Nat := 0                  -- UniqueJobs allocated (MakeUniqueJob)
  deletes : Nat := 0               -- UniqueJobs deleted (`delete this`)
deriving Repr

/-- how the body of a functor ends.  `SafeCall::Call` is `try { f() } catch (...) {}` (or a plain call when f is nothrow
    invocable): whatever the body does, UniqueJob::Call goes on to `Drop()`, the job counts as Called and the executor is
    not disturbed — `fmech` does not look at the outcome (`free_job_body_outcome_irrelevant`) -/
inductive Outcome | ret | throwStd | throwInt | throwUser
deriving DecidableEq, Repr

inductive FEvent
  | submit (e : Exec) (id : Nat) (o : Outcome)   -- yaclib::Submit(e, F{id}): an rvalue functor owning state `id`
  | mk (n : Nat) (tag : Nat) (o : Outcome)        -- the client creates the named functor f_n owning state `tag`
  | submitL (e : Exec) (n : Nat)                  -- yaclib::Submit(e, f_n): an LVALUE — the job gets a COPY of f_n
  | change (n : Nat) (tag : Nat)                   -- the client changes the state of f_n
  | kill (n : Nat)                                -- the client destroys f_n
  | call (k : Nat)                                -- the client lets user queue executor k run its oldest job
deriving DecidableEq, Repr

/-- does executor `e` refuse the next Submit?  (IExecutor contract: Drop only when not Alive) -/
def refuses (cfg : Cfg) (e : Exec) (subs : List Nat) : Bool :=
  match e with
  | .inl => false
  | .stp => true
  | .user k => rejects cfg subs k

/-- `Submit(e, f)` for a functor whose state is `id` AT THIS MOMENT: MakeUniqueJob constructs the job's own functor from
    `std::forward<Func>(f)` — moved from an rvalue, COPIED from an lvalue — so the job carries `id` from here on -/
def submitId (cfg : Cfg) (s : FState) (e : Exec) (id : Nat) : FState :=
  let s := { s with submitted := s.submitted ++ [id], news := s.news + 1,
                    refused := if refuses cfg e s.g.subs then s.refused ++ [id] else s.refused }
  match submit cfg e none s.g with
  | .callNow ctx g =>     -- UniqueJob::Call inside Submit: f(), then Drop() = delete this
    { s with g := g.invoke id ctx (some e), called := s.called ++ [id], deletes := s.deletes + 1 }
  | .dropNow _ g =>       -- UniqueJob::Drop inside Submit: delete this
    { s with g := g, dropped := s.dropped ++ [id], deletes := s.deletes + 1 }
  | .queued jid k g => { s with g := g, queue := s.queue ++ [⟨jid, k, id⟩] }

def fmech (cfg : Cfg) (s : FState) : FEvent → FState
  | .submit e id _ => submitId cfg s e id
  | .mk n tag _ => { s with fns := (n, tag) :: s.fns.filter (fun x => x.1 != n) }
  | .submitL e n =>
    (match s.fns.lookup n with
     | some tag => submitId cfg s e tag      -- the caller's f_n is left as it is (`s.fns` unchanged)
     | none => s)
  | .change n tag => { s with fns := s.fns.map fun x => if x.1 == n then (n, tag) else x }
  | .kill n => { s with fns := s.fns.filter (fun x => x.1 != n) }
  | .call k =>
    (match s.queue.find? (fun j => j.k == k) with
     | none => s
     | some j =>
       { s with queue := s.queue.erase j,
                g := (s.g.finishJob j.jid true).invoke j.id (some k) (some (.user k)),
                called := s.called ++ [j.id], deletes := s.deletes + 1 })

def frun (cfg : Cfg) (s : FState) (evs : List FEvent) : FState := evs.foldl (fmech cfg) s

end Yaclib.FreeJob
