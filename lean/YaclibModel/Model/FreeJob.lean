/- Free jobs (C05): the free function `yaclib::Submit(executor, f)` of exe/submit.hpp.

     Submit(executor, f)   = job := MakeUniqueJob(f)   -- ONE allocation: the UniqueJob that stores f (exe/detail/unique_job.hpp)
                             executor.Submit(*job)      -- the executor's decision: Call now / Drop now / keep for later
     UniqueJob::Call()     = f() ; Drop()
     UniqueJob::Drop()     = delete this                -- destroys f with it

   No pipeline is involved: the job is neither a core nor a continuation.  The executors are those of Model/Pipeline.lean
   (`Pipeline.submit`: MakeInline() calls inside Submit, MakeInline(StopTag) drops inside Submit, a user executor accepts its
   first `limit` Submits and then queues or calls in place, and answers every later Submit with Drop).

   The ghost lists `submitted`, `called`, `dropped` record what happened to every functor (by its number); `queue` are the
   UniqueJobs lying in user queue executors.  Props/C05.lean proves: every submitted job is in exactly one of the three places,
   it is dropped iff its executor refused it, nothing is called by a stopped executor, and every UniqueJob is deleted exactly
   once when it is finished. -/
import YaclibModel.Model.Pipeline

namespace Yaclib.FreeJob
open Yaclib.Pipeline

/-- a UniqueJob lying in the queue of user executor `k`; `jid` = position of its Submit among all Submits to user executors -/
structure QJob where
  jid : Nat
  k : Nat
  id : Nat
deriving DecidableEq, Repr

structure FState where
  g : G := {}                      -- subs / jobs / invoked / ran as in the pipeline model
  queue : List QJob := []          -- FIFO
  submitted : List Nat := []       -- ghost: functor numbers handed to Submit(e, f), in order
  called : List Nat := []          -- ghost: functors that were invoked (UniqueJob::Call)
  dropped : List Nat := []         -- ghost: functors that were destroyed without being invoked (UniqueJob::Drop)
  refused : List Nat := []         -- ghost: functors whose executor refused the Submit (stopped)
  news : Nat := 0                  -- UniqueJobs allocated (MakeUniqueJob)
  deletes : Nat := 0               -- UniqueJobs deleted (`delete this`)
deriving Repr

inductive FEvent
  | submit (e : Exec) (id : Nat)   -- the client calls yaclib::Submit(e, f_id)
  | call (k : Nat)                 -- the client lets user queue executor k run its oldest job
deriving DecidableEq, Repr

/-- does executor `e` refuse the next Submit?  (IExecutor contract: Drop only when not Alive) -/
def refuses (cfg : Cfg) (e : Exec) (subs : List Nat) : Bool :=
  match e with
  | .inl => false
  | .stp => true
  | .user k => rejects cfg subs k

def fmech (cfg : Cfg) (s : FState) : FEvent → FState
  | .submit e id =>
    let s := { s with submitted := s.submitted ++ [id], news := s.news + 1,
                      refused := if refuses cfg e s.g.subs then s.refused ++ [id] else s.refused }
    (match submit cfg e none s.g with
     | .callNow ctx g =>     -- UniqueJob::Call inside Submit: f(), then Drop() = delete this
       { s with g := g.invoke id ctx (some e), called := s.called ++ [id], deletes := s.deletes + 1 }
     | .dropNow _ g =>       -- UniqueJob::Drop inside Submit: delete this
       { s with g := g, dropped := s.dropped ++ [id], deletes := s.deletes + 1 }
     | .queued jid k g => { s with g := g, queue := s.queue ++ [⟨jid, k, id⟩] })
  | .call k =>
    (match s.queue.find? (fun j => j.k == k) with
     | none => s
     | some j =>
       { s with queue := s.queue.erase j,
                g := (s.g.finishJob j.jid true).invoke j.id (some k) (some (.user k)),
                called := s.called ++ [j.id], deletes := s.deletes + 1 })

def frun (cfg : Cfg) (s : FState) (evs : List FEvent) : FState := evs.foldl (fmech cfg) s

end Yaclib.FreeJob
