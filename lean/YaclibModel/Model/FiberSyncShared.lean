/-
C18 — model `Sm` of `fiber::SharedMutex` / `fiber::SharedTimedMutex`.

Written from /repo: src/fault/fiber/shared_mutex.cpp, include/yaclib/fault/detail/fiber/shared_timed_mutex.hpp
(scheduler abstraction and conventions as in Model/FiberSync.lean).

History: until the fix commits 37d0a59 (SharedTimedMutex) and 5d29c51 (SharedMutex) the code had
  D5  `SharedTimedMutex::TimedWaitHelper(timeout, exclusive)` ended in `SharedLockHelper()` also for `exclusive == true`: an
      exclusive `try_lock_for` registered as a shared owner — scenario `sharedt f0=LS,US f1=F50,U f2=TS,US`, choices
      `k0/3 p0/2 p0/2 k0/3 p1/2 k0/2 p0/2 p0/2 k0/2` (writer + reader); sequential aftermath `sharedt f0=F50,U f1=LS,US f2=L,U`,
      choices `k0/3 p0/2 p0/2 k0/3 p0/2 p0/2 k0/2` (the lock stays `_occupied` with no holder);
  D6  `lock()`, `lock_shared()` and `TimedWaitHelper` took the lock after a wake-up without re-checking (single `if`) —
      scenario `shared f0=LS,US f1=L,U f2=LS,US`, choices `k0/3 p1/2 k0/2 k1/2 p0/2 k0/3 p1/2 k0/2 k0/2` (writer next to reader);
  D7  `lock_shared()` parked on `_exclusive_queue`; `unlock()` woke the whole `_shared_queue` or ONE fiber of
      `_exclusive_queue`, by `GetRandNumber(2)` when both were non-empty — scenario `shared f0=L,U f1=LS,J2,US f2=LS,US`,
      choices `k0/3 p1/2 k0/2 k0/2 k0/2 p0/2 k0/2 p0/2` (a reader parked while only a reader holds),
and this model contained them (see git history and notes/C18.md).  It now describes the repaired code: every wait sits in
a `while` that re-evaluates its condition (timed ones with the deadline computed once at the call), `lock_shared()` waits
on `_shared_queue`, `TimedWaitHelper` ends in `LockHelper()` for an exclusive request, and `unlock()` is
`_occupied = false; _shared_queue.NotifyAll(); _exclusive_queue.NotifyOne();` (no random draw any more).
-/
import YaclibModel.Model.FiberSync

namespace Yaclib.FiberSync.Sm
open Yaclib.FiberSync

inductive Pc where
  | idle | done
  | xParked                                  -- `lock()` on `_exclusive_queue`
  | sParked                                  -- `lock_shared()` on `_shared_queue`
  | txParked (req dl : Nat)                  -- `try_lock_for/until` on `_exclusive_queue`
  | tsParked (req dl : Nat)                  -- `try_lock_shared_for/until` on `_shared_queue`
  | xLocking | sLocking                      -- notified: evaluates the `while` condition again
  | txLocking (req : Nat) | tsLocking (req : Nat)
  | sleeping (dl : Nat)
  deriving DecidableEq, Repr

/-- about to re-evaluate the condition of an exclusive / shared request -/
def Pc.recheckX : Pc → Bool
  | .xLocking => true | .txLocking _ => true | _ => false
def Pc.recheckS : Pc → Bool
  | .sLocking => true | .tsLocking _ => true | _ => false

/-- the queues: writers on the exclusive one, readers on the shared one -/
def Pc.onE : Pc → Bool
  | .xParked => true | .txParked _ _ => true | _ => false
def Pc.onS : Pc → Bool
  | .sParked => true | .tsParked _ _ => true | _ => false

def wake : Pc → Pc
  | .xParked => .xLocking
  | .sParked => .sLocking
  | .txParked req _ => .txLocking req
  | .tsParked req _ => .tsLocking req
  | p => p

structure State where
  timed : Bool
  pc : Fid → Pc
  occ : Bool                   -- `_occupied`
  excl : Bool                  -- `_exclusive_mode`
  cnt : Nat                    -- `_shared_owners_count`
  sq : List Fid                -- `_shared_queue`
  eq : List Fid                -- `_exclusive_queue`
  now : Nat
  -- ghost
  xh : List Fid                -- fibers whose last exclusive acquisition succeeded and that have not called `unlock`
  sh : List Fid                -- same for shared / `unlock_shared`
  transit : List Fid           -- fibers made runnable by a NotifyOne on the exclusive queue that have not run yet

def init (timed : Bool) (n : Nat) : State :=
  { timed := timed, pc := fun g => if g < n then .idle else .done, occ := false, excl := false, cnt := 0,
    sq := [], eq := [], now := 0, xh := [], sh := [], transit := [] }

/-- `_occupied && _exclusive_mode`: what makes `lock_shared` / `try_lock_shared` wait or fail -/
def XHeld (s : State) : Prop := s.occ = true ∧ s.excl = true

instance (s : State) : Decidable (XHeld s) := by unfold XHeld; exact inferInstance

inductive Label where
  | xAcq (f : Fid)                                  -- `f E ret lock`
  | xPark (f : Fid)                                 -- `f M eq park 0` inside `lock`
  | tryX (f : Fid) (ok : Bool)                      -- `f E ret try_lock b`
  | unlock (f : Fid) (w : Option Fid)               -- `f M sq notify_all r`, `f M eq notify_one r idx`, `f E ret unlock`
  | sAcq (f : Fid)                                  -- `f E ret lock_shared`
  | sPark (f : Fid)                                 -- `f M sq park 0` inside `lock_shared`
  | tryS (f : Fid) (ok : Bool)                      -- `f E ret try_lock_shared b`
  | unlockS (f : Fid) (w : Option Fid)              -- `f E ret unlock_shared`
  | txAcq (f : Fid)                                 -- `f E ret try_lock_for 1`
  | txPark (f : Fid) (t d j : Nat)                  -- `f M eq park_timed 0 @t j=j`
  | txTimeout (f : Fid) (t : Nat)                   -- `f M eq wake 1 @t`
  | tsAcq (f : Fid)                                 -- `f E ret try_lock_shared_for 1`
  | tsPark (f : Fid) (t d j : Nat)                  -- `f M sq park_timed 0 @t j=j`
  | tsTimeout (f : Fid) (t : Nat)                   -- `f M sq wake 1 @t`
  | txRepark (f : Fid) (j : Nat) | tsRepark (f : Fid) (j : Nat)   -- `park_timed` again after a wake-up
  | sleepStart (f : Fid) (t d : Nat) | sleepWake (f : Fid) (t : Nat)
  | finish (f : Fid)
  deriving DecidableEq, Repr

/-- `LockHelper()`: `_occupied = true; _exclusive_mode = true` -/
def lockHelper (s : State) (f : Fid) : State :=
  { s with occ := true, excl := true, xh := s.xh ++ [f], pc := upd s.pc f .idle, transit := rm s.transit f }

/-- `SharedLockHelper()`: `_occupied = true; _exclusive_mode = false; _shared_owners_count++` by a shared request -/
def sharedHelper (s : State) (f : Fid) : State :=
  { s with occ := true, excl := false, cnt := s.cnt + 1, sh := s.sh ++ [f], pc := upd s.pc f .idle,
           transit := rm s.transit f }

def notifyE (s : State) : Option Fid → State
  | none => s
  | some g => { s with eq := rm s.eq g, pc := upd s.pc g (wake (s.pc g)), transit := s.transit ++ [g] }

/-- `if (b) _shared_queue.NotifyAll()` -/
def notifyAllS (b : Bool) (s : State) : State :=
  { s with sq := if b then [] else s.sq, pc := fun g => if b = true ∧ g ∈ s.sq then wake (s.pc g) else s.pc g }

/-- `unlock_shared()`: `_shared_owners_count--; if (_shared_owners_count == 0) { _occupied = false; _exclusive_queue.NotifyOne(); }`
    (`w = none` when the count stays positive, see `UnlockSPick`) -/
def doUnlockS (s : State) (f : Fid) (w : Option Fid) : State :=
  notifyE { s with cnt := s.cnt - 1, sh := s.sh.erase f, occ := if s.cnt - 1 = 0 then false else s.occ } w

def UnlockSPick (s : State) (w : Option Fid) : Prop :=
  if s.cnt - 1 = 0 then PickOk s.eq w else w = none

instance (s : State) (w : Option Fid) : Decidable (UnlockSPick s w) := by unfold UnlockSPick; exact inferInstance

def parkE (s : State) (f : Fid) (p : Pc) : State :=
  { s with eq := s.eq ++ [f], pc := upd s.pc f p, transit := rm s.transit f }
def parkS (s : State) (f : Fid) (p : Pc) : State :=
  { s with sq := s.sq ++ [f], pc := upd s.pc f p, transit := rm s.transit f }

/-- `unlock()`: `_occupied = false; _shared_queue.NotifyAll(); _exclusive_queue.NotifyOne();` -/
def doUnlock (s : State) (f : Fid) (w : Option Fid) : State :=
  notifyE (notifyAllS true { s with occ := false, xh := s.xh.erase f }) w

inductive Step : State → Label → State → Prop where
  -- lock(): `if (_occupied) { _exclusive_queue.Wait(); } LockHelper();`
  | xFast (s : State) (f : Fid) (h : s.pc f = .idle) (ho : s.occ = false) : Step s (.xAcq f) (lockHelper s f)
  | xPark (s : State) (f : Fid) (h : s.pc f = .idle) (ho : s.occ = true) : Step s (.xPark f) (parkE s f .xParked)
  | tryXOk (s : State) (f : Fid) (h : s.pc f = .idle) (ho : s.occ = false) : Step s (.tryX f true) (lockHelper s f)
  | tryXFail (s : State) (f : Fid) (h : s.pc f = .idle) (ho : s.occ = true) : Step s (.tryX f false) s
  | unlock (s : State) (f : Fid) (w : Option Fid) (h : s.pc f = .idle) (hh : f ∈ s.xh) (hw : PickOk s.eq w) :
      Step s (.unlock f w) (doUnlock s f w)
  | xRecheckAcq (s : State) (f : Fid) (h : s.pc f = .xLocking) (ho : s.occ = false) : Step s (.xAcq f) (lockHelper s f)
  | xRepark (s : State) (f : Fid) (h : s.pc f = .xLocking) (ho : s.occ = true) : Step s (.xPark f) (parkE s f .xParked)
  -- lock_shared(): `if (_occupied && _exclusive_mode) { _exclusive_queue.Wait(); } SharedLockHelper();`
  | sFast (s : State) (f : Fid) (h : s.pc f = .idle) (hx : ¬ XHeld s) : Step s (.sAcq f) (sharedHelper s f)
  | sPark (s : State) (f : Fid) (h : s.pc f = .idle) (hx : XHeld s) : Step s (.sPark f) (parkS s f .sParked)
  | sRecheckAcq (s : State) (f : Fid) (h : s.pc f = .sLocking) (hx : ¬ XHeld s) : Step s (.sAcq f) (sharedHelper s f)
  | sRepark (s : State) (f : Fid) (h : s.pc f = .sLocking) (hx : XHeld s) : Step s (.sPark f) (parkS s f .sParked)
  | trySOk (s : State) (f : Fid) (h : s.pc f = .idle) (hx : ¬ XHeld s) : Step s (.tryS f true) (sharedHelper s f)
  | trySFail (s : State) (f : Fid) (h : s.pc f = .idle) (hx : XHeld s) : Step s (.tryS f false) s
  | unlockS (s : State) (f : Fid) (w : Option Fid) (h : s.pc f = .idle) (hh : f ∈ s.sh) (hw : UnlockSPick s w) :
      Step s (.unlockS f w) (doUnlockS s f w)
  -- TimedWaitHelper(timeout, exclusive = true)
  | txFast (s : State) (f : Fid) (hk : s.timed = true) (h : s.pc f = .idle) (ho : s.occ = false) :
      Step s (.txAcq f) (lockHelper s f)
  | txRecheckAcq (s : State) (f : Fid) (req : Nat) (hk : s.timed = true) (h : s.pc f = .txLocking req) (ho : s.occ = false) :
      Step s (.txAcq f) (lockHelper s f)
  | txRepark (s : State) (f : Fid) (req j : Nat) (hk : s.timed = true) (h : s.pc f = .txLocking req) (ho : s.occ = true) :
      Step s (.txRepark f j) (parkE s f (.txParked req (req + j)))
  | tsRecheckAcq (s : State) (f : Fid) (req : Nat) (hk : s.timed = true) (h : s.pc f = .tsLocking req) (hx : ¬ XHeld s) :
      Step s (.tsAcq f) (sharedHelper s f)
  | tsRepark (s : State) (f : Fid) (req j : Nat) (hk : s.timed = true) (h : s.pc f = .tsLocking req) (hx : XHeld s) :
      Step s (.tsRepark f j) (parkS s f (.tsParked req (req + j)))
  | txPark (s : State) (f : Fid) (t d j : Nat) (hk : s.timed = true) (h : s.pc f = .idle) (ho : s.occ = true)
      (ht : s.now ≤ t) : Step s (.txPark f t d j) { parkE s f (.txParked (t + d) (t + d + j)) with now := t }
  | txTimeout (s : State) (f : Fid) (t req dl : Nat) (hk : s.timed = true) (h : s.pc f = .txParked req dl)
      (hd : dl ≤ t) (ht : s.now ≤ t) :
      Step s (.txTimeout f t) { s with eq := rm s.eq f, pc := upd s.pc f .idle, now := t }
  -- TimedWaitHelper(timeout, exclusive = false)
  | tsFast (s : State) (f : Fid) (hk : s.timed = true) (h : s.pc f = .idle) (hx : ¬ XHeld s) :
      Step s (.tsAcq f) (sharedHelper s f)
  | tsPark (s : State) (f : Fid) (t d j : Nat) (hk : s.timed = true) (h : s.pc f = .idle) (hx : XHeld s)
      (ht : s.now ≤ t) : Step s (.tsPark f t d j) { parkS s f (.tsParked (t + d) (t + d + j)) with now := t }
  | tsTimeout (s : State) (f : Fid) (t req dl : Nat) (hk : s.timed = true) (h : s.pc f = .tsParked req dl)
      (hd : dl ≤ t) (ht : s.now ≤ t) :
      Step s (.tsTimeout f t) { s with sq := rm s.sq f, pc := upd s.pc f .idle, now := t }
  | sleepStart (s : State) (f : Fid) (t d : Nat) (h : s.pc f = .idle) (ht : s.now ≤ t) :
      Step s (.sleepStart f t d) { s with pc := upd s.pc f (.sleeping (t + d)), now := t }
  | sleepWake (s : State) (f : Fid) (t dl : Nat) (h : s.pc f = .sleeping dl) (hd : dl ≤ t) (ht : s.now ≤ t) :
      Step s (.sleepWake f t) { s with pc := upd s.pc f .idle, now := t }
  | finish (s : State) (f : Fid) (h : s.pc f = .idle) : Step s (.finish f) { s with pc := upd s.pc f .done }

inductive Reachable (timed : Bool) (n : Nat) : State → Prop where
  | init : Reachable timed n (init timed n)
  | step {s l s'} : Reachable timed n s → Step s l s' → Reachable timed n s'

def Quiescent (s : State) : Prop := ∀ l s', ¬ Step s l s'

def next (s : State) : Label → Option State
  | .xAcq f =>
      match s.pc f with
      | .idle => if s.occ = false then some (lockHelper s f) else none
      | .xLocking => if s.occ = false then some (lockHelper s f) else none
      | _ => none
  | .xPark f =>
      match s.pc f with
      | .idle => if s.occ = true then some (parkE s f .xParked) else none
      | .xLocking => if s.occ = true then some (parkE s f .xParked) else none
      | _ => none
  | .tryX f ok =>
      if s.pc f = .idle then
        if ok then (if s.occ = false then some (lockHelper s f) else none)
        else (if s.occ = true then some s else none)
      else none
  | .unlock f w => if s.pc f = .idle ∧ f ∈ s.xh ∧ PickOk s.eq w then some (doUnlock s f w) else none
  | .sAcq f =>
      match s.pc f with
      | .idle => if ¬ XHeld s then some (sharedHelper s f) else none
      | .sLocking => if ¬ XHeld s then some (sharedHelper s f) else none
      | _ => none
  | .sPark f =>
      match s.pc f with
      | .idle => if XHeld s then some (parkS s f .sParked) else none
      | .sLocking => if XHeld s then some (parkS s f .sParked) else none
      | _ => none
  | .tryS f ok =>
      if s.pc f = .idle then
        if ok then (if ¬ XHeld s then some (sharedHelper s f) else none)
        else (if XHeld s then some s else none)
      else none
  | .unlockS f w => if s.pc f = .idle ∧ f ∈ s.sh ∧ UnlockSPick s w then some (doUnlockS s f w) else none
  | .txAcq f =>
      if s.timed = true then
        match s.pc f with
        | .idle => if s.occ = false then some (lockHelper s f) else none
        | .txLocking _ => if s.occ = false then some (lockHelper s f) else none
        | _ => none
      else none
  | .txRepark f j =>
      if s.timed = true then
        match s.pc f with
        | .txLocking req => if s.occ = true then some (parkE s f (.txParked req (req + j))) else none
        | _ => none
      else none
  | .tsRepark f j =>
      if s.timed = true then
        match s.pc f with
        | .tsLocking req => if XHeld s then some (parkS s f (.tsParked req (req + j))) else none
        | _ => none
      else none
  | .txPark f t d j =>
      if s.timed = true ∧ s.pc f = .idle ∧ s.occ = true ∧ s.now ≤ t
      then some { parkE s f (.txParked (t + d) (t + d + j)) with now := t } else none
  | .txTimeout f t =>
      if s.timed = true then
        match s.pc f with
        | .txParked _ dl =>
            if dl ≤ t ∧ s.now ≤ t then some { s with eq := rm s.eq f, pc := upd s.pc f .idle, now := t } else none
        | _ => none
      else none
  | .tsAcq f =>
      if s.timed = true then
        match s.pc f with
        | .idle => if ¬ XHeld s then some (sharedHelper s f) else none
        | .tsLocking _ => if ¬ XHeld s then some (sharedHelper s f) else none
        | _ => none
      else none
  | .tsPark f t d j =>
      if s.timed = true ∧ s.pc f = .idle ∧ XHeld s ∧ s.now ≤ t
      then some { parkS s f (.tsParked (t + d) (t + d + j)) with now := t } else none
  | .tsTimeout f t =>
      if s.timed = true then
        match s.pc f with
        | .tsParked _ dl =>
            if dl ≤ t ∧ s.now ≤ t then some { s with sq := rm s.sq f, pc := upd s.pc f .idle, now := t } else none
        | _ => none
      else none
  | .sleepStart f t d =>
      if s.pc f = .idle ∧ s.now ≤ t then some { s with pc := upd s.pc f (.sleeping (t + d)), now := t } else none
  | .sleepWake f t =>
      match s.pc f with
      | .sleeping dl => if dl ≤ t ∧ s.now ≤ t then some { s with pc := upd s.pc f .idle, now := t } else none
      | _ => none
  | .finish f => if s.pc f = .idle then some { s with pc := upd s.pc f .done } else none

theorem next_sound {s : State} {l : Label} {s' : State} (h : next s l = some s') : Step s l s' := by
  cases l with
  | xAcq f =>
      simp only [next] at h; split at h
      · rename_i hp; split at h
        · rename_i ho; cases h; exact .xFast s f hp ho
        · cases h
      · rename_i hp; split at h
        · rename_i ho; cases h; exact .xRecheckAcq s f hp ho
        · cases h
      · cases h
  | xPark f =>
      simp only [next] at h; split at h
      · rename_i hp; split at h
        · rename_i ho; cases h; exact .xPark s f hp ho
        · cases h
      · rename_i hp; split at h
        · rename_i ho; cases h; exact .xRepark s f hp ho
        · cases h
      · cases h
  | tryX f ok =>
      simp only [next] at h; split at h
      · rename_i hp; cases ok
        · simp only [Bool.false_eq_true, if_false] at h; split at h
          · rename_i ho; cases h; exact .tryXFail s f hp ho
          · cases h
        · simp only [if_true] at h; split at h
          · rename_i ho; cases h; exact .tryXOk s f hp ho
          · cases h
      · cases h
  | unlock f w =>
      simp only [next] at h; split at h
      · rename_i hg; cases h; exact .unlock s f w hg.1 hg.2.1 hg.2.2
      · cases h
  | sAcq f =>
      simp only [next] at h; split at h
      · rename_i hp; split at h
        · rename_i hx; cases h; exact .sFast s f hp hx
        · cases h
      · rename_i hp; split at h
        · rename_i hx; cases h; exact .sRecheckAcq s f hp hx
        · cases h
      · cases h
  | sPark f =>
      simp only [next] at h; split at h
      · rename_i hp; split at h
        · rename_i hx; cases h; exact .sPark s f hp hx
        · cases h
      · rename_i hp; split at h
        · rename_i hx; cases h; exact .sRepark s f hp hx
        · cases h
      · cases h
  | tryS f ok =>
      simp only [next] at h; split at h
      · rename_i hp; cases ok
        · simp only [Bool.false_eq_true, if_false] at h; split at h
          · rename_i hx; cases h; exact .trySFail s f hp hx
          · cases h
        · simp only [if_true] at h; split at h
          · rename_i hx; cases h; exact .trySOk s f hp hx
          · cases h
      · cases h
  | unlockS f w =>
      simp only [next] at h; split at h
      · rename_i hg; cases h; exact .unlockS s f w hg.1 hg.2.1 hg.2.2
      · cases h
  | txAcq f =>
      simp only [next] at h; split at h
      · rename_i hk; split at h
        · rename_i hp; split at h
          · rename_i ho; cases h; exact .txFast s f hk hp ho
          · cases h
        · rename_i req hp; split at h
          · rename_i ho; cases h; exact .txRecheckAcq s f req hk hp ho
          · cases h
        · cases h
      · cases h
  | txRepark f j =>
      simp only [next] at h; split at h
      · rename_i hk; split at h
        · rename_i req hp; split at h
          · rename_i ho; cases h; exact .txRepark s f req j hk hp ho
          · cases h
        · cases h
      · cases h
  | tsRepark f j =>
      simp only [next] at h; split at h
      · rename_i hk; split at h
        · rename_i req hp; split at h
          · rename_i hx; cases h; exact .tsRepark s f req j hk hp hx
          · cases h
        · cases h
      · cases h
  | txPark f t d j =>
      simp only [next] at h; split at h
      · rename_i hg; cases h; exact .txPark s f t d j hg.1 hg.2.1 hg.2.2.1 hg.2.2.2
      · cases h
  | txTimeout f t =>
      simp only [next] at h; split at h
      · rename_i hk; split at h
        · rename_i req dl hp; split at h
          · rename_i hg; cases h; exact .txTimeout s f t req dl hk hp hg.1 hg.2
          · cases h
        · cases h
      · cases h
  | tsAcq f =>
      simp only [next] at h; split at h
      · rename_i hk; split at h
        · rename_i hp; split at h
          · rename_i hx; cases h; exact .tsFast s f hk hp hx
          · cases h
        · rename_i req hp; split at h
          · rename_i hx; cases h; exact .tsRecheckAcq s f req hk hp hx
          · cases h
        · cases h
      · cases h
  | tsPark f t d j =>
      simp only [next] at h; split at h
      · rename_i hg; cases h; exact .tsPark s f t d j hg.1 hg.2.1 hg.2.2.1 hg.2.2.2
      · cases h
  | tsTimeout f t =>
      simp only [next] at h; split at h
      · rename_i hk; split at h
        · rename_i req dl hp; split at h
          · rename_i hg; cases h; exact .tsTimeout s f t req dl hk hp hg.1 hg.2
          · cases h
        · cases h
      · cases h
  | sleepStart f t d =>
      simp only [next] at h; split at h
      · rename_i hg; cases h; exact .sleepStart s f t d hg.1 hg.2
      · cases h
  | sleepWake f t =>
      simp only [next] at h; split at h
      · rename_i dl hp; split at h
        · rename_i hg; cases h; exact .sleepWake s f t dl hp hg.1 hg.2
        · cases h
      · cases h
  | finish f =>
      simp only [next] at h; split at h
      · rename_i hg; cases h; exact .finish s f hg
      · cases h

end Yaclib.FiberSync.Sm
