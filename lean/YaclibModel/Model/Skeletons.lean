/- The kernel skeletons the hand-written models were written from (committed copy; refreshed only by
   tools/regolden.py after review).  `Extracted/Kernels.lean` is regenerated from /repo on every run and the
   property files prove `Extracted.Kernels.X = Skeletons.X`. -/
namespace Yaclib.Skeletons

def BaseCore_SetCallbackImpl : String :=
  "SetCallbackImpl(callback) { ifc (Shared) { var next = _callback.load(acq); do { if ((next == kResult)) { return false }; (callback.next = cast(next)) } while ((!_callback.compare_exchange_weak(next, cast((&callback)), rel, acq))); return true } else { var expected = kEmpty; return ((_callback.load(acq) == expected) && _callback.compare_exchange_strong(expected, cast((&callback)), rel, acq)) } }"

def BaseCore_ResetImpl : String :=
  "ResetImpl() { var expected = _callback.load(rlx); return ((expected != kResult) && _callback.compare_exchange_strong(expected, kEmpty, rlx)) }"

def BaseCore_SetInlineImpl : String :=
  "SetInlineImpl(callback) { if ((!SetCallbackImpl<Shared>(callback))) { return Step<SymmetricTransfer>((*this), callback) }; return Noop<SymmetricTransfer>() }"

def BaseCore_SetResultImpl : String :=
  "SetResultImpl() { var expected = _callback.exchange(kResult, acq_rel); ifc (Shared) { var head = cast(expected); if (head) { while (var next = head.next) { Loop(this, head); (head = cast(next)) }; DecRef(); Loop(this, head) } else { DecRef() }; DecRef(); DecRef(); return Noop<SymmetricTransfer>() } else { if ((expected != kEmpty)) { var callback = cast(expected); return Step<SymmetricTransfer>((*this), (*callback)) } else { return Noop<SymmetricTransfer>() } } }"

def BaseCore_Empty : String :=
  "Empty() { var callback = _callback.load(acq); return (callback == kEmpty) }"

def BaseCore_Ready : String :=
  "Ready() { var callback = _callback.load(acq); return (callback == kResult) }"

def Drop_Impl : String :=
  "Impl(caller) { caller.DecRef(); return Noop<SymmetricTransfer>() }"

def Promise_Set : String :=
  "Set(args) { ifc ((sizeof... == 0)) { _core.Store(in_place) } else { _core.Store(pack(forward<Args>(args))) }; var core = _core.Release(); Loop(core, core.SetResult<false>()) }"

def Promise_dtor : String :=
  "~Promise<V, E>() { if (Valid()) { move((*this)).Set(cast(init())) } }"

def FutureBase_dtor : String :=
  "~FutureBase<V, E>() { if (Valid()) { move((*this)).Detach() } }"

def FutureBase_Ready : String :=
  "Ready() { return _core.Ready() }"

def FutureBase_GetConst : String :=
  "Get() { if (Ready()) { return (&_core.Get()) }; return nullptr }"

def FutureBase_GetMove : String :=
  "Get() { Wait((*this)); var core = exchange(_core, nullptr); return move(core.Get()) }"

def FutureBase_Detach : String :=
  "Detach() { var core = _core.Release(); core.CallInline(MakeDrop()) }"

def UniqueCore_CallInline : String :=
  "CallInline(callback) { if ((!SetCallback(callback))) { var next = callback.Here((*this)) } }"

def detail_SetCallback : String :=
  "SetCallback(core, executor, f) { decl TypeAliasDecl; decl TypeAliasDecl; var Unique = is_same_v; var Shared = is_same_v; decl StaticAssertDecl; var From = (Unique ? FromUnique : FromShared); var callback = MakeCore<CoreT|From,Arg,E>(forward<Func>(f)); ifc (IsDetach(CoreT)) { callback.StoreCallback(MakeDrop()) }; (callback._executor = executor); var caller = lambda{ ifc (Unique) { return core.Release() } else { return core.Get() } }(); ifc ((!IsLazy(CoreT))) { Loop(caller, caller.SetInline<false>((*callback))) }; decl TypeAliasDecl; ifc (IsLazy(CoreT)) { decl StaticAssertDecl; (callback.next = caller); caller.StoreCallback((*callback)); return init(init(init(init(cast(init()), callback)))) } else ifc ((!IsDetach(CoreT))) { ifc (On) { return init(init(init(init(cast(init()), callback)))) } else { return init(init(init(init(cast(init()), callback)))) } } }"

def Connect_Unique : String :=
  "Connect(f, p) { decl StaticAssertDecl; if (f.GetCore().SetCallback((*p.GetCore().Get()))) { f.GetCore().Release(); p.GetCore().Release() } else { move(p).Set(move(f).Touch()) } } || Connect(f, p) { if (f.GetCore().SetCallback((*p.GetCore().Get()))) { p.GetCore().Release() } else { move(p).Set(f.Touch()) } } || Connect(f, p) { if (f.GetCore().SetCallback((*p.GetCore().Get()))) { f.GetCore().Release(); p.GetCore().Release() } else { move(p).Set(move(f).Touch()) } } || Connect(primary, subsumed) { var subsumed_core = subsumed.GetCore().Release(); (ignore = primary.GetCore().SetCallback((*subsumed_core))) }"

def WaitRange : String :=
  "WaitRange(event, timeout, range, count) { var wait_count = lambda{ ifc (Event::kShared) { return range(lambda{ ifc (is_same_v) { return handle.SetCallback(event.GetCall()) } else { return handle.SetCallback(event.callbacks[(callback_count++)]) } }) } else { return range(lambda{ return handle.SetCallback(event.GetCall()) }) } }(); if ((operator==(wait_count, 0) || event.SubEqual(((count - wait_count) + 1)))) { return true }; var token = event.Make(); var reset_count = 0; ifc ((!is_same_v)) { if (event.Wait(token, timeout)) { return true }; (reset_count = range(lambda{ return handle.Reset() })); if (((reset_count != 0) && (operator==(reset_count, wait_count) || event.SubEqual(reset_count)))) { return false } }; event.Wait(token); return (reset_count == 0) }"

def WaitCore : String :=
  "WaitCore(timeout, handles) { decl StaticAssertDecl; var kSharedCount = kCount; decl StaticAssertDecl; var range = lambda{ return fold(cast(func(handles))) }; decl TypeAliasDecl; decl TypeAliasDecl; var event = init((sizeof... + 1)); return WaitRange(event, timeout, range, sizeof...) }"

def MutexEvent_Set : String :=
  "Set() { var lock = init(_m); (_is_ready = true); _cv.notify_one() }"

def MutexEvent_Wait : String :=
  "Wait(token) { while ((!_is_ready)) { _cv.wait(token) } }"

def CallCallback_Impl : String :=
  "Impl() { DownCast<Derived>((*this)).Sub(1); return Noop<SymmetricTransfer>() }"

def WaitIterator : String :=
  "WaitIterator(timeout, it, count) { decl StaticAssertDecl; var kShared = is_same_v; if ((count == 0)) { return true }; if ((count == 1)) { return WaitCore<Event>(timeout, it.GetHandle()) }; var range = lambda{ var wait_count = 0; var range_it = it; for (var i = 0; (i != count); (++i)) { (wait_count += cast(func(range_it.GetHandle()))); (++range_it) }; return wait_count }; decl TypeAliasDecl; decl TypeAliasDecl; var event = init((count + 1)); return WaitRange(event, timeout, range, count) }"

def OneCounter_Sub : String :=
  "Sub(_) { Delete((*this)) }"

def OneCounter_SubEqual : String :=
  "SubEqual(_) { return false }"

def SetDeleter_Delete : String :=
  "Delete(event) { event.Set() }"

def MutexEvent_Make : String :=
  "Make() { return init(_m) }"

def MutexEvent_WaitTimed : String :=
  "Wait(token, timeout_duration) { return _cv.wait_for(token, timeout_duration, lambda{ return _is_ready }) } || Wait(token, timeout_time) { return _cv.wait_until(token, timeout_time, lambda{ return _is_ready }) }"

def Wait_variadic_iterator : String :=
  "Wait(fs) { WaitCore<Event>(cast(init()), pack(fs.GetHandle())) } || Wait(begin, end) { WaitIterator<Event>(cast(init()), begin, cast((end - begin))) } || Wait(begin, count) { WaitIterator<Event>(cast(init()), begin, count) }"

def WaitFor_variadic_iterator : String :=
  "WaitFor(timeout_duration, fs) { return WaitCore<Event>(timeout_duration, pack(fs.GetHandle())) } || WaitFor(timeout_duration, begin, end) { return WaitIterator<Event>(timeout_duration, begin, cast((end - begin))) } || WaitFor(timeout_duration, begin, count) { return WaitIterator<Event>(timeout_duration, begin, count) }"

def WaitUntil_variadic_iterator : String :=
  "WaitUntil(timeout_time, fs) { return WaitCore<Event>(timeout_time, pack(fs.GetHandle())) } || WaitUntil(timeout_time, begin, end) { return WaitIterator<Event>(timeout_time, begin, cast((end - begin))) } || WaitUntil(timeout_time, begin, count) { return WaitIterator<Event>(timeout_time, begin, count) }"

def OneShotEvent_SetImpl : String :=
  "SetImpl(self, value) { var head = self.exchange(value, acq_rel); var job = cast(head); while ((job != nullptr)) { var next = cast(job.next); job.Call(); (job = next) } }"

def OneShotEvent_TryAdd : String :=
  "TryAdd(job) { var head = _head.load(acq); var node = cast((&job)); while ((head != kAllDone)) { (job.next = cast(head)); if (_head.compare_exchange_weak(head, node, rel, acq)) { return true } }; return false }"

def OneShotEvent_Ready : String :=
  "Ready() { return (_head.load(acq) == kAllDone) }"

def OneShotEvent_Wait : String :=
  "Wait() { var waiter = init(); if (TryAdd(waiter)) { var token = waiter.Make(); waiter.Wait(token) } }"

def OneShotEvent_Set : String :=
  "Set() { SetImpl(_head, kAllDone) }"

def OneShotEvent_TimedWait : String :=
  "TimedWait(timeout) { var waiter = MakeShared<TimedWaiter>(2); if (TryAdd(operator*(waiter))) { var token = operator->(waiter).Make(); return waiter->Wait(token, timeout) }; delete(waiter.Release()); return true }"

def OneShotEvent_ExtendedAwaiter_Call : String :=
  "Call() { operator->(._core._executor).Submit((*._core)) }"

def OneShotEvent_Waiter_Call : String :=
  "Call() { Set() }"

def OneShotEvent_TimedWaiter_Call : String :=
  "Call() { Set(); DecRef() }"

def OneShotEvent_await_ready : String :=
  "await_ready() { return _event.Ready() }"

def OneShotEvent_OnAwaiter_await_ready : String :=
  "await_ready() { return false }"

def OneShotEvent_await_suspend : String :=
  "await_suspend(handle) { return _event.TryAdd(handle.promise()) } || await_suspend(handle) { (._core = (&handle.promise())); return _event.TryAdd((*this)) } || await_suspend(handle) { var core = handle.promise(); (core._executor = ._executor); (._core = (&core)); if ((!_event.TryAdd((*this)))) { Call() } }"

def WaitGroup_Add : String :=
  "Add(count) { _event.Add(count) }"

def WaitGroup_Done : String :=
  "Done(count) { _event.Sub(count) }"

def WaitGroup_Wait : String :=
  "Wait() { _event.Wait() }"

def WaitGroup_WaitFor : String :=
  "WaitFor(timeout_duration) { return _event.WaitFor(timeout_duration) }"

def WaitGroup_InsertRange : String :=
  "InsertRange(range, count) { ifc (NeedAdd) { Add(count) }; var wait_count = range(lambda{ var handle = init(core); ifc (NeedMove) { if (handle.SetCallback(_event.GetDrop())) { return true }; core.DecRef(); return false } else { return handle.SetCallback(_event.GetCall()) } }); if (operator!=(count, wait_count)) { Done((count - wait_count)) } }"

def WaitGroup_InsertCore : String :=
  "InsertCore(cores) { decl StaticAssertDecl; decl StaticAssertDecl; var range = lambda{ return fold(cast(func(cores))) }; InsertRange<NeedMove,NeedAdd>(range, sizeof...) }"

def WaitGroup_InsertIt : String :=
  "InsertIt(it, count) { decl StaticAssertDecl; if ((count == 0)) { return  }; var range = lambda{ var wait_count = 0; for (var i = 0; (i != count); (++i)) { ifc (NeedMove) { (wait_count += cast(func((*it.GetCore().Release())))) } else { (wait_count += cast(func((*it.GetCore())))) }; (++it) }; return wait_count }; InsertRange<NeedMove,NeedAdd>(range, count) }"

def DropCallback_Impl : String :=
  "Impl(caller) { caller.DecRef(); DownCast<Derived>((*this)).Sub(1); return Noop<SymmetricTransfer>() }"

def Strand_Submit : String :=
  "Submit(job) { var expected = _jobs.load(rlx); do { (job.next = ((expected == Mark()) ? nullptr : expected)) } while ((!_jobs.compare_exchange_weak(expected, (&job), acq_rel, rlx))); if ((expected == Mark())) { cast((*this)).IncRef(); operator->(_executor).Submit((*this)) } }"

def Strand_Call : String :=
  "Call() { var node = _jobs.exchange(nullptr, acq); var prev = nullptr; do { var next = node.next; (node.next = prev); (prev = node); (node = next) } while ((node != nullptr)); do { var next = prev.next; cast(prev).Call(); (prev = next) } while ((prev != nullptr)); if (((_jobs.load(rlx) == node) && _jobs.compare_exchange_strong(node, Mark(), rel, rlx))) { cast((*this)).DecRef() } else { operator->(_executor).Submit((*this)) } }"

def Strand_Drop : String :=
  "Drop() { var node = _jobs.exchange(Mark(), acq_rel); do { var next = node.next; cast(node).Drop(); (node = next) } while ((node != nullptr)); cast((*this)).DecRef() }"

def MutexImpl_TryLockAwait : String :=
  "TryLockAwait() { var expected = kNotLocked; return ((_sender.load(rlx) == expected) && _sender.compare_exchange_strong(expected, kLockedNoWaiters, acq, rlx)) }"

def MutexImpl_AwaitLock : String :=
  "AwaitLock(curr) { var expected = _sender.load(rlx); while (true) { if ((expected == kNotLocked)) { if (_sender.compare_exchange_weak(expected, kLockedNoWaiters, acq, rlx)) { return false } } else { (curr.next = cast(expected)); if (_sender.compare_exchange_weak(expected, cast((&curr)), rel, rlx)) { return true } } } }"

def MutexImpl_TryUnlockAwait : String :=
  "TryUnlockAwait() { if ((_receiver != nullptr)) { return false }; var expected = kLockedNoWaiters; return ((_sender.load(rlx) == expected) && _sender.compare_exchange_strong(expected, kNotLocked, rel, rlx)) }"

def MutexImpl_BatchingPossible : String :=
  "BatchingPossible() { return (Batching && (_receiver != nullptr)) }"

def MutexImpl_UnlockHereAwait : String :=
  "UnlockHereAwait() { var next = GetHead(); (_receiver = cast(next.next)); next._executor.Submit(next) }"

def MutexImpl_AwaitUnlock : String :=
  "AwaitUnlock(curr) { var next = (*_receiver); (_receiver = cast(next.next)); curr._executor.Swap(next._executor); operator->(curr._executor).Submit(curr); return cast(init(next.Curr())) }"

def MutexImpl_AwaitUnlockOn : String :=
  "AwaitUnlockOn(curr, executor) { var curr_executor = exchange(curr._executor, (&executor)); executor.Submit(curr); if (TryUnlockAwait()) { return cast(init(noop_coroutine().operator coroutine_handle())) }; var next = GetHead(); ifc (Batching) { if ((_receiver != nullptr)) { (_receiver = cast(next.next)); (next._executor = move(curr_executor)); return init(init(next.Curr())) } }; (_receiver = cast(next.next)); next._executor.Submit(next); return cast(init(noop_coroutine().operator coroutine_handle())) }"

def MutexImpl_TryLock : String :=
  "TryLock() { return TryLockAwait() }"

def MutexImpl_UnlockHere : String :=
  "UnlockHere() { if ((!TryUnlockAwait())) { UnlockHereAwait() } }"

def MutexImpl_GetHead : String :=
  "GetHead() { if ((_receiver != nullptr)) { return (*_receiver) }; var expected = _sender.exchange(kLockedNoWaiters, acq); ifc (FIFO) { var node = cast(expected); var prev = nullptr; do { var next = node.next; (node.next = prev); (prev = node); (node = next) } while ((node != nullptr)); return (*cast(prev)) } else { return (*cast(expected)) } }"

def UnlockAwaiter_await_ready : String :=
  "await_ready() { if (_mutex.TryUnlockAwait()) { return true }; if (_mutex.BatchingPossible()) { return false }; _mutex.UnlockHereAwait(); return true }"

def UnlockAwaiter_await_suspend : String :=
  "await_suspend(handle) { return _mutex.AwaitUnlock(handle.promise()) }"

def UnlockOnAwaiter_await_ready : String :=
  "await_ready() { return false }"

def UnlockOnAwaiter_await_suspend : String :=
  "await_suspend(handle) { return _mutex.AwaitUnlockOn(handle.promise(), _executor) }"

def LockAwaiter_await_ready : String :=
  "await_ready() { ifc (Shared) { return _mutex.TryLockSharedAwait() } else { return _mutex.TryLockAwait() } }"

def LockAwaiter_await_suspend : String :=
  "await_suspend(handle) { ifc (Shared) { return _mutex.AwaitLockShared(handle.promise()) } else { return _mutex.AwaitLock(handle.promise()) } }"

def GuardAwaiter_await_resume : String :=
  "await_resume() { return init(init(Cast<M>(_mutex), adopt_lock)) }"

def LockStickyAwaiter_await_ready : String :=
  "await_ready() { (_executor = nullptr); return _mutex.TryLockAwait() }"

def LockStickyAwaiter_await_suspend : String :=
  "await_suspend(handle) { var promise = handle.promise(); (_executor = promise._executor.Get()); if (_mutex.AwaitLock(promise)) { return true }; (_executor = nullptr); return false }"

def UnlockStickyAwaiter_await_ready : String :=
  "await_ready() { if ((_executor != nullptr)) { return false }; _mutex.UnlockHere(); return true }"

def UnlockStickyAwaiter_await_suspend : String :=
  "await_suspend(handle) { return _mutex.AwaitUnlockOn(handle.promise(), (*_executor)) }"

def GuardStickyAwaiter_await_ready : String :=
  "await_ready() { var mutex_impl = Cast<typenameM::Base>((*_guard.Mutex())); var awaiter = init(mutex_impl, _guard._executor); return awaiter.await_ready() }"

def GuardStickyAwaiter_await_suspend : String :=
  "await_suspend(handle) { var mutex_impl = Cast<typenameM::Base>((*_guard.Mutex())); var awaiter = init(mutex_impl, _guard._executor); return awaiter.await_suspend(handle) }"

def GuardStickyAwaiter_await_resume : String :=
  "await_resume() { return move(_guard) }"

def StickyGuard_Lock : String :=
  "Lock() { var m = cast(LockState()); var base = Cast<typenameM::Base>((*m)); return init(init(base, _executor)) }"

def StickyGuard_Unlock : String :=
  "Unlock() { var m = cast(UnlockState()); var base = Cast<typenameM::Base>((*m)); return init(init(base, _executor)) }"

def Guard_dtor : String :=
  "~Guard<M, Shared>() { if ((*this)) { UnlockHere() } }"

def Guard_Lock : String :=
  "Lock() { var m = cast(LockState()); ifc (Shared) { return m.LockShared() } else { return m.Lock() } }"

def Guard_TryLock : String :=
  "TryLock() { var m = cast(LockState()); if (TryLockImpl((*m))) { return true }; UnlockState(); return false }"

def Guard_Unlock : String :=
  "Unlock() { var m = cast(UnlockState()); ifc (Shared) { return m.UnlockShared() } else { return m.Unlock() } }"

def Guard_UnlockOn : String :=
  "UnlockOn(e) { var m = cast(UnlockState()); ifc (Shared) { return m.UnlockOnShared(e) } else { return m.UnlockOn(e) } }"

def Guard_UnlockHere : String :=
  "UnlockHere() { var m = cast(UnlockState()); ifc (Shared) { m.UnlockHereShared() } else { m.UnlockHere() } }"

def Guard_TryLockImpl : String :=
  "TryLockImpl(m) { ifc (Shared) { return m.TryLockShared() } else { return m.TryLock() } }"

def Mutex_TryGuard : String :=
  "TryGuard() { return init(init((*this), try_to_lock)) }"

def Mutex_Guard : String :=
  "Guard() { return init(init((*this))) }"

def Mutex_GuardSticky : String :=
  "GuardSticky() { return init(init((*this))) }"

def Mutex_Lock : String :=
  "Lock() { return init(init((*this))) }"

def Mutex_Unlock : String :=
  "Unlock() { return init(init((*this))) }"

def Mutex_UnlockOn : String :=
  "UnlockOn(e) { return init(init((*this), e)) }"

def CoMutexSrc_coro_transfer_macros : String :=
  "#if YACLIB_SYMMETRIC_TRANSFER != 0 # define YACLIB_TRANSFER(handle) \\ return yaclib_std::coroutine_handle<> { \\ handle \\ } # define YACLIB_RESUME(handle) YACLIB_TRANSFER(handle) # define YACLIB_SUSPEND() YACLIB_TRANSFER(yaclib_std::noop_coroutine()) #else namespace yaclib_std { constexpr yaclib_std::coroutine_handle<> noop_coroutine() noexcept { return {}; } } # define YACLIB_TRANSFER(handle) \\ handle.resume(); \\ return true # define YACLIB_RESUME(handle) return false # define YACLIB_SUSPEND() return true #endif"

def SharedMutexImpl_TryLockSharedAwait : String :=
  "TryLockSharedAwait() { return ((_state.fetch_add(kReader, acq_rel) / kWriter) == 0) }"

def SharedMutexImpl_TryLockAwait : String :=
  "TryLockAwait() { var s = 0; return ((_state.load(rlx) == s) && _state.compare_exchange_strong(s, (s + kWriter), acq_rel, rlx)) }"

def SharedMutexImpl_AwaitLockShared : String :=
  "AwaitLockShared(curr) { var lock = init(_lock); if ((_readers_pass != 0)) { (--_readers_pass); return false }; _readers.PushBack(curr); (++_readers_size); return true }"

def SharedMutexImpl_AwaitLock : String :=
  "AwaitLock(curr) { (curr.next = nullptr); var lock = init(_lock); var s = _state.fetch_add(kWriter, acq_rel); if (((s / kWriter) == 0)) { var r = (s % kWriter); (_writers_first = (&curr)); return ((r != 0) && (_readers_wait.fetch_add(r, acq_rel) != (-r))) }; (_writers_tail.next = (&curr)); (_writers_tail = (&curr)); ifc (FIFO) { (_writers_prio += cast(_readers.Empty())) }; return true }"

def SharedMutexImpl_TryLockShared : String :=
  "TryLockShared() { var s = _state.load(rlx); do { if (((s / kWriter) != 0)) { return false } } while ((!_state.compare_exchange_weak(s, (s + kReader), acq_rel, rlx))); return true }"

def SharedMutexImpl_TryLock : String :=
  "TryLock() { return TryLockAwait() }"

def SharedMutexImpl_UnlockHereShared : String :=
  "UnlockHereShared() { if (var s = _state.fetch_sub(kReader, acq_rel); (s >= kWriter)) { if ((_readers_wait.fetch_sub(1, acq_rel) == 1)) { Run(_writers_first) } } }"

def SharedMutexImpl_UnlockHere : String :=
  "UnlockHere() { if (var s = kWriter; (!_state.compare_exchange_strong(s, 0, acq_rel, rlx))) { SlowUnlock() } }"

def SharedMutexImpl_Run : String :=
  "Run(node) { var core = cast((*node)); operator->(core._executor).Submit(core) }"

def SharedMutexImpl_RunWriter : String :=
  "RunWriter() { ifc (FIFO) { (--_writers_prio) }; var node = _writers_head.next; (_writers_head.next = node.next); if ((_writers_head.next == nullptr)) { (_writers_tail = (&_writers_head)) }; _lock.unlock(); Run(node) }"

def SharedMutexImpl_PassReaders : String :=
  "PassReaders(s) { var r = (s % kWriter); (_readers_pass += (r - _readers_size)) }"

def SharedMutexImpl_RunReaders : String :=
  "RunReaders(s) { if (var w = (s / kWriter); (w != 1)) { _readers_wait.store(_readers_size, rlx); var node = _writers_head.next; (_writers_head.next = node.next); if ((_writers_head.next == nullptr)) { (_writers_tail = (&_writers_head)) }; (_writers_first = node); ifc (FIFO) { (_writers_prio = (w - 2)) } } else { PassReaders(s) }; var readers = move(_readers); (_readers_size = 0); _lock.unlock(); do { Run((&readers.PopFront())) } while ((!readers.Empty())) }"

def SharedMutexImpl_SlowUnlock : String :=
  "SlowUnlock() { _lock.lock(); var s = _state.fetch_sub(kWriter, acq_rel); ifc (FIFO) { if ((_writers_prio != 0)) { return RunWriter() } }; if ((!_readers.Empty())) { return RunReaders(s) }; ifc ((!FIFO)) { if (((s / kWriter) != 1)) { return RunWriter() } }; PassReaders(s); _lock.unlock() }"

def Spinlock_lock : String :=
  "lock() { while (operator!=(_state.exchange(1, acq), 0)) { do {  } while (operator!=(_state.load(rlx), 0)) } }"

def Spinlock_unlock : String :=
  "unlock() { _state.store(0, rel) }"

def SharedMutex_Lock : String :=
  "Lock() { return init(init((*this))) }"

def SharedMutex_LockShared : String :=
  "LockShared() { return init(init((*this))) }"

def SharedMutex_TryGuard : String :=
  "TryGuard() { return init(init((*this), try_to_lock)) }"

def SharedMutex_TryGuardShared : String :=
  "TryGuardShared() { return init(init((*this), try_to_lock)) }"

def SharedMutex_Guard : String :=
  "Guard() { return init(init((*this))) }"

def SharedMutex_GuardShared : String :=
  "GuardShared() { return init(init((*this))) }"

def FairThreadPool_ctor : String :=
  "FairThreadPool(threads) { _workers.reserve(threads); for (var i = 0; (i != threads); (++i)) { _workers.emplace_back(lambda{ Loop() }) } }"

def FairThreadPool_Submit : String :=
  "Submit(job) { var lock = init(_m); if (WasStop()) { lock.unlock(); job.Drop(); return  }; _jobs.PushBack(job); (_jobs_count += 4); lock.unlock(); _idle.notify_one() }"

def FairThreadPool_SoftStop : String :=
  "SoftStop() { var lock = init(_m); if (NoJobs()) { Stop(move(lock)) } else { (_jobs_count |= 2) } }"

def FairThreadPool_Stop : String :=
  "Stop() { Stop(init(_m)) }"

def FairThreadPool_StopLocked : String :=
  "Stop(lock) { (_jobs_count |= 1); lock.unlock(); _idle.notify_all() }"

def FairThreadPool_HardStop : String :=
  "HardStop() { var lock = init(_m); var jobs = init(move(_jobs)); Stop(move(lock)); while ((!jobs.Empty())) { var job = jobs.PopFront(); cast(job).Drop() } }"

def FairThreadPool_Wait : String :=
  "Wait() { forrange { worker.join() }; _workers.clear() }"

def FairThreadPool_Loop : String :=
  "Loop() { var lock = init(_m); while (true) { while ((!_jobs.Empty())) { var job = _jobs.PopFront(); lock.unlock(); cast(job).Call(); lock.lock(); (_jobs_count -= 4) }; if ((NoJobs() && WantStop())) { return Stop(move(lock)) }; if (WasStop()) { return  }; _idle.wait(lock) } }"

def FairThreadPool_WasStop : String :=
  "WasStop() { return ((_jobs_count & 1) != 0) }"

def FairThreadPool_WantStop : String :=
  "WantStop() { return ((_jobs_count & 2) != 0) }"

def FairThreadPool_NoJobs : String :=
  "NoJobs() { return ((_jobs_count >> 2) == 0) }"

def FairThreadPool_Alive : String :=
  "Alive() { var lock = init(_m); return (!WasStop()) }"

def List_MoveCtor : String :=
  "List(other) { if (((this == (&other)) || other.Empty())) { return  }; (_head.next = exchange(other._head.next, nullptr)); (_tail = exchange(other._tail, (&other._head))) }"

def List_PushBack : String :=
  "PushBack(node) { (node.next = nullptr); (_tail.next = (&node)); (_tail = (&node)) }"

def List_Empty : String :=
  "Empty() { return (_head.next == nullptr) }"

def List_PopFront : String :=
  "PopFront() { var node = _head.next; (_head.next = node.next); if ((_head.next == nullptr)) { (_tail = (&_head)) }; return (*node) }"

def FiberMutex_lock : String :=
  "lock() { while (_occupied) { _queue.Wait(cast(init())) }; (_occupied = true); OnSync(this, kLock, 1) }"

def FiberMutex_try_lock : String :=
  "try_lock() { if (_occupied) { OnSync(this, kTryLock, 0); return false }; (_occupied = true); OnSync(this, kTryLock, 1); return true }"

def FiberMutex_unlock : String :=
  "unlock() { (_occupied = false); OnSync(this, kUnlock, 1); _queue.NotifyOne() }"

def FiberTimedMutex_TimedWaitHelper : String :=
  "TimedWaitHelper(timeout) { var r = true; while ((r && _occupied)) { (r = (_queue.Wait(timeout) == Ready)) }; if (r) { (_occupied = true) }; return r }"

def FiberTimedMutex_try_lock_for : String :=
  "try_lock_for(timeout_duration) { return TimedWaitHelper((now() + timeout_duration)) }"

def FiberTimedMutex_try_lock_until : String :=
  "try_lock_until(timeout_time) { return TimedWaitHelper(timeout_time) }"

def FiberRecursiveMutex_lock : String :=
  "lock() { while (((_occupied_count != 0) && (_owner_id != GetId()))) { _queue.Wait(cast(init())) }; LockHelper() }"

def FiberRecursiveMutex_try_lock : String :=
  "try_lock() { if (((_occupied_count != 0) && (_owner_id != GetId()))) { return false }; LockHelper(); return true }"

def FiberRecursiveMutex_unlock : String :=
  "unlock() { (_occupied_count--); if ((_occupied_count == 0)) { (_owner_id = 0); _queue.NotifyOne() } }"

def FiberRecursiveMutex_LockHelper : String :=
  "LockHelper() { (_occupied_count++); (_owner_id = GetId()) }"

def FiberRecursiveTimedMutex_TimedWaitHelper : String :=
  "TimedWaitHelper(timeout) { var r = true; while (((r && (_occupied_count != 0)) && (_owner_id != GetId()))) { (r = (_queue.Wait(timeout) == Ready)) }; if (r) { LockHelper() }; return r }"

def FiberRecursiveTimedMutex_try_lock_for : String :=
  "try_lock_for(timeout_duration) { return TimedWaitHelper((now() + timeout_duration)) }"

def FiberRecursiveTimedMutex_try_lock_until : String :=
  "try_lock_until(timeout_time) { return TimedWaitHelper(timeout_time) }"

def FiberSharedMutex_lock : String :=
  "lock() { while (_occupied) { _exclusive_queue.Wait(cast(init())) }; LockHelper() }"

def FiberSharedMutex_try_lock : String :=
  "try_lock() { if (_occupied) { return false }; LockHelper(); return true }"

def FiberSharedMutex_unlock : String :=
  "unlock() { (_occupied = false); _shared_queue.NotifyAll(); _exclusive_queue.NotifyOne() }"

def FiberSharedMutex_lock_shared : String :=
  "lock_shared() { while ((_occupied && _exclusive_mode)) { _shared_queue.Wait(cast(init())) }; SharedLockHelper() }"

def FiberSharedMutex_try_lock_shared : String :=
  "try_lock_shared() { if ((_occupied && _exclusive_mode)) { return false }; SharedLockHelper(); return true }"

def FiberSharedMutex_unlock_shared : String :=
  "unlock_shared() { (_shared_owners_count--); if ((_shared_owners_count == 0)) { (_occupied = false); _exclusive_queue.NotifyOne() } }"

def FiberSharedMutex_LockHelper : String :=
  "LockHelper() { (_occupied = true); (_exclusive_mode = true) }"

def FiberSharedMutex_SharedLockHelper : String :=
  "SharedLockHelper() { (_occupied = true); (_exclusive_mode = false); (_shared_owners_count++) }"

def FiberSharedTimedMutex_TimedWaitHelper : String :=
  "TimedWaitHelper(timeout, exclusive) { var r = true; while (((r && _occupied) && (exclusive || _exclusive_mode))) { if (exclusive) { (r = (_exclusive_queue.Wait(timeout) == Ready)) } else { (r = (_shared_queue.Wait(timeout) == Ready)) } }; if (r) { if (exclusive) { LockHelper() } else { SharedLockHelper() } }; return r }"

def FiberSharedTimedMutex_try_lock_for : String :=
  "try_lock_for(timeout_duration) { return TimedWaitHelper((now() + timeout_duration), true) }"

def FiberSharedTimedMutex_try_lock_until : String :=
  "try_lock_until(timeout_time) { return TimedWaitHelper(timeout_time, true) }"

def FiberSharedTimedMutex_try_lock_shared_for : String :=
  "try_lock_shared_for(timeout_duration) { return TimedWaitHelper((now() + timeout_duration), false) }"

def FiberSharedTimedMutex_try_lock_shared_until : String :=
  "try_lock_shared_until(timeout_time) { return TimedWaitHelper(timeout_time, false) }"

def FiberCondVar_notify_one : String :=
  "notify_one() { _queue.NotifyOne() }"

def FiberCondVar_notify_all : String :=
  "notify_all() { _queue.NotifyAll() }"

def FiberCondVar_wait : String :=
  "wait(lock) { WaitImpl(lock, cast(init())) }"

def FiberCondVar_WaitImpl : String :=
  "WaitImpl(lock, timeout) { InjectFault(); lock.unlock(); var status = _queue.Wait(timeout); lock.lock(); InjectFault(); return status }"

def FiberCondVar_WaitImplWithPredicate : String :=
  "WaitImplWithPredicate(lock, timeout, predicate) { while ((!predicate())) { if ((WaitImpl(lock, timeout) == Timeout)) { break } }; ifc ((!is_same_v)) { return predicate() } else { return true } }"

def FiberCondVar_wait_for : String :=
  "wait_for(lock, duration) { return WaitImpl(lock, duration) } || wait_for(lock, duration, predicate) { return WaitImplWithPredicate(lock, duration, predicate) }"

def FiberCondVar_wait_until : String :=
  "wait_until(lock, time_point) { return WaitImpl(lock, time_point) } || wait_until(lock, time_point, predicate) { return WaitImplWithPredicate(lock, time_point, predicate) }"

def FiberQueue_WaitNoTimeout : String :=
  "Wait(_) { var fiber = Current(); _queue.PushBack(cast(fiber)); OnSync(this, kPark, 0); Suspend(); OnSync(this, kWake, 0); return Ready }"

def FiberQueue_WaitTimed : String :=
  "Wait(duration) { return Wait((duration + now())) } || Wait(time_point) { var fiber = Current(); var queue_node = cast(fiber); _queue.PushBack(queue_node); OnSync(this, kParkTimed, 0); var scheduler = GetScheduler(); scheduler.SleepPreemptive(duration_cast<std::chrono::nanoseconds>(time_point.time_since_epoch()).count()); var res = queue_node.Erase(); OnSync(this, kWake, (res ? 1 : 0)); return (res ? Timeout : Ready) }"

def FiberQueue_NotifyAll : String :=
  "NotifyAll() { OnSync(this, kNotifyAll, (_queue.Empty() ? 0 : 1)); var all = init(move(_queue)); operator=(_queue, init()); while ((!all.Empty())) { var fiber = cast(cast(all.PopBack())); ScheduleAndRemove(fiber) } }"

def FiberQueue_NotifyOne : String :=
  "NotifyOne() { OnSync(this, kNotifyOne, (_queue.Empty() ? 0 : 1)); if (_queue.Empty()) { return  }; var fiber = cast(cast(PollRandomElementFromList(_queue))); ScheduleAndRemove(fiber) }"

def FiberQueue_ScheduleAndRemove : String :=
  "ScheduleAndRemove(node) { if ((node.GetState() != Waiting)) { cast(node).Erase(); GetScheduler().Schedule(node) } }"

def FiberThread_join : String :=
  "join() { if ((_impl == nullptr)) { throw(init(make_error_code(no_such_process))) }; if ((!joinable())) { throw(init(make_error_code(resource_deadlock_would_occur))) }; while ((_impl.GetState() != Completed)) { _impl.SetJoiningFiber(Current()); Suspend() }; AfterJoinOrDetach() }"

def FiberThread_AfterJoinOrDetach : String :=
  "AfterJoinOrDetach() { if ((_impl.GetState() == Completed)) { delete(_impl) } else { _impl.SetThreadDead() }; (_impl = nullptr) }"

def FiberBase_Exit : String :=
  "Exit() { (_state = Completed); if (((_joining_fiber != nullptr) && _thread_alive)) { ScheduleFiber(_joining_fiber) }; _context.Exit(_caller_context) }"

def FiberBase_Resume : String :=
  "Resume() { if ((_state == Completed)) { return  }; (_state = Running); _caller_context.SwitchTo(_context); if (CXXRewrittenBinaryOperator((!operator==(_exception, init(nullptr))))) { rethrow_exception(init(_exception)) } }"

def FiberBase_Suspend : String :=
  "Suspend() { (_state = Suspended); _context.SwitchTo(_caller_context) }"

def FiberBase_GetTLS : String :=
  "GetTLS(id, defaults) { var it = _tls.find(id); if (operator==(it, _tls.end())) { return operator[](defaults, id) }; return operator->(it).second }"

def FiberBase_SetTLS : String :=
  "SetTLS(id, value) { (operator[](_tls, id) = value) }"

def FiberTls_GetImpl : String :=
  "GetImpl(i) { var fiber = Current(); return fiber.GetTLS(i, GetMap()) }"

def FiberTls_Set : String :=
  "Set(new_value, i) { var fiber = Current(); fiber.SetTLS(i, new_value) }"

def FiberTls_SetDefault : String :=
  "SetDefault(new_value, i) { (operator[](GetMap(), i) = new_value) }"

def FiberTlsProxy_assign_ptr : String :=
  "operator=(value) { Set(value, _i); return (*this) }"

def FiberTlsProxy_assign_move : String :=
  "operator=(other) { (_i = other._i); return (*this) }"

def FiberTlsProxy_assign_copy : String :=
  "operator=(other) { Set(GetImpl(other._i), _i); return (*this) }"

def FiberTlsProxy_assign_conv : String :=
  "operator=(other) { (_i = other._i); return (*this) } || operator=(other) { Set(GetImpl(other._i), _i); return (*this) }"

def FiberTlsProxy_ctor_default : String :=
  "ThreadLocalPtrProxy<Type>() {  }"

def FiberTlsProxy_ctor_ptr : String :=
  "ThreadLocalPtrProxy<Type>(value) { if ((value != nullptr)) { SetDefault(value, _i) } }"

def FiberTlsProxy_ctor_copy : String :=
  "ThreadLocalPtrProxy<Type>(other) { SetDefault(GetImpl(other._i), _i) }"

def FiberTlsProxy_Get : String :=
  "Get() { return cast(GetImpl(_i)) }"

def FiberSched_Sleep : String :=
  "Sleep(ns) { if ((ns <= GetTimeNs())) { return  }; var sleep_list = operator[](_sleep_list, ns); var fiber = sCurrent; sleep_list.PushBack(cast(fiber)); Suspend() }"

def FiberSched_SleepPreemptive : String :=
  "SleepPreemptive(ns) { (ns += GetRandNumber(GetFaultSleepTime())); Sleep(ns); if (var it = _sleep_list.find(ns); (CXXRewrittenBinaryOperator((!operator==(it, _sleep_list.end()))) && operator->(it).second.Empty())) { _sleep_list.erase(init(it)) } }"

def FiberSched_Schedule : String :=
  "Schedule(fiber) { fiber.SetState(Waiting); _queue.PushBack(cast(fiber)); if ((!_running)) { (_running = true); RunLoop(); (_running = false) } }"

def FiberSched_RescheduleCurrent : String :=
  "RescheduleCurrent() { if ((sCurrent == nullptr)) { return  }; var fiber = sCurrent; GetScheduler()._queue.PushBack(cast(fiber)); fiber.Suspend() }"

def FiberSched_Suspend : String :=
  "Suspend() { var fiber = sCurrent; fiber.Suspend() }"

def FiberThisThread_sleep : String :=
  "sleep_until(sleep_time) { var timeout = duration_cast<std::chrono::nanoseconds>(sleep_time.time_since_epoch()).count(); GetScheduler().Sleep(timeout) }"

def FiberThisThread_sleep_for : String :=
  "sleep_for(sleep_duration) { sleep_until((now() + sleep_duration)) }"

def FaultMutex_lock : String :=
  "lock() { InjectFault(); lock(); InjectFault() }"

def FaultMutex_try_lock : String :=
  "try_lock() { InjectFault(); var r = try_lock(); InjectFault(); return r }"

def FaultMutex_unlock : String :=
  "unlock() { InjectFault(); unlock(); InjectFault() }"

def FaultTimedMutex_try_lock_for : String :=
  "try_lock_for(timeout_duration) { InjectFault(); var r = try_lock_for(timeout_duration); InjectFault(); return r }"

def FaultTimedMutex_try_lock_until : String :=
  "try_lock_until(timeout_time) { InjectFault(); var r = try_lock_until(timeout_time); InjectFault(); return r }"

def FaultSharedMutex_lock_shared : String :=
  "lock_shared() { InjectFault(); lock_shared(); InjectFault() }"

def FaultSharedMutex_try_lock_shared : String :=
  "try_lock_shared() { InjectFault(); var r = try_lock_shared(); InjectFault(); return r }"

def FaultSharedMutex_unlock_shared : String :=
  "unlock_shared() { InjectFault(); unlock_shared(); InjectFault() }"

def FaultSharedTimedMutex_try_lock_for : String :=
  "try_lock_for(timeout_duration) { InjectFault(); var r = try_lock_for(timeout_duration); InjectFault(); return r }"

def FaultSharedTimedMutex_try_lock_shared_for : String :=
  "try_lock_shared_for(timeout_duration) { InjectFault(); var r = try_lock_shared_for(timeout_duration); InjectFault(); return r }"

def FaultCondVar_wait : String :=
  "wait(lock) { var [..] = From(lock); InjectFault(); wait(impl_lock); InjectFault(); (lock = From(mutex, impl_lock)) }"

def FaultCondVar_wait_for : String :=
  "wait_for(lock, rel_time) { var [..] = From(lock); InjectFault(); var r = wait_for(impl_lock, rel_time); InjectFault(); (lock = From(mutex, impl_lock)); return CVStatusFrom(r) } || wait_for(lock, rel_time, stop_waiting) { var [..] = From(lock); InjectFault(); var r = wait_for(impl_lock, rel_time, forward(stop_waiting)); InjectFault(); (lock = From(mutex, impl_lock)); return r }"

def FaultCondVar_notify_one : String :=
  "notify_one() { InjectFault(); notify_one(); InjectFault() }"

def FaultCondVar_notify_all : String :=
  "notify_all() { InjectFault(); notify_all(); InjectFault() }"

def FaultMutex_GetImpl : String :=
  "GetImpl() { return (*this) }"

def FaultSharedTimedMutex_try_lock_until : String :=
  "try_lock_until(timeout_time) { InjectFault(); var r = try_lock_until(timeout_time); InjectFault(); return r }"

def FaultSharedTimedMutex_try_lock_shared_until : String :=
  "try_lock_shared_until(timeout_time) { InjectFault(); var r = try_lock_shared_until(timeout_time); InjectFault(); return r }"

def FaultCondVar_wait_pred : String :=
  "wait(lock, stop_waiting) { var [..] = From(lock); InjectFault(); wait(impl_lock, forward(stop_waiting)); InjectFault(); (lock = From(mutex, impl_lock)) }"

def FaultCondVar_wait_until : String :=
  "wait_until(lock, timeout_time) { var [..] = From(lock); InjectFault(); var r = wait_until(impl_lock, timeout_time); InjectFault(); (lock = From(mutex, impl_lock)); return CVStatusFrom(r) } || wait_until(lock, timeout_time, stop_waiting) { var [..] = From(lock); InjectFault(); var r = wait_until(impl_lock, timeout_time, forward(stop_waiting)); InjectFault(); (lock = From(mutex, impl_lock)); return r }"

def FaultCondVar_From_lock : String :=
  "From(lock) { var mutex = lock.release(); return init(mutex, init(mutex.GetImpl(), init(adopt_lock))) }"

def FaultCondVar_From_pair : String :=
  "From(mutex, lock_impl) { operator=(ignore, lock_impl.release()); return init((*mutex), init(adopt_lock)) }"

def FaultCondVar_CVStatusFrom_wait : String :=
  "CVStatusFrom(status) { return ((status == Ready) ? no_timeout : timeout) }"

def FaultCondVar_CVStatusFrom_cv : String :=
  "CVStatusFrom(status) { return status }"

def FaultCondVarAny_notify_one : String :=
  "notify_one() { InjectFault(); notify_one(); InjectFault() }"

def FaultCondVarAny_notify_all : String :=
  "notify_all() { InjectFault(); notify_all(); InjectFault() }"

def FaultCondVarAny_wait : String :=
  "wait(lock) { InjectFault(); wait(lock); InjectFault() } || wait(lock, stop_waiting) { InjectFault(); wait(lock, forward(stop_waiting)); InjectFault() }"

def FaultCondVarAny_wait_for : String :=
  "wait_for(lock, rel_time) { InjectFault(); var r = wait_for(lock, rel_time); InjectFault(); return r } || wait_for(lock, rel_time, stop_waiting) { InjectFault(); var r = wait_for(lock, rel_time, forward(stop_waiting)); InjectFault(); return r }"

def FaultCondVarAny_wait_until : String :=
  "wait_until(lock, timeout_time) { InjectFault(); var r = wait_until(lock, timeout_time); InjectFault(); return r } || wait_until(lock, timeout_time, stop_waiting) { InjectFault(); var r = wait_until(lock, timeout_time, forward(stop_waiting)); InjectFault(); return r }"

def Sched_RunLoop : String :=
  "RunLoop() { while (((!_queue.Empty()) || (!_sleep_list.empty()))) { if (_queue.Empty()) { AdvanceTime() }; WakeUpNeeded(); if (_queue.Empty()) { continue }; var next = GetNext(); (sCurrent = next); if ((gHooks.on_resume != nullptr)) { gHooks.on_resume(gHooks.ctx, next.GetId()) }; TickTime(); next.Resume(); if (((next.GetState() == Completed) && (!next.IsThreadAlive()))) { delete(next) } }; (sCurrent = nullptr) }"

def Sched_Schedule : String :=
  "Schedule(fiber) { fiber.SetState(Waiting); _queue.PushBack(cast(fiber)); if ((!_running)) { (_running = true); RunLoop(); (_running = false) } }"

def Sched_GetNext : String :=
  "GetNext() { var next = PollRandomElementFromList(_queue); return cast(cast(next)) }"

def Sched_RescheduleCurrent : String :=
  "RescheduleCurrent() { if ((sCurrent == nullptr)) { return  }; var fiber = sCurrent; GetScheduler()._queue.PushBack(cast(fiber)); fiber.Suspend() }"

def Sched_Suspend : String :=
  "Suspend() { var fiber = sCurrent; fiber.Suspend() }"

def Sched_Sleep : String :=
  "Sleep(ns) { if ((ns <= GetTimeNs())) { return  }; var sleep_list = operator[](_sleep_list, ns); var fiber = sCurrent; sleep_list.PushBack(cast(fiber)); Suspend() }"

def Sched_SleepPreemptive : String :=
  "SleepPreemptive(ns) { (ns += GetRandNumber(GetFaultSleepTime())); Sleep(ns); if (var it = _sleep_list.find(ns); (CXXRewrittenBinaryOperator((!operator==(it, _sleep_list.end()))) && operator->(it).second.Empty())) { _sleep_list.erase(init(it)) } }"

def Sched_WakeUpNeeded : String :=
  "WakeUpNeeded() { var iter_to_remove = _sleep_list.end(); for (var it = _sleep_list.begin(); CXXRewrittenBinaryOperator((!operator==(it, _sleep_list.end()))); operator++(it, 0)) { if ((operator->(it).first > _time)) { operator=(iter_to_remove, it); break }; _queue.PushAll(move(operator->(it).second)) }; if (CXXRewrittenBinaryOperator((!operator==(iter_to_remove, _sleep_list.begin())))) { _sleep_list.erase(init(_sleep_list.begin()), init(iter_to_remove)) } }"

def Sched_AdvanceTime : String :=
  "AdvanceTime() { if ((operator->(_sleep_list.begin()).first >= _time)) { var min_sleep_time = (operator->(_sleep_list.begin()).first - _time); (_time += min_sleep_time) } }"

def Sched_TickTime : String :=
  "TickTime() { (_time += sTickLength) }"

def Sched_GetTimeNs : String :=
  "GetTimeNs() { return _time }"

def Sched_PollRandomElementFromList : String :=
  "PollRandomElementFromList(list) { if ((gHooks.pick != nullptr)) { var n = 0; if (var first = list.GetElement(0, false); (first != nullptr)) { var last = list.GetElement(0, true); (n = 1); for (var node = first; (node != last); (node = node.next)) { (++n) } }; if ((n != 0)) { if (var r = gHooks.pick(gHooks.ctx, n); (r >= 0)) { var chosen = list.GetElement(cast(r), false); chosen.Erase(); return chosen } } }; var rand_pos = GetRandNumber((2 * sRandomListPick)); var reversed = false; if ((rand_pos >= sRandomListPick)) { (reversed = true); (rand_pos -= sRandomListPick) }; var next = list.GetElement(rand_pos, reversed); next.Erase(); return next }"

def Sched_BiList_PushBack : String :=
  "PushBack(node) { (node.next = (&_head)); (_head.prev.next = node); (node.prev = _head.prev); (_head.prev = node) }"

def Sched_BiList_PushAll : String :=
  "PushAll(other) { if (((this == (&other)) || other.Empty())) { return  }; (_head.prev.next = exchange(other._head.next, (&other._head))); (_head.prev.next.prev = _head.prev); (_head.prev = exchange(other._head.prev, (&other._head))); (_head.prev.next = (&_head)) }"

def Sched_BiList_PopBack : String :=
  "PopBack() { var elem = _head.prev; elem.Erase(); return elem }"

def Sched_BiList_Empty : String :=
  "Empty() { return (_head.next == (&_head)) }"

def Sched_BiList_GetElement : String :=
  "GetElement(ind, reversed) { var i = 0; var node = init(); if (reversed) { (node = _head.prev) } else { (node = _head.next) }; while ((i != ind)) { if ((node == (&_head))) { break }; (++i); if (reversed) { (node = node.prev) } else { (node = node.next) } }; if (((i == ind) && (node != (&_head)))) { return node }; var size = i; if ((size == 0)) { return nullptr }; (i = (reversed ? ((size - (ind % size)) % size) : (ind % size))); if ((i < (size / 2))) { var current_i = 0; (node = _head.next); while ((current_i < i)) { (node = node.next); (current_i++) } } else { var current_i = (size - 1); (node = _head.prev); while ((current_i > i)) { (node = node.prev); (current_i--) } }; return node }"

def Sched_BiList_MoveAssign : String :=
  "operator=(other) { if ((this == (&other))) { return (*this) }; if (other.Empty()) { (_head.next = (&_head)); (_head.prev = (&_head)); return (*this) }; (_head.next = exchange(other._head.next, (&other._head))); (_head.prev = exchange(other._head.prev, (&other._head))); (_head.next.prev = (&_head)); (_head.prev.next = (&_head)); return (*this) }"

def Sched_Node_Erase : String :=
  "Erase() { if (((next == nullptr) || (prev == nullptr))) { return false }; var prev_node = prev; var next_node = next; (prev_node.next = next_node); (next_node.prev = prev_node); (next = nullptr); (prev = nullptr); return true }"

def Sched_Queue_Wait : String :=
  "Wait(_) { var fiber = Current(); _queue.PushBack(cast(fiber)); OnSync(this, kPark, 0); Suspend(); OnSync(this, kWake, 0); return Ready }"

def Sched_Queue_WaitTimed : String :=
  "Wait(duration) { return Wait((duration + now())) } || Wait(time_point) { var fiber = Current(); var queue_node = cast(fiber); _queue.PushBack(queue_node); OnSync(this, kParkTimed, 0); var scheduler = GetScheduler(); scheduler.SleepPreemptive(duration_cast<std::chrono::nanoseconds>(time_point.time_since_epoch()).count()); var res = queue_node.Erase(); OnSync(this, kWake, (res ? 1 : 0)); return (res ? Timeout : Ready) }"

def Sched_Queue_NotifyOne : String :=
  "NotifyOne() { OnSync(this, kNotifyOne, (_queue.Empty() ? 0 : 1)); if (_queue.Empty()) { return  }; var fiber = cast(cast(PollRandomElementFromList(_queue))); ScheduleAndRemove(fiber) }"

def Sched_Queue_NotifyAll : String :=
  "NotifyAll() { OnSync(this, kNotifyAll, (_queue.Empty() ? 0 : 1)); var all = init(move(_queue)); operator=(_queue, init()); while ((!all.Empty())) { var fiber = cast(cast(all.PopBack())); ScheduleAndRemove(fiber) } }"

def Sched_Queue_ScheduleAndRemove : String :=
  "ScheduleAndRemove(node) { if ((node.GetState() != Waiting)) { cast(node).Erase(); GetScheduler().Schedule(node) } }"

def Sched_Thread_join : String :=
  "join() { if ((_impl == nullptr)) { throw(init(make_error_code(no_such_process))) }; if ((!joinable())) { throw(init(make_error_code(resource_deadlock_would_occur))) }; while ((_impl.GetState() != Completed)) { _impl.SetJoiningFiber(Current()); Suspend() }; AfterJoinOrDetach() }"

def Sched_FiberBase_Exit : String :=
  "Exit() { (_state = Completed); if (((_joining_fiber != nullptr) && _thread_alive)) { ScheduleFiber(_joining_fiber) }; _context.Exit(_caller_context) }"

def Sched_ScheduleFiber : String :=
  "ScheduleFiber(fiber) { GetScheduler().Schedule(fiber) }"

def Sched_SystemClock_now : String :=
  "now() { return init(init(GetScheduler().GetTimeNs())) }"

def Sched_this_thread_sleep : String :=
  "sleep_until(sleep_time) { var timeout = duration_cast<std::chrono::nanoseconds>(sleep_time.time_since_epoch()).count(); GetScheduler().Sleep(timeout) }"

def Sched_this_thread_sleep_for : String :=
  "sleep_for(sleep_duration) { sleep_until((now() + sleep_duration)) }"

def Fault_InjectFault : String :=
  "InjectFault() { GetInjector().MaybeInject() }"

def Fault_MaybeInject : String :=
  "MaybeInject() { if (NeedInject()) { (++sInjectedCount); yield() } }"

def Fault_NeedInject : String :=
  "NeedInject() { if (_pause) { return false }; if ((gHooks.preempt != nullptr)) { var others = 1; var scheduler = GetScheduler(); (others = ((((Current() != nullptr) && (scheduler != nullptr)) && scheduler.HasOthers()) ? 1 : 0)); if (var r = gHooks.preempt(gHooks.ctx, others); (r >= 0)) { return (r != 0) } }; if ((_count.fetch_add(1, rlx) >= sYieldFrequency)) { Reset(); return true }; return false }"

def Fault_Reset : String :=
  "Reset() { operator=(_count, cast(GetRandNumber(sYieldFrequency))) }"

def Fault_GetState : String :=
  "GetState() { return _count.load(rlx) }"

def Fault_SetState : String :=
  "SetState(state) { _count.store(state, rlx) }"

def Fault_SetSeed : String :=
  "SetSeed(new_seed) { (sSeed = new_seed); eng.seed(new_seed); (sRandCount = 0) }"

def Fault_GetRandNumber : String :=
  "GetRandNumber(max) { (sRandCount++); if ((gHooks.rand != nullptr)) { if (var r = gHooks.rand(gHooks.ctx, max); (r >= 0)) { return cast(r) } }; return (operator()(eng) % max) }"

def Fault_GetRandCount : String :=
  "GetRandCount() { return sRandCount }"

def Fault_ForwardToRandCount : String :=
  "ForwardToRandCount(random_count) { for (var i = 0; (i != random_count); (++i)) { GetRandNumber(1) } }"

def Fault_ShouldFailAtomicWeak : String :=
  "ShouldFailAtomicWeak() { if ((gHooks.fail_weak != nullptr)) { if (var r = gHooks.fail_weak(gHooks.ctx); (r >= 0)) { return (r != 0) } }; var freq = sAtomicFailFrequency; return ((freq != 0) && (GetRandNumber(freq) == 0)) }"

def Fault_cfg_ForwardToFaultRandomCount : String :=
  "ForwardToFaultRandomCount(random_count) { return ForwardToRandCount(random_count) }"

def Fault_cfg_GetFaultRandomCount : String :=
  "GetFaultRandomCount() { return GetRandCount() }"

def Fault_cfg_SetInjectorState : String :=
  "SetInjectorState(state) { GetInjector().SetState(state) }"

def Fault_cfg_GetInjectorState : String :=
  "GetInjectorState() { return GetInjector().GetState() }"

def Fault_cfg_SetSeed : String :=
  "SetSeed(seed) { SetSeed(seed) }"

def Core_Call : String :=
  "Call() { ifc (IsRun(Type)) { ifc (is_invocable_v) { Loop(this, CallImpl<false>(cast(init()))) } else { Loop(this, CallImpl<false>(init(init(cast(init()))))) } } else { var core = DownCast<ResultCore<Arg,E>>((*_self.caller)); Loop(this, CallImpl<false>(core.MoveOrConst<IsFromUnique(Type)>())) } }"

def Core_Drop : String :=
  "Drop() { Loop(this, CallImpl<false>(init(init(cast(init()))))) }"

def Core_Impl : String :=
  "Impl(caller) { var async_done = lambda{ var AsyncShared = (kAsync == Shared); var core = DownCast<ResultCore<Ret,E>>((*_self.caller)); return Done<SymmetricTransfer,true>(core.MoveOrConst<!AsyncShared>()) }; ifc (IsRun(Type)) { ifc ((kAsync != None)) { if (operator!=(_self.caller, nullptr)) { return async_done() } }; _executor.Submit((*this)); return Noop<SymmetricTransfer>() } else { ifc ((kAsync != None)) { if (operator!=(_self.unwrapping, 0)) { return async_done() } }; (_self.caller = (&caller)); DownCast<BaseCore>(caller).TransferExecutorTo<IsFromShared(Type)>((*this)); ifc ((IsFromShared(Type) && (IsCall(Type) || (kAsync != None)))) { caller.IncRef() }; ifc (IsCall(Type)) { _executor.Submit((*this)); return Noop<SymmetricTransfer>() } else { var core = DownCast<ResultCore<Arg,E>>(caller); return CallImpl<SymmetricTransfer>(core.MoveOrConst<IsFromUnique(Type)>()) } } }"

def Core_Here : String :=
  "Here(caller) { return Impl<false>(caller) }"

def Core_CallImpl : String :=
  "CallImpl(r) try { ifc ((is_same_v || is_invocable_v)) { return CallResolveAsync<SymmetricTransfer>(forward<T>(r)) } else { return CallResolveState<SymmetricTransfer>(forward<T>(r)) } } catch(...) { return Done<SymmetricTransfer>(current_exception()) }"

def Core_Done : String :=
  "Done(value) { var caller = _self.caller; Store(forward<T>(value)); ifc ((((!IsRun(Type)) && ((IsFromUnique(Type) || IsCall(Type)) || (kAsync != None))) || Async)) { caller.DecRef() }; ifc ((!Async)) { _func.storage.~()() }; return SetResult<SymmetricTransfer>() }"

def Core_CallResolveState : String :=
  "CallResolveState(r) { var state = r.State(); ifc ((is_invocable_v || (is_void_v && is_invocable_v))) { if (operator==(state, Value)) { return CallResolveAsync<SymmetricTransfer>(forward<Result>(r).Value()) } else if (operator==(state, Exception)) { return Done<SymmetricTransfer>(forward<Result>(r).Exception()) } else { return Done<SymmetricTransfer>(forward<Result>(r).Error()) } } else { var kIsException = is_invocable_v; var kIsError = is_invocable_v; decl StaticAssertDecl; var kState = (kIsException ? Exception : Error); if (operator==(state, kState)) { decl TypeAliasDecl; return CallResolveAsync<SymmetricTransfer>(get<T>(forward<Result>(r).Internal())) }; return Done<SymmetricTransfer>(move(r)) } }"

def Core_CallResolveAsync : String :=
  "CallResolveAsync(value) { ifc ((kAsync != None)) { var async = CallResolveVoid(forward<T>(value)); var core = async.GetCore().Release(); ifc ((!IsRun(Type))) { _self.caller.DecRef(); (_self.unwrapping = 1) }; (_self.caller = core); _func.storage.~()(); ifc (is_task_v) { core.StoreCallback((*this)); return Step<SymmetricTransfer>((*this), (*MoveToCaller(core))) } else { return core.SetInline<SymmetricTransfer>((*this)) } } else { return Done<SymmetricTransfer>(CallResolveVoid(forward<T>(value))) } }"

def Core_CallResolveVoid : String :=
  "CallResolveVoid(value) { var kArgVoid = is_invocable_v; var kRetVoid = is_void_v; ifc (kRetVoid) { ifc (kArgVoid) { forward<Invoke>(_func.storage)() } else { forward<Invoke>(_func.storage)(forward<T>(value)) }; return cast(init()) } else ifc (kArgVoid) { return forward<Invoke>(_func.storage)() } else { return forward<Invoke>(_func.storage)(forward<T>(value)) } }"

def Core_ctor : String :=
  "Core<Ret, Arg, E, Func, Type, kAsync>(f) { (_self = init()) }"

def Core_Tag : String :=
  "Tag() { ifc (is_invocable_v) { return 1 } else ifc (is_invocable_v) { return 2 } else ifc (is_invocable_v) { return 3 } else ifc (is_invocable_v) { return 4 } else ifc (is_invocable_v) { return 5 } else { return 0 } }"

def MakeCore : String :=
  "MakeCore(f) { decl StaticAssertDecl; decl TypeAliasDecl; decl StaticAssertDecl; decl TypeAliasDecl; decl TypeAliasDecl; var kAsync = lambda{ ifc ((is_future_base_v || is_task_v)) { return Unique } else ifc (is_shared_future_base_v) { return Shared } else { return None } }(); decl TypeAliasDecl; ifc (IsToShared(CoreT)) { return MakeShared<Core>(kSharedRefWithFuture, forward<Func>(f)).Release() } else { return MakeUnique<Core>(forward<Func>(f)).Release() } }"

def MoveToCaller : String :=
  "MoveToCaller(head) { while ((head.next != nullptr)) { var next = cast(head.next); (head.next = nullptr); (head = next) }; return head }"

def InlineCore_Loop : String :=
  "Loop(prev, curr) { while ((curr != nullptr)) { var next = curr.Here((*prev)); (prev = curr); (curr = next) } }"

def InlineCore_Step : String :=
  "Step(caller, callback) { ifc (SymmetricTransfer) { return callback.Next(caller) } else { return (&callback) } }"

def InlineCore_Noop : String :=
  "Noop() { ifc (SymmetricTransfer) { return cast(init(noop_coroutine().operator coroutine_handle())) } else { return cast(nullptr) } }"

def BaseCore_TransferExecutorTo : String :=
  "TransferExecutorTo(callback) { if ((!callback._executor.operator bool())) { (callback._executor = move_if<!Shared>(_executor)) } }"

def ResultCore_Impl : String :=
  "Impl(caller) { ifc (is_copy_constructible_v) { var ref = caller.GetRef(); if ((ref >= 3)) { ResultCore<V,E>::Store(DownCast<ResultCore<V,E>>(caller).Get()); return BaseCore::SetResultImpl<SymmetricTransfer,Shared>() }; ResultCore<V,E>::Store(move(DownCast<ResultCore<V,E>>(caller).Get())); if ((ref == 1)) { caller.DecRef() }; return BaseCore::SetResultImpl<SymmetricTransfer,Shared>() } else ifc (is_move_constructible_v) { ResultCore<V,E>::Store(move(DownCast<ResultCore<V,E>>(caller).Get())); caller.DecRef(); return BaseCore::SetResultImpl<SymmetricTransfer,Shared>() } else { return Noop<SymmetricTransfer>() } }"

def UniqueCore_Here : String :=
  "Here(caller) { return Impl<false,false>(caller) }"

def FuncCore_ctor : String :=
  "FuncCore<Func>(f) { new(init(forward<Func>(f)), (&_func.storage)) }"

def PromiseCore_Call : String :=
  "Call() { var promise = init(init(init(cast(init()), this))); try { decl StaticAssertDecl; var func = move(_func.storage); _func.storage.~()(); forward<Invoke>(func)(move(promise)) } catch(...) { if (promise.Valid()) { move(promise).Set(current_exception()) } else {  } } }"

def PromiseCore_Drop : String :=
  "Drop() { _func.storage.~()(); Store(cast(init())); Loop(this, SetResult<false>()) }"

def PromiseCore_Here : String :=
  "Here(_) { _executor.Submit((*this)); return nullptr }"

def ReadyCore_ctor : String :=
  "ReadyCore<V, E>(args) { Store(pack(forward<Args>(args))) }"

def ReadyCore_Call : String :=
  "Call() { Loop(this, SetResult<false>()) }"

def ReadyCore_Drop : String :=
  "Drop() { _result.~()<V,E>(); Store(cast(init())); Call() }"

def ReadyCore_Here : String :=
  "Here(_) { return SetResult<false>() }"

def MakeTask : String :=
  "MakeTask(args) { ifc ((sizeof... == 0)) { decl TypeAliasDecl; return init(init(init(init(MakeUnique<detail::ReadyCore<T,E>>(in_place))))) } else ifc (is_same_v) { decl TypeAliasDecl; decl TypeAliasDecl; return init(init(init(init(MakeUnique<detail::ReadyCore<T,E>>(in_place, pack(forward<Args>(args))))))) } else { return init(init(init(init(MakeUnique<detail::ReadyCore<V,E>>(pack(forward<Args>(args))))))) } }"

def MakeFuture : String :=
  "MakeFuture(args) { ifc ((sizeof... == 0)) { decl TypeAliasDecl; return init(init(init(init(MakeUnique<detail::UniqueCore<T,E>>(in_place))))) } else ifc (is_same_v) { decl TypeAliasDecl; decl TypeAliasDecl; return init(init(init(init(MakeUnique<detail::UniqueCore<T,E>>(in_place, pack(forward<Args>(args))))))) } else { return init(init(init(init(MakeUnique<detail::UniqueCore<V,E>>(pack(forward<Args>(args))))))) } }"

def MakeContract : String :=
  "MakeContract() { var core = MakeUnique<detail::UniqueCore<V,E>>(); var future = init(init(init(cast(init()), core.Get()))); var promise = init(init(init(cast(init()), core.Release()))); return init(move(future), move(promise)) }"

def MakeContractOn : String :=
  "MakeContractOn(e) { var core = MakeUnique<detail::UniqueCore<V,E>>(); e.IncRef(); core._executor.Reset(cast(init()), (&e)); var future = init(init(init(cast(init()), core.Get()))); var promise = init(init(init(cast(init()), core.Release()))); return init(move(future), move(promise)) }"

def detail_Run : String :=
  "Run(e, f) { var core = lambda{ ifc (is_same_v) { var CoreT = operator|(operator|(Run, Call), ToUnique); return MakeCore<CoreT,void,E>(forward<Func>(f)) } else { return MakeUnique<PromiseCore<V,E,Func&&,false>>(forward<Func>(f)).Release() } }(); e.IncRef(); core._executor.Reset(cast(init()), (&e)); e.Submit((*core)); decl TypeAliasDecl; return init(init(init(init(cast(init()), core)))) }"

def detail_Schedule : String :=
  "Schedule(e, f) { var core = lambda{ ifc (is_same_v) { var CoreT = operator|(operator|(Run, Call), ToUnique); return MakeCore<CoreT,void,E>(forward<Func>(f)) } else { return MakeUnique<PromiseCore<V,E,Func&&,false>>(forward<Func>(f)).Release() } }(); e.IncRef(); core._executor.Reset(cast(init()), (&e)); decl TypeAliasDecl; return init(init(init(init(cast(init()), core)))) }"

def Task_Start : String :=
  "Start(head, e) { (head = MoveToCaller(head)); operator=(head._executor, (&e)); e.Submit((*head)) } || Start(head) { (head = MoveToCaller(head)); operator->(head._executor).Submit((*head)) }"

def Task_dtor : String :=
  "~Task<V, E>() { if ((Valid() && (!Ready()))) { move((*this)).Cancel() } }"

def CoSrc_await_hpp : String :=
  "#pragma once #include <yaclib/async/future.hpp> #include <yaclib/coro/await_inline.hpp> #include <yaclib/coro/coro.hpp> #include <yaclib/coro/detail/await_awaiter.hpp> #include <yaclib/util/type_traits.hpp> namespace yaclib { template <typename V, typename E> YACLIB_INLINE auto Await(Task<V, E>& task) noexcept { YACLIB_ASSERT(task.Valid()); return detail::TransferAwaiter{UpCast<detail::BaseCore>(*task.GetCore())}; } template <typename Waited, typename = std::enable_if_t<is_waitable_v<Waited>>> YACLIB_INLINE auto Await(Waited& waited) noexcept { return AwaitInline(waited); } template <typename... Waited, typename = std::enable_if_t<(... && is_waitable_v<Waited>)>> YACLIB_INLINE auto Await(Waited&... waited) noexcept { return AwaitInline(waited...); } template <typename Iterator, typename Value = typename std::iterator_traits<Iterator>::value_type, typename = std::enable_if_t<is_waitable_v<Value>>> YACLIB_INLINE auto Await(Iterator begin, std::size_t count) noexcept { return AwaitInline(begin, count); } template <typename Iterator, typename = std::enable_if_t<is_waitable_v<typename std::iterator_traits<Iterator>::value_type>>> YACLIB_INLINE auto Await(Iterator begin, Iterator end) noexcept { return AwaitInline(begin, end); } template <typename V, typename E> YACLIB_INLINE auto operator co_await(FutureBase<V, E>&& future) noexcept { YACLIB_ASSERT(future.Valid()); return detail::AwaitSingleAwaiter<false, V, E>{std::move(future.GetCore())}; } template <typename V, typename E> YACLIB_INLINE auto operator co_await(const SharedFutureBase<V, E>& future) noexcept { YACLIB_ASSERT(future.Valid()); return detail::AwaitSingleAwaiter<true, V, E>{future.GetCore()}; } template <typename V, typename E> YACLIB_INLINE auto operator co_await(Task<V, E>&& task) noexcept { YACLIB_ASSERT(task.Valid()); return detail::TransferSingleAwaiter{std::move(task.GetCore())}; } }"

def CoSrc_await_inline_hpp : String :=
  "#pragma once #include <yaclib/async/future.hpp> #include <yaclib/coro/coro.hpp> #include <yaclib/coro/detail/await_awaiter.hpp> #include <yaclib/util/type_traits.hpp> namespace yaclib { template <typename Waited, typename = std::enable_if_t<is_waitable_v<Waited>>> YACLIB_INLINE auto AwaitInline(Waited& waited) noexcept { YACLIB_ASSERT(waited.Valid()); return detail::AwaitAwaiter<typename Waited::Handle, false>{waited.GetHandle()}; } template <typename... Waited, typename = std::enable_if_t<(... && is_waitable_v<Waited>)>> YACLIB_INLINE auto AwaitInline(Waited&... waited) noexcept { using namespace detail; static constexpr auto kSharedCount = kCount<SharedHandle, typename Waited::Handle...>; using Awaiter = std::conditional_t<kSharedCount == 0, MultiAwaitAwaiter<AwaitEvent<false>>, MultiAwaitAwaiter<StaticSharedEvent<AwaitEvent<false>, kSharedCount>>>; YACLIB_ASSERT(... && waited.Valid()); return Awaiter{waited.GetHandle()...}; } template <typename Iterator, typename Value = typename std::iterator_traits<Iterator>::value_type, typename = std::enable_if_t<is_waitable_v<Value>>> YACLIB_INLINE auto AwaitInline(Iterator begin, std::size_t count) noexcept { using namespace detail; static constexpr auto kShared = std::is_same_v<typename Value::Handle, SharedHandle>; using Awaiter = std::conditional_t<kShared, MultiAwaitAwaiter<DynamicSharedEvent<AwaitEvent<false>>>, MultiAwaitAwaiter<AwaitEvent<false>>>; return Awaiter{begin, count}; } template <typename Iterator, typename = std::enable_if_t<is_waitable_v<typename std::iterator_traits<Iterator>::value_type>>> YACLIB_INLINE auto AwaitInline(Iterator begin, Iterator end) noexcept { return AwaitInline(begin, static_cast<std::size_t>(end - begin)); } }"

def CoSrc_await_on_hpp : String :=
  "#pragma once #include <yaclib/async/future.hpp> #include <yaclib/coro/coro.hpp> #include <yaclib/coro/detail/await_on_awaiter.hpp> #include <yaclib/util/type_traits.hpp> namespace yaclib { template <typename Waited, typename = std::enable_if_t<is_waitable_v<Waited>>> YACLIB_INLINE auto AwaitOn(IExecutor& e, Waited& waited) noexcept { YACLIB_ASSERT(waited.Valid()); return detail::AwaitOnAwaiter{e, waited.GetHandle()}; } template <typename... Waited, typename = std::enable_if_t<(... && is_waitable_v<Waited>)>> YACLIB_INLINE auto AwaitOn(IExecutor& e, Waited&... waited) noexcept { using namespace detail; static constexpr auto kSharedCount = kCount<SharedHandle, typename Waited::Handle...>; using CoreEvent = AwaitOnEvent<false>; using Event = std::conditional_t<kSharedCount == 0, CoreEvent, StaticSharedEvent<CoreEvent, kSharedCount>>; YACLIB_ASSERT(... && waited.Valid()); return MultiAwaitOnAwaiter<Event>{e, waited.GetHandle()...}; } template <typename Iterator, typename Value = typename std::iterator_traits<Iterator>::value_type, typename = std::enable_if_t<is_waitable_v<Value>>> YACLIB_INLINE auto AwaitOn(IExecutor& e, Iterator begin, std::size_t count) noexcept { using namespace detail; static constexpr auto kShared = std::is_same_v<typename Value::Handle, SharedHandle>; using CoreEvent = AwaitOnEvent<false>; using Event = std::conditional_t<kShared, DynamicSharedEvent<CoreEvent>, CoreEvent>; return MultiAwaitOnAwaiter<Event>{e, begin, count}; } template <typename Iterator, typename = std::enable_if_t<is_waitable_v<typename std::iterator_traits<Iterator>::value_type>>> YACLIB_INLINE auto AwaitOn(IExecutor& e, Iterator begin, Iterator end) noexcept { return AwaitOn(e, begin, static_cast<std::size_t>(end - begin)); } }"

def CoSrc_await_sticky_hpp : String :=
  "#pragma once #include <yaclib/async/future.hpp> #include <yaclib/coro/coro.hpp> #include <yaclib/coro/detail/await_awaiter.hpp> #include <yaclib/util/type_traits.hpp> namespace yaclib { template <typename Waited, typename = std::enable_if_t<is_waitable_v<Waited>>> YACLIB_INLINE auto AwaitSticky(Waited& waited) noexcept { YACLIB_ASSERT(waited.Valid()); return detail::AwaitAwaiter<typename Waited::Handle, true>{waited.GetHandle()}; } template <typename... Waited, typename = std::enable_if_t<(... && is_waitable_v<Waited>)>> YACLIB_INLINE auto AwaitSticky(Waited&... waited) noexcept { using namespace detail; static constexpr auto kSharedCount = kCount<SharedHandle, typename Waited::Handle...>; using Awaiter = std::conditional_t<kSharedCount == 0, MultiAwaitAwaiter<AwaitEvent<true>>, MultiAwaitAwaiter<StaticSharedEvent<AwaitEvent<true>, kSharedCount>>>; YACLIB_ASSERT(... && waited.Valid()); return Awaiter{waited.GetHandle()...}; } template <typename Iterator, typename Value = typename std::iterator_traits<Iterator>::value_type, typename = std::enable_if_t<is_waitable_v<Value>>> YACLIB_INLINE auto AwaitSticky(Iterator begin, std::size_t count) noexcept { using namespace detail; static constexpr auto kShared = std::is_same_v<typename Value::Handle, SharedHandle>; using Awaiter = std::conditional_t<kShared, MultiAwaitAwaiter<DynamicSharedEvent<AwaitEvent<true>>>, MultiAwaitAwaiter<AwaitEvent<true>>>; return Awaiter{begin, count}; } template <typename Iterator, typename = std::enable_if_t<is_waitable_v<typename std::iterator_traits<Iterator>::value_type>>> YACLIB_INLINE auto AwaitSticky(Iterator begin, Iterator end) noexcept { return AwaitSticky(begin, static_cast<std::size_t>(end - begin)); } }"

def CoSrc_await_awaiter_hpp : String :=
  "#pragma once #include <yaclib/algo/detail/inline_core.hpp> #include <yaclib/algo/detail/shared_event.hpp> #include <yaclib/async/future.hpp> #include <yaclib/coro/coro.hpp> #include <yaclib/lazy/task.hpp> #include <yaclib/util/detail/atomic_counter.hpp> #include <yaclib/util/type_traits.hpp> namespace yaclib::detail { struct [[nodiscard]] TransferAwaiter final { explicit TransferAwaiter(BaseCore& caller) noexcept : _caller{caller} { YACLIB_ASSERT(caller.Empty()); } constexpr bool await_ready() const noexcept { return false; } template <typename Promise> YACLIB_INLINE auto await_suspend(yaclib_std::coroutine_handle<Promise> handle) noexcept { _caller.StoreCallback(handle.promise()); auto* next = MoveToCaller(&_caller.core); #if YACLIB_SYMMETRIC_TRANSFER != 0 return next->Next(handle.promise()); #else return Loop(&handle.promise(), next); #endif } constexpr void await_resume() const noexcept { } private: UniqueHandle _caller; }; template <typename V, typename E> struct [[nodiscard]] TransferSingleAwaiter final { explicit TransferSingleAwaiter(UniqueCorePtr<V, E>&& result) noexcept : _result{std::move(result)} { YACLIB_ASSERT(_result != nullptr); YACLIB_ASSERT(_result->Empty()); } constexpr bool await_ready() const noexcept { return false; } template <typename Promise> YACLIB_INLINE auto await_suspend(yaclib_std::coroutine_handle<Promise> handle) noexcept { _result->StoreCallback(handle.promise()); auto* next = MoveToCaller(_result.Get()); #if YACLIB_SYMMETRIC_TRANSFER != 0 return next->Next(handle.promise()); #else return Loop(&handle.promise(), next); #endif } auto await_resume() { return std::move(_result->Get()).Ok(); } private: UniqueCorePtr<V, E> _result; }; template <typename Handle> struct AwaitAwaiterBase { explicit AwaitAwaiterBase(Handle caller) noexcept : _core{&caller.core} { } YACLIB_INLINE bool await_ready() const noexcept { return _core->Ready(); } constexpr void await_resume() const noexcept { } protected: BaseCore* _core; }; template <typename Handle, bool Sticky> struct [[nodiscard]] AwaitAwaiter; template <typename Handle> struct [[nodiscard]] AwaitAwaiter<Handle, false> final : public AwaitAwaiterBase<Handle> { using AwaitAwaiterBase<Handle>::AwaitAwaiterBase; template <typename Promise> YACLIB_INLINE bool await_suspend(yaclib_std::coroutine_handle<Promise> handle) noexcept { return Handle{*this->_core}.SetCallback(handle.promise()); } }; template <typename Handle> struct [[nodiscard]] AwaitAwaiter<Handle, true> final : public AwaitAwaiterBase<Handle>, public InlineCore { using AwaitAwaiterBase<Handle>::AwaitAwaiterBase; template <typename Promise> YACLIB_INLINE bool await_suspend(yaclib_std::coroutine_handle<Promise> handle) noexcept { auto caller_handle = Handle{*this->_core}; this->_core = &handle.promise(); return caller_handle.SetCallback(*this); } void Call() noexcept final { this->_core->_executor->Submit(*this->_core); } [[nodiscard]] InlineCore* Here(InlineCore& caller) noexcept final { Call(); return nullptr; } #if YACLIB_SYMMETRIC_TRANSFER != 0 [[nodiscard]] yaclib_std::coroutine_handle<> Next(InlineCore& caller) noexcept final { Call(); return Noop<true>(); } #endif }; template <bool Sticky> class AwaitEvent : public InlineCore, public AtomicCounter<NopeBase, NopeDeleter> { public: using AtomicCounter<NopeBase, NopeDeleter>::AtomicCounter; static constexpr auto kShared = false; AwaitEvent& GetCall() noexcept { return *this; } private: template <bool SymmetricTransfer> [[nodiscard]] YACLIB_INLINE auto Impl(InlineCore& caller) noexcept { if (this->SubEqual(1)) { if constexpr (Sticky) { auto* curr = static_cast<BaseCore*>(next); curr->_executor->Submit(*curr); } else { auto* curr = static_cast<InlineCore*>(next); if constexpr (SymmetricTransfer) { return Step<true>(caller, *curr); } else { curr = curr->Here(caller); YACLIB_ASSERT(curr == nullptr); } } } return Noop<SymmetricTransfer>(); } public: [[nodiscard]] InlineCore* Here(InlineCore& caller) noexcept final { return Impl<false>(caller); } #if YACLIB_SYMMETRIC_TRANSFER != 0 [[nodiscard]] yaclib_std::coroutine_handle<> Next(InlineCore& caller) noexcept final { return Impl<true>(caller); } #endif }; template <typename Event> class MultiAwaitAwaiter final : public Event { public: static constexpr auto kShared = Event::kShared; template <typename... Handles> explicit MultiAwaitAwaiter(Handles... handles) noexcept : Event{sizeof...(handles) + 1} { SetCallbacksStatic(*this, handles...); } template <typename It> explicit MultiAwaitAwaiter(It it, std::size_t count) noexcept : Event{count + 1} { SetCallbacksDynamic(*this, it, count); } YACLIB_INLINE bool await_ready() const noexcept { return this->Get(std::memory_order_acquire) == 1; } template <typename Promise> YACLIB_INLINE bool await_suspend(yaclib_std::coroutine_handle<Promise> handle) noexcept { this->next = &handle.promise(); return !this->SubEqual(1); } constexpr void await_resume() const noexcept { } }; template <bool Shared, typename V, typename E> class AwaitSingleAwaiter; template <typename V, typename E> class [[nodiscard]] AwaitSingleAwaiter<false, V, E> final { public: explicit AwaitSingleAwaiter(UniqueCorePtr<V, E>&& result) noexcept : _result{std::move(result)} { YACLIB_ASSERT(_result != nullptr); } YACLIB_INLINE bool await_ready() const noexcept { return _result->Ready(); } template <typename Promise> YACLIB_INLINE bool await_suspend(yaclib_std::coroutine_handle<Promise> handle) noexcept { return _result->SetCallback(handle.promise()); } auto await_resume() { return std::move(_result->Get()).Ok(); } private: UniqueCorePtr<V, E> _result; }; template <typename V, typename E> class [[nodiscard]] AwaitSingleAwaiter<true, V, E> final { public: explicit AwaitSingleAwaiter(SharedCorePtr<V, E> result) noexcept : _result{std::move(result)} { YACLIB_ASSERT(_result != nullptr); } YACLIB_INLINE bool await_ready() const noexcept { return _result->Ready(); } template <typename Promise> YACLIB_INLINE bool await_suspend(yaclib_std::coroutine_handle<Promise> handle) const noexcept { return _result->SetCallback(handle.promise()); } auto await_resume() const { return std::as_const(_result->Get()).Ok(); } private: SharedCorePtr<V, E> _result; }; }"

def CoSrc_await_on_awaiter_hpp : String :=
  "#pragma once #include <yaclib/algo/detail/shared_event.hpp> #include <yaclib/async/future.hpp> #include <yaclib/coro/coro.hpp> #include <yaclib/exe/executor.hpp> #include <yaclib/lazy/task.hpp> #include <yaclib/util/detail/atomic_counter.hpp> #include <yaclib/util/detail/unique_counter.hpp> #include <yaclib/util/type_traits.hpp> namespace yaclib::detail { template <bool Single> using AwaitOnCounterT = std::conditional_t<Single, OneCounter<NopeBase, NopeDeleter>, AtomicCounter<NopeBase, NopeDeleter>>; template <bool Single> class AwaitOnEvent : public InlineCore, public AwaitOnCounterT<Single> { public: static constexpr auto kShared = false; AwaitOnEvent& GetCall() noexcept { return *this; } explicit AwaitOnEvent(std::size_t n) noexcept : AwaitOnCounterT<Single>{n} { } [[nodiscard]] InlineCore* Here(InlineCore& caller) noexcept final { return Impl<false>(caller); } #if YACLIB_SYMMETRIC_TRANSFER != 0 [[nodiscard]] yaclib_std::coroutine_handle<> Next(InlineCore& caller) noexcept final { return Impl<true>(caller); } #endif protected: BaseCore* job{nullptr}; private: template <bool SymmetricTransfer> [[nodiscard]] YACLIB_INLINE auto Impl(InlineCore& ) noexcept { if constexpr (Single) { job->_executor->Submit(*job); } else { if (this->SubEqual(1)) { YACLIB_ASSERT(job != nullptr); job->_executor->Submit(*job); } } return Noop<SymmetricTransfer>(); } }; template <typename Handle> struct [[nodiscard]] AwaitOnAwaiter final : AwaitOnEvent<false> { explicit AwaitOnAwaiter(IExecutor& e, Handle caller) noexcept : AwaitOnEvent<false>{1}, _executor{e} { job = &caller.core; } constexpr bool await_ready() const noexcept { return false; } template <typename Promise> YACLIB_INLINE void await_suspend(yaclib_std::coroutine_handle<Promise> handle) noexcept { auto& core = handle.promise(); core._executor = &_executor; Handle caller_handle{*job}; job = &core; if (!caller_handle.SetCallback(*this)) { _executor.Submit(core); } } constexpr void await_resume() const noexcept { } private: IExecutor& _executor; }; template <typename Event> class [[nodiscard]] MultiAwaitOnAwaiter final : public Event { public: static constexpr auto kShared = Event::kShared; template <typename... Handles> explicit MultiAwaitOnAwaiter(IExecutor& e, Handles... handles) noexcept : Event{sizeof...(handles) + 1}, _executor{e} { SetCallbacksStatic(*this, handles...); } template <typename It> explicit MultiAwaitOnAwaiter(IExecutor& e, It it, std::size_t count) noexcept : Event{count + 1}, _executor{e} { SetCallbacksDynamic(*this, it, count); } constexpr bool await_ready() const noexcept { return false; } template <typename Promise> YACLIB_INLINE void await_suspend(yaclib_std::coroutine_handle<Promise> handle) noexcept { auto& core = handle.promise(); core._executor = &_executor; this->job = &core; if (this->SubEqual(1)) { _executor.Submit(core); } } constexpr void await_resume() const noexcept { } private: IExecutor& _executor; }; }"

def CoSrc_shared_event_hpp : String :=
  "#pragma once #include <yaclib/algo/detail/base_core.hpp> #include <yaclib/algo/detail/inline_core.hpp> #if YACLIB_CORO != 0 # include <yaclib/coro/coro.hpp> #endif #include <array> #include <vector> namespace yaclib::detail { template <typename Event> struct EventHelperCallback final : InlineCore { EventHelperCallback() = default; EventHelperCallback(Event* event) : event{event} { } [[nodiscard]] InlineCore* Here(InlineCore& caller) noexcept { return event->GetCall().Here(caller); } #if YACLIB_SYMMETRIC_TRANSFER != 0 [[nodiscard]] yaclib_std::coroutine_handle<> Next(InlineCore& caller) noexcept final { return event->GetCall().Next(caller); } #endif Event* event; }; template <typename Event, std::size_t SharedCount> struct StaticSharedEvent : public Event { static constexpr bool kShared = true; explicit StaticSharedEvent(std::size_t total_count) : Event{total_count} { callbacks.fill(this); } std::array<EventHelperCallback<Event>, SharedCount> callbacks; }; template <typename Event> struct DynamicSharedEvent : public Event { static constexpr bool kShared = true; explicit DynamicSharedEvent(std::size_t total_count) : Event{total_count}, callbacks{total_count - 1, this} { } std::vector<EventHelperCallback<Event>> callbacks; }; template <typename Event, typename... Handles> void SetCallbacksStatic(Event& event, Handles... handles) { static_assert(sizeof...(handles) >= 2, \"Number of futures must be at least two\"); const auto wait_count = [&] { if constexpr (!Event::kShared) { auto setter = [&](auto handle) { return handle.SetCallback(event); }; return (... + static_cast<std::size_t>(setter(handles))); } else { auto setter = [&, callback_count = std::size_t{}](auto handle) mutable { if constexpr (std::is_same_v<decltype(handle), UniqueHandle>) { return handle.SetCallback(event); } else { return handle.SetCallback(event.callbacks[callback_count++]); } }; return (... + static_cast<std::size_t>(setter(handles))); } }(); event.count.fetch_sub(sizeof...(handles) - wait_count, std::memory_order_relaxed); } template <typename Event, typename It> void SetCallbacksDynamic(Event& event, It it, std::size_t count) { std::size_t wait_count = 0; for (std::size_t i = 0; i != count; ++i) { YACLIB_ASSERT(it->Valid()); if constexpr (std::is_same_v<decltype(it->GetHandle()), UniqueHandle>) { wait_count += static_cast<std::size_t>(it->GetHandle().SetCallback(event)); } else { wait_count += static_cast<std::size_t>(it->GetHandle().SetCallback(event.callbacks[i])); } ++it; } event.count.fetch_sub(count - wait_count, std::memory_order_relaxed); } }"

def CoSrc_wait_event_hpp : String :=
  "#pragma once #include <yaclib/algo/detail/inline_core.hpp> #include <yaclib/algo/detail/shared_event.hpp> #include <yaclib/util/cast.hpp> #include <yaclib/util/detail/set_deleter.hpp> namespace yaclib::detail { template <typename Derived> struct CallCallback : InlineCore { CallCallback& GetCall() noexcept { return *this; } private: template <bool SymmetricTransfer> [[nodiscard]] YACLIB_INLINE auto Impl() noexcept { DownCast<Derived>(*this).Sub(1); return Noop<SymmetricTransfer>(); } public: [[nodiscard]] InlineCore* Here(InlineCore& ) noexcept final { return Impl<false>(); } #if YACLIB_SYMMETRIC_TRANSFER != 0 [[nodiscard]] yaclib_std::coroutine_handle<> Next(InlineCore& ) noexcept final { return Impl<true>(); } #endif }; template <typename Derived> struct DropCallback : InlineCore { DropCallback& GetDrop() noexcept { return *this; } private: template <bool SymmetricTransfer> [[nodiscard]] YACLIB_INLINE auto Impl(InlineCore& caller) noexcept { caller.DecRef(); DownCast<Derived>(*this).Sub(1); return Noop<SymmetricTransfer>(); } public: [[nodiscard]] InlineCore* Here(InlineCore& caller) noexcept final { return Impl<false>(caller); } #if YACLIB_SYMMETRIC_TRANSFER != 0 [[nodiscard]] yaclib_std::coroutine_handle<> Next(InlineCore& caller) noexcept final { return Impl<true>(caller); } #endif }; template <typename Event, template <typename...> typename Counter, template <typename...> typename... Callbacks> struct MultiEvent : Counter<Event, SetDeleter>, Callbacks<MultiEvent<Event, Counter, Callbacks...>>... { static constexpr bool kShared = false; using Counter<Event, SetDeleter>::Counter; }; }"

def CoSrc_wait_impl_hpp : String :=
  "#pragma once #include <yaclib/algo/detail/base_core.hpp> #include <yaclib/algo/detail/wait_event.hpp> #include <yaclib/util/detail/atomic_counter.hpp> #include <yaclib/util/detail/default_event.hpp> #include <yaclib/util/detail/set_deleter.hpp> #include <yaclib/util/detail/unique_counter.hpp> #include <yaclib/util/type_traits.hpp> #include <cstddef> #include <iterator> #include <type_traits> namespace yaclib::detail { struct NoTimeoutTag final {}; template <typename Event, typename Timeout, typename Range> bool WaitRange(Event& event, const Timeout& timeout, Range&& range, std::size_t count) noexcept { const auto wait_count = [&] { if constexpr (Event::kShared) { return range([&, callback_count = std::size_t{}](auto handle) mutable noexcept { if constexpr (std::is_same_v<UniqueHandle, decltype(handle)>) { return handle.SetCallback(event.GetCall()); } else { return handle.SetCallback(event.callbacks[callback_count++]); } }); } else { return range([&](auto handle) noexcept { return handle.SetCallback(event.GetCall()); }); } }(); if (wait_count == 0 || event.SubEqual(count - wait_count + 1)) { return true; } auto token = event.Make(); std::size_t reset_count = 0; if constexpr (!std::is_same_v<Timeout, NoTimeoutTag>) { if (event.Wait(token, timeout)) { return true; } reset_count = range([](UniqueHandle handle) noexcept { return handle.Reset(); }); if (reset_count != 0 && (reset_count == wait_count || event.SubEqual(reset_count))) { return false; } } event.Wait(token); return reset_count == 0; } template <typename Event, typename Timeout, typename... Handles> bool WaitCore(const Timeout& timeout, Handles... handles) noexcept { static_assert(sizeof...(handles) >= 1, \"Number of futures must be at least one\"); static constexpr std::size_t kSharedCount = kCount<SharedHandle, Handles...>; static_assert(kSharedCount == 0 || std::is_same_v<Timeout, NoTimeoutTag>); auto range = [&](auto&& func) noexcept { return (... + static_cast<std::size_t>(func(handles))); }; using CoreEvent = std::conditional_t<sizeof...(handles) == 1, MultiEvent<Event, OneCounter, CallCallback>, MultiEvent<Event, AtomicCounter, CallCallback>>; using FinalEvent = std::conditional_t<kSharedCount <= 1, CoreEvent, StaticSharedEvent<CoreEvent, kSharedCount>>; FinalEvent event{sizeof...(handles) + 1}; return WaitRange(event, timeout, range, sizeof...(handles)); } template <typename Event, typename Timeout, typename Iterator> bool WaitIterator(const Timeout& timeout, Iterator it, std::size_t count) noexcept { static_assert(is_waitable_v<typename std::iterator_traits<Iterator>::value_type>, \"Wait function Iterator must be point to some Waitable (Future or SharedFuture)\"); static constexpr bool kShared = std::is_same_v<decltype(it->GetHandle()), SharedHandle>; if (count == 0) { return true; } if (count == 1) { YACLIB_ASSERT(it->Valid()); return WaitCore<Event>(timeout, it->GetHandle()); } auto range = [&](auto&& func) noexcept { std::size_t wait_count = 0; std::conditional_t<std::is_same_v<Timeout, NoTimeoutTag>, Iterator&, Iterator> range_it = it; for (std::size_t i = 0; i != count; ++i) { YACLIB_ASSERT(range_it->Valid()); wait_count += static_cast<std::size_t>(func(range_it->GetHandle())); ++range_it; } return wait_count; }; using CoreEvent = MultiEvent<Event, AtomicCounter, CallCallback>; using FinalEvent = std::conditional_t<kShared, DynamicSharedEvent<CoreEvent>, CoreEvent>; FinalEvent event{count + 1}; return WaitRange(event, timeout, range, count); } extern template bool WaitCore<DefaultEvent, NoTimeoutTag, UniqueHandle>(const NoTimeoutTag&, UniqueHandle) noexcept; extern template bool WaitCore<DefaultEvent, NoTimeoutTag, SharedHandle>(const NoTimeoutTag&, SharedHandle) noexcept; }"

def Submit_free : String :=
  "Submit(executor, f) { decl StaticAssertDecl; var job = MakeUniqueJob(forward<Func>(f)); executor.Submit((*job)) }"

def MakeUniqueJob : String :=
  "MakeUniqueJob(f) { return new(init(forward<Func>(f))) }"

def UniqueJob_Call : String :=
  "Call() { Call(); Drop() }"

def UniqueJob_Drop : String :=
  "Drop() { delete(this) }"

def SafeCall_Call : String :=
  "Call() { ifc (is_nothrow_invocable_v) { forward<Invoke>(_func)() } else { try { forward<Invoke>(_func)() } catch(...) {  } } }"

def FreeSrc_safe_call_hpp : String :=
  "#pragma once #include <yaclib/config.hpp> #include <type_traits> #include <utility> namespace yaclib::detail { template <typename Func> class SafeCall { public: using Store = std::decay_t<Func>; using Invoke = std::conditional_t<std::is_function_v<std::remove_reference_t<Func>>, Store, Func>; explicit SafeCall(Store&& f) noexcept(std::is_nothrow_move_constructible_v<Store>) : _func{std::move(f)} { } explicit SafeCall(const Store& f) noexcept(std::is_nothrow_copy_constructible_v<Store>) : _func{f} { } protected: void Call() noexcept { if constexpr (std::is_nothrow_invocable_v<Invoke>) { std::forward<Invoke>(_func)(); } else { try { std::forward<Invoke>(_func)(); } catch (...) { } } } private: YACLIB_NO_UNIQUE_ADDRESS Store _func; }; }"

def FreeSrc_unique_job_hpp : String :=
  "#pragma once #include <yaclib/exe/job.hpp> #include <yaclib/util/detail/safe_call.hpp> #include <utility> namespace yaclib::detail { template <typename Func> class UniqueJob final : public Job, public SafeCall<Func> { public: using SafeCall<Func>::SafeCall; private: void Call() noexcept final; void Drop() noexcept final; }; template <typename Func> void UniqueJob<Func>::Call() noexcept { SafeCall<Func>::Call(); Drop(); } template <typename Func> void UniqueJob<Func>::Drop() noexcept { delete this; } template <typename Func> Job* MakeUniqueJob(Func&& f) { return new UniqueJob<decltype(std::forward<Func>(f))>{std::forward<Func>(f)}; } }"

def FreeSrc_submit_hpp : String :=
  "#pragma once #include <yaclib/exe/detail/unique_job.hpp> #include <yaclib/exe/executor.hpp> #include <utility> namespace yaclib { template <typename Func> void Submit(IExecutor& executor, Func&& f) { static_assert(!std::is_base_of_v<Job, std::decay_t<Func>>, \"Please use executor.Submit(job)\"); auto* job = detail::MakeUniqueJob(std::forward<Func>(f)); executor.Submit(*job); } }"

def TraitSrc_type_traits_impl_hpp : String :=
  "#pragma once #include <yaclib/fwd.hpp> #include <type_traits> namespace yaclib::detail { template <typename...> struct Head; template <typename T, typename... Args> struct Head<T, Args...> final { using Type = T; }; template <typename Func, typename... Args> struct IsInvocable final { static constexpr bool Value = std::is_invocable_v<Func, Args...>; }; template <typename Func> struct IsInvocable<Func, void> final { static constexpr bool Value = std::is_invocable_v<Func>; }; template <typename Func, typename... Args> struct Invoke final { using Type = std::invoke_result_t<Func, Args...>; }; template <typename Func> struct Invoke<Func, void> final { using Type = std::invoke_result_t<Func>; }; template <template <typename...> typename Instance, typename...> struct IsInstantiationOf final { static constexpr bool Value = false; }; template <template <typename...> typename Instance, typename... Args> struct IsInstantiationOf<Instance, Instance<Args...>> final { static constexpr bool Value = true; }; template <template <typename...> typename Instance, typename T> struct InstantiationTypes final { using Value = T; using Error = T; }; template <template <typename...> typename Instance, typename V, typename E> struct InstantiationTypes<Instance, Instance<V, E>> final { using Value = V; using Error = E; }; template <typename T> struct AsyncTypes final { using Value = T; using Error = T; }; template <typename V, typename E> struct AsyncTypes<FutureBase<V, E>> final { using Value = V; using Error = E; }; template <typename V, typename E> struct AsyncTypes<Future<V, E>> final { using Value = V; using Error = E; }; template <typename V, typename E> struct AsyncTypes<FutureOn<V, E>> final { using Value = V; using Error = E; }; template <typename V, typename E> struct AsyncTypes<SharedFutureBase<V, E>> final { using Value = V; using Error = E; }; template <typename V, typename E> struct AsyncTypes<SharedFuture<V, E>> final { using Value = V; using Error = E; }; template <typename V, typename E> struct AsyncTypes<SharedFutureOn<V, E>> final { using Value = V; using Error = E; }; }"

def TraitSrc_type_traits_hpp : String :=
  "#pragma once #include <yaclib/fwd.hpp> #include <yaclib/util/detail/type_traits_impl.hpp> #include <exception> #include <type_traits> #include <utility> #include <variant> namespace yaclib { template <typename T> using remove_cvref_t = std::remove_cv_t<std::remove_reference_t<T>>; template <typename... Args> using head_t = typename detail::Head<Args...>::Type; template <typename Func, typename... Arg> inline constexpr bool is_invocable_v = detail::IsInvocable<Func, Arg...>::Value; template <typename Func, typename... Arg> using invoke_t = typename detail::Invoke<Func, Arg...>::Type; template <typename T> inline constexpr bool is_result_v = detail::IsInstantiationOf<Result, T>::Value; template <typename T> using result_value_t = typename detail::InstantiationTypes<Result, T>::Value; template <typename T> using result_error_t = typename detail::InstantiationTypes<Result, T>::Error; template <typename T> using task_value_t = typename detail::InstantiationTypes<Task, T>::Value; template <typename T> using task_error_t = typename detail::InstantiationTypes<Task, T>::Error; template <typename T> inline constexpr bool is_future_base_v = detail::IsInstantiationOf<FutureBase, T>::Value || detail::IsInstantiationOf<Future, T>::Value || detail::IsInstantiationOf<FutureOn, T>::Value; template <typename T> inline constexpr bool is_shared_future_base_v = detail::IsInstantiationOf<SharedFutureBase, T>::Value || detail::IsInstantiationOf<SharedFuture, T>::Value || detail::IsInstantiationOf<SharedFutureOn, T>::Value; template <typename T> inline constexpr bool is_task_v = detail::IsInstantiationOf<Task, T>::Value; template <typename T> inline constexpr bool is_waitable_v = is_shared_future_base_v<remove_cvref_t<T>> || (!std::is_const_v<std::remove_reference_t<T>> && is_future_base_v<remove_cvref_t<T>>); template <typename T> inline constexpr bool is_waitable_with_timeout_v = (!std::is_const_v<std::remove_reference_t<T>> && is_future_base_v<remove_cvref_t<T>>); template <typename T> inline constexpr bool is_combinator_input_v = (is_shared_future_base_v<T> || is_future_base_v<T>); template <typename T> using async_value_t = typename detail::AsyncTypes<T>::Value; template <typename T> using async_error_t = typename detail::AsyncTypes<T>::Error; template <bool Condition, typename T> decltype(auto) move_if(T&& arg) noexcept { if constexpr (Condition) { return std::move(std::forward<T>(arg)); } else { return std::forward<T>(arg); } } template <typename T, typename... List> inline constexpr auto kCount = (std::size_t{std::is_same_v<T, List> ? 1 : 0} + ...); template <typename T, typename... Ts> inline constexpr auto kContains = (std::is_same_v<T, Ts> || ...); template <typename T, typename Tuple> struct Prepend; template <typename T, typename... Ts> struct Prepend<T, std::tuple<Ts...>> { using Type = std::tuple<T, Ts...>; }; template <typename Tuple> struct Tail; template <typename T, typename... Ts> struct Tail<std::tuple<T, Ts...>> { using Type = std::tuple<Ts...>; }; template <typename Tuple> using tail_t = typename Tail<Tuple>::Type; template <template <typename> typename F, typename Tuple> struct Filter; template <template <typename> typename F> struct Filter<F, std::tuple<>> { using Type = std::tuple<>; }; template <template <typename> typename F, typename T> struct Filter<F, std::tuple<T>> { using Type = std::conditional_t<F<T>::Value, std::tuple<T>, std::tuple<>>; }; template <template <typename> typename F, typename T, typename... Ts> struct Filter<F, std::tuple<T, Ts...>> { private: using PrevType = typename Filter<F, std::tuple<Ts...>>::Type; public: using Type = std::conditional_t<F<T>::Value, typename Prepend<T, PrevType>::Type, PrevType>; }; template <typename Tuple> struct Unique; template <> struct Unique<std::tuple<>> { using Type = std::tuple<>; }; template <typename T> struct Unique<std::tuple<T>> { using Type = std::tuple<T>; }; template <typename T, typename... Ts> struct Unique<std::tuple<T, Ts...>> { private: using PrevType = typename Unique<std::tuple<Ts...>>::Type; public: using Type = std::conditional_t<kContains<T, Ts...>, PrevType, typename Prepend<T, PrevType>::Type>; }; template <typename Tuple> struct Variant; template <typename... Ts> struct Variant<std::tuple<Ts...>> { using Type = std::variant<Ts...>; }; template <typename T> struct WrapVoid { using Type = T; }; template <> struct WrapVoid<void> { using Type = Unit; }; template <typename T> using wrap_void_t = typename WrapVoid<T>::Type; template <typename Tuple> struct MaybeVariant; template <typename T> struct MaybeVariant<std::tuple<T>> { using Type = T; }; template <typename... Ts> struct MaybeVariant<std::tuple<Ts...>> { using Type = std::variant<wrap_void_t<Ts>...>; }; template <std::size_t FromIndex, std::size_t ToIndex, typename FromTuple, typename ToTuple> struct TranslateIndexImpl; template <std::size_t ToIndex, typename... From, typename... To> struct TranslateIndexImpl<0, ToIndex, std::tuple<From...>, std::tuple<To...>> { static_assert(sizeof...(From) >= sizeof...(To)); static constexpr std::size_t Index() { return ToIndex; } }; template <std::size_t FromIndex, std::size_t ToIndex, typename... From, typename... To> struct TranslateIndexImpl<FromIndex, ToIndex, std::tuple<From...>, std::tuple<To...>> { static_assert(sizeof...(From) >= sizeof...(To)); static_assert(FromIndex != 0); static constexpr std::size_t Index() { if constexpr (std::is_same_v<head_t<From...>, head_t<To...>>) { return TranslateIndexImpl<FromIndex - 1, ToIndex + 1, tail_t<std::tuple<From...>>, tail_t<std::tuple<To...>>>::Index(); } else { return TranslateIndexImpl<FromIndex - 1, ToIndex, tail_t<std::tuple<From...>>, std::tuple<To...>>::Index(); } } }; template <std::size_t FromIndex, typename FromTuple, typename ToTuple> inline constexpr std::size_t translate_index_v = TranslateIndexImpl<FromIndex, 0, FromTuple, ToTuple>::Index(); template <typename T, typename Tuple> struct IndexOf; template <typename T, typename... Ts> struct IndexOf<T, std::tuple<Ts...>> { static_assert(sizeof...(Ts) > 0); static constexpr std::size_t Index() { if constexpr (std::is_same_v<T, head_t<Ts...>>) { return 0; } else { return 1 + IndexOf<T, tail_t<std::tuple<Ts...>>>::Index(); } } }; template <typename T, typename Tuple> inline constexpr std::size_t index_of_v = IndexOf<T, Tuple>::Index(); template <typename T> constexpr bool Check() noexcept { static_assert(!std::is_reference_v<T>, \"T cannot be V&, just use pointer or std::reference_wrapper\"); static_assert(!std::is_const_v<T>, \"T cannot be const, because it's unnecessary\"); static_assert(!std::is_volatile_v<T>, \"T cannot be volatile, because it's unnecessary\"); static_assert(!is_result_v<T>, \"T cannot be Result, because it's ambiguous\"); static_assert(!is_future_base_v<T>, \"T cannot be Future, because it's ambiguous\"); static_assert(!is_task_v<T>, \"T cannot be Task, because it's ambiguous\"); static_assert(!std::is_same_v<T, std::exception_ptr>, \"T cannot be std::exception_ptr, because it's ambiguous\"); static_assert(!std::is_same_v<T, Unit>, \"T cannot be Unit, because Unit for internal instead of void usage\"); return true; } }"

def ShareSrc_share_hpp : String :=
  "#pragma once #include <yaclib/async/connect.hpp> #include <yaclib/async/contract.hpp> #include <yaclib/async/shared_future.hpp> #include <yaclib/exe/executor.hpp> namespace yaclib { template <typename V, typename E> Future<V, E> Share(const SharedFutureBase<V, E>& future) { auto [f, p] = MakeContract<V, E>(); Connect(future, std::move(p)); return std::move(f); } template <typename V, typename E> FutureOn<V, E> Share(const SharedFutureBase<V, E>& future, IExecutor& executor) { auto [f, p] = MakeContractOn<V, E>(executor); Connect(future, std::move(p)); return std::move(f); } template <typename V, typename E> Future<V, E> Share(SharedPromise<V, E>& promise) { YACLIB_ASSERT(promise.Valid()); auto [f, p] = MakeContract<V, E>(); Connect(promise, std::move(p)); return std::move(f); } template <typename V, typename E> FutureOn<V, E> Share(SharedPromise<V, E>& promise, IExecutor& executor) { YACLIB_ASSERT(promise.Valid()); auto [f, p] = MakeContractOn<V, E>(executor); Connect(promise, std::move(p)); return std::move(f); } }"

def ShareSrc_split_hpp : String :=
  "#pragma once #include <yaclib/async/connect.hpp> #include <yaclib/async/future.hpp> #include <yaclib/async/shared_contract.hpp> namespace yaclib { template <typename V, typename E> SharedFuture<V, E> Split(FutureBase<V, E>&& future) { static_assert(std::is_copy_constructible_v<Result<V, E>>, \"Cannot split this Result<V, E>\"); auto [f, p] = MakeSharedContract<V, E>(); Connect(std::move(future), std::move(p)); return std::move(f); } template <typename V, typename E> SharedFuture<V, E> Split(SharedPromise<V, E>& promise) { YACLIB_ASSERT(promise.Valid()); return SharedFuture<V, E>{promise.GetCore()}; } }"

def ShareSrc_connect_hpp : String :=
  "#pragma once #include <yaclib/async/future.hpp> #include <yaclib/async/promise.hpp> #include <yaclib/async/shared_future.hpp> #include <yaclib/async/shared_promise.hpp> namespace yaclib { template <typename V, typename E> void Connect(FutureBase<V, E>&& f, Promise<V, E>&& p) { static_assert(std::is_move_constructible_v<Result<V, E>>); YACLIB_ASSERT(f.Valid()); YACLIB_ASSERT(p.Valid()); YACLIB_ASSERT(f.GetCore() != p.GetCore()); if (f.GetCore()->SetCallback(*p.GetCore().Get())) { f.GetCore().Release(); p.GetCore().Release(); } else { std::move(p).Set(std::move(f).Touch()); } } template <typename V, typename E> void Connect(const SharedFutureBase<V, E>& f, Promise<V, E>&& p) { YACLIB_ASSERT(f.Valid()); YACLIB_ASSERT(p.Valid()); if (f.GetCore()->SetCallback(*p.GetCore().Get())) { p.GetCore().Release(); } else { std::move(p).Set(f.Touch()); } } template <typename V, typename E> void Connect(FutureBase<V, E>&& f, SharedPromise<V, E>&& p) { YACLIB_ASSERT(f.Valid()); YACLIB_ASSERT(p.Valid()); if (f.GetCore()->SetCallback(*p.GetCore().Get())) { f.GetCore().Release(); p.GetCore().Release(); } else { std::move(p).Set(std::move(f).Touch()); } } template <typename V, typename E> void Connect(const SharedFutureBase<V, E>& f, SharedPromise<V, E>&& p) { YACLIB_ASSERT(f.Valid()); YACLIB_ASSERT(p.Valid()); YACLIB_ASSERT(f.GetCore() != p.GetCore()); if (f.GetCore()->SetCallback(*p.GetCore().Get())) { p.GetCore().Release(); } else { std::move(p).Set(f.Touch()); } } template <typename V, typename E> void Connect(SharedPromise<V, E>& primary, Promise<V, E>&& subsumed) { YACLIB_ASSERT(primary.Valid()); YACLIB_ASSERT(subsumed.Valid()); auto subsumed_core = subsumed.GetCore().Release(); std::ignore = primary.GetCore()->SetCallback(*subsumed_core); } template <typename V, typename E> void Connect(SharedPromise<V, E>& primary, SharedPromise<V, E>&& subsumed) { YACLIB_ASSERT(primary.Valid()); YACLIB_ASSERT(subsumed.Valid()); auto subsumed_core = subsumed.GetCore().Release(); std::ignore = primary.GetCore()->SetCallback(*subsumed_core); } }"

def ResultSrc_result_hpp : String :=
  "#pragma once #include <yaclib/fwd.hpp> #include <yaclib/util/type_traits.hpp> #include <exception> #include <utility> #include <variant> namespace yaclib { enum class [[nodiscard]] ResultState : unsigned char { Value = 0, Exception = 1, Error = 2, Empty = 3, }; struct [[nodiscard]] StopError final { constexpr StopError(StopTag) noexcept { } constexpr StopError(StopError&&) noexcept = default; constexpr StopError(const StopError&) noexcept = default; constexpr StopError& operator=(StopError&&) noexcept = default; constexpr StopError& operator=(const StopError&) noexcept = default; static const char* What() noexcept { return \"yaclib::StopError\"; } }; YACLIB_DEFINE_VOID_COMPARE(StopError) template <typename Error> class [[nodiscard]] ResultError final : public std::exception { public: ResultError(ResultError&&) noexcept(std::is_nothrow_move_constructible_v<Error>) = default; ResultError(const ResultError&) noexcept(std::is_nothrow_copy_constructible_v<Error>) = default; ResultError& operator=(ResultError&&) noexcept(std::is_nothrow_move_assignable_v<Error>) = default; ResultError& operator=(const ResultError&) noexcept(std::is_nothrow_copy_assignable_v<Error>) = default; explicit ResultError(Error&& error) noexcept(std::is_nothrow_move_constructible_v<Error>) : _error{std::move(error)} { } explicit ResultError(const Error& error) noexcept(std::is_nothrow_copy_constructible_v<Error>) : _error{error} { } [[nodiscard]] Error& Get() & noexcept { return _error; } [[nodiscard]] const Error& Get() const& noexcept { return _error; } const char* what() const noexcept final { return _error.What(); } private: Error _error; }; struct ResultEmpty final : std::exception { const char* what() const noexcept final { return \"yaclib::ResultEmpty\"; } }; template <typename ValueT, typename E> class Result final { static_assert(Check<ValueT>(), \"V should be valid\"); static_assert(Check<E>(), \"E should be valid\"); static_assert(!std::is_same_v<ValueT, E>, \"Result cannot be instantiated with same V and E, because it's ambiguous\"); static_assert(std::is_constructible_v<E, StopTag>, \"Error should be constructable from StopTag\"); using V = std::conditional_t<std::is_void_v<ValueT>, Unit, ValueT>; using Variant = std::variant<V, std::exception_ptr, E, std::monostate>; public: Result(Result&& other) noexcept(std::is_nothrow_move_constructible_v<Variant>) = default; Result(const Result& other) noexcept(std::is_nothrow_copy_constructible_v<Variant>) = default; Result& operator=(Result&& other) noexcept(std::is_nothrow_move_assignable_v<Variant>) = default; Result& operator=(const Result& other) noexcept(std::is_nothrow_copy_assignable_v<Variant>) = default; template <typename... Args, typename = std::enable_if_t<(sizeof...(Args) > 1 || !std::is_same_v<std::decay_t<head_t<Args&&...>>, Result>), void>> Result(Args&&... args) noexcept(std::is_nothrow_constructible_v<Variant, std::in_place_type_t<V>, Args&&...>) : Result{std::in_place, std::forward<Args>(args)...} { } template <typename... Args> Result(std::in_place_t, Args&&... args) noexcept(std::is_nothrow_constructible_v<Variant, std::in_place_type_t<V>, Args&&...>) : _result{std::in_place_type<V>, std::forward<Args>(args)...} { } Result(std::exception_ptr exception) noexcept : _result{std::in_place_type<std::exception_ptr>, std::move(exception)} { } Result(E error) noexcept : _result{std::in_place_type<E>, std::move(error)} { } Result(StopTag tag) noexcept : _result{std::in_place_type<E>, tag} { } Result() noexcept : _result{std::monostate{}} { } template <typename Arg, typename = std::enable_if_t<!is_result_v<std::decay_t<Arg>>, void>> Result& operator=(Arg&& arg) noexcept(std::is_nothrow_assignable_v<Variant, Arg>) { _result = std::forward<Arg>(arg); return *this; } [[nodiscard]] explicit operator bool() const noexcept { return State() == ResultState::Value; } void Ok() & = delete; void Ok() const&& = delete; void Value() & = delete; void Value() const&& = delete; void Exception() & = delete; void Exception() const&& = delete; void Error() & = delete; void Error() const&& = delete; [[nodiscard]] V&& Ok() && { return Get(std::move(*this)); } [[nodiscard]] const V& Ok() const& { return Get(*this); } [[nodiscard]] ResultState State() const noexcept { return ResultState{static_cast<unsigned char>(_result.index())}; } [[nodiscard]] V&& Value() && noexcept { return std::get<V>(std::move(_result)); } [[nodiscard]] const V& Value() const& noexcept { return std::get<V>(_result); } [[nodiscard]] std::exception_ptr&& Exception() && noexcept { return std::get<std::exception_ptr>(std::move(_result)); } [[nodiscard]] const std::exception_ptr& Exception() const& noexcept { return std::get<std::exception_ptr>(_result); } [[nodiscard]] E&& Error() && noexcept { return std::get<E>(std::move(_result)); } [[nodiscard]] const E& Error() const& noexcept { return std::get<E>(_result); } [[nodiscard]] Variant& Internal() { return _result; } [[nodiscard]] const Variant& Internal() const { return _result; } private: template <typename R> static decltype(auto) Get(R&& r) { switch (r.State()) { case ResultState::Value: return std::forward<R>(r).Value(); case ResultState::Exception: std::rethrow_exception(std::forward<R>(r).Exception()); case ResultState::Error: throw ResultError{std::forward<R>(r).Error()}; default: throw ResultEmpty{}; } } Variant _result; }; extern template class Result<>; }"

def Task_ThenOn : String :=
  "Then(e, f) { var CoreT = operator|(operator|(ToUnique, Call), Lazy); return SetCallback<CoreT,false>(_core, (&e), forward<Func>(f)) }"

def Task_ThenInherit : String :=
  "Then(f) { var CoreT = operator|(operator|(ToUnique, Call), Lazy); return SetCallback<CoreT,false>(_core, nullptr, forward<Func>(f)) }"

def Task_ThenInline : String :=
  "ThenInline(f) { var CoreT = operator|(ToUnique, Lazy); return SetCallback<CoreT,false>(_core, nullptr, forward<Func>(f)) }"

def Task_Cancel : String :=
  "Cancel() { move((*this)).Detach(MakeInline(cast(init()))) }"

def Task_Detach : String :=
  "Detach() { var core = _core.Release(); core.StoreCallback(MakeDrop()); Start(core) }"

def Task_DetachOn : String :=
  "Detach(e) { var core = _core.Release(); core.StoreCallback(MakeDrop()); Start(core, e) }"

def Task_ToFuture : String :=
  "ToFuture() { Start(_core.Get()); return init(move(_core)) }"

def Task_ToFutureOn : String :=
  "ToFuture(e) { Start(_core.Get(), e); return init(move(_core)) }"

def FutureBase_ThenOn : String :=
  "Then(e, f) { var CoreT = operator|(ToUnique, Call); return SetCallback<CoreT,true>(_core, (&e), forward<Func>(f)) }"

def FutureOn_ThenInherit : String :=
  "Then(f) { var CoreT = operator|(ToUnique, Call); return SetCallback<CoreT,true>(_core, nullptr, forward<Func>(f)) }"

def Future_ThenInline : String :=
  "ThenInline(f) { var CoreT = ToUnique; return SetCallback<CoreT,false>(_core, nullptr, forward<Func>(f)) }"

def FutureBase_DetachInline : String :=
  "DetachInline(f) { var CoreT = Detach; SetCallback<CoreT,false>(_core, nullptr, forward<Func>(f)) }"

def FutureBase_DetachOn : String :=
  "Detach(e, f) { var CoreT = operator|(Detach, Call); SetCallback<CoreT,false>(_core, (&e), forward<Func>(f)) }"

def FutureOn_DetachInherit : String :=
  "Detach(f) { var CoreT = operator|(Detach, Call); SetCallback<CoreT,false>(_core, nullptr, forward<Func>(f)) }"

def Inline_Submit : String :=
  "Submit(task) { ifc (Stopped) { task.Drop() } else { task.Call() } }"

def Inline_Alive : String :=
  "Alive() { return (!Stopped) }"

def Manual_Submit : String :=
  "Submit(f) { _tasks.PushBack(f) }"

def Manual_Drain : String :=
  "Drain() { var done = 0; while ((!_tasks.Empty())) { (++done); var task = _tasks.PopFront(); cast(task).Call() }; return done }"

def MakeUnique : String :=
  "MakeUnique(args) { return init(init(cast(init()), new(init(0, pack(forward<Args>(args)))))) }"

def MakeShared : String :=
  "MakeShared(n, args) { return init(init(cast(init()), new(init(n, pack(forward<Args>(args)))))) }"

def SharedCore_Retire : String :=
  "Retire() { var result = (operator==(GetRef(), 1) ? move(Get()) : as_const(Get())); DecRef(); return result }"

def SharedCore_Here : String :=
  "Here(caller) { return Impl<false,true>(caller) }"

def SharedCore_Next : String :=
  "Next(caller) { return Impl<true,true>(caller) }"

def SharedCore_SetCallback : String :=
  "SetCallback(callback) { return BaseCore::SetCallbackImpl<true>(callback) }"

def SharedCore_SetInline : String :=
  "SetInline(callback) { return BaseCore::SetInlineImpl<SymmetricTransfer,true>(callback) }"

def SharedCore_SetResult : String :=
  "SetResult() { return BaseCore::SetResultImpl<SymmetricTransfer,true>() }"

def SharedFutureBase_Ready : String :=
  "Ready() { return _core.Ready() }"

def SharedFutureBase_GetMove : String :=
  "Get() { Wait((*this)); if (operator==(_core.GetRef(), 1)) { return move(_core.Get()) } else { return _core.Get() } }"

def SharedFutureBase_GetConst : String :=
  "Get() { Wait((*this)); return _core.Get() }"

def SharedFutureBase_TouchMove : String :=
  "Touch() { if (operator==(_core.GetRef(), 1)) { return move(_core.Get()) } else { return _core.Get() } }"

def SharedFutureBase_TouchConst : String :=
  "Touch() { return _core.Get() }"

def SharedFutureBase_ThenOn : String :=
  "Then(e, f) { var CoreT = operator|(ToUnique, Call); return SetCallback<CoreT,true>(_core, (&e), forward<Func>(f)) }"

def SharedFutureBase_SubscribeInline : String :=
  "SubscribeInline(f) { var CoreT = Detach; SetCallback<CoreT,false>(_core, nullptr, forward<Func>(f)) }"

def SharedFutureBase_Subscribe : String :=
  "Subscribe(e, f) { var CoreT = operator|(Detach, Call); SetCallback<CoreT,true>(_core, (&e), forward<Func>(f)) }"

def SharedFuture_ThenInline : String :=
  "ThenInline(f) { var CoreT = ToUnique; return SetCallback<CoreT,false>(_core, nullptr, forward<Func>(f)) } || ThenInline(f) { var CoreT = ToUnique; return SetCallback<CoreT,true>(_core, nullptr, forward<Func>(f)) }"

def SharedFutureBase_GetHandle : String :=
  "GetHandle() { return init(init((*_core))) }"

def SharedPromise_Set : String :=
  "Set(args) { ifc ((sizeof... == 0)) { _core.Store(in_place) } else { _core.Store(pack(forward<Args>(args))) }; var released = _core.Release(); (ignore = released.SetResult<false>()) }"

def SharedPromise_dtor : String :=
  "~SharedPromise<V, E>() { if (Valid()) { move((*this)).Set(cast(init())) } }"

def MakeSharedContract : String :=
  "MakeSharedContract() { var core = MakeShared<detail::SharedCore<V,E>>(kSharedRefWithFuture); var future = init(init(init(cast(init()), core.Get()))); var promise = init(init(init(cast(init()), core.Release()))); return init(move(future), move(promise)) }"

def MakeSharedContractOn : String :=
  "MakeSharedContractOn(e) { var core = MakeShared<detail::SharedCore<V,E>>(kSharedRefWithFuture); e.IncRef(); core._executor.Reset(cast(init()), (&e)); var future = init(init(init(cast(init()), core.Get()))); var promise = init(init(init(cast(init()), core.Release()))); return init(move(future), move(promise)) }"

def Split : String :=
  "Split(future) { decl StaticAssertDecl; var [..] = MakeSharedContract<V,E>(); Connect(move(future), move(p)); return move(f) } || Split(promise) { return init(init(promise.GetCore())) }"

def Share : String :=
  "Share(future) { var [..] = MakeContract<V,E>(); Connect(future, move(p)); return move(f) } || Share(future, executor) { var [..] = MakeContractOn<V,E>(executor); Connect(future, move(p)); return move(f) } || Share(promise) { var [..] = MakeContract<V,E>(); Connect(promise, move(p)); return move(f) } || Share(promise, executor) { var [..] = MakeContractOn<V,E>(executor); Connect(promise, move(p)); return move(f) }"

def SharedFutureOn_On : String :=
  "On(_) { return init(move(_core)) }"

def SharedHandle_SetCallback : String :=
  "SetCallback(callback) { return core.SetCallbackImpl<true>(callback) }"

def AtomicCounter_Add : String :=
  "Add(delta) { count.fetch_add(delta, rlx) }"

def AtomicCounter_Sub : String :=
  "Sub(delta) { if (SubEqual(delta)) { Delete((*this)) } }"

def AtomicCounter_Get : String :=
  "Get(order) { return count.load(order) }"

def AtomicCounter_SubEqual : String :=
  "SubEqual(n) { if ((count.fetch_sub(n, rel) == n)) { atomic_thread_fence(acq); return true }; return false }"

def Helper_IncRef : String :=
  "IncRef() { Add(1) }"

def Helper_DecRef : String :=
  "DecRef() { Sub(1) }"

def Helper_GetRef : String :=
  "GetRef() { return Get(acq) }"

def IntrusivePtr_copy_from_raw : String :=
  "IntrusivePtr<T>(other) { if (_ptr) { _ptr.IncRef() } }"

def IntrusivePtr_dtor : String :=
  "~IntrusivePtr<T>() { if (_ptr) { _ptr.DecRef() } }"

def When_ConsumeImpl : String :=
  "ConsumeImpl(st, core) { ifc (operator==(Strategy::kCorePolicy, Owned)) { st.Consume(core) } else { st.Consume(core.Retire()) } } || ConsumeImpl(st, core) { ifc (operator==(Strategy::kCorePolicy, Owned)) { st.Consume<Index>(core) } else { st.Consume<Index>(core.Retire()) } } || ConsumeImpl(st, core, index) { ifc (operator==(Strategy::kCorePolicy, Owned)) { st.Consume(index, core) } else { st.Consume(index, core.Retire()) } }"

def When_CombinatorCallback_Impl : String :=
  "Impl(caller) { var core = DownCast<Core>(caller); ifc ((Index == kDynamicTag)) { var index = (this - _self.callbacks.data()); Consume(_self.st, core, index) } else { Consume<Index>(_self.st, core) }; _self.DecRef() }"

def AwaitAwaiterBase_await_ready : String :=
  "await_ready() { return _core.Ready() }"

def When_Consume : String :=
  "Consume(st, core) { ifc (operator==(Strategy::kConsumePolicy, None)) { ifc (operator==(Strategy::kCorePolicy, Managed)) { core.DecRef() } } else ifc (operator==(Strategy::kConsumePolicy, Unordered)) { ConsumeImpl(st, core) } else ifc (operator==(Strategy::kConsumePolicy, Static)) { ConsumeImpl<Index>(st, core) } else { ConsumeImpl(st, core, Index) } } || Consume(st, core, index) { decl StaticAssertDecl; ifc (operator==(Strategy::kConsumePolicy, None)) { ifc (operator==(Strategy::kCorePolicy, Managed)) { core.DecRef() } } else ifc (operator==(Strategy::kConsumePolicy, Unordered)) { ConsumeImpl(st, core) } else { ConsumeImpl(st, core, index) } }"

def When_When : String :=
  "When(futures) { ifc ((sizeof... == 0)) { return init(init(nullptr)) } else { var [..] = MakeContract<OutputValue,OutputError>(); decl TypeAliasDecl; decl TypeAliasDecl; decl TypeAliasDecl; decl TypeAliasDecl; decl TypeAliasDecl; decl TypeAliasDecl; var combinator = MakeShared<FinalCombinator>(sizeof..., sizeof..., move(p)).Release(); combinator.Set(pack((*futures.GetCore().Release()))); return move(f) } } || When(begin, count) { if ((count == 0)) { return init(init(nullptr)) }; var [..] = MakeContract<OutputValue,OutputError>(); decl TypeAliasDecl; decl TypeAliasDecl; decl StaticAssertDecl; decl TypeAliasDecl; var combinator = MakeShared<FinalCombinator>(count, count, move(p)).Release(); combinator.Set(begin, count); return move(f) }"

def When_SingleCombinator_Set : String :=
  "Set(cores) { decl StaticAssertDecl; var index = 0; fold(SetCore(cores, (index++))) } || Set(begin, count) { for (var i = 0; (i < count); (++i)) { var core = (*begin.GetCore().Release()); ifc (operator==(kCorePolicy, Owned)) { st.Register(i, core) }; if ((!core.SetCallback((*this)))) { Consume(st, core, i); DecRef() }; (++begin) } }"

def When_SingleCombinator_SetCore : String :=
  "SetCore(core, i) { ifc (operator==(kCorePolicy, Owned)) { st.Register(i, core) }; if ((!core.SetCallback((*this)))) { Consume<0>(st, core); DecRef() } }"

def When_SingleCombinator_Impl : String :=
  "Impl(caller) { var core = DownCast<Core>(caller); Consume<0>(st, core); DecRef() }"

def When_StaticCombinator_SetCore : String :=
  "SetCore(core) { var callback = GetCallbackHelper<Index,Core>(); ifc (operator==(kCorePolicy, Owned)) { st.Register(Index, core) }; if ((!core.SetCallback(callback))) { Consume<Index>(st, core); DecRef() } }"

def When_StaticCombinator_SetImpl : String :=
  "SetImpl(_, cores) { fold(SetCore<Is>(cores)) }"

def When_StaticCombinator_Set : String :=
  "Set(cores) { SetImpl(init(init()), pack(cores)) }"

def When_DynamicCombinator_Set : String :=
  "Set(begin, count) { for (var i = 0; (i < count); (++i)) { var core = (*begin.GetCore().Release()); ifc (operator==(kCorePolicy, Owned)) { st.Register(i, core) }; if ((!core.SetCallback(callbacks[i]))) { Consume(st, core, i); DecRef() }; (++begin) } }"

def WhenAll_Register : String :=
  "Register(i, core) { (_cores[i] = (&core)) }"

def WhenAll_Consume : String :=
  "Consume(core) { var result = core.Get(); if ((((!result) && (!_done.load(rlx))) && (!_done.exchange(true, acq_rel)))) { if (operator==(result.State(), Exception)) { move(_p).Set(as_const(result).Exception()) } else { move(_p).Set(as_const(result).Error()) } } }"

def WhenAll_dtor_None : String :=
  "~All<yaclib::FailPolicy::None, type-parameter-0-0, type-parameter-0-1, type-parameter-0-2>() { var output; output.reserve(_cores.size()); forrange { output.push_back(core.Retire()) }; move(_p).Set(move(output)) }"

def WhenAll_dtor_FirstFail : String :=
  "~All<yaclib::FailPolicy::FirstFail, type-parameter-0-0, type-parameter-0-1, type-parameter-0-2>() { if (_p.Valid()) { var result; result.reserve(_cores.size()); forrange { result.push_back(core.Retire().Value()) }; move(_p).Set(move(result)) } else { forrange { core.DecRef() } } }"

def WhenAllTuple_Consume : String :=
  "Consume(result) { (get<Index>(_tuple) = forward<Result>(result)) } || Consume(result) { if ((((!result) && (!_done.load(rlx))) && (!_done.exchange(true, acq_rel)))) { if (operator==(result.State(), Error)) { move(_p).Set(forward<Result>(result).Error()) } else { move(_p).Set(forward<Result>(result).Exception()) } } else if (result) { (get<Index>(_tuple) = forward<Result>(result).Value()) } }"

def WhenAllTuple_dtor_None : String :=
  "~AllTuple<yaclib::FailPolicy::None, type-parameter-0-0, type-parameter-0-1, type-parameter-0-2>() { move(_p).Set(move(_tuple)) }"

def WhenAllTuple_dtor_FirstFail : String :=
  "~AllTuple<yaclib::FailPolicy::FirstFail, type-parameter-0-0, type-parameter-0-1, type-parameter-0-2>() { if (_p.Valid()) { move(_p).Set(move(_tuple)) } }"

def WhenJoin_Consume : String :=
  "Consume(result) { if ((((!result) && (!_done.load(rlx))) && (!_done.exchange(true, acq_rel)))) { if (operator==(result.State(), Error)) { move(_p).Set(forward<Result>(result).Error()) } else { move(_p).Set(forward<Result>(result).Exception()) } } }"

def WhenJoin_dtor_None : String :=
  "~Join<yaclib::FailPolicy::None, void, type-parameter-0-0, type-parameter-0-1>() { move(_p).Set() }"

def WhenJoin_dtor_FirstFail : String :=
  "~Join<yaclib::FailPolicy::FirstFail, void, type-parameter-0-0, type-parameter-0-1>() { if (_p.Valid()) { move(_p).Set() } }"

def WhenAny_Consume : String :=
  "Consume(result) { if (((!_done.load(rlx)) && (!_done.exchange(true, acq_rel)))) { if (result) { move(_p).Set(forward<Result>(result).Value()) } else if (operator==(result.State(), Error)) { move(_p).Set(forward<Result>(result).Error()) } else { move(_p).Set(forward<Result>(result).Exception()) } } } || Consume(result) { if (result) { if ((operator!=(_state.load(rlx), State::kValue) && operator!=(_state.exchange(State::kValue, acq_rel), State::kValue))) { move(_p).Set(forward<Result>(result).Value()) } } else { var expected = State::kEmpty; if ((operator==(_state.load(rlx), expected) && _state.compare_exchange_strong(expected, State::kError, acq_rel))) { if (operator==(result.State(), Error)) { (error = forward<Result>(result).Error()) } else { (error = forward<Result>(result).Exception()) } } } } || Consume(result) { if ((!DoneImpl(_state.load(acq)))) { if (result) { if ((!DoneImpl(_state.exchange(1, acq_rel)))) { move(_p).Set(forward<Result>(result).Value()) } } else if ((_state.fetch_sub(2, acq_rel) == 2)) { if (operator==(result.State(), Error)) { move(_p).Set(forward<Result>(result).Error()) } else { move(_p).Set(forward<Result>(result).Exception()) } } } }"

def WhenAny_dtor_FirstFail : String :=
  "~Any<yaclib::FailPolicy::FirstFail, type-parameter-0-0, type-parameter-0-1, type-parameter-0-2>() { if (_p.Valid()) { if (operator==(error.State(), Error)) { move(_p).Set(move(error).Error()) } else { move(_p).Set(move(error).Exception()) } } }"

def WhenAny_DoneImpl : String :=
  "DoneImpl(value) { return ((value & 1) != 0) }"

def WhenAll_front : String :=
  "WhenAll(futures) { CheckSameError<Futures...>(); decl TypeAliasDecl; decl TypeAliasDecl; decl TypeAliasDecl; ifc (fold(is_same_v)) { ifc ((is_same_v && (F != None))) { return When<when::Join,F,void,OutputError>(pack(move(futures))) } else { decl TypeAliasDecl; return When<when::All,F,OutputValue,OutputError>(pack(move(futures))) } } else { decl TypeAliasDecl; return When<when::AllTuple,F,OutputValue,OutputError>(pack(move(futures))) } } || WhenAll(begin, count) { decl TypeAliasDecl; ifc ((is_same_v && (F != None))) { return When<when::Join,F,void,OutputError>(begin, count) } else { decl TypeAliasDecl; return When<when::All,F,OutputValue,OutputError>(begin, count) } } || WhenAll(begin, end) { return WhenAll<F>(begin, cast((end - begin))) }"

def WhenAny_front : String :=
  "WhenAny(futures) { CheckSameError<Futures...>(); decl TypeAliasDecl; decl TypeAliasDecl; return When<when::Any,F,OutputValue,OutputError>(pack(move(futures))) } || WhenAny(begin, count) { ifc (is_future_base_v) { if ((count == 1)) { decl TypeAliasDecl; decl TypeAliasDecl; return init(init(exchange(begin.GetCore(), nullptr))) } }; return When<when::Any,F,typenameT::Core::Value,typenameT::Core::Error>(begin, count) } || WhenAny(begin, end) { return WhenAny<F>(begin, cast((end - begin))) }"

def Join_front : String :=
  "Join(futures) { CheckSameError<Futures...>(); return When<when::Join,F,void,typenamehead_t<Futures...>::Core::Error>(pack(move(futures))) } || Join(begin, count) { return When<when::Join,F,void,typenameT::Core::Error>(begin, count) } || Join(begin, end) { return Join<F>(begin, cast((end - begin))) }"

def WhenSrc_when_hpp : String :=
  "#pragma once #include <yaclib/algo/detail/inline_core.hpp> #include <yaclib/algo/detail/result_core.hpp> #include <yaclib/algo/detail/unique_core.hpp> #include <yaclib/async/contract.hpp> #include <yaclib/util/cast.hpp> #include <yaclib/util/combinator_strategy.hpp> #include <yaclib/util/helper.hpp> #include <yaclib/util/intrusive_ptr.hpp> #include <yaclib/util/ref.hpp> #include <yaclib/util/type_traits.hpp> #include <tuple> #include <vector> namespace yaclib::when { template <typename... Futures> YACLIB_INLINE void CheckSameError() { static_assert(sizeof...(Futures) > 0); using Error = typename head_t<Futures...>::Core::Error; static_assert((... && std::is_same_v<Error, typename Futures::Core::Error>), \"All futures need to have the same error type\"); } template <typename T> using IsUniqueCore = detail::IsInstantiationOf<detail::UniqueCore, T>; template <typename T> using IsSharedCore = detail::IsInstantiationOf<detail::SharedCore, T>; template <ConsumePolicy P> inline constexpr bool kIsOrdered = P == ConsumePolicy::Static || P == ConsumePolicy::Dynamic; inline constexpr std::size_t kDynamicTag = std::numeric_limits<std::size_t>::max(); template <typename Strategy, typename Core> YACLIB_INLINE void ConsumeImpl(Strategy& st, Core& core) { if constexpr (Strategy::kCorePolicy == CorePolicy::Owned) { st.Consume(core); } else { st.Consume(core.Retire()); } } template <std::size_t Index, typename Strategy, typename Core> YACLIB_INLINE void ConsumeImpl(Strategy& st, Core& core) { if constexpr (Strategy::kCorePolicy == CorePolicy::Owned) { st.template Consume<Index>(core); } else { st.template Consume<Index>(core.Retire()); } } template <typename Strategy, typename Core> YACLIB_INLINE void ConsumeImpl(Strategy& st, Core& core, std::size_t index) { if constexpr (Strategy::kCorePolicy == CorePolicy::Owned) { st.Consume(index, core); } else { st.Consume(index, core.Retire()); } } template <std::size_t Index, typename Strategy, typename Core> YACLIB_INLINE void Consume(Strategy& st, Core& core) { if constexpr (Strategy::kConsumePolicy == ConsumePolicy::None) { if constexpr (Strategy::kCorePolicy == CorePolicy::Managed) { core.DecRef(); } } else if constexpr (Strategy::kConsumePolicy == ConsumePolicy::Unordered) { ConsumeImpl(st, core); } else if constexpr (Strategy::kConsumePolicy == ConsumePolicy::Static) { ConsumeImpl<Index>(st, core); } else { ConsumeImpl(st, core, Index); } } template <typename Strategy, typename Core> YACLIB_INLINE void Consume(Strategy& st, Core& core, std::size_t index) { static_assert(Strategy::kConsumePolicy != ConsumePolicy::Static); if constexpr (Strategy::kConsumePolicy == ConsumePolicy::None) { if constexpr (Strategy::kCorePolicy == CorePolicy::Managed) { core.DecRef(); } } else if constexpr (Strategy::kConsumePolicy == ConsumePolicy::Unordered) { ConsumeImpl(st, core); } else { ConsumeImpl(st, core, index); } } template <typename Combinator, typename Core, std::size_t Index> struct CombinatorCallback final : detail::InlineCore { CombinatorCallback(Combinator* self = nullptr) : _self{self} { } [[nodiscard]] InlineCore* Here(InlineCore& caller) noexcept final { Impl(caller); return nullptr; } #if YACLIB_SYMMETRIC_TRANSFER != 0 [[nodiscard]] yaclib_std::coroutine_handle<> Next(InlineCore& caller) noexcept final { Impl(caller); return yaclib_std::noop_coroutine(); } #endif private: YACLIB_INLINE void Impl(InlineCore& caller) { auto& core = DownCast<Core>(caller); if constexpr (Index == kDynamicTag) { auto index = this - _self->callbacks.data(); Consume(_self->st, core, index); } else { Consume<Index>(_self->st, core); } _self->DecRef(); } Combinator* _self; }; template <typename... Cores> struct CoreSignature { using UniqueUniqueCores = typename Unique<typename Filter<IsUniqueCore, std::tuple<Cores...>>::Type>::Type; using SharedCores = typename Filter<IsSharedCore, std::tuple<Cores...>>::Type; static constexpr std::size_t kUniqueCount = std::tuple_size_v<UniqueUniqueCores>; static constexpr std::size_t kSharedCount = std::tuple_size_v<SharedCores>; static constexpr std::size_t kTotalCount = kUniqueCount + kSharedCount; }; template <typename Strategy, typename Core> struct SingleCombinator : detail::InlineCore { SingleCombinator(std::size_t count, typename Strategy::PromiseType p) : st{count, std::move(p)} { } template <typename... Cores> void Set(Cores&... cores) { static_assert((... && std::is_same_v<Core, Cores>)); std::size_t index = 0; (..., SetCore(cores, index++)); } template <typename Iterator, typename = typename std::iterator_traits<Iterator>::value_type> void Set(Iterator begin, std::size_t count) { for (std::size_t i = 0; i < count; ++i) { auto& core = *begin->GetCore().Release(); if constexpr (Strategy::kCorePolicy == CorePolicy::Owned) { st.Register(i, core); } if (!core.SetCallback(*this)) { Consume(st, core, i); DecRef(); } ++begin; } } [[nodiscard]] InlineCore* Here(InlineCore& caller) noexcept final { Impl(caller); return nullptr; } #if YACLIB_SYMMETRIC_TRANSFER != 0 [[nodiscard]] yaclib_std::coroutine_handle<> Next(InlineCore& caller) noexcept final { Impl(caller); return yaclib_std::noop_coroutine(); } #endif private: void SetCore(Core& core, std::size_t i) { if constexpr (Strategy::kCorePolicy == CorePolicy::Owned) { st.Register(i, core); } if (!core.SetCallback(*this)) { Consume<0>(st, core); DecRef(); } } YACLIB_INLINE void Impl(InlineCore& caller) { auto& core = DownCast<Core>(caller); Consume<0>(st, core); DecRef(); } Strategy st; }; template <typename Strategy, typename... Cores> struct StaticCombinator : IRef { private: template <typename Sequence> struct OrderedCallbacks; template <std::size_t... Is> struct OrderedCallbacks<std::index_sequence<Is...>> { using Type = std::tuple<CombinatorCallback<StaticCombinator, Cores, Is>...>; }; using UniqueUniqueCores = typename CoreSignature<Cores...>::UniqueUniqueCores; using SharedCores = typename CoreSignature<Cores...>::SharedCores; template <typename UniqueTuple, typename SharedTuple> struct UnorderedCallbacks; template <typename... UniqueCores, typename... SharedCores> struct UnorderedCallbacks<std::tuple<UniqueCores...>, std::tuple<SharedCores...>> { std::tuple<CombinatorCallback<StaticCombinator, UniqueCores, 0>...> unique_tuple; std::tuple<CombinatorCallback<StaticCombinator, SharedCores, 0>...> shared_tuple; }; using Callbacks = std::conditional_t<kIsOrdered<Strategy::kConsumePolicy>, typename OrderedCallbacks<decltype(std::make_index_sequence<sizeof...(Cores)>{})>::Type, UnorderedCallbacks<UniqueUniqueCores, SharedCores>>; template <typename Tuple, std::size_t... Is> void InitImpl(Tuple& tuple, std::index_sequence<Is...>) { ((std::get<Is>(tuple) = {this}), ...); } template <typename Tuple> void Init(Tuple& tuple) { InitImpl(tuple, std::make_index_sequence<std::tuple_size_v<Tuple>>{}); } template <std::size_t Index, typename Core> auto& GetCallbackHelper() { if constexpr (kIsOrdered<Strategy::kConsumePolicy>) { return std::get<Index>(callbacks); } else if constexpr (IsSharedCore<Core>::Value) { return std::get<translate_index_v<Index, std::tuple<Cores...>, SharedCores>>(callbacks.shared_tuple); } else { return std::get<index_of_v<Core, UniqueUniqueCores>>(callbacks.unique_tuple); } } template <std::size_t Index, typename Core> void SetCore(Core& core) { auto& callback = GetCallbackHelper<Index, Core>(); if constexpr (Strategy::kCorePolicy == CorePolicy::Owned) { st.Register(Index, core); } if (!core.SetCallback(callback)) { Consume<Index>(st, core); DecRef(); } } template <std::size_t... Is> void SetImpl(std::index_sequence<Is...>, Cores&... cores) { (SetCore<Is>(cores), ...); } public: StaticCombinator(std::size_t count, typename Strategy::PromiseType p) : st{count, std::move(p)} { if constexpr (kIsOrdered<Strategy::kConsumePolicy>) { Init(callbacks); } else { Init(callbacks.unique_tuple); Init(callbacks.shared_tuple); } } void Set(Cores&... cores) { SetImpl(std::make_index_sequence<sizeof...(Cores)>{}, cores...); } Strategy st; Callbacks callbacks; }; template <typename Strategy, typename Core> struct DynamicCombinator : IRef { DynamicCombinator(std::size_t count, typename Strategy::PromiseType p) : st{count, std::move(p)}, callbacks{count, {this}} { } template <typename Iterator> void Set(Iterator begin, std::size_t count) { for (std::size_t i = 0; i < count; ++i) { auto& core = *begin->GetCore().Release(); if constexpr (Strategy::kCorePolicy == CorePolicy::Owned) { st.Register(i, core); } if (!core.SetCallback(callbacks[i])) { Consume(st, core, i); DecRef(); } ++begin; } } Strategy st; std::vector<CombinatorCallback<DynamicCombinator, Core, kDynamicTag>> callbacks; }; template <template <FailPolicy, typename...> typename Strategy, FailPolicy F, typename OutputValue, typename OutputError, typename... Futures> auto When(Futures... futures) { if constexpr (sizeof...(Futures) == 0) { return Future<OutputValue, OutputError>{nullptr}; } else { auto [f, p] = MakeContract<OutputValue, OutputError>(); using Head = typename head_t<Futures...>::Core; using Value = typename Head::Value; using Error = typename Head::Error; using InputCore = std::conditional_t<(... && std::is_same_v<Head, typename Futures::Core>), Head, std::conditional_t<(... && (std::is_same_v<Value, typename Futures::Core::Value> && std::is_same_v<Error, typename Futures::Core::Error>)), detail::ResultCore<Value, Error>, detail::InlineCore>>; using S = Strategy<F, OutputValue, OutputError, InputCore>; using FinalCombinator = std::conditional_t<CoreSignature<typename Futures::Core...>::kTotalCount == 1 && !kIsOrdered<S::kConsumePolicy>, SingleCombinator<S, head_t<typename Futures::Core...>>, StaticCombinator<S, typename Futures::Core...>>; auto* combinator = MakeShared<FinalCombinator>(sizeof...(Futures), sizeof...(Futures), std::move(p)).Release(); combinator->Set(*futures.GetCore().Release()...); return std::move(f); } } template <template <FailPolicy, typename...> typename Strategy, FailPolicy F, typename OutputValue, typename OutputError, typename Iterator, typename Value = typename std::iterator_traits<Iterator>::value_type> auto When(Iterator begin, std::size_t count) { if (count == 0) { return Future<OutputValue, OutputError>{nullptr}; } auto [f, p] = MakeContract<OutputValue, OutputError>(); using Core = typename Value::Core; using S = Strategy<F, OutputValue, OutputError, Core>; static_assert(S::kConsumePolicy != ConsumePolicy::Static); using FinalCombinator = std::conditional_t<!kIsOrdered<S::kConsumePolicy> && IsUniqueCore<Core>::Value, SingleCombinator<S, Core>, DynamicCombinator<S, Core>>; auto* combinator = MakeShared<FinalCombinator>(count, count, std::move(p)).Release(); combinator->Set(begin, count); return std::move(f); } }"

def WhenSrc_all_hpp : String :=
  "#pragma once #include <yaclib_std/detail/atomic.hpp> #include <yaclib/async/promise.hpp> #include <yaclib/util/combinator_strategy.hpp> #include <yaclib/util/fail_policy.hpp> #include <yaclib/util/result.hpp> #include <yaclib/util/type_traits.hpp> #include <vector> namespace yaclib::when { template <FailPolicy F, typename OutputValue, typename OutputError, typename InputCore> struct All { static_assert(F != FailPolicy::LastFail, \"LastFail policy is not supported by All\"); }; template <typename OutputValue, typename OutputError, typename InputCore> struct All<FailPolicy::None, OutputValue, OutputError, InputCore> { using PromiseType = Promise<OutputValue, OutputError>; static constexpr ConsumePolicy kConsumePolicy = ConsumePolicy::None; static constexpr CorePolicy kCorePolicy = CorePolicy::Owned; All(std::size_t count, PromiseType p) : _p{std::move(p)} { _cores.resize(count); } void Register(std::size_t i, InputCore& core) { _cores[i] = &core; } ~All() { OutputValue output; output.reserve(_cores.size()); for (auto* core : _cores) { output.push_back(core->Retire()); } std::move(_p).Set(std::move(output)); } private: std::vector<InputCore*> _cores; PromiseType _p; }; template <typename OutputValue, typename OutputError, typename InputCore> struct All<FailPolicy::FirstFail, OutputValue, OutputError, InputCore> { using PromiseType = Promise<OutputValue, OutputError>; static constexpr ConsumePolicy kConsumePolicy = ConsumePolicy::Unordered; static constexpr CorePolicy kCorePolicy = CorePolicy::Owned; All(std::size_t count, PromiseType p) : _p{std::move(p)} { _cores.resize(count); } void Register(std::size_t i, InputCore& core) { _cores[i] = &core; } void Consume(InputCore& core) { auto& result = core.Get(); if (!result && !_done.load(std::memory_order_relaxed) && !_done.exchange(true, std::memory_order_acq_rel)) { if (result.State() == ResultState::Exception) { std::move(_p).Set(std::as_const(result).Exception()); } else { std::move(_p).Set(std::as_const(result).Error()); } } } ~All() { if (_p.Valid()) { OutputValue result; result.reserve(_cores.size()); for (auto* core : _cores) { result.push_back(core->Retire().Value()); } std::move(_p).Set(std::move(result)); } else { for (auto* core : _cores) { core->DecRef(); } } } private: std::vector<InputCore*> _cores; yaclib_std::atomic_bool _done = false; PromiseType _p; }; }"

def WhenSrc_all_tuple_hpp : String :=
  "#pragma once #include <yaclib_std/detail/atomic.hpp> #include <yaclib/async/promise.hpp> #include <yaclib/util/combinator_strategy.hpp> #include <yaclib/util/fail_policy.hpp> #include <yaclib/util/result.hpp> #include <yaclib/util/type_traits.hpp> namespace yaclib::when { template <FailPolicy F, typename OutputValue, typename OutputError, typename InputCore> struct AllTuple { static_assert(F != FailPolicy::LastFail, \"LastFail policy is not supported by AllTuple\"); }; template <typename OutputValue, typename OutputError, typename InputCore> struct AllTuple<FailPolicy::None, OutputValue, OutputError, InputCore> { using PromiseType = Promise<OutputValue, OutputError>; static constexpr ConsumePolicy kConsumePolicy = ConsumePolicy::Static; static constexpr CorePolicy kCorePolicy = CorePolicy::Managed; AllTuple(std::size_t count, PromiseType p) : _p{std::move(p)} { } template <std::size_t Index, typename Result> void Consume(Result&& result) { std::get<Index>(_tuple) = std::forward<Result>(result); } ~AllTuple() { std::move(_p).Set(std::move(_tuple)); } private: OutputValue _tuple; PromiseType _p; }; template <typename OutputValue, typename OutputError, typename InputCore> struct AllTuple<FailPolicy::FirstFail, OutputValue, OutputError, InputCore> { using PromiseType = Promise<OutputValue, OutputError>; static constexpr ConsumePolicy kConsumePolicy = ConsumePolicy::Static; static constexpr CorePolicy kCorePolicy = CorePolicy::Managed; AllTuple(std::size_t count, PromiseType p) : _p{std::move(p)} { } template <std::size_t Index, typename Result> void Consume(Result&& result) { if (!result && !_done.load(std::memory_order_relaxed) && !_done.exchange(true, std::memory_order_acq_rel)) { if (result.State() == ResultState::Error) { std::move(_p).Set(std::forward<Result>(result).Error()); } else { std::move(_p).Set(std::forward<Result>(result).Exception()); } } else if (result) { std::get<Index>(_tuple) = std::forward<Result>(result).Value(); } } ~AllTuple() { if (_p.Valid()) { std::move(_p).Set(std::move(_tuple)); } } private: yaclib_std::atomic_bool _done = false; OutputValue _tuple; PromiseType _p; }; }"

def WhenSrc_join_hpp : String :=
  "#pragma once #include <yaclib/async/promise.hpp> #include <yaclib/util/combinator_strategy.hpp> #include <yaclib/util/fail_policy.hpp> #include <yaclib/util/result.hpp> #include <atomic> namespace yaclib::when { template <FailPolicy F, typename OutputValue, typename OutputError, typename InputCore> struct Join { static_assert(F != FailPolicy::LastFail, \"LastFail policy is not supported by Join\"); static_assert(std::is_void_v<OutputValue>, \"OutputValue should be void for Join\"); }; template <typename OutputError, typename InputCore> struct Join<FailPolicy::None, void, OutputError, InputCore> { using PromiseType = Promise<void, OutputError>; static constexpr ConsumePolicy kConsumePolicy = ConsumePolicy::None; static constexpr CorePolicy kCorePolicy = CorePolicy::Managed; Join(std::size_t count, PromiseType p) noexcept : _p{std::move(p)} { } ~Join() { std::move(_p).Set(); } private: PromiseType _p; }; template <typename OutputError, typename InputCore> struct Join<FailPolicy::FirstFail, void, OutputError, InputCore> { using PromiseType = Promise<void, OutputError>; static constexpr ConsumePolicy kConsumePolicy = ConsumePolicy::Unordered; static constexpr CorePolicy kCorePolicy = CorePolicy::Managed; Join(std::size_t count, PromiseType p) noexcept : _p{std::move(p)} { } template <typename Result> void Consume(Result&& result) { if (!result && !_done.load(std::memory_order_relaxed) && !_done.exchange(true, std::memory_order_acq_rel)) { if (result.State() == ResultState::Error) { std::move(_p).Set(std::forward<Result>(result).Error()); } else { std::move(_p).Set(std::forward<Result>(result).Exception()); } } } ~Join() { if (_p.Valid()) { std::move(_p).Set(); } } private: yaclib_std::atomic_bool _done = false; PromiseType _p; }; }"

def WhenSrc_any_hpp : String :=
  "#pragma once #include <yaclib/async/promise.hpp> #include <yaclib/util/combinator_strategy.hpp> #include <yaclib/util/fail_policy.hpp> #include <yaclib/util/type_traits.hpp> #include <atomic> namespace yaclib::when { template <FailPolicy F, typename OutputValue, typename OutputError, typename InputCore> struct Any; template <typename OutputValue, typename OutputError, typename InputCore> struct Any<FailPolicy::None, OutputValue, OutputError, InputCore> { using PromiseType = Promise<OutputValue, OutputError>; static constexpr ConsumePolicy kConsumePolicy = ConsumePolicy::Unordered; static constexpr CorePolicy kCorePolicy = CorePolicy::Managed; Any(std::size_t count, PromiseType p) : _p{std::move(p)} { } template <typename Result> void Consume(Result&& result) { if (!_done.load(std::memory_order_relaxed) && !_done.exchange(true, std::memory_order_acq_rel)) { if (result) { std::move(_p).Set(std::forward<Result>(result).Value()); } else if (result.State() == ResultState::Error) { std::move(_p).Set(std::forward<Result>(result).Error()); } else { std::move(_p).Set(std::forward<Result>(result).Exception()); } } } yaclib_std::atomic_bool _done = false; PromiseType _p; }; template <typename OutputValue, typename OutputError, typename InputCore> struct Any<FailPolicy::FirstFail, OutputValue, OutputError, InputCore> { using PromiseType = Promise<OutputValue, OutputError>; static constexpr ConsumePolicy kConsumePolicy = ConsumePolicy::Unordered; static constexpr CorePolicy kCorePolicy = CorePolicy::Managed; Any(std::size_t count, PromiseType p) : _p{std::move(p)} { } template <typename Result> void Consume(Result&& result) { if (result) { if (_state.load(std::memory_order_relaxed) != State::kValue && _state.exchange(State::kValue, std::memory_order_acq_rel) != State::kValue) { std::move(_p).Set(std::forward<Result>(result).Value()); } } else { State expected = State::kEmpty; if (_state.load(std::memory_order_relaxed) == expected && _state.compare_exchange_strong(expected, State::kError, std::memory_order_acq_rel)) { if (result.State() == ResultState::Error) { error = std::forward<Result>(result).Error(); } else { error = std::forward<Result>(result).Exception(); } } } } ~Any() { if (_p.Valid()) { if (error.State() == ResultState::Error) { std::move(_p).Set(std::move(error).Error()); } else { std::move(_p).Set(std::move(error).Exception()); } } } private: enum class State { kEmpty, kError, kValue, }; yaclib_std::atomic<State> _state = State::kEmpty; Result<void, OutputError> error; PromiseType _p; }; template <typename OutputValue, typename OutputError, typename InputCore> struct Any<FailPolicy::LastFail, OutputValue, OutputError, InputCore> { using PromiseType = Promise<OutputValue, OutputError>; static constexpr ConsumePolicy kConsumePolicy = ConsumePolicy::Unordered; static constexpr CorePolicy kCorePolicy = CorePolicy::Managed; Any(std::size_t count, PromiseType p) : _state{2 * count}, _p{std::move(p)} { } template <typename Result> void Consume(Result&& result) { if (!DoneImpl(_state.load(std::memory_order_acquire))) { if (result) { if (!DoneImpl(_state.exchange(1, std::memory_order_acq_rel))) { std::move(_p).Set(std::forward<Result>(result).Value()); } } else if (_state.fetch_sub(2, std::memory_order_acq_rel) == 2) { if (result.State() == ResultState::Error) { std::move(_p).Set(std::forward<Result>(result).Error()); } else { std::move(_p).Set(std::forward<Result>(result).Exception()); } } } } private: static bool DoneImpl(std::size_t value) noexcept { return (value & 1U) != 0; } yaclib_std::atomic_size_t _state; PromiseType _p; }; }"

def WhenSrc_when_all_hpp : String :=
  "#pragma once #include <yaclib/algo/detail/result_core.hpp> #include <yaclib/async/when/all.hpp> #include <yaclib/async/when/all_tuple.hpp> #include <yaclib/async/when/join.hpp> #include <yaclib/async/when/when.hpp> #include <yaclib/config.hpp> #include <yaclib/util/fail_policy.hpp> #include <yaclib/util/type_traits.hpp> namespace yaclib { template <typename Core, FailPolicy F> using ContainerElem = std::conditional_t<F == FailPolicy::FirstFail, wrap_void_t<typename Core::Value>, Result<typename Core::Value, typename Core::Error>>; template <FailPolicy F = FailPolicy::FirstFail, typename... Futures, typename = std::enable_if_t<(... && is_combinator_input_v<Futures>)>> YACLIB_INLINE auto WhenAll(Futures... futures) { when::CheckSameError<Futures...>(); using Head = typename head_t<Futures...>::Core; using Value = typename Head::Value; using OutputError = typename Head::Error; if constexpr ((... && std::is_same_v<Value, typename Futures::Core::Value>)) { if constexpr (std::is_same_v<Value, void> && F != FailPolicy::None) { return when::When<when::Join, F, void, OutputError>(std::move(futures)...); } else { using OutputValue = std::vector<ContainerElem<Head, F>>; return when::When<when::All, F, OutputValue, OutputError>(std::move(futures)...); } } else { using OutputValue = std::tuple<ContainerElem<typename Futures::Core, F>...>; return when::When<when::AllTuple, F, OutputValue, OutputError>(std::move(futures)...); } } template <FailPolicy F = FailPolicy::FirstFail, typename It, typename T = typename std::iterator_traits<It>::value_type> YACLIB_INLINE auto WhenAll(It begin, std::size_t count) { using OutputError = typename T::Core::Error; if constexpr (std::is_same_v<typename T::Core::Value, void> && F != FailPolicy::None) { return when::When<when::Join, F, void, OutputError>(begin, count); } else { using OutputValue = std::vector<ContainerElem<typename T::Core, F>>; return when::When<when::All, F, OutputValue, OutputError>(begin, count); } } template <FailPolicy F = FailPolicy::FirstFail, typename It, typename T = typename std::iterator_traits<It>::value_type> YACLIB_INLINE auto WhenAll(It begin, It end) { return WhenAll<F>(begin, static_cast<std::size_t>(end - begin)); } }"

def WhenSrc_when_any_hpp : String :=
  "#pragma once #include <yaclib/async/when/any.hpp> #include <yaclib/async/when/when.hpp> #include <yaclib/config.hpp> #include <yaclib/util/fail_policy.hpp> #include <yaclib/util/type_traits.hpp> namespace yaclib { template <FailPolicy F = FailPolicy::LastFail, typename... Futures, typename = std::enable_if_t<(... && is_combinator_input_v<Futures>)>> YACLIB_INLINE auto WhenAny(Futures... futures) { when::CheckSameError<Futures...>(); using OutputValue = typename MaybeVariant<typename Unique<std::tuple<typename Futures::Core::Value...>>::Type>::Type; using OutputError = typename head_t<Futures...>::Core::Error; return when::When<when::Any, F, OutputValue, OutputError>(std::move(futures)...); } template <FailPolicy F = FailPolicy::LastFail, typename It, typename T = typename std::iterator_traits<It>::value_type> YACLIB_INLINE auto WhenAny(It begin, std::size_t count) { if constexpr (is_future_base_v<T>) { if (count == 1) { using V = async_value_t<T>; using E = async_error_t<T>; return Future<V, E>{std::exchange(begin->GetCore(), nullptr)}; } } return when::When<when::Any, F, typename T::Core::Value, typename T::Core::Error>(begin, count); } template <FailPolicy F = FailPolicy::LastFail, typename It, typename T = typename std::iterator_traits<It>::value_type> YACLIB_INLINE auto WhenAny(It begin, It end) { return WhenAny<F>(begin, static_cast<std::size_t>(end - begin)); } }"

def WhenSrc_async_join_hpp : String :=
  "#pragma once #include <yaclib/async/when/join.hpp> #include <yaclib/async/when/when.hpp> #include <yaclib/util/fail_policy.hpp> #include <yaclib/util/type_traits.hpp> namespace yaclib { template <FailPolicy F = FailPolicy::None, typename... Futures, typename = std::enable_if_t<(... && is_combinator_input_v<Futures>)>> YACLIB_INLINE auto Join(Futures... futures) { when::CheckSameError<Futures...>(); return when::When<when::Join, F, void, typename head_t<Futures...>::Core::Error>(std::move(futures)...); } template <FailPolicy F = FailPolicy::None, typename It, typename T = typename std::iterator_traits<It>::value_type> YACLIB_INLINE auto Join(It begin, std::size_t count) { return when::When<when::Join, F, void, typename T::Core::Error>(begin, count); } template <FailPolicy F = FailPolicy::None, typename It, typename T = typename std::iterator_traits<It>::value_type> YACLIB_INLINE auto Join(It begin, It end) { return Join<F>(begin, static_cast<std::size_t>(end - begin)); } };"

def WhenSrc_combinator_strategy_hpp : String :=
  "#pragma once #include <yaclib/async/promise.hpp> #include <yaclib/util/fail_policy.hpp> namespace yaclib { enum class ConsumePolicy { None, Unordered, Static, Dynamic, }; enum class CorePolicy { Owned, Managed, }; }"

def WhenSrc_fail_policy_hpp : String :=
  "#pragma once namespace yaclib { enum class FailPolicy : unsigned char { None = 0, FirstFail = 1, LastFail = 2, }; }"

def WhenSrc_type_traits_inputs : String :=
  "template <typename T> inline constexpr bool is_future_base_v = detail::IsInstantiationOf<FutureBase, T>::Value || detail::IsInstantiationOf<Future, T>::Value || detail::IsInstantiationOf<FutureOn, T>::Value; template <typename T> inline constexpr bool is_shared_future_base_v = detail::IsInstantiationOf<SharedFutureBase, T>::Value || detail::IsInstantiationOf<SharedFuture, T>::Value || detail::IsInstantiationOf<SharedFutureOn, T>::Value; template <typename T> inline constexpr bool is_task_v = detail::IsInstantiationOf<Task, T>::Value; template <typename T> inline constexpr bool is_waitable_v = is_shared_future_base_v<remove_cvref_t<T>> || (!std::is_const_v<std::remove_reference_t<T>> && is_future_base_v<remove_cvref_t<T>>); template <typename T> inline constexpr bool is_waitable_with_timeout_v = (!std::is_const_v<std::remove_reference_t<T>> && is_future_base_v<remove_cvref_t<T>>); template <typename T> inline constexpr bool is_combinator_input_v = (is_shared_future_base_v<T> || is_future_base_v<T>);"

def WhenSrc_type_traits_tuples : String :=
  "template <typename T, typename... List> inline constexpr auto kCount = (std::size_t{std::is_same_v<T, List> ? 1 : 0} + ...); template <typename T, typename... Ts> inline constexpr auto kContains = (std::is_same_v<T, Ts> || ...); template <typename T, typename Tuple> struct Prepend; template <typename T, typename... Ts> struct Prepend<T, std::tuple<Ts...>> { using Type = std::tuple<T, Ts...>; }; template <typename Tuple> struct Tail; template <typename T, typename... Ts> struct Tail<std::tuple<T, Ts...>> { using Type = std::tuple<Ts...>; }; template <typename Tuple> using tail_t = typename Tail<Tuple>::Type; template <template <typename> typename F, typename Tuple> struct Filter; template <template <typename> typename F> struct Filter<F, std::tuple<>> { using Type = std::tuple<>; }; template <template <typename> typename F, typename T> struct Filter<F, std::tuple<T>> { using Type = std::conditional_t<F<T>::Value, std::tuple<T>, std::tuple<>>; }; template <template <typename> typename F, typename T, typename... Ts> struct Filter<F, std::tuple<T, Ts...>> { private: using PrevType = typename Filter<F, std::tuple<Ts...>>::Type; public: using Type = std::conditional_t<F<T>::Value, typename Prepend<T, PrevType>::Type, PrevType>; }; template <typename Tuple> struct Unique; template <> struct Unique<std::tuple<>> { using Type = std::tuple<>; }; template <typename T> struct Unique<std::tuple<T>> { using Type = std::tuple<T>; }; template <typename T, typename... Ts> struct Unique<std::tuple<T, Ts...>> { private: using PrevType = typename Unique<std::tuple<Ts...>>::Type; public: using Type = std::conditional_t<kContains<T, Ts...>, PrevType, typename Prepend<T, PrevType>::Type>; }; template <typename Tuple> struct Variant; template <typename... Ts> struct Variant<std::tuple<Ts...>> { using Type = std::variant<Ts...>; }; template <typename T> struct WrapVoid { using Type = T; }; template <> struct WrapVoid<void> { using Type = Unit; }; template <typename T> using wrap_void_t = typename WrapVoid<T>::Type; template <typename Tuple> struct MaybeVariant; template <typename T> struct MaybeVariant<std::tuple<T>> { using Type = T; }; template <typename... Ts> struct MaybeVariant<std::tuple<Ts...>> { using Type = std::variant<wrap_void_t<Ts>...>; }; template <std::size_t FromIndex, std::size_t ToIndex, typename FromTuple, typename ToTuple> struct TranslateIndexImpl; template <std::size_t ToIndex, typename... From, typename... To> struct TranslateIndexImpl<0, ToIndex, std::tuple<From...>, std::tuple<To...>> { static_assert(sizeof...(From) >= sizeof...(To)); static constexpr std::size_t Index() { return ToIndex; } }; template <std::size_t FromIndex, std::size_t ToIndex, typename... From, typename... To> struct TranslateIndexImpl<FromIndex, ToIndex, std::tuple<From...>, std::tuple<To...>> { static_assert(sizeof...(From) >= sizeof...(To)); static_assert(FromIndex != 0); static constexpr std::size_t Index() { if constexpr (std::is_same_v<head_t<From...>, head_t<To...>>) { return TranslateIndexImpl<FromIndex - 1, ToIndex + 1, tail_t<std::tuple<From...>>, tail_t<std::tuple<To...>>>::Index(); } else { return TranslateIndexImpl<FromIndex - 1, ToIndex, tail_t<std::tuple<From...>>, std::tuple<To...>>::Index(); } } }; template <std::size_t FromIndex, typename FromTuple, typename ToTuple> inline constexpr std::size_t translate_index_v = TranslateIndexImpl<FromIndex, 0, FromTuple, ToTuple>::Index(); template <typename T, typename Tuple> struct IndexOf; template <typename T, typename... Ts> struct IndexOf<T, std::tuple<Ts...>> { static_assert(sizeof...(Ts) > 0); static constexpr std::size_t Index() { if constexpr (std::is_same_v<T, head_t<Ts...>>) { return 0; } else { return 1 + IndexOf<T, tail_t<std::tuple<Ts...>>>::Index(); } } }; template <typename T, typename Tuple> inline constexpr std::size_t index_of_v = IndexOf<T, Tuple>::Index();"

def When_StaticCombinator_GetCallbackHelper : String :=
  "GetCallbackHelper() { ifc (kIsOrdered) { return get<Index>(callbacks) } else ifc (Value) { return get<translate_index_v<Index,std::tuple<Cores...>,SharedCores>>(callbacks.shared_tuple) } else { return get<index_of_v<Core,UniqueUniqueCores>>(callbacks.unique_tuple) } }"

def When_StaticCombinator_InitImpl : String :=
  "InitImpl(tuple, _) { fold((get<Is>(tuple) = init(this))) }"

def When_CombinatorCallback_Here : String :=
  "Here(caller) { Impl(caller); return nullptr }"

def When_SingleCombinator_Here : String :=
  "Here(caller) { Impl(caller); return nullptr }"

def TypeTraits_TranslateIndexImpl_Index : String :=
  "Index() { return ToIndex } || Index() { ifc (is_same_v) { return TranslateIndexImpl<FromIndex-1,ToIndex+1,tail_t<std::tuple<From...>>,tail_t<std::tuple<To...>>>::Index() } else { return TranslateIndexImpl<FromIndex-1,ToIndex,tail_t<std::tuple<From...>>,std::tuple<To...>>::Index() } }"

def TypeTraits_IndexOf_Index : String :=
  "Index() { ifc (is_same_v) { return 0 } else { return (1 + IndexOf<T,tail_t<std::tuple<Ts...>>>::Index()) } }"

def Destroy_await_suspend : String :=
  "await_suspend(handle) { var promise = handle.promise(); return promise.SetResult<true>() }"

def PromiseType_initial_suspend : String :=
  "initial_suspend() { ifc (Lazy) { return cast(init()) } else { return cast(init()) } }"

def PromiseType_unhandled_exception : String :=
  "unhandled_exception() { Store(current_exception()) }"

def PromiseType_return_value : String :=
  "return_value(value) { Store(forward<Value>(value)) }"

def PromiseType_Call : String :=
  "Call() { var next = Curr(); next.resume() }"

def PromiseType_Drop : String :=
  "Drop() { Store(cast(init())); SetResult<true>().resume() }"

def PromiseType_Impl : String :=
  "Impl(caller) { (_executor = DownCast<BaseCore>(caller)._executor) }"

def PromiseType_Here : String :=
  "Here(caller) { Impl(caller); Call(); return nullptr }"

def PromiseType_Next : String :=
  "Next(caller) { Impl(caller); return Curr() }"

def PromiseTypeDeleter_Delete : String :=
  "Delete(core) { var promise = DownCast<PromiseType<V,E,Lazy,Shared>>(core); var handle = promise.Handle(); handle.destroy() }"

def AwaitAwaiter_await_suspend : String :=
  "await_suspend(handle) { return init(init((*_core))).SetCallback(handle.promise()) } || await_suspend(handle) { var caller_handle = init(init((*_core))); (_core = operator&(handle.promise())); return caller_handle.SetCallback((*this)) }"

def AwaitAwaiter_Call : String :=
  "Call() { _core._executor.Submit((*_core)) }"

def AwaitEvent_Impl : String :=
  "Impl(caller) { if (SubEqual(1)) { ifc (Sticky) { var curr = cast(next); operator->(curr._executor).Submit((*curr)) } else { var curr = cast(next); ifc (SymmetricTransfer) { return Step<true>(caller, (*curr)) } else { (curr = curr.Here(caller)) } } }; return Noop<SymmetricTransfer>() }"

def MultiAwaitAwaiter_await_ready : String :=
  "await_ready() { return operator==(Get(acq), 1) }"

def MultiAwaitAwaiter_await_suspend : String :=
  "await_suspend(handle) { (next = operator&(handle.promise())); return (!SubEqual(1)) }"

def AwaitSingleAwaiter_await_ready : String :=
  "await_ready() { return _result.Ready() }"

def AwaitSingleAwaiter_await_suspend : String :=
  "await_suspend(handle) { return _result.SetCallback(handle.promise()) }"

def AwaitSingleAwaiter_await_resume_unique : String :=
  "await_resume() { return move(_result.Get()).Ok() }"

def AwaitSingleAwaiter_await_resume_shared : String :=
  "await_resume() { return as_const(_result.Get()).Ok() }"

def TransferAwaiter_await_suspend : String :=
  "await_suspend(handle) { _caller.StoreCallback(handle.promise()); var next = MoveToCaller((&_caller.core)); return next.Next(handle.promise()) }"

def TransferSingleAwaiter_await_suspend : String :=
  "await_suspend(handle) { _result.StoreCallback(handle.promise()); var next = MoveToCaller(_result.Get()); return next.Next(handle.promise()) }"

def TransferSingleAwaiter_await_resume : String :=
  "await_resume() { return move(_result.Get()).Ok() }"

def AwaitOnEvent_Impl : String :=
  "Impl(_) { ifc (Single) { operator->(job._executor).Submit((*job)) } else { if (SubEqual(1)) { operator->(job._executor).Submit((*job)) } }; return Noop<SymmetricTransfer>() }"

def AwaitOnAwaiter_await_suspend : String :=
  "await_suspend(handle) { var core = handle.promise(); (core._executor = (&_executor)); var caller_handle = init((*job)); (job = operator&(core)); if ((!caller_handle.SetCallback((*this)))) { _executor.Submit(core) } }"

def MultiAwaitOnAwaiter_await_suspend : String :=
  "await_suspend(handle) { var core = handle.promise(); (core._executor = (&_executor)); (job = operator&(core)); if (SubEqual(1)) { _executor.Submit(core) } }"

def OnAwaiter_await_suspend : String :=
  "await_suspend(handle) { var promise = handle.promise(); (promise._executor = (&_executor)); _executor.Submit(promise) }"

def Yield_await_suspend : String :=
  "await_suspend(handle) { var promise = handle.promise(); promise._executor.Submit(promise) }"

def CurrentAwaiter_await_suspend : String :=
  "await_suspend(handle) { var promise = handle.promise(); (_executor = promise._executor.Get()); ifc (Yield) { _executor.Submit(promise) } else { return false } }"

def CurrentAwaiter_await_resume : String :=
  "await_resume() { return (*_executor) }"

def SetCallbacksStatic : String :=
  "SetCallbacksStatic(event, handles) { decl StaticAssertDecl; var wait_count = lambda{ ifc ((!Event::kShared)) { var setter = lambda{ return handle.SetCallback(event) }; return fold(cast(setter(handles))) } else { var setter = lambda{ ifc (is_same_v) { return handle.SetCallback(event) } else { return handle.SetCallback(event.callbacks[(callback_count++)]) } }; return fold(cast(setter(handles))) } }(); event.count.fetch_sub((sizeof... - wait_count), rlx) }"

def SetCallbacksDynamic : String :=
  "SetCallbacksDynamic(event, it, count) { var wait_count = 0; for (var i = 0; (i != count); (++i)) { ifc (is_same_v) { (wait_count += cast(it.GetHandle().SetCallback(event))) } else { (wait_count += cast(it.GetHandle().SetCallback(event.callbacks[i]))) }; (++it) }; event.count.fetch_sub((count - wait_count), rlx) }"

def EventHelperCallback_Here : String :=
  "Here(caller) { return event.GetCall().Here(caller) }"

end Yaclib.Skeletons
