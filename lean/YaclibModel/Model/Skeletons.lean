/- The kernel skeletons the hand-written models were written from (committed copy; refreshed only by
   tools/regolden.py after review).  `Extracted/Kernels.lean` is regenerated from /repo on every run and the
   property files prove `Extracted.Kernels.X = Skeletons.X`. -/
namespace Yaclib.Skeletons

def BaseCore_SetCallbackImpl : String :=
  "SetCallbackImpl(callback) { ifc (Shared) { var next = _callback.load(acq); do { if ((next == kResult)) { return false }; (callback.next = cast(next)) } while ((!_callback.compare_exchange_weak(next, cast((&callback)), rel, acq))); return true } else { var expected = kEmpty; return ((_callback.load(acq) == expected) && _callback.compare_exchange_strong(expected, cast((&callback)), rel, acq)) } }"

def BaseCore_ResetImpl : String :=
  "ResetImpl() { var expected = _callback.load(rlx); return ((expected != kResult) && _callback.compare_exchange_strong(expected, kEmpty, rlx)) }"

def BaseCore_SetInlineImpl : String :=
  "SetInlineImpl(callback) { if ((!SetCallbackImpl<Shared>(callback))) { return Step((*this), callback) }; return Noop() }"

def BaseCore_SetResultImpl : String :=
  "SetResultImpl() { var expected = _callback.exchange(kResult, acq_rel); ifc (Shared) { var head = cast(expected); if (head) { while (var next = head.next) { Loop(this, head); (head = cast(next)) }; DecRef(); Loop(this, head) } else { DecRef() }; DecRef(); DecRef(); return Noop() } else { if ((expected != kEmpty)) { var callback = cast(expected); return Step((*this), (*callback)) } else { return Noop() } } }"

def BaseCore_Empty : String :=
  "Empty() { var callback = _callback.load(acq); return (callback == kEmpty) }"

def Drop_Impl : String :=
  "Impl(caller) { caller.DecRef(); return Noop() }"

def Promise_Set : String :=
  "Set(args) { ifc ((sizeof... == 0)) { _core.Store(in_place) } else { _core.Store(pack(forward(args))) }; var core = _core.Release(); Loop(core, core.SetResult()) }"

def Promise_dtor : String :=
  "~Promise<V, E>() { if (Valid()) { move((*this)).Set(cast(init())) } }"

def FutureBase_dtor : String :=
  "~FutureBase<V, E>() { if (Valid()) { move((*this)).Detach() } }"

def FutureBase_Ready : String :=
  "Ready() { return (!_core.Empty()) }"

def FutureBase_GetConst : String :=
  "Get() { if (Ready()) { return (&_core.Get()) }; return nullptr }"

def FutureBase_GetMove : String :=
  "Get() { Wait((*this)); var core = exchange(_core, nullptr); return move(core.Get()) }"

def FutureBase_Detach : String :=
  "Detach() { var core = _core.Release(); core.CallInline(MakeDrop()) }"

def UniqueCore_CallInline : String :=
  "CallInline(callback) { if ((!SetCallback(callback))) { var next = callback.Here((*this)) } }"

def detail_SetCallback : String :=
  "SetCallback(core, executor, f) { decl TypeAliasDecl; decl TypeAliasDecl; var Unique = is_same_v; var Shared = is_same_v; decl StaticAssertDecl; var From = (Unique ? FromUnique : FromShared); var callback = MakeCore(forward(f)); ifc (IsDetach(CoreT)) { callback.StoreCallback(MakeDrop()) }; (callback._executor = executor); var caller = lambda{ ifc (Unique) { return core.Release() } else { return core.Get() } }(); ifc ((!IsLazy(CoreT))) { Loop(caller, caller.SetInline((*callback))) }; decl TypeAliasDecl; ifc (IsLazy(CoreT)) { decl StaticAssertDecl; (callback.next = caller); caller.StoreCallback((*callback)); return init(init(init(init(cast(init()), callback)))) } else ifc ((!IsDetach(CoreT))) { ifc (On) { return init(init(init(init(cast(init()), callback)))) } else { return init(init(init(init(cast(init()), callback)))) } } }"

def Connect_Unique : String :=
  "Connect(f, p) { decl StaticAssertDecl; if (f.GetCore().SetCallback((*p.GetCore().Get()))) { f.GetCore().Release(); p.GetCore().Release() } else { move(p).Set(move(f).Touch()) } } || Connect(f, p) { if (f.GetCore().SetCallback((*p.GetCore().Get()))) { p.GetCore().Release() } else { move(p).Set(f.Touch()) } } || Connect(f, p) { if (f.GetCore().SetCallback((*p.GetCore().Get()))) { f.GetCore().Release(); p.GetCore().Release() } else { move(p).Set(move(f).Touch()) } } || Connect(primary, subsumed) { var subsumed_core = subsumed.GetCore().Release(); (ignore = primary.GetCore().SetCallback((*subsumed_core))) }"

def WaitRange : String :=
  "WaitRange(event, timeout, range, count) { var wait_count = lambda{ ifc (Event::kShared) { return range(lambda{ ifc (is_same_v) { return handle.SetCallback(event.GetCall()) } else { return handle.SetCallback(event.callbacks[(callback_count++)]) } }) } else { return range(lambda{ return handle.SetCallback(event.GetCall()) }) } }(); if ((operator==(wait_count, 0) || event.SubEqual(((count - wait_count) + 1)))) { return true }; var token = event.Make(); var reset_count = 0; ifc ((!is_same_v)) { if (event.Wait(token, timeout)) { return true }; (reset_count = range(lambda{ return handle.Reset() })); if (((reset_count != 0) && (operator==(reset_count, wait_count) || event.SubEqual(reset_count)))) { return false } }; event.Wait(token); return (reset_count == 0) }"

def WaitCore : String :=
  "WaitCore(timeout, handles) { decl StaticAssertDecl; var kSharedCount = kCount; decl StaticAssertDecl; var range = lambda{ return fold(cast(func(handles))) }; decl TypeAliasDecl; decl TypeAliasDecl; var event = init((sizeof... + 1)); return WaitRange(event, timeout, range, sizeof...) }"

def MutexEvent_Set : String :=
  "Set() { var lock = init(_m); (_is_ready = true); _cv.notify_one() }"

def MutexEvent_Wait : String :=
  "Wait(token) { while ((!_is_ready)) { _cv.wait(token) } }"

def CallCallback_Impl : String :=
  "Impl() { DownCast((*this)).Sub(1); return Noop() }"

def Strand_Submit : String :=
  "Submit(job) { var expected = _jobs.load(rlx); do { (job.next = ((expected == Mark()) ? nullptr : expected)) } while ((!_jobs.compare_exchange_weak(expected, (&job), acq_rel, rlx))); if ((expected == Mark())) { cast((*this)).IncRef(); operator->(_executor).Submit((*this)) } }"

def Strand_Call : String :=
  "Call() { var node = _jobs.exchange(nullptr, acq); var prev = nullptr; do { var next = node.next; (node.next = prev); (prev = node); (node = next) } while ((node != nullptr)); do { var next = prev.next; cast(prev).Call(); (prev = next) } while ((prev != nullptr)); if (((_jobs.load(rlx) == node) && _jobs.compare_exchange_strong(node, Mark(), rel, rlx))) { cast((*this)).DecRef() } else { operator->(_executor).Submit((*this)) } }"

def Strand_Drop : String :=
  "Drop() { var node = _jobs.exchange(Mark(), acq_rel); do { var next = node.next; cast(node).Drop(); (node = next) } while ((node != nullptr)); cast((*this)).DecRef() }"

def MutexImpl_TryLockAwait : String :=
  "TryLockAwait() { var expected = kNotLocked; return ((_sender.load(rlx) == expected) && _sender.compare_exchange_strong(expected, kLockedNoWaiters, acq, rlx)) }"

def MutexImpl_AwaitLock : String :=
  "AwaitLock(curr) { var expected = _sender.load(rlx); while (true) { if ((expected == kNotLocked)) { if (_sender.compare_exchange_weak(expected, kLockedNoWaiters, acq, rlx)) { return false } } else { (curr.next = cast(expected)); if (_sender.compare_exchange_weak(expected, cast((&curr)), rel, rlx)) { return true } } } }"

def MutexImpl_TryUnlockAwait : String :=
  "TryUnlockAwait() { if ((_receiver != nullptr)) { return false }; var expected = kLockedNoWaiters; return ((_sender.load(rlx) == expected) && _sender.compare_exchange_strong(expected, kNotLocked, rel, rlx)) }"

def MutexImpl_BatchingPossible : String :=
  "BatchingPossible() { return (Batching && (_receiver != nullptr)) }"

def MutexImpl_UnlockHereAwait : String :=
  "UnlockHereAwait() { var next = GetHead(); (_receiver = cast(next.next)); next._executor.Submit(next) }"

def MutexImpl_AwaitUnlock : String :=
  "AwaitUnlock(curr) { var next = (*_receiver); (_receiver = cast(next.next)); curr._executor.Swap(next._executor); operator->(curr._executor).Submit(curr); return cast(init(next.Curr())) }"

def MutexImpl_AwaitUnlockOn : String :=
  "AwaitUnlockOn(curr, executor) { var curr_executor = exchange(curr._executor, (&executor)); executor.Submit(curr); if (TryUnlockAwait()) { return cast(init(noop_coroutine().operator coroutine_handle())) }; var next = GetHead(); ifc (Batching) { if ((_receiver != nullptr)) { (_receiver = cast(next.next)); (next._executor = move(curr_executor)); return init(init(next.Curr())) } }; (_receiver = cast(next.next)); next._executor.Submit(next); return cast(init(noop_coroutine().operator coroutine_handle())) }"

def MutexImpl_TryLock : String :=
  "TryLock() { return TryLockAwait() }"

def MutexImpl_UnlockHere : String :=
  "UnlockHere() { if ((!TryUnlockAwait())) { UnlockHereAwait() } }"

def MutexImpl_GetHead : String :=
  "GetHead() { if ((_receiver != nullptr)) { return (*_receiver) }; var expected = _sender.exchange(kLockedNoWaiters, acq); ifc (FIFO) { var node = cast(expected); var prev = nullptr; do { var next = node.next; (node.next = prev); (prev = node); (node = next) } while ((node != nullptr)); return (*cast(prev)) } else { return (*cast(expected)) } }"

def UnlockAwaiter_await_ready : String :=
  "await_ready() { if (_mutex.TryUnlockAwait()) { return true }; if (_mutex.BatchingPossible()) { return false }; _mutex.UnlockHereAwait(); return true }"

def UnlockAwaiter_await_suspend : String :=
  "await_suspend(handle) { return _mutex.AwaitUnlock(handle.promise()) }"

def UnlockOnAwaiter_await_ready : String :=
  "await_ready() { return false }"

def UnlockOnAwaiter_await_suspend : String :=
  "await_suspend(handle) { return _mutex.AwaitUnlockOn(handle.promise(), _executor) }"

def LockAwaiter_await_ready : String :=
  "await_ready() { ifc (Shared) { return _mutex.TryLockSharedAwait() } else { return _mutex.TryLockAwait() } }"

def LockAwaiter_await_suspend : String :=
  "await_suspend(handle) { ifc (Shared) { return _mutex.AwaitLockShared(handle.promise()) } else { return _mutex.AwaitLock(handle.promise()) } }"

def GuardAwaiter_await_resume : String :=
  "await_resume() { return init(init(Cast(_mutex), adopt_lock)) }"

def LockStickyAwaiter_await_ready : String :=
  "await_ready() { (_executor = nullptr); return _mutex.TryLockAwait() }"

def LockStickyAwaiter_await_suspend : String :=
  "await_suspend(handle) { var promise = handle.promise(); (_executor = promise._executor.Get()); if (_mutex.AwaitLock(promise)) { return true }; (_executor = nullptr); return false }"

def UnlockStickyAwaiter_await_ready : String :=
  "await_ready() { if ((_executor != nullptr)) { return false }; _mutex.UnlockHere(); return true }"

def UnlockStickyAwaiter_await_suspend : String :=
  "await_suspend(handle) { return _mutex.AwaitUnlockOn(handle.promise(), (*_executor)) }"

def GuardStickyAwaiter_await_ready : String :=
  "await_ready() { var mutex_impl = Cast((*_guard.Mutex())); var awaiter = init(mutex_impl, _guard._executor); return awaiter.await_ready() }"

def GuardStickyAwaiter_await_suspend : String :=
  "await_suspend(handle) { var mutex_impl = Cast((*_guard.Mutex())); var awaiter = init(mutex_impl, _guard._executor); return awaiter.await_suspend(handle) }"

def GuardStickyAwaiter_await_resume : String :=
  "await_resume() { return move(_guard) }"

def StickyGuard_Lock : String :=
  "Lock() { var m = cast(LockState()); var base = Cast((*m)); return init(init(base, _executor)) }"

def StickyGuard_Unlock : String :=
  "Unlock() { var m = cast(UnlockState()); var base = Cast((*m)); return init(init(base, _executor)) }"

def Guard_dtor : String :=
  "~Guard<M, Shared>() { if ((*this)) { UnlockHere() } }"

def Guard_Lock : String :=
  "Lock() { var m = cast(LockState()); ifc (Shared) { return m.LockShared() } else { return m.Lock() } }"

def Guard_TryLock : String :=
  "TryLock() { var m = cast(LockState()); if (TryLockImpl((*m))) { return true }; UnlockState(); return false }"

def Guard_Unlock : String :=
  "Unlock() { var m = cast(UnlockState()); ifc (Shared) { return m.UnlockShared() } else { return m.Unlock() } }"

def Guard_UnlockOn : String :=
  "UnlockOn(e) { var m = cast(UnlockState()); ifc (Shared) { return m.UnlockOnShared(e) } else { return m.UnlockOn(e) } }"

def Guard_UnlockHere : String :=
  "UnlockHere() { var m = cast(UnlockState()); ifc (Shared) { m.UnlockHereShared() } else { m.UnlockHere() } }"

def Guard_TryLockImpl : String :=
  "TryLockImpl(m) { ifc (Shared) { return m.TryLockShared() } else { return m.TryLock() } }"

def Mutex_TryGuard : String :=
  "TryGuard() { return init(init((*this), try_to_lock)) }"

def Mutex_Guard : String :=
  "Guard() { return init(init((*this))) }"

def Mutex_GuardSticky : String :=
  "GuardSticky() { return init(init((*this))) }"

def Mutex_Lock : String :=
  "Lock() { return init(init((*this))) }"

def Mutex_Unlock : String :=
  "Unlock() { return init(init((*this))) }"

def Mutex_UnlockOn : String :=
  "UnlockOn(e) { return init(init((*this), e)) }"

def SharedMutexImpl_TryLockSharedAwait : String :=
  "TryLockSharedAwait() { return ((_state.fetch_add(kReader, acq_rel) / kWriter) == 0) }"

def SharedMutexImpl_TryLockAwait : String :=
  "TryLockAwait() { var s = 0; return ((_state.load(rlx) == s) && _state.compare_exchange_strong(s, (s + kWriter), acq_rel, rlx)) }"

def SharedMutexImpl_AwaitLockShared : String :=
  "AwaitLockShared(curr) { var lock = init(_lock); if ((_readers_pass != 0)) { (--_readers_pass); return false }; _readers.PushBack(curr); (++_readers_size); return true }"

def SharedMutexImpl_AwaitLock : String :=
  "AwaitLock(curr) { (curr.next = nullptr); var lock = init(_lock); var s = _state.fetch_add(kWriter, acq_rel); if (((s / kWriter) == 0)) { var r = (s % kWriter); (_writers_first = (&curr)); return ((r != 0) && (_readers_wait.fetch_add(r, acq_rel) != (-r))) }; (_writers_tail.next = (&curr)); (_writers_tail = (&curr)); ifc (FIFO) { (_writers_prio += cast(_readers.Empty())) }; return true }"

def SharedMutexImpl_TryLockShared : String :=
  "TryLockShared() { var s = _state.load(rlx); do { if (((s / kWriter) != 0)) { return false } } while ((!_state.compare_exchange_weak(s, (s + kReader), acq_rel, rlx))); return true }"

def SharedMutexImpl_TryLock : String :=
  "TryLock() { return TryLockAwait() }"

def SharedMutexImpl_UnlockHereShared : String :=
  "UnlockHereShared() { if (var s = _state.fetch_sub(kReader, acq_rel); (s >= kWriter)) { if ((_readers_wait.fetch_sub(1, acq_rel) == 1)) { Run(_writers_first) } } }"

def SharedMutexImpl_UnlockHere : String :=
  "UnlockHere() { if (var s = kWriter; (!_state.compare_exchange_strong(s, 0, acq_rel, rlx))) { SlowUnlock() } }"

def SharedMutexImpl_Run : String :=
  "Run(node) { var core = cast((*node)); operator->(core._executor).Submit(core) }"

def SharedMutexImpl_RunWriter : String :=
  "RunWriter() { ifc (FIFO) { (--_writers_prio) }; var node = _writers_head.next; (_writers_head.next = node.next); if ((_writers_head.next == nullptr)) { (_writers_tail = (&_writers_head)) }; _lock.unlock(); Run(node) }"

def SharedMutexImpl_PassReaders : String :=
  "PassReaders(s) { var r = (s % kWriter); (_readers_pass += (r - _readers_size)) }"

def SharedMutexImpl_RunReaders : String :=
  "RunReaders(s) { if (var w = (s / kWriter); (w != 1)) { _readers_wait.store(_readers_size, rlx); var node = _writers_head.next; (_writers_head.next = node.next); if ((_writers_head.next == nullptr)) { (_writers_tail = (&_writers_head)) }; (_writers_first = node); ifc (FIFO) { (_writers_prio = (w - 2)) } } else { PassReaders(s) }; var readers = move(_readers); (_readers_size = 0); _lock.unlock(); do { Run((&readers.PopFront())) } while ((!readers.Empty())) }"

def SharedMutexImpl_SlowUnlock : String :=
  "SlowUnlock() { _lock.lock(); var s = _state.fetch_sub(kWriter, acq_rel); ifc (FIFO) { if ((_writers_prio != 0)) { return RunWriter() } }; if ((!_readers.Empty())) { return RunReaders(s) }; ifc ((!FIFO)) { if (((s / kWriter) != 1)) { return RunWriter() } }; PassReaders(s); _lock.unlock() }"

def Spinlock_lock : String :=
  "lock() { while (operator!=(_state.exchange(1, acq), 0)) { do {  } while (operator!=(_state.load(rlx), 0)) } }"

def Spinlock_unlock : String :=
  "unlock() { _state.store(0, rel) }"

def SharedMutex_Lock : String :=
  "Lock() { return init(init((*this))) }"

def SharedMutex_LockShared : String :=
  "LockShared() { return init(init((*this))) }"

def SharedMutex_TryGuard : String :=
  "TryGuard() { return init(init((*this), try_to_lock)) }"

def SharedMutex_TryGuardShared : String :=
  "TryGuardShared() { return init(init((*this), try_to_lock)) }"

def SharedMutex_Guard : String :=
  "Guard() { return init(init((*this))) }"

def SharedMutex_GuardShared : String :=
  "GuardShared() { return init(init((*this))) }"

end Yaclib.Skeletons
