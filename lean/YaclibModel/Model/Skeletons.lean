/- The kernel skeletons the hand-written models were written from (committed copy; refreshed only by
   tools/regolden.py after review).  `Extracted/Kernels.lean` is regenerated from /repo on every run and the
   property files prove `Extracted.Kernels.X = Skeletons.X`. -/
namespace Yaclib.Skeletons

def BaseCore_SetCallbackImpl : String :=
  "SetCallbackImpl(callback) { ifc (Shared) { var next = _callback.load(acq); do { if ((next == kResult)) { return false }; (callback.next = cast(next)) } while ((!_callback.compare_exchange_weak(next, cast((&callback)), rel, acq))); return true } else { var expected = kEmpty; return ((_callback.load(acq) == expected) && _callback.compare_exchange_strong(expected, cast((&callback)), rel, acq)) } }"

def BaseCore_ResetImpl : String :=
  "ResetImpl() { var expected = _callback.load(rlx); return ((expected != kResult) && _callback.compare_exchange_strong(expected, kEmpty, rlx)) }"

def BaseCore_SetInlineImpl : String :=
  "SetInlineImpl(callback) { if ((!SetCallbackImpl<Shared>(callback))) { return Step((*this), callback) }; return Noop() }"

def BaseCore_SetResultImpl : String :=
  "SetResultImpl() { var expected = _callback.exchange(kResult, acq_rel); ifc (Shared) { var head = cast(expected); if (head) { while (var next = head.next) { Loop(this, head); (head = cast(next)) }; DecRef(); Loop(this, head) } else { DecRef() }; DecRef(); DecRef(); return Noop() } else { if ((expected != kEmpty)) { var callback = cast(expected); return Step((*this), (*callback)) } else { return Noop() } } }"

def BaseCore_Empty : String :=
  "Empty() { var callback = _callback.load(acq); return (callback == kEmpty) }"

def Drop_Impl : String :=
  "Impl(caller) { caller.DecRef(); return Noop() }"

def Promise_Set : String :=
  "Set(args) { ifc ((sizeof... == 0)) { _core.Store(in_place) } else { _core.Store(pack(forward(args))) }; var core = _core.Release(); Loop(core, core.SetResult()) }"

def Promise_dtor : String :=
  "~Promise<V, E>() { if (Valid()) { move((*this)).Set(cast(init())) } }"

def FutureBase_dtor : String :=
  "~FutureBase<V, E>() { if (Valid()) { move((*this)).Detach() } }"

def FutureBase_Ready : String :=
  "Ready() { return (!_core.Empty()) }"

def FutureBase_GetConst : String :=
  "Get() { if (Ready()) { return (&_core.Get()) }; return nullptr }"

def FutureBase_GetMove : String :=
  "Get() { Wait((*this)); var core = exchange(_core, nullptr); return move(core.Get()) }"

def FutureBase_Detach : String :=
  "Detach() { var core = _core.Release(); core.CallInline(MakeDrop()) }"

def UniqueCore_CallInline : String :=
  "CallInline(callback) { if ((!SetCallback(callback))) { var next = callback.Here((*this)) } }"

def detail_SetCallback : String :=
  "SetCallback(core, executor, f) { decl TypeAliasDecl; decl TypeAliasDecl; var Unique = is_same_v; var Shared = is_same_v; decl StaticAssertDecl; var From = (Unique ? FromUnique : FromShared); var callback = MakeCore(forward(f)); ifc (IsDetach(CoreT)) { callback.StoreCallback(MakeDrop()) }; (callback._executor = executor); var caller = lambda{ ifc (Unique) { return core.Release() } else { return core.Get() } }(); ifc ((!IsLazy(CoreT))) { Loop(caller, caller.SetInline((*callback))) }; decl TypeAliasDecl; ifc (IsLazy(CoreT)) { decl StaticAssertDecl; (callback.next = caller); caller.StoreCallback((*callback)); return init(init(init(init(cast(init()), callback)))) } else ifc ((!IsDetach(CoreT))) { ifc (On) { return init(init(init(init(cast(init()), callback)))) } else { return init(init(init(init(cast(init()), callback)))) } } }"

def Connect_Unique : String :=
  "Connect(f, p) { decl StaticAssertDecl; if (f.GetCore().SetCallback((*p.GetCore().Get()))) { f.GetCore().Release(); p.GetCore().Release() } else { move(p).Set(move(f).Touch()) } } || Connect(f, p) { if (f.GetCore().SetCallback((*p.GetCore().Get()))) { p.GetCore().Release() } else { move(p).Set(f.Touch()) } } || Connect(f, p) { if (f.GetCore().SetCallback((*p.GetCore().Get()))) { f.GetCore().Release(); p.GetCore().Release() } else { move(p).Set(move(f).Touch()) } } || Connect(primary, subsumed) { var subsumed_core = subsumed.GetCore().Release(); (ignore = primary.GetCore().SetCallback((*subsumed_core))) }"

def WaitRange : String :=
  "WaitRange(event, timeout, range, count) { var wait_count = lambda{ ifc (Event::kShared) { return range(lambda{ ifc (is_same_v) { return handle.SetCallback(event.GetCall()) } else { return handle.SetCallback(event.callbacks[(callback_count++)]) } }) } else { return range(lambda{ return handle.SetCallback(event.GetCall()) }) } }(); if ((operator==(wait_count, 0) || event.SubEqual(((count - wait_count) + 1)))) { return true }; var token = event.Make(); var reset_count = 0; ifc ((!is_same_v)) { if (event.Wait(token, timeout)) { return true }; (reset_count = range(lambda{ return handle.Reset() })); if (((reset_count != 0) && (operator==(reset_count, wait_count) || event.SubEqual(reset_count)))) { return false } }; event.Wait(token); return (reset_count == 0) }"

def WaitCore : String :=
  "WaitCore(timeout, handles) { decl StaticAssertDecl; var kSharedCount = kCount; decl StaticAssertDecl; var range = lambda{ return fold(cast(func(handles))) }; decl TypeAliasDecl; decl TypeAliasDecl; var event = init((sizeof... + 1)); return WaitRange(event, timeout, range, sizeof...) }"

def MutexEvent_Set : String :=
  "Set() { var lock = init(_m); (_is_ready = true); _cv.notify_one() }"

def MutexEvent_Wait : String :=
  "Wait(token) { while ((!_is_ready)) { _cv.wait(token) } }"

def CallCallback_Impl : String :=
  "Impl() { DownCast((*this)).Sub(1); return Noop() }"

end Yaclib.Skeletons
