/- The kernel skeletons the hand-written models were written from (committed copy; refreshed only by
   tools/regolden.py after review).  `Extracted/Kernels.lean` is regenerated from /repo on every run and the
   property files prove `Extracted.Kernels.X = Skeletons.X`. -/
namespace Yaclib.Skeletons

def BaseCore_SetCallbackImpl : String :=
  "SetCallbackImpl(callback) { ifc (Shared) { var next = _callback.load(acq); do { if ((next == kResult)) { return false }; (callback.next = cast(next)) } while ((!_callback.compare_exchange_weak(next, cast((&callback)), rel, acq))); return true } else { var expected = kEmpty; return ((_callback.load(acq) == expected) && _callback.compare_exchange_strong(expected, cast((&callback)), rel, acq)) } }"

def BaseCore_ResetImpl : String :=
  "ResetImpl() { var expected = _callback.load(rlx); return ((expected != kResult) && _callback.compare_exchange_strong(expected, kEmpty, rlx)) }"

def BaseCore_SetInlineImpl : String :=
  "SetInlineImpl(callback) { if ((!SetCallbackImpl<Shared>(callback))) { return Step((*this), callback) }; return Noop() }"

def BaseCore_SetResultImpl : String :=
  "SetResultImpl() { var expected = _callback.exchange(kResult, acq_rel); ifc (Shared) { var head = cast(expected); if (head) { while (var next = head.next) { Loop(this, head); (head = cast(next)) }; DecRef(); Loop(this, head) } else { DecRef() }; DecRef(); DecRef(); return Noop() } else { if ((expected != kEmpty)) { var callback = cast(expected); return Step((*this), (*callback)) } else { return Noop() } } }"

def BaseCore_Empty : String :=
  "Empty() { var callback = _callback.load(acq); return (callback == kEmpty) }"

def Drop_Impl : String :=
  "Impl(caller) { caller.DecRef(); return Noop() }"

def Promise_Set : String :=
  "Set(args) { ifc ((sizeof... == 0)) { _core.Store(in_place) } else { _core.Store(pack(forward(args))) }; var core = _core.Release(); Loop(core, core.SetResult()) }"

def Promise_dtor : String :=
  "~Promise<V, E>() { if (Valid()) { move((*this)).Set(cast(init())) } }"

def FutureBase_dtor : String :=
  "~FutureBase<V, E>() { if (Valid()) { move((*this)).Detach() } }"

def FutureBase_Ready : String :=
  "Ready() { return (!_core.Empty()) }"

def FutureBase_GetConst : String :=
  "Get() { if (Ready()) { return (&_core.Get()) }; return nullptr }"

def FutureBase_GetMove : String :=
  "Get() { Wait((*this)); var core = exchange(_core, nullptr); return move(core.Get()) }"

def FutureBase_Detach : String :=
  "Detach() { var core = _core.Release(); core.CallInline(MakeDrop()) }"

def UniqueCore_CallInline : String :=
  "CallInline(callback) { if ((!SetCallback(callback))) { var next = callback.Here((*this)) } }"

def detail_SetCallback : String :=
  "SetCallback(core, executor, f) { decl TypeAliasDecl; decl TypeAliasDecl; var Unique = is_same_v; var Shared = is_same_v; decl StaticAssertDecl; var From = (Unique ? FromUnique : FromShared); var callback = MakeCore(forward(f)); ifc (IsDetach(CoreT)) { callback.StoreCallback(MakeDrop()) }; (callback._executor = executor); var caller = lambda{ ifc (Unique) { return core.Release() } else { return core.Get() } }(); ifc ((!IsLazy(CoreT))) { Loop(caller, caller.SetInline((*callback))) }; decl TypeAliasDecl; ifc (IsLazy(CoreT)) { decl StaticAssertDecl; (callback.next = caller); caller.StoreCallback((*callback)); return init(init(init(init(cast(init()), callback)))) } else ifc ((!IsDetach(CoreT))) { ifc (On) { return init(init(init(init(cast(init()), callback)))) } else { return init(init(init(init(cast(init()), callback)))) } } }"

def Connect_Unique : String :=
  "Connect(f, p) { decl StaticAssertDecl; if (f.GetCore().SetCallback((*p.GetCore().Get()))) { f.GetCore().Release(); p.GetCore().Release() } else { move(p).Set(move(f).Touch()) } } || Connect(f, p) { if (f.GetCore().SetCallback((*p.GetCore().Get()))) { p.GetCore().Release() } else { move(p).Set(f.Touch()) } } || Connect(f, p) { if (f.GetCore().SetCallback((*p.GetCore().Get()))) { f.GetCore().Release(); p.GetCore().Release() } else { move(p).Set(move(f).Touch()) } } || Connect(primary, subsumed) { var subsumed_core = subsumed.GetCore().Release(); (ignore = primary.GetCore().SetCallback((*subsumed_core))) }"

def WaitRange : String :=
  "WaitRange(event, timeout, range, count) { var wait_count = lambda{ ifc (Event::kShared) { return range(lambda{ ifc (is_same_v) { return handle.SetCallback(event.GetCall()) } else { return handle.SetCallback(event.callbacks[(callback_count++)]) } }) } else { return range(lambda{ return handle.SetCallback(event.GetCall()) }) } }(); if ((operator==(wait_count, 0) || event.SubEqual(((count - wait_count) + 1)))) { return true }; var token = event.Make(); var reset_count = 0; ifc ((!is_same_v)) { if (event.Wait(token, timeout)) { return true }; (reset_count = range(lambda{ return handle.Reset() })); if (((reset_count != 0) && (operator==(reset_count, wait_count) || event.SubEqual(reset_count)))) { return false } }; event.Wait(token); return (reset_count == 0) }"

def WaitCore : String :=
  "WaitCore(timeout, handles) { decl StaticAssertDecl; var kSharedCount = kCount; decl StaticAssertDecl; var range = lambda{ return fold(cast(func(handles))) }; decl TypeAliasDecl; decl TypeAliasDecl; var event = init((sizeof... + 1)); return WaitRange(event, timeout, range, sizeof...) }"

def MutexEvent_Set : String :=
  "Set() { var lock = init(_m); (_is_ready = true); _cv.notify_one() }"

def MutexEvent_Wait : String :=
  "Wait(token) { while ((!_is_ready)) { _cv.wait(token) } }"

def CallCallback_Impl : String :=
  "Impl() { DownCast((*this)).Sub(1); return Noop() }"

def Strand_Submit : String :=
  "Submit(job) { var expected = _jobs.load(rlx); do { (job.next = ((expected == Mark()) ? nullptr : expected)) } while ((!_jobs.compare_exchange_weak(expected, (&job), acq_rel, rlx))); if ((expected == Mark())) { cast((*this)).IncRef(); operator->(_executor).Submit((*this)) } }"

def Strand_Call : String :=
  "Call() { var node = _jobs.exchange(nullptr, acq); var prev = nullptr; do { var next = node.next; (node.next = prev); (prev = node); (node = next) } while ((node != nullptr)); do { var next = prev.next; cast(prev).Call(); (prev = next) } while ((prev != nullptr)); if (((_jobs.load(rlx) == node) && _jobs.compare_exchange_strong(node, Mark(), rel, rlx))) { cast((*this)).DecRef() } else { operator->(_executor).Submit((*this)) } }"

def Strand_Drop : String :=
  "Drop() { var node = _jobs.exchange(Mark(), acq_rel); do { var next = node.next; cast(node).Drop(); (node = next) } while ((node != nullptr)); cast((*this)).DecRef() }"

def MutexImpl_TryLockAwait : String :=
  "TryLockAwait() { var expected = kNotLocked; return ((_sender.load(rlx) == expected) && _sender.compare_exchange_strong(expected, kLockedNoWaiters, acq, rlx)) }"

def MutexImpl_AwaitLock : String :=
  "AwaitLock(curr) { var expected = _sender.load(rlx); while (true) { if ((expected == kNotLocked)) { if (_sender.compare_exchange_weak(expected, kLockedNoWaiters, acq, rlx)) { return false } } else { (curr.next = cast(expected)); if (_sender.compare_exchange_weak(expected, cast((&curr)), rel, rlx)) { return true } } } }"

def MutexImpl_TryUnlockAwait : String :=
  "TryUnlockAwait() { if ((_receiver != nullptr)) { return false }; var expected = kLockedNoWaiters; return ((_sender.load(rlx) == expected) && _sender.compare_exchange_strong(expected, kNotLocked, rel, rlx)) }"

def MutexImpl_BatchingPossible : String :=
  "BatchingPossible() { return (Batching && (_receiver != nullptr)) }"

def MutexImpl_UnlockHereAwait : String :=
  "UnlockHereAwait() { var next = GetHead(); (_receiver = cast(next.next)); next._executor.Submit(next) }"

def MutexImpl_AwaitUnlock : String :=
  "AwaitUnlock(curr) { var next = (*_receiver); (_receiver = cast(next.next)); curr._executor.Swap(next._executor); operator->(curr._executor).Submit(curr); return cast(init(next.Curr())) }"

def MutexImpl_AwaitUnlockOn : String :=
  "AwaitUnlockOn(curr, executor) { var curr_executor = exchange(curr._executor, (&executor)); executor.Submit(curr); if (TryUnlockAwait()) { return cast(init(noop_coroutine().operator coroutine_handle())) }; var next = GetHead(); ifc (Batching) { if ((_receiver != nullptr)) { (_receiver = cast(next.next)); (next._executor = move(curr_executor)); return init(init(next.Curr())) } }; (_receiver = cast(next.next)); next._executor.Submit(next); return cast(init(noop_coroutine().operator coroutine_handle())) }"

def MutexImpl_TryLock : String :=
  "TryLock() { return TryLockAwait() }"

def MutexImpl_UnlockHere : String :=
  "UnlockHere() { if ((!TryUnlockAwait())) { UnlockHereAwait() } }"

def MutexImpl_GetHead : String :=
  "GetHead() { if ((_receiver != nullptr)) { return (*_receiver) }; var expected = _sender.exchange(kLockedNoWaiters, acq); ifc (FIFO) { var node = cast(expected); var prev = nullptr; do { var next = node.next; (node.next = prev); (prev = node); (node = next) } while ((node != nullptr)); return (*cast(prev)) } else { return (*cast(expected)) } }"

def UnlockAwaiter_await_ready : String :=
  "await_ready() { if (_mutex.TryUnlockAwait()) { return true }; if (_mutex.BatchingPossible()) { return false }; _mutex.UnlockHereAwait(); return true }"

def UnlockAwaiter_await_suspend : String :=
  "await_suspend(handle) { return _mutex.AwaitUnlock(handle.promise()) }"

def UnlockOnAwaiter_await_ready : String :=
  "await_ready() { return false }"

def UnlockOnAwaiter_await_suspend : String :=
  "await_suspend(handle) { return _mutex.AwaitUnlockOn(handle.promise(), _executor) }"

def LockAwaiter_await_ready : String :=
  "await_ready() { ifc (Shared) { return _mutex.TryLockSharedAwait() } else { return _mutex.TryLockAwait() } }"

def LockAwaiter_await_suspend : String :=
  "await_suspend(handle) { ifc (Shared) { return _mutex.AwaitLockShared(handle.promise()) } else { return _mutex.AwaitLock(handle.promise()) } }"

def GuardAwaiter_await_resume : String :=
  "await_resume() { return init(init(Cast(_mutex), adopt_lock)) }"

def LockStickyAwaiter_await_ready : String :=
  "await_ready() { (_executor = nullptr); return _mutex.TryLockAwait() }"

def LockStickyAwaiter_await_suspend : String :=
  "await_suspend(handle) { var promise = handle.promise(); (_executor = promise._executor.Get()); if (_mutex.AwaitLock(promise)) { return true }; (_executor = nullptr); return false }"

def UnlockStickyAwaiter_await_ready : String :=
  "await_ready() { if ((_executor != nullptr)) { return false }; _mutex.UnlockHere(); return true }"

def UnlockStickyAwaiter_await_suspend : String :=
  "await_suspend(handle) { return _mutex.AwaitUnlockOn(handle.promise(), (*_executor)) }"

def GuardStickyAwaiter_await_ready : String :=
  "await_ready() { var mutex_impl = Cast((*_guard.Mutex())); var awaiter = init(mutex_impl, _guard._executor); return awaiter.await_ready() }"

def GuardStickyAwaiter_await_suspend : String :=
  "await_suspend(handle) { var mutex_impl = Cast((*_guard.Mutex())); var awaiter = init(mutex_impl, _guard._executor); return awaiter.await_suspend(handle) }"

def GuardStickyAwaiter_await_resume : String :=
  "await_resume() { return move(_guard) }"

def StickyGuard_Lock : String :=
  "Lock() { var m = cast(LockState()); var base = Cast((*m)); return init(init(base, _executor)) }"

def StickyGuard_Unlock : String :=
  "Unlock() { var m = cast(UnlockState()); var base = Cast((*m)); return init(init(base, _executor)) }"

def Guard_dtor : String :=
  "~Guard<M, Shared>() { if ((*this)) { UnlockHere() } }"

def Guard_Lock : String :=
  "Lock() { var m = cast(LockState()); ifc (Shared) { return m.LockShared() } else { return m.Lock() } }"

def Guard_TryLock : String :=
  "TryLock() { var m = cast(LockState()); if (TryLockImpl((*m))) { return true }; UnlockState(); return false }"

def Guard_Unlock : String :=
  "Unlock() { var m = cast(UnlockState()); ifc (Shared) { return m.UnlockShared() } else { return m.Unlock() } }"

def Guard_UnlockOn : String :=
  "UnlockOn(e) { var m = cast(UnlockState()); ifc (Shared) { return m.UnlockOnShared(e) } else { return m.UnlockOn(e) } }"

def Guard_UnlockHere : String :=
  "UnlockHere() { var m = cast(UnlockState()); ifc (Shared) { m.UnlockHereShared() } else { m.UnlockHere() } }"

def Guard_TryLockImpl : String :=
  "TryLockImpl(m) { ifc (Shared) { return m.TryLockShared() } else { return m.TryLock() } }"

def Mutex_TryGuard : String :=
  "TryGuard() { return init(init((*this), try_to_lock)) }"

def Mutex_Guard : String :=
  "Guard() { return init(init((*this))) }"

def Mutex_GuardSticky : String :=
  "GuardSticky() { return init(init((*this))) }"

def Mutex_Lock : String :=
  "Lock() { return init(init((*this))) }"

def Mutex_Unlock : String :=
  "Unlock() { return init(init((*this))) }"

def Mutex_UnlockOn : String :=
  "UnlockOn(e) { return init(init((*this), e)) }"

def SharedMutexImpl_TryLockSharedAwait : String :=
  "TryLockSharedAwait() { return ((_state.fetch_add(kReader, acq_rel) / kWriter) == 0) }"

def SharedMutexImpl_TryLockAwait : String :=
  "TryLockAwait() { var s = 0; return ((_state.load(rlx) == s) && _state.compare_exchange_strong(s, (s + kWriter), acq_rel, rlx)) }"

def SharedMutexImpl_AwaitLockShared : String :=
  "AwaitLockShared(curr) { var lock = init(_lock); if ((_readers_pass != 0)) { (--_readers_pass); return false }; _readers.PushBack(curr); (++_readers_size); return true }"

def SharedMutexImpl_AwaitLock : String :=
  "AwaitLock(curr) { (curr.next = nullptr); var lock = init(_lock); var s = _state.fetch_add(kWriter, acq_rel); if (((s / kWriter) == 0)) { var r = (s % kWriter); (_writers_first = (&curr)); return ((r != 0) && (_readers_wait.fetch_add(r, acq_rel) != (-r))) }; (_writers_tail.next = (&curr)); (_writers_tail = (&curr)); ifc (FIFO) { (_writers_prio += cast(_readers.Empty())) }; return true }"

def SharedMutexImpl_TryLockShared : String :=
  "TryLockShared() { var s = _state.load(rlx); do { if (((s / kWriter) != 0)) { return false } } while ((!_state.compare_exchange_weak(s, (s + kReader), acq_rel, rlx))); return true }"

def SharedMutexImpl_TryLock : String :=
  "TryLock() { return TryLockAwait() }"

def SharedMutexImpl_UnlockHereShared : String :=
  "UnlockHereShared() { if (var s = _state.fetch_sub(kReader, acq_rel); (s >= kWriter)) { if ((_readers_wait.fetch_sub(1, acq_rel) == 1)) { Run(_writers_first) } } }"

def SharedMutexImpl_UnlockHere : String :=
  "UnlockHere() { if (var s = kWriter; (!_state.compare_exchange_strong(s, 0, acq_rel, rlx))) { SlowUnlock() } }"

def SharedMutexImpl_Run : String :=
  "Run(node) { var core = cast((*node)); operator->(core._executor).Submit(core) }"

def SharedMutexImpl_RunWriter : String :=
  "RunWriter() { ifc (FIFO) { (--_writers_prio) }; var node = _writers_head.next; (_writers_head.next = node.next); if ((_writers_head.next == nullptr)) { (_writers_tail = (&_writers_head)) }; _lock.unlock(); Run(node) }"

def SharedMutexImpl_PassReaders : String :=
  "PassReaders(s) { var r = (s % kWriter); (_readers_pass += (r - _readers_size)) }"

def SharedMutexImpl_RunReaders : String :=
  "RunReaders(s) { if (var w = (s / kWriter); (w != 1)) { _readers_wait.store(_readers_size, rlx); var node = _writers_head.next; (_writers_head.next = node.next); if ((_writers_head.next == nullptr)) { (_writers_tail = (&_writers_head)) }; (_writers_first = node); ifc (FIFO) { (_writers_prio = (w - 2)) } } else { PassReaders(s) }; var readers = move(_readers); (_readers_size = 0); _lock.unlock(); do { Run((&readers.PopFront())) } while ((!readers.Empty())) }"

def SharedMutexImpl_SlowUnlock : String :=
  "SlowUnlock() { _lock.lock(); var s = _state.fetch_sub(kWriter, acq_rel); ifc (FIFO) { if ((_writers_prio != 0)) { return RunWriter() } }; if ((!_readers.Empty())) { return RunReaders(s) }; ifc ((!FIFO)) { if (((s / kWriter) != 1)) { return RunWriter() } }; PassReaders(s); _lock.unlock() }"

def Spinlock_lock : String :=
  "lock() { while (operator!=(_state.exchange(1, acq), 0)) { do {  } while (operator!=(_state.load(rlx), 0)) } }"

def Spinlock_unlock : String :=
  "unlock() { _state.store(0, rel) }"

def SharedMutex_Lock : String :=
  "Lock() { return init(init((*this))) }"

def SharedMutex_LockShared : String :=
  "LockShared() { return init(init((*this))) }"

def SharedMutex_TryGuard : String :=
  "TryGuard() { return init(init((*this), try_to_lock)) }"

def SharedMutex_TryGuardShared : String :=
  "TryGuardShared() { return init(init((*this), try_to_lock)) }"

def SharedMutex_Guard : String :=
  "Guard() { return init(init((*this))) }"

def SharedMutex_GuardShared : String :=
  "GuardShared() { return init(init((*this))) }"

def FairThreadPool_ctor : String :=
  "FairThreadPool(threads) { _workers.reserve(threads); for (var i = 0; (i != threads); (++i)) { _workers.emplace_back(lambda{ Loop() }) } }"

def FairThreadPool_Submit : String :=
  "Submit(job) { var lock = init(_m); if (WasStop()) { lock.unlock(); job.Drop(); return  }; _jobs.PushBack(job); (_jobs_count += 4); lock.unlock(); _idle.notify_one() }"

def FairThreadPool_SoftStop : String :=
  "SoftStop() { var lock = init(_m); if (NoJobs()) { Stop(move(lock)) } else { (_jobs_count |= 2) } }"

def FairThreadPool_Stop : String :=
  "Stop() { Stop(init(_m)) }"

def FairThreadPool_StopLocked : String :=
  "Stop(lock) { (_jobs_count |= 1); lock.unlock(); _idle.notify_all() }"

def FairThreadPool_HardStop : String :=
  "HardStop() { var lock = init(_m); var jobs = init(move(_jobs)); Stop(move(lock)); while ((!jobs.Empty())) { var job = jobs.PopFront(); cast(job).Drop() } }"

def FairThreadPool_Wait : String :=
  "Wait() { forrange { worker.join() }; _workers.clear() }"

def FairThreadPool_Loop : String :=
  "Loop() { var lock = init(_m); while (true) { while ((!_jobs.Empty())) { var job = _jobs.PopFront(); lock.unlock(); cast(job).Call(); lock.lock(); (_jobs_count -= 4) }; if ((NoJobs() && WantStop())) { return Stop(move(lock)) }; if (WasStop()) { return  }; _idle.wait(lock) } }"

def FairThreadPool_WasStop : String :=
  "WasStop() { return ((_jobs_count & 1) != 0) }"

def FairThreadPool_WantStop : String :=
  "WantStop() { return ((_jobs_count & 2) != 0) }"

def FairThreadPool_NoJobs : String :=
  "NoJobs() { return ((_jobs_count >> 2) == 0) }"

def FairThreadPool_Alive : String :=
  "Alive() { var lock = init(_m); return (!WasStop()) }"

def List_MoveCtor : String :=
  "List(other) { if (((this == (&other)) || other.Empty())) { return  }; (_head.next = exchange(other._head.next, nullptr)); (_tail = exchange(other._tail, (&other._head))) }"

def List_PushBack : String :=
  "PushBack(node) { (node.next = nullptr); (_tail.next = (&node)); (_tail = (&node)) }"

def List_Empty : String :=
  "Empty() { return (_head.next == nullptr) }"

def List_PopFront : String :=
  "PopFront() { var node = _head.next; (_head.next = node.next); if ((_head.next == nullptr)) { (_tail = (&_head)) }; return (*node) }"

def FiberMutex_lock : String :=
  "lock() { while (_occupied) { _queue.Wait(cast(init())) }; (_occupied = true); OnSync(this, kLock, 1) }"

def FiberMutex_try_lock : String :=
  "try_lock() { if (_occupied) { OnSync(this, kTryLock, 0); return false }; (_occupied = true); OnSync(this, kTryLock, 1); return true }"

def FiberMutex_unlock : String :=
  "unlock() { (_occupied = false); OnSync(this, kUnlock, 1); _queue.NotifyOne() }"

def FiberTimedMutex_TimedWaitHelper : String :=
  "TimedWaitHelper(timeout) { var r = true; if (_occupied) { (r = (_queue.Wait(timeout) == Ready)) }; if (r) { (_occupied = true) }; return r }"

def FiberTimedMutex_try_lock_for : String :=
  "try_lock_for(timeout_duration) { return TimedWaitHelper(timeout_duration) }"

def FiberTimedMutex_try_lock_until : String :=
  "try_lock_until(timeout_time) { return TimedWaitHelper(timeout_time) }"

def FiberRecursiveMutex_lock : String :=
  "lock() { if (((_occupied_count != 0) && (_owner_id != GetId()))) { _queue.Wait(cast(init())) }; LockHelper() }"

def FiberRecursiveMutex_try_lock : String :=
  "try_lock() { if (((_occupied_count != 0) && (_owner_id != GetId()))) { return false }; LockHelper(); return true }"

def FiberRecursiveMutex_unlock : String :=
  "unlock() { (_occupied_count--); if ((_occupied_count == 0)) { (_owner_id = 0) } }"

def FiberRecursiveMutex_LockHelper : String :=
  "LockHelper() { (_occupied_count++); (_owner_id = GetId()) }"

def FiberRecursiveTimedMutex_TimedWaitHelper : String :=
  "TimedWaitHelper(timeout) { var r = true; if (((_occupied_count != 0) && (_owner_id != GetId()))) { (r = (_queue.Wait(timeout) == Ready)) }; if (r) { LockHelper() }; return r }"

def FiberRecursiveTimedMutex_try_lock_for : String :=
  "try_lock_for(timeout_duration) { return TimedWaitHelper(timeout_duration) }"

def FiberRecursiveTimedMutex_try_lock_until : String :=
  "try_lock_until(timeout_time) { return TimedWaitHelper(timeout_time) }"

def FiberSharedMutex_lock : String :=
  "lock() { if (_occupied) { _exclusive_queue.Wait(cast(init())) }; LockHelper() }"

def FiberSharedMutex_try_lock : String :=
  "try_lock() { if (_occupied) { return false }; LockHelper(); return true }"

def FiberSharedMutex_unlock : String :=
  "unlock() { var unlock_shared = ((!_shared_queue.Empty()) && (_exclusive_queue.Empty() || (GetRandNumber(2) == 0))); (_occupied = false); if (unlock_shared) { _shared_queue.NotifyAll() } else { _exclusive_queue.NotifyOne() } }"

def FiberSharedMutex_lock_shared : String :=
  "lock_shared() { if ((_occupied && _exclusive_mode)) { _exclusive_queue.Wait(cast(init())) }; SharedLockHelper() }"

def FiberSharedMutex_try_lock_shared : String :=
  "try_lock_shared() { if ((_occupied && _exclusive_mode)) { return false }; SharedLockHelper(); return true }"

def FiberSharedMutex_unlock_shared : String :=
  "unlock_shared() { (_shared_owners_count--); if ((_shared_owners_count == 0)) { (_occupied = false); _exclusive_queue.NotifyOne() } }"

def FiberSharedMutex_LockHelper : String :=
  "LockHelper() { (_occupied = true); (_exclusive_mode = true) }"

def FiberSharedMutex_SharedLockHelper : String :=
  "SharedLockHelper() { (_occupied = true); (_exclusive_mode = false); (_shared_owners_count++) }"

def FiberSharedTimedMutex_TimedWaitHelper : String :=
  "TimedWaitHelper(timeout, exclusive) { var r = true; if ((_occupied && (exclusive || _exclusive_mode))) { if (exclusive) { (r = (_exclusive_queue.Wait(timeout) == Ready)) } else { (r = (_shared_queue.Wait(timeout) == Ready)) } }; if (r) { SharedLockHelper() }; return r }"

def FiberSharedTimedMutex_try_lock_for : String :=
  "try_lock_for(timeout_duration) { return TimedWaitHelper(timeout_duration, true) }"

def FiberSharedTimedMutex_try_lock_until : String :=
  "try_lock_until(timeout_time) { return TimedWaitHelper(timeout_time, true) }"

def FiberSharedTimedMutex_try_lock_shared_for : String :=
  "try_lock_shared_for(timeout_duration) { return TimedWaitHelper(timeout_duration, false) }"

def FiberSharedTimedMutex_try_lock_shared_until : String :=
  "try_lock_shared_until(timeout_time) { return TimedWaitHelper(timeout_time, false) }"

def FiberCondVar_notify_one : String :=
  "notify_one() { _queue.NotifyOne() }"

def FiberCondVar_notify_all : String :=
  "notify_all() { _queue.NotifyAll() }"

def FiberCondVar_wait : String :=
  "wait(lock) { WaitImpl(lock, cast(init())) }"

def FiberCondVar_WaitImpl : String :=
  "WaitImpl(lock, timeout) { InjectFault(); lock.unlock(); var status = _queue.Wait(timeout); lock.lock(); InjectFault(); return status }"

def FiberCondVar_WaitImplWithPredicate : String :=
  "WaitImplWithPredicate(lock, timeout, predicate) { while ((!predicate())) { if ((WaitImpl(lock, timeout) == Timeout)) { break } }; ifc ((!is_same_v)) { return predicate() } else { return true } }"

def FiberCondVar_wait_for : String :=
  "wait_for(lock, duration) { return WaitImpl(lock, duration) } || wait_for(lock, duration, predicate) { return WaitImplWithPredicate(lock, duration, predicate) }"

def FiberCondVar_wait_until : String :=
  "wait_until(lock, time_point) { return WaitImpl(lock, time_point) } || wait_until(lock, time_point, predicate) { return WaitImplWithPredicate(lock, time_point, predicate) }"

def FiberQueue_WaitNoTimeout : String :=
  "Wait(_) { var fiber = Current(); _queue.PushBack(cast(fiber)); OnSync(this, kPark, 0); Suspend(); OnSync(this, kWake, 0); return Ready }"

def FiberQueue_WaitTimed : String :=
  "Wait(duration) { return Wait((duration + now())) } || Wait(time_point) { var fiber = Current(); var queue_node = cast(fiber); _queue.PushBack(queue_node); OnSync(this, kParkTimed, 0); var scheduler = GetScheduler(); scheduler.SleepPreemptive(duration_cast(time_point.time_since_epoch()).count()); var res = queue_node.Erase(); OnSync(this, kWake, (res ? 1 : 0)); return (res ? Timeout : Ready) }"

def FiberQueue_NotifyAll : String :=
  "NotifyAll() { OnSync(this, kNotifyAll, (_queue.Empty() ? 0 : 1)); var all = init(move(_queue)); operator=(_queue, init()); while ((!all.Empty())) { var fiber = cast(cast(all.PopBack())); ScheduleAndRemove(fiber) } }"

def FiberQueue_NotifyOne : String :=
  "NotifyOne() { OnSync(this, kNotifyOne, (_queue.Empty() ? 0 : 1)); if (_queue.Empty()) { return  }; var fiber = cast(cast(PollRandomElementFromList(_queue))); ScheduleAndRemove(fiber) }"

def FiberQueue_ScheduleAndRemove : String :=
  "ScheduleAndRemove(node) { if ((node.GetState() != Waiting)) { cast(node).Erase(); GetScheduler().Schedule(node) } }"

def FiberThread_join : String :=
  "join() { if ((_impl == nullptr)) { throw(init(make_error_code(no_such_process))) }; if ((!joinable())) { throw(init(make_error_code(resource_deadlock_would_occur))) }; while ((_impl.GetState() != Completed)) { _impl.SetJoiningFiber(Current()); Suspend() }; AfterJoinOrDetach() }"

def FiberThread_AfterJoinOrDetach : String :=
  "AfterJoinOrDetach() { if ((_impl.GetState() == Completed)) { delete(_impl) } else { _impl.SetThreadDead() }; (_impl = nullptr) }"

def FiberBase_Exit : String :=
  "Exit() { (_state = Completed); if (((_joining_fiber != nullptr) && _thread_alive)) { ScheduleFiber(_joining_fiber) }; _context.Exit(_caller_context) }"

def FiberBase_Resume : String :=
  "Resume() { if ((_state == Completed)) { return  }; (_state = Running); _caller_context.SwitchTo(_context); if (CXXRewrittenBinaryOperator((!operator==(_exception, init(nullptr))))) { rethrow_exception(init(_exception)) } }"

def FiberBase_Suspend : String :=
  "Suspend() { (_state = Suspended); _context.SwitchTo(_caller_context) }"

def FiberBase_GetTLS : String :=
  "GetTLS(id, defaults) { var it = _tls.find(id); if (operator==(it, _tls.end())) { return operator[](defaults, id) }; return operator->(it).second }"

def FiberBase_SetTLS : String :=
  "SetTLS(id, value) { (operator[](_tls, id) = value) }"

def FiberTls_GetImpl : String :=
  "GetImpl(i) { var fiber = Current(); return fiber.GetTLS(i, GetMap()) }"

def FiberTls_Set : String :=
  "Set(new_value, i) { var fiber = Current(); fiber.SetTLS(i, new_value) }"

def FiberTls_SetDefault : String :=
  "SetDefault(new_value, i) { (operator[](GetMap(), i) = new_value) }"

def FiberTlsProxy_assign_ptr : String :=
  "operator=(value) { Set(value, _i); return (*this) }"

def FiberTlsProxy_assign_move : String :=
  "operator=(other) { (_i = other._i); return (*this) }"

def FiberTlsProxy_assign_copy : String :=
  "operator=(other) { if ((Get() == other.Get())) { return (*this) }; SetDefault(GetImpl(other._i), _i); return (*this) }"

def FiberTlsProxy_assign_conv : String :=
  "operator=(other) { (_i = other._i); return (*this) } || operator=(other) { SetDefault(GetImpl(other._i), _i); return (*this) }"

def FiberTlsProxy_ctor_default : String :=
  "ThreadLocalPtrProxy<Type>() {  }"

def FiberTlsProxy_ctor_ptr : String :=
  "ThreadLocalPtrProxy<Type>(value) { if ((value != nullptr)) { SetDefault(value, _i) } }"

def FiberTlsProxy_ctor_copy : String :=
  "ThreadLocalPtrProxy<Type>(other) { SetDefault(GetImpl(other._i), _i) }"

def FiberTlsProxy_Get : String :=
  "Get() { return cast(GetImpl(_i)) }"

def FiberSched_Sleep : String :=
  "Sleep(ns) { if ((ns <= GetTimeNs())) { return  }; var sleep_list = operator[](_sleep_list, ns); var fiber = sCurrent; sleep_list.PushBack(cast(fiber)); Suspend() }"

def FiberSched_SleepPreemptive : String :=
  "SleepPreemptive(ns) { (ns += GetRandNumber(GetFaultSleepTime())); Sleep(ns); if ((_time <= ns)) { var it = _sleep_list.find(ns); if (operator->(it).second.Empty()) { _sleep_list.erase(ns) } } }"

def FiberSched_Schedule : String :=
  "Schedule(fiber) { fiber.SetState(Waiting); _queue.PushBack(cast(fiber)); if ((!_running)) { (_running = true); RunLoop(); (_running = false) } }"

def FiberSched_RescheduleCurrent : String :=
  "RescheduleCurrent() { if ((sCurrent == nullptr)) { return  }; var fiber = sCurrent; GetScheduler()._queue.PushBack(cast(fiber)); fiber.Suspend() }"

def FiberSched_Suspend : String :=
  "Suspend() { var fiber = sCurrent; fiber.Suspend() }"

def FiberThisThread_sleep : String :=
  "sleep_until(sleep_time) { var timeout = duration_cast(sleep_time.time_since_epoch()).count(); GetScheduler().Sleep(timeout) }"

def FiberThisThread_sleep_for : String :=
  "sleep_for(sleep_duration) { sleep_until((now() + sleep_duration)) }"

def FaultMutex_lock : String :=
  "lock() { InjectFault(); lock(); InjectFault() }"

def FaultMutex_try_lock : String :=
  "try_lock() { InjectFault(); var r = try_lock(); InjectFault(); return r }"

def FaultMutex_unlock : String :=
  "unlock() { InjectFault(); unlock(); InjectFault() }"

def FaultTimedMutex_try_lock_for : String :=
  "try_lock_for(timeout_duration) { InjectFault(); var r = try_lock_for(timeout_duration); InjectFault(); return r }"

def FaultTimedMutex_try_lock_until : String :=
  "try_lock_until(timeout_time) { InjectFault(); var r = try_lock_until(timeout_time); InjectFault(); return r }"

def FaultSharedMutex_lock_shared : String :=
  "lock_shared() { InjectFault(); lock_shared(); InjectFault() }"

def FaultSharedMutex_try_lock_shared : String :=
  "try_lock_shared() { InjectFault(); var r = try_lock_shared(); InjectFault(); return r }"

def FaultSharedMutex_unlock_shared : String :=
  "unlock_shared() { InjectFault(); unlock_shared(); InjectFault() }"

def FaultSharedTimedMutex_try_lock_for : String :=
  "try_lock_for(timeout_duration) { InjectFault(); var r = try_lock_for(timeout_duration); InjectFault(); return r }"

def FaultSharedTimedMutex_try_lock_shared_for : String :=
  "try_lock_shared_for(timeout_duration) { InjectFault(); var r = try_lock_shared_for(timeout_duration); InjectFault(); return r }"

def FaultCondVar_wait : String :=
  "wait(lock) { var [..] = From(lock); InjectFault(); wait(impl_lock); InjectFault(); (lock = From(mutex, impl_lock)) }"

def FaultCondVar_wait_for : String :=
  "wait_for(lock, rel_time) { var [..] = From(lock); InjectFault(); var r = wait_for(impl_lock, rel_time); InjectFault(); (lock = From(mutex, impl_lock)); return CVStatusFrom(r) } || wait_for(lock, rel_time, stop_waiting) { var [..] = From(lock); InjectFault(); var r = wait_for(impl_lock, rel_time, forward(stop_waiting)); InjectFault(); (lock = From(mutex, impl_lock)); return r }"

def FaultCondVar_notify_one : String :=
  "notify_one() { InjectFault(); notify_one(); InjectFault() }"

def FaultCondVar_notify_all : String :=
  "notify_all() { InjectFault(); notify_all(); InjectFault() }"

end Yaclib.Skeletons
