/-
C13 — the multi-coroutine system: a finite family of coroutines (each an instance of Model/Coro.lean) sharing the awaited objects.

The shared part of the state is the awaited cells with their *global* words: the list of registered callbacks, each tagged with
the coroutine that owns it (`(i, p)`: coroutine i, position p in its current awaiter), a flag for external subscribers, or
`gresult walk` (callbacks the fulfiller has not run yet); the private part of coroutine i is its `Coro.State` (program counter,
status list, counter, executor, locals, history …).  Coroutine i sees the shared part through `viewCell`: its own callbacks are
`mine`, everything else on a SharedFuture is `foreign`; a Task (lazy cell) is part of the projection of the one coroutine that
awaits it only.  A step of the system is
  * the fulfilment of a cell (`prod`), a registration by an external subscriber (`ext`), a started Task changing its executor
    (`swap`) — nobody's own step, or
  * a step of ONE coroutine i: a non-environment `Coro.Step` on its projection; its effect on the shared part (`gcellsAfter`) is the
    tagged version of what the one-coroutine step does to `mine` (push (i, p) / erase (i, p) from the walk / store the Task callback).
Proofs/CoroMulti*.lean prove `projection_sound`: every projection of a reachable state of this system is a reachable state of the
one-coroutine model, the steps of the other coroutines being environment steps (`envPush`) or invisible.
-/
import YaclibModel.Model.Coro

namespace Yaclib.CoroMulti
open Yaclib.Coro

structure GCellW where
  shared : Bool := false
  lazy : Bool := false
  /-- subscribers that are not coroutines of the family may register on the SharedFuture -/
  ext : Bool := false
  res : Res := .val 0
  exec0 : Nat := 0
  deriving DecidableEq, Repr

structure CoW where
  prog : List Op
  ret : Ret
  catches : Bool
  locals : Nat
  deriving Repr

structure MWorkload where
  n : Nat
  cells : List GCellW
  co : Nat → CoW

def mentions (prog : List Op) (j : Nat) : Bool := prog.any fun o => o.cells.contains j

def MWorkload.gcell (W : MWorkload) (j : Nat) : GCellW := W.cells.getD j {}

/-- has cell j observers other than coroutine i? -/
def MWorkload.others (W : MWorkload) (i j : Nat) : Bool :=
  (W.gcell j).ext || (List.range W.n).any fun k => k != i && mentions (W.co k).prog j

def MWorkload.cellW (W : MWorkload) (i j : Nat) : CellW :=
  { shared := (W.gcell j).shared, others := (W.gcell j).shared && W.others i j, lazy := (W.gcell j).lazy,
    res := (W.gcell j).res, exec0 := (W.gcell j).exec0 }

/-- the workload of the one-coroutine model for coroutine i -/
def MWorkload.proj (W : MWorkload) (i : Nat) : Workload :=
  { prog := (W.co i).prog, cells := (List.range W.cells.length).map (W.cellW i), ret := (W.co i).ret,
    catches := (W.co i).catches, locals := (W.co i).locals }

/-- unique futures and Tasks have one owner; a Task is not a SharedFuture -/
def MWorkload.GWF (W : MWorkload) : Prop :=
  (∀ j, (W.gcell j).shared = false → ∀ i k, mentions (W.co i).prog j = true → mentions (W.co k).prog j = true → i = k) ∧
  (∀ j, (W.gcell j).lazy = true → (W.gcell j).shared = false)

inductive GWord where
  | gopen (cbs : List (Nat × Nat)) (ext : Bool)
  | gresult (walk : List (Nat × Nat))
  deriving DecidableEq, Repr

structure GCell where
  word : GWord
  started : Bool
  cexec : Nat
  deriving DecidableEq, Repr

def mineOf (i : Nat) (l : List (Nat × Nat)) : List Nat := l.filterMap fun c => if c.1 = i then some c.2 else none
def hasOther (i : Nat) (l : List (Nat × Nat)) : Bool := l.any fun c => c.1 != i

def viewWord (sh : Bool) (i : Nat) : GWord → Word
  | .gopen cbs ext => .open (mineOf i cbs) (sh && (ext || hasOther i cbs))
  | .gresult walk => .result (mineOf i walk)

/-- a Task belongs to the projection of the coroutine that awaits it only -/
def MWorkload.hidden (W : MWorkload) (i j : Nat) : Bool := (W.gcell j).lazy && !mentions (W.co i).prog j

def viewCell (W : MWorkload) (i j : Nat) (c : GCell) : Cell :=
  if W.hidden i j then initCell (W.cellW i j)
  else { word := viewWord (W.gcell j).shared i c.word, started := c.started, cexec := c.cexec }

structure MState where
  cells : Nat → GCell
  cor : Nat → State

def MState.proj (W : MWorkload) (S : MState) (i : Nat) : State :=
  { S.cor i with cells := fun j => viewCell W i j (S.cells j) }

def minit (W : MWorkload) : MState :=
  { cells := fun j => { word := .gopen [] false, started := false, cexec := (W.gcell j).exec0 },
    cor := fun i => init (W.proj i) }

def gupd (f : Nat → GCell) (j : Nat) (c : GCell) : Nat → GCell := fun k => if k = j then c else f k
def cupd (f : Nat → State) (i : Nat) (s : State) : Nat → State := fun k => if k = i then s else f k

def pushCb (c : GCell) (cb : Nat × Nat) : GCell :=
  match c.word with
  | .gopen cbs ext => { c with word := .gopen (cb :: cbs) ext }
  | .gresult _ => c

def eraseCb (c : GCell) (cb : Nat × Nat) : GCell :=
  match c.word with
  | .gresult walk => { c with word := .gresult (walk.erase cb) }
  | .gopen _ _ => c

/-- the cell the p-th SetCallback of coroutine i's current awaiter works on -/
def curCell (s : State) (p : Nat) : Option Nat :=
  match s.todo with
  | op :: _ => op.cells[p]?
  | [] => none

/-- what a step of coroutine i does to the shared cells -/
def gcellsAfter (S : MState) (i : Nat) (l : Label) : Nat → GCell :=
  match l with
  | .cas p .ok => (match curCell (S.cor i) p with
      | some j => gupd S.cells j (pushCb (S.cells j) (i, p))
      | none => S.cells)
  | .fire j p => gupd S.cells j (eraseCb (S.cells j) (i, p))
  | .tstore => (match curCell (S.cor i) 0 with
      | some j => gupd S.cells j { word := .gopen [(i, 0)] false, started := true, cexec := (S.cor i).exec }
      | none => S.cells)
  | _ => S.cells

/-- labels of the one-coroutine model that are the environment's: in the system they are nobody's own step -/
def isEnvL : Label → Bool
  | .pXchg _ | .envPush _ | .envSwap _ _ => true
  | _ => false

inductive MLabel where
  | prod (j : Nat) | ext (j : Nat) | swap (j e : Nat) | co (i : Nat) (l : Label)

inductive MStep (W : MWorkload) : MState → MLabel → MState → Prop where
  /-- cell j is fulfilled -/
  | prod (S : MState) (j : Nat) (cbs : List (Nat × Nat)) (e : Bool) (hw : (S.cells j).word = .gopen cbs e)
      (hl : (W.gcell j).lazy = false ∨ (S.cells j).started = true) :
      MStep W S (.prod j) { S with cells := gupd S.cells j { S.cells j with word := .gresult cbs } }
  /-- an external subscriber registers on SharedFuture j -/
  | ext (S : MState) (j : Nat) (cbs : List (Nat × Nat)) (e : Bool) (hw : (S.cells j).word = .gopen cbs e)
      (hs : (W.gcell j).shared = true) (hx : (W.gcell j).ext = true) :
      MStep W S (.ext j) { S with cells := gupd S.cells j { S.cells j with word := .gopen cbs true } }
  /-- the started Task j moves to executor e -/
  | swap (S : MState) (j e : Nat) (hl : (W.gcell j).lazy = true) (hs : (S.cells j).started = true) :
      MStep W S (.swap j e) { S with cells := gupd S.cells j { S.cells j with cexec := e } }
  /-- coroutine i takes a step of its own (or has one of its callbacks run / is Called / Dropped) -/
  | co (S : MState) (i : Nat) (l : Label) (s' : State) (hi : i < W.n) (hl : isEnvL l = false)
      (hs : Step (S.proj W i) l s') : MStep W S (.co i l) { cells := gcellsAfter S i l, cor := cupd S.cor i s' }

inductive MReachable (W : MWorkload) : MState → Prop where
  | init : MReachable W (minit W)
  | step {S l S'} : MReachable W S → MStep W S l S' → MReachable W S'

end Yaclib.CoroMulti
