/-
C03 — everything the library owns is released exactly once, on every path  (SEQUENTIAL PART: the program-level pipeline
model; the concurrent kernels carry their own ghost ownership in C01 / C06 / C07 / C09–C11 / C16).

Objects: cores (one heap block each: functor + result + continuation state; unique cores: no counter, `DecRef` = delete)
and the functors stored in them.  Release points, all taken from `Extracted/Dispatch.lean`: `Core::Done` releases its
caller iff `(!IsRun && (IsFromUnique || IsCall || kAsync)) || Async` and destroys the functor iff `!Async`;
`CallResolveAsync` releases the caller iff `!IsRun` and destroys the functor; async_done releases the inner state; the Drop
callback releases a core nobody holds; Get() releases the result.

`Bal g c f` = "allocated = released + c cores / f functors alive".  Since both counters only grow, `Bal` in every reachable
state with the *exact* number of objects the control state still refers to means: nothing is released twice (a second
release of an object the state no longer refers to would break the equation), nothing is forgotten.
For ALL programs, ALL drop points (dropFuture / droptask / detach anywhere in the event list), ALL stop points (`cfg`) and
ALL event orders.  Guards: well-formed programs (`wfProg`: a Run/Schedule source built by a functor has its head functor —
the C++ type system guarantees it).  (Until fix 4f7ebfc of /repo the theorems also carried `crashed = false`: defect D10,
see C02; now no reachable state is a crash: `run_not_crashed`.)
-/
import YaclibModel.Proofs.PipelineAcct5
import YaclibModel.Proofs.PipelineSpec
import YaclibModel.Extracted.Kernels
import YaclibModel.Model.Skeletons
import YaclibModel.Proofs.UniqueOwn
import YaclibModel.Props.C01
import YaclibModel.Props.C06
import YaclibModel.Props.C07
import YaclibModel.Props.C08
import YaclibModel.Props.C09
import YaclibModel.Props.C11
import YaclibModel.Props.C13
import YaclibModel.Props.C14
import YaclibModel.Props.C15
import YaclibModel.Props.C16

namespace Yaclib.Props.C03
open Yaclib Yaclib.Pipeline Yaclib.Extracted

variable (cfg : Cfg) (evs : List Event) (p : Prog) (h : Handle)

/-- what the control state still refers to: (cores, functors) -/
def owned (st : State) : Nat × Nat :=
  match st.ctl with
  | .idle => (0, 0)
  | .task src steps => (srcCores src + steps.length, srcFunctors src + steps.length)
  | .future _ _ => (1, 0)
  | .pending t => (coresT t, funsT t)
  | .gone => (0, 0)

/-- **no_uaf_Pipeline / no_double_free_Pipeline — exact ownership in every reachable state**:
    allocated = released + exactly the objects the suspended pipeline (or the handle) still refers to -/
theorem exact_ownership (hc : client evs = some (p, h)) (hw : wfProg p = true) :
    (run cfg {} evs).g.cAlloc = (run cfg {} evs).g.cFree + (owned (run cfg {} evs)).1 ∧
    (run cfg {} evs).g.fAlloc = (run cfg {} evs).g.fFree + (owned (run cfg {} evs)).2 := by
  have hcr := run_not_crashed cfg evs
  have hi := ainv_run cfg evs
  rw [hc] at hi
  cases hi hw with
  | inl h1 => rw [hcr] at h1; cases h1
  | inr hi =>
    unfold owned
    cases hctl : (run cfg {} evs).ctl with
    | idle => rw [hctl] at hi; exact hi.elim
    | task src steps => rw [hctl] at hi; simpa [Bal, cnt] using hi.2.2.2.2
    | future r inh => rw [hctl] at hi; simpa [Bal, cnt] using hi.2.2
    | pending t => rw [hctl] at hi; simpa [Bal, cnt] using hi.2.1
    | gone => rw [hctl] at hi; simpa [Bal, cnt] using hi.2

/-- never more releases than allocations (no double free), in every reachable state -/
theorem no_double_free_Pipeline (hc : client evs = some (p, h)) (hw : wfProg p = true) :
    (run cfg {} evs).g.cFree ≤ (run cfg {} evs).g.cAlloc ∧ (run cfg {} evs).g.fFree ≤ (run cfg {} evs).g.fAlloc := by
  have := exact_ownership cfg evs p h hc hw
  omega

/-- **quiescent_all_freed_Pipeline**: in every terminal state — the pipeline finished and nothing holds it (`gone`: the
    future was dropped / consumed by Get / detached / the Task cancelled, at ANY point of the history) — liveCores = 0 and
    liveFunctors = 0; with a completed Future still held: exactly its result core, no functor -/
theorem quiescent_all_freed_Pipeline (hc : client evs = some (p, h)) (hw : wfProg p = true) :
    ((run cfg {} evs).ctl = .gone →
      (run cfg {} evs).g.cAlloc = (run cfg {} evs).g.cFree ∧ (run cfg {} evs).g.fAlloc = (run cfg {} evs).g.fFree) ∧
    (∀ r inh, (run cfg {} evs).ctl = .future r inh →
      (run cfg {} evs).g.cAlloc = (run cfg {} evs).g.cFree + 1 ∧ (run cfg {} evs).g.fAlloc = (run cfg {} evs).g.fFree) := by
  have := exact_ownership cfg evs p h hc hw
  constructor
  · intro hg; simpa [owned, hg] using this
  · intro r inh hf; simpa [owned, hf] using this

/-- a functor is destroyed when its step completes — invoked or not (skipped value callback, Dropped job, cancelled Task):
    whenever the pipeline rests with a ready future no functor is alive, whatever was invoked -/
theorem functors_released_invoked_or_not (hc : client evs = some (p, h)) (hw : wfProg p = true)
    (ht : (run cfg {} evs).terminal = true) :
    (run cfg {} evs).g.fAlloc = (run cfg {} evs).g.fFree := by
  have := exact_ownership cfg evs p h hc hw
  cases hctl : (run cfg {} evs).ctl <;> simp_all [State.terminal, owned]

/-- T1: the release conditions of the extracted tables, per kind of step: a continuation releases its predecessor exactly
    once (in Done, or in CallResolveAsync when it unwraps), a Run head has none to release, async_done releases the inner
    state, the functor is destroyed exactly once (in Done<false> or in CallResolveAsync) -/
theorem release_conditions (m : Mode) (hd b : Bool) (ty : Nat) :
    Dispatch.doneDecRef (stepType m hd) b false = !hd ∧ Dispatch.asyncDecRefsCaller (stepType m hd) = !hd ∧
    Dispatch.doneDecRef ty b true = true ∧ Dispatch.doneDestroysFunctor false = true ∧
    Dispatch.doneDestroysFunctor true = false :=
  ⟨doneDecRef_stepType m hd b, asyncDecRefsCaller_stepType m hd, doneDecRef_async ty b, rfl, rfl⟩

/-! ### non-vacuity: drop points and stop points -/

def cfgEx : Cfg := fun k => if k = 2 then ⟨true, some 0⟩ else ⟨true, none⟩

/-- contract → value step → step on the stopped executor e2 (job dropped) → step returning an inner contract future;
    the future is dropped while everything is still pending; then the promises are fulfilled -/
def exEvents : List Event :=
  [.src (.contract 0 (.set (.val 1))) false none,
   .attach (.mk 1 .val (.on (.user 1)) (.val 1)),
   .attach (.mk 2 .val (.on (.user 2)) (.val 1)),
   .attach (.mk 3 .res .inline (.async (.contract 1 .drop) false [.mk 4 .err .inline (.throw 3)])),
   .dropFuture, .set 0, .call 1, .set 1]

example : (run cfgEx {} (exEvents.take 5)).g.cAlloc = 4 ∧ (run cfgEx {} (exEvents.take 5)).g.cFree = 0 := by decide +kernel
example : (run cfgEx {} exEvents).ctl.isFuture = false ∧ (run cfgEx {} exEvents).result = some (.exc 3) ∧
    (run cfgEx {} exEvents).g.cAlloc = 6 ∧ (run cfgEx {} exEvents).g.cFree = 6 ∧
    (run cfgEx {} exEvents).g.fAlloc = 4 ∧ (run cfgEx {} exEvents).g.fFree = 4 ∧
    (run cfgEx {} exEvents).g.jobs = [(0, true), (1, false)] := by decide +kernel

end Yaclib.Props.C03

namespace Yaclib.Props.C03.Tie
open Yaclib

theorem tie_Core_Done : Extracted.Kernels.Core_Done = Skeletons.Core_Done := rfl
theorem tie_Core_CallResolveAsync : Extracted.Kernels.Core_CallResolveAsync = Skeletons.Core_CallResolveAsync := rfl
theorem tie_Core_Impl : Extracted.Kernels.Core_Impl = Skeletons.Core_Impl := rfl
theorem tie_Core_Drop : Extracted.Kernels.Core_Drop = Skeletons.Core_Drop := rfl
theorem tie_Core_ctor : Extracted.Kernels.Core_ctor = Skeletons.Core_ctor := rfl
theorem tie_FuncCore_ctor : Extracted.Kernels.FuncCore_ctor = Skeletons.FuncCore_ctor := rfl
theorem tie_ResultCore_Impl : Extracted.Kernels.ResultCore_Impl = Skeletons.ResultCore_Impl := rfl
theorem tie_PromiseCore_Call : Extracted.Kernels.PromiseCore_Call = Skeletons.PromiseCore_Call := rfl
theorem tie_PromiseCore_Drop : Extracted.Kernels.PromiseCore_Drop = Skeletons.PromiseCore_Drop := rfl
theorem tie_ReadyCore_Drop : Extracted.Kernels.ReadyCore_Drop = Skeletons.ReadyCore_Drop := rfl
theorem tie_OneCounter_Sub : Extracted.Kernels.OneCounter_Sub = Skeletons.OneCounter_Sub := rfl
theorem tie_Drop_Impl : Extracted.Kernels.Drop_Impl = Skeletons.Drop_Impl := rfl
theorem tie_FutureBase_Detach : Extracted.Kernels.FutureBase_Detach = Skeletons.FutureBase_Detach := rfl
theorem tie_FutureBase_dtor : Extracted.Kernels.FutureBase_dtor = Skeletons.FutureBase_dtor := rfl
theorem tie_FutureBase_GetMove : Extracted.Kernels.FutureBase_GetMove = Skeletons.FutureBase_GetMove := rfl
theorem tie_Task_dtor : Extracted.Kernels.Task_dtor = Skeletons.Task_dtor := rfl
theorem tie_Task_Cancel : Extracted.Kernels.Task_Cancel = Skeletons.Task_Cancel := rfl
theorem tie_detail_SetCallback : Extracted.Kernels.detail_SetCallback = Skeletons.detail_SetCallback := rfl

end Yaclib.Props.C03.Tie
