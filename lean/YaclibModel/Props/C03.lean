/-
C03 — everything the library owns is released exactly once, on every path.

Two parts.

SEQUENTIAL PART (namespace `Yaclib.Props.C03`, first half of this file): the program-level pipeline model — all pipeline
shapes, drop points, stop points and event orders, with exact allocation / release counters for cores and functors.

CONCURRENT PART (second half, one namespace `Yaclib.Props.C03.<Model>` per concurrent kernel model): for every interleaving
at atomic-operation granularity of
  Unique        the one-word hand-off of a unique core (release folded into the outcome step)            Model/Unique.lean
  Shared        the reference-counted shared core, its callback objects, the moved-out value            Model/Shared.lean
  When          the combinator object and the input cores of WhenAll / WhenAny / Join                   Model/When.lean
  Coro          the coroutine frame, its locals, its callbacks on awaited objects                       Model/Coro.lean
  Strand        the jobs of a strand and the strand's reference to itself                               Model/Strand.lean
  Pool          the jobs of FairThreadPool (Submit-Drop / Call / HardStop-Drop)                         Model/Pool.lean
  Wait          the stack event of Wait / WaitFor / WaitUntil and the pointers to it                    Model/Wait.lean
  Event         WaitGroup / OneShotEvent: heap waiters of timed waits, consumed futures                 Model/Event.lean
  CoMutex, CoSharedMutex   the waiter nodes that live in coroutine frames                               Model/Co*Mutex.lean
three kinds of theorems over `Reachable w s`, for every workload the model quantifies over:
  (i) no object is accessed after its release, (ii) nothing is released twice, (iii) at quiescence everything allocated for
  the workload has been released.
NOT expressible in these models (no ghost for it; see the section comments): the reference counts of `IExecutorPtr`s held by
cores and jobs; functor objects as separate objects inside concurrent cores (they die with their core; counted exactly in the
sequential part); the Drop path of a callback JOB submitted by a unique / shared core to a stopped executor (the kernels
model the Call path; the Drop path is covered at program level by the sequential part and, for executors, by Strand / Pool);
`~Task` of an awaited Task (`Coro.tdtor`) is an unconstrained client step, so "exactly once" for it is the client's matter.

Sequential part.  Objects: cores (one heap block each: functor + result + continuation state; unique cores: no counter, `DecRef` = delete)
and the functors stored in them.  Release points, all taken from `Extracted/Dispatch.lean`: `Core::Done` releases its
caller iff `(!IsRun && (IsFromUnique || IsCall || kAsync)) || Async` and destroys the functor iff `!Async`;
`CallResolveAsync` releases the caller iff `!IsRun` and destroys the functor; async_done releases the inner state; the Drop
callback releases a core nobody holds; Get() releases the result.

`Bal g c f` = "allocated = released + c cores / f functors alive".  Since both counters only grow, `Bal` in every reachable
state with the *exact* number of objects the control state still refers to means: nothing is released twice (a second
release of an object the state no longer refers to would break the equation), nothing is forgotten.
For ALL programs, ALL drop points (dropFuture / droptask / detach anywhere in the event list), ALL stop points (`cfg`) and
ALL event orders.  Guards: well-formed programs (`wfProg`: a Run/Schedule source built by a functor has its head functor —
the C++ type system guarantees it).  (Until fix 4f7ebfc of /repo the theorems also carried `crashed = false`: defect D10,
see C02; now no reachable state is a crash: `run_not_crashed`.)
-/
import YaclibModel.Proofs.PipelineAcct5
import YaclibModel.Proofs.PipelineSpec
import YaclibModel.Extracted.Kernels
import YaclibModel.Extracted.DoneOrder
import YaclibModel.Model.Skeletons
import YaclibModel.Proofs.UniqueOwn
import YaclibModel.Proofs.WhenOwn
import YaclibModel.Proofs.StrandOwn
import YaclibModel.Props.C01
import YaclibModel.Props.C06
import YaclibModel.Props.C07
import YaclibModel.Props.C08
import YaclibModel.Props.C09
import YaclibModel.Props.C11
import YaclibModel.Props.C13
import YaclibModel.Props.C14
import YaclibModel.Props.C15
import YaclibModel.Props.C16

namespace Yaclib.Props.C03
open Yaclib Yaclib.Pipeline Yaclib.Extracted

variable (cfg : Cfg) (evs : List Event) (p : Prog) (h : Handle)

/-- what the control state still refers to: (cores, functors) -/
def owned (st : State) : Nat × Nat :=
  match st.ctl with
  | .idle => (0, 0)
  | .task src steps => (srcCores src + steps.length, srcFunctors src + steps.length)
  | .future _ _ => (1, 0)
  | .pending t => (coresT t, funsT t)
  | .gone => (0, 0)

/-- **no_uaf_Pipeline / no_double_free_Pipeline — exact ownership in every reachable state**:
    allocated = released + exactly the objects the suspended pipeline (or the handle) still refers to -/
theorem exact_ownership (hc : client evs = some (p, h)) (hw : wfProg p = true) :
    (run cfg {} evs).g.cAlloc = (run cfg {} evs).g.cFree + (owned (run cfg {} evs)).1 ∧
    (run cfg {} evs).g.fAlloc = (run cfg {} evs).g.fFree + (owned (run cfg {} evs)).2 := by
  have hcr := run_not_crashed cfg evs
  have hi := ainv_run cfg evs
  rw [hc] at hi
  cases hi hw with
  | inl h1 => rw [hcr] at h1; cases h1
  | inr hi =>
    unfold owned
    cases hctl : (run cfg {} evs).ctl with
    | idle => rw [hctl] at hi; exact hi.elim
    | task src steps => rw [hctl] at hi; simpa [Bal, cnt] using hi.2.2.2.2
    | future r inh => rw [hctl] at hi; simpa [Bal, cnt] using hi.2.2
    | pending t => rw [hctl] at hi; simpa [Bal, cnt] using hi.2.1
    | gone => rw [hctl] at hi; simpa [Bal, cnt] using hi.2

/-- never more releases than allocations (no double free), in every reachable state -/
theorem no_double_free_Pipeline (hc : client evs = some (p, h)) (hw : wfProg p = true) :
    (run cfg {} evs).g.cFree ≤ (run cfg {} evs).g.cAlloc ∧ (run cfg {} evs).g.fFree ≤ (run cfg {} evs).g.fAlloc := by
  have := exact_ownership cfg evs p h hc hw
  omega

/-- **quiescent_all_freed_Pipeline**: in every terminal state — the pipeline finished and nothing holds it (`gone`: the
    future was dropped / consumed by Get / detached / the Task cancelled, at ANY point of the history) — liveCores = 0 and
    liveFunctors = 0; with a completed Future still held: exactly its result core, no functor -/
theorem quiescent_all_freed_Pipeline (hc : client evs = some (p, h)) (hw : wfProg p = true) :
    ((run cfg {} evs).ctl = .gone →
      (run cfg {} evs).g.cAlloc = (run cfg {} evs).g.cFree ∧ (run cfg {} evs).g.fAlloc = (run cfg {} evs).g.fFree) ∧
    (∀ r inh, (run cfg {} evs).ctl = .future r inh →
      (run cfg {} evs).g.cAlloc = (run cfg {} evs).g.cFree + 1 ∧ (run cfg {} evs).g.fAlloc = (run cfg {} evs).g.fFree) := by
  have := exact_ownership cfg evs p h hc hw
  constructor
  · intro hg; simpa [owned, hg] using this
  · intro r inh hf; simpa [owned, hf] using this

/-- a functor is destroyed when its step completes — invoked or not (skipped value callback, Dropped job, cancelled Task):
    whenever the pipeline rests with a ready future no functor is alive, whatever was invoked -/
theorem functors_released_invoked_or_not (hc : client evs = some (p, h)) (hw : wfProg p = true)
    (ht : (run cfg {} evs).terminal = true) :
    (run cfg {} evs).g.fAlloc = (run cfg {} evs).g.fFree := by
  have := exact_ownership cfg evs p h hc hw
  cases hctl : (run cfg {} evs).ctl <;> simp_all [State.terminal, owned]

/-- T1: the release conditions of the extracted tables, per kind of step: a continuation releases its predecessor exactly
    once (in Done, or in CallResolveAsync when it unwraps), a Run head has none to release, async_done releases the inner
    state, the functor is destroyed exactly once (in Done<false> or in CallResolveAsync) -/
theorem release_conditions (m : Mode) (hd b : Bool) (ty : Nat) :
    Dispatch.doneDecRef (stepType m hd) b false = !hd ∧ Dispatch.asyncDecRefsCaller (stepType m hd) = !hd ∧
    Dispatch.doneDecRef ty b true = true ∧ Dispatch.doneDestroysFunctor false = true ∧
    Dispatch.doneDestroysFunctor true = false :=
  ⟨doneDecRef_stepType m hd b, asyncDecRefsCaller_stepType m hd, doneDecRef_async ty b, rfl, rfl⟩

/-! ### ordered teardown of `Core::Done` (T1: `Extracted/DoneOrder.lean` is the statement order of the source)

The functor (with its captures) lives INSIDE the core.  Once the result is published (`SetResult`: the exchange of the
callback word, running the subscribers of a shared state, dropping the promise references) a consumer may take the result
and release the core, so everything `Done` releases has to be released BEFORE that statement.  The mechanism model applies
`doneAcct` / `asyncDoneAcct` as one step and lets the continuation / consumer run after it; the theorems below say that
this is the order of the code: interpreting the extracted statement list up to the publication gives exactly the model's
accounting, and nothing is released after it. -/
section teardown
open Yaclib.Extracted.DoneOrder

/-- what one statement of `Core::Done<_, async>` releases -/
def doneStepAcct (ty : Nat) (kAsync async : Bool) (g : G) : DoneStep → G
  | .releaseCaller => if Dispatch.doneDecRef ty kAsync async then g.freeCore else g
  | .destroyFunctor => if Dispatch.doneDestroysFunctor async then g.freeFunctor else g
  | _ => g

/-- the accounting at the moment the result becomes visible: the statements in front of `publish`, in source order -/
def acctAtPublish (ty : Nat) (kAsync async : Bool) (g : G) : G :=
  (doneSteps.takeWhile (· != .publish)).foldl (doneStepAcct ty kAsync async) g

/-- the documented order "save caller, store result, release caller, destroy functor, publish" is the order of the source -/
theorem done_teardown_order :
    doneSteps = [.saveCaller, .store, .releaseCaller, .destroyFunctor, .publish, .ret] := rfl

/-- **functor_destroyed_before_publish**: at the publication of a core's result its functor is already destroyed and its
    caller already released — the accounting in front of `SetResult` is the model's whole `doneAcct` (resp. `asyncDoneAcct`
    for `Done<_, true>`), so whoever observes the result (continuation, subscriber of a shared state, a consumer polling
    `Ready()` and dropping the future) observes a core whose functor count is released … -/
theorem functor_destroyed_before_publish (ty : Nat) (kAsync : Bool) (g : G) :
    acctAtPublish ty kAsync false g = doneAcct ty kAsync g ∧ acctAtPublish ty true true g = asyncDoneAcct ty g ∧
    (acctAtPublish ty kAsync false g).fFree = g.fFree + 1 := by
  refine ⟨rfl, rfl, ?_⟩
  show (doneAcct ty kAsync g).fFree = g.fFree + 1
  unfold doneAcct
  rw [doneDestroysFunctor_false]
  simp only [↓reduceIte, G.freeFunctor]
  split <;> rfl

/-- … and `Done` touches nothing of the core after the publication: only `return` follows -/
theorem nothing_released_after_publish :
    ∀ s ∈ doneSteps.dropWhile (· != .publish), s = .publish ∨ s = .ret := by decide

end teardown

/-! ### non-vacuity: drop points and stop points -/

def cfgEx : Cfg := fun k => if k = 2 then ⟨true, some 0⟩ else ⟨true, none⟩

/-- contract → value step → step on the stopped executor e2 (job dropped) → step returning an inner contract future;
    the future is dropped while everything is still pending; then the promises are fulfilled -/
def exEvents : List Event :=
  [.src (.contract 0 (.set (.val 1))) false none,
   .attach (.mk 1 .val (.on (.user 1)) (.val 1)),
   .attach (.mk 2 .val (.on (.user 2)) (.val 1)),
   .attach (.mk 3 .res .inline (.async (.contract 1 .drop) false [.mk 4 .err .inline (.throw 3)])),
   .dropFuture, .set 0, .call 1, .set 1]

example : (run cfgEx {} (exEvents.take 5)).g.cAlloc = 4 ∧ (run cfgEx {} (exEvents.take 5)).g.cFree = 0 := by decide +kernel
example : (run cfgEx {} exEvents).ctl.isFuture = false ∧ (run cfgEx {} exEvents).result = some (.exc 3) ∧
    (run cfgEx {} exEvents).g.cAlloc = 6 ∧ (run cfgEx {} exEvents).g.cFree = 6 ∧
    (run cfgEx {} exEvents).g.fAlloc = 4 ∧ (run cfgEx {} exEvents).g.fFree = 4 ∧
    (run cfgEx {} exEvents).g.jobs = [(0, true), (1, false)] := by decide +kernel

end Yaclib.Props.C03

namespace Yaclib.Props.C03.Tie
open Yaclib

theorem tie_Core_Done : Extracted.Kernels.Core_Done = Skeletons.Core_Done := rfl
theorem tie_Core_CallResolveAsync : Extracted.Kernels.Core_CallResolveAsync = Skeletons.Core_CallResolveAsync := rfl
theorem tie_Core_Impl : Extracted.Kernels.Core_Impl = Skeletons.Core_Impl := rfl
theorem tie_Core_Drop : Extracted.Kernels.Core_Drop = Skeletons.Core_Drop := rfl
theorem tie_Core_ctor : Extracted.Kernels.Core_ctor = Skeletons.Core_ctor := rfl
theorem tie_FuncCore_ctor : Extracted.Kernels.FuncCore_ctor = Skeletons.FuncCore_ctor := rfl
theorem tie_ResultCore_Impl : Extracted.Kernels.ResultCore_Impl = Skeletons.ResultCore_Impl := rfl
theorem tie_PromiseCore_Call : Extracted.Kernels.PromiseCore_Call = Skeletons.PromiseCore_Call := rfl
theorem tie_PromiseCore_Drop : Extracted.Kernels.PromiseCore_Drop = Skeletons.PromiseCore_Drop := rfl
theorem tie_ReadyCore_Drop : Extracted.Kernels.ReadyCore_Drop = Skeletons.ReadyCore_Drop := rfl
theorem tie_OneCounter_Sub : Extracted.Kernels.OneCounter_Sub = Skeletons.OneCounter_Sub := rfl
theorem tie_Drop_Impl : Extracted.Kernels.Drop_Impl = Skeletons.Drop_Impl := rfl
theorem tie_FutureBase_Detach : Extracted.Kernels.FutureBase_Detach = Skeletons.FutureBase_Detach := rfl
theorem tie_FutureBase_dtor : Extracted.Kernels.FutureBase_dtor = Skeletons.FutureBase_dtor := rfl
theorem tie_FutureBase_GetMove : Extracted.Kernels.FutureBase_GetMove = Skeletons.FutureBase_GetMove := rfl
theorem tie_Task_dtor : Extracted.Kernels.Task_dtor = Skeletons.Task_dtor := rfl
theorem tie_Task_Cancel : Extracted.Kernels.Task_Cancel = Skeletons.Task_Cancel := rfl
theorem tie_detail_SetCallback : Extracted.Kernels.detail_SetCallback = Skeletons.detail_SetCallback := rfl

end Yaclib.Props.C03.Tie

/-! # CONCURRENT PART

One section per concurrent kernel model.  Each section restates, under C03 names and over `Reachable w s` for EVERY
workload the model quantifies over (all interleavings at atomic-operation granularity, stale loads, spurious CAS failures),
  (i)   no object is accessed after it was released,
  (ii)  nothing is released twice,
  (iii) at quiescence everything allocated for the workload has been released.
Almost everything is a corollary of the invariants proved for the model's own property (C01, C06, C07, C08, C09, C11, C13,
C14, C15, C16); the new inductive facts are in Proofs/UniqueOwn.lean, Proofs/WhenOwn.lean and Proofs/StrandOwn.lean
(proved on top of the existing invariants; no Model / Proofs file of another property is changed). -/

/-! ## Unique core (Model/Unique.lean; `BaseCore::{SetCallbackImpl<false>, SetResultImpl}`, `Promise::Set / ~Promise`,
`FutureBase::{~FutureBase, Detach, Get}`, `Connect`, `Drop::Impl`)

A unique core has no reference counter: `DecRef` = delete.  The model folds the release into the *outcome* step — the
continuation was invoked (`delivered`; `Core::Done` releases the caller right after the body), `Get() &&` returned (`got`;
`FutureBase::Get` takes the Result and releases the core), the `Connect` target received the Result (`forwarded`), the Drop
core ran (`dropped`; `Drop::Impl` → `caller.DecRef()`).  `outcomeCount w s` counts the outcome the consumer asked for, so
"released" = `outcomeCount w s = 1`.  `stored` is the Result storage inside the core (`none` = not constructed / destroyed). -/
namespace Yaclib.Props.C03.Unique
open Yaclib.Unique

variable {w : Workload} {s : State}

/-- (ii) the unique core (`UniqueCore`, released by `Core::Done` / `FutureBase::Get` / `Connect` / `Drop::Impl`) is released
    at most once: the outcome step that carries the release happens at most once -/
theorem released_at_most_once_Unique (h : Reachable w s) : outcomeCount w s ≤ 1 := C01.outcome_at_most_once h

/-- (ii) per release point: at most one continuation invocation (`Core::Done`), one `Get() &&` return, one `Connect` forward,
    one run of the Drop core — and only the kind the consumer asked for ever happens -/
theorem each_release_point_at_most_once_Unique (h : Reachable w s) :
    s.delivered.length + s.got.length + s.forwarded.length + s.dropped.length ≤ 1 := by
  have h2 := inv2_reachable h
  have hle := C01.outcome_at_most_once h
  unfold outcomeCount at hle
  cases hf : w.fin with
  | attach b =>
      rw [hf] at hle
      rw [h2.only_drop (by rw [hf]; simp), h2.only_got (by rw [hf]; simp), h2.only_fwd (by rw [hf]; simp)]
      simpa using hle
  | drop =>
      rw [hf] at hle
      rw [h2.only_deliver (by rw [hf]; simp), h2.only_got (by rw [hf]; simp), h2.only_fwd (by rw [hf]; simp)]
      simpa using hle
  | getMove =>
      rw [hf] at hle
      rw [h2.only_deliver (by rw [hf]; simp), h2.only_drop (by rw [hf]; simp), h2.only_fwd (by rw [hf]; simp)]
      simpa using hle
  | connect =>
      rw [hf] at hle
      rw [h2.only_deliver (by rw [hf]; simp), h2.only_drop (by rw [hf]; simp), h2.only_got (by rw [hf]; simp)]
      simpa using hle

/-- (i) no use after release: once the core was released (the outcome happened) NO step of the producer or of the consumer is
    enabled any more — nobody loads / CASes / exchanges the word, reads the Result storage or touches the wait event -/
theorem no_use_after_release_Unique (h : Reachable w s) (h1 : outcomeCount w s = 1) : ∀ l s', ¬ Step s l s' :=
  no_step_after_release h h1

/-- (i) the same seen from the threads: at the release the producer has left `SetResultImpl` (it is past its `exchange` and
    past running the callback it took out), the consumer has finished its last operation -/
theorem release_is_last_access_Unique (h : Reachable w s) (h1 : outcomeCount w s = 1) :
    s.ppc = .done ∧ s.cpc = .idle ∧ s.todo = [] :=
  ⟨(released_facts h h1).1, (released_facts h h1).2.1, (released_facts h h1).2.2.1⟩

/-- the stored Result dies with the core: after `Get() &&` (moved out), `Connect` (moved into the target) and `Drop::Impl`
    (destroyed with the core) the storage is no longer constructed.  (For a continuation the model keeps `stored`: the
    continuation's core only reads its caller's Result, the caller is destroyed by `Core::Done` after the body — by
    `no_use_after_release_Unique` nothing reads it afterwards.) -/
theorem value_destroyed_Unique (h : Reachable w s) (hf : ∀ b, w.fin ≠ .attach b) (h1 : outcomeCount w s = 1) :
    s.stored = none := (released_facts h h1).2.2.2 hf

/-- (i) the Result storage is read only while it is constructed: a continuation body, a `Connect` forward and a `Get() &&`
    return read `stored = some r` (with the word = `result` and `r` the Result that was set) in the state they start from -/
theorem storage_read_only_while_constructed_Unique (h : Reachable w s) {l : Label} {s' : State} {r : Res} (hs : Step s l s')
    (hl : (∃ t, l = .invoke t r) ∨ (∃ t, l = .forward t r) ∨ l = .got r) :
    s.stored = some r ∧ s.word = .result ∧ r = w.prod.res := by
  have hi := inv_reachable h
  have key : s.stored = some r → s.stored = some r ∧ s.word = .result ∧ r = w.prod.res :=
    fun hr => ⟨hr, (hi.stored_val r hr).2, (hi.stored_val r hr).1⟩
  rcases hl with ⟨t, hl⟩ | ⟨t, hl⟩ | hl <;> subst hl
  · cases hs with
    | pInvoke _ _ _ hr => exact key hr
    | pInvokeSub _ _ hr => exact key hr
    | cInvoke _ _ _ hr => exact key hr
    | cInvokeSub _ _ hr => exact key hr
  · cases hs with
    | pForward _ _ hr => exact key hr
    | cForward _ _ hr => exact key hr
  · cases hs with
    | cGot _ _ hr => exact key hr

/-- (ii) the Result storage is constructed only from the unconstructed state and destroyed only by the (unique) release:
    a step that takes `stored` from `some _` to `none` is the outcome step -/
theorem value_destroyed_only_by_release_Unique (h : Reachable w s) {l : Label} {s' : State} (hs : Step s l s')
    (h0 : s.stored ≠ none) (h1 : s'.stored = none) : outcomeCount w s = 0 ∧ outcomeCount w s' = 1 := by
  have hle := C01.outcome_at_most_once h
  have hne : outcomeCount w s ≠ 1 := fun he => no_step_after_release h he _ _ hs
  refine ⟨by omega, ?_⟩
  rcases stored_change (inv_reachable h) hs with hc | hc | hc
  · rw [hc] at h1; exact absurd h1 h0
  · exact absurd hc h0
  · exact outcome_of_history (.step h hs) (Or.inr hc)

/-- (i) the stack event of `Wait` / `Get() &&` (`MutexEvent`, an object of the consumer's frame): while the producer holds a pointer
    to it (it took the event callback out of the word) or is inside `MutexEvent::Set`, the consumer is still inside the wait —
    the event is never touched after the wait returned -/
theorem wait_event_alive_while_producer_sets_Unique (h : Reachable w s) (hp : s.ppc = .fire .event ∨ s.ppc = .evLocked) :
    inWait s.cpc := by
  have hi := inv_reachable h
  rcases hp with hp | hp
  · exact ((hi.fire .event hp).2.1 rfl).1
  · rcases (hi.evlocked hp).1 with hc | hc
    · exact Or.inl hc
    · exact Or.inr (Or.inr hc)

/-- (iii) nothing is forgotten: in every state in which no thread can take a step the core has been released exactly once
    (and, unless a continuation took the Result over, the stored Result is gone) -/
theorem quiescent_all_released_Unique (h : Reachable w s) (hq : ∀ l s', ¬ Step s l s') :
    outcomeCount w s = 1 ∧ ((∀ b, w.fin ≠ .attach b) → s.stored = none) := by
  have h1 := (C01.quiescent_complete h hq).2.2.2
  exact ⟨h1, fun hf => value_destroyed_Unique h hf h1⟩

/-- non-vacuity: a dropped Promise and a blocking `Get() &&`: the core is released by the `Get`, the Result is gone -/
example : ∃ s, Reachable ⟨.drop, [], .getMove⟩ s ∧ outcomeCount ⟨.drop, [], .getMove⟩ s = 1 ∧ s.stored = none ∧
    ∀ l s', ¬ Step s l s' := by
  let w : Workload := ⟨.drop, [], .getMove⟩
  have h0 : Reachable w (init w) := .init
  have h1 := C01.validator_sound h0 (l := .cLoad .empty) (s' := _) rfl
  have h2 := C01.validator_sound h1 (l := .cCas .event true) (s' := _) rfl
  have h3 := C01.validator_sound h2 (l := .lock .c) (s' := _) rfl
  have h4 := C01.validator_sound h3 (l := .unlock .c) (s' := _) rfl
  have h5 := C01.validator_sound h4 (l := .pXchg (.cb .event)) (s' := _) rfl
  have h6 := C01.validator_sound h5 (l := .lock .p) (s' := _) rfl
  have h7 := C01.validator_sound h6 (l := .unlock .p) (s' := _) rfl
  have h8 := C01.validator_sound h7 (l := .lock .c) (s' := _) rfl
  have h9 := C01.validator_sound h8 (l := .unlock .c) (s' := _) rfl
  have h10 := C01.validator_sound h9 (l := .got .err) (s' := _) rfl
  exact ⟨_, h10, rfl, rfl, no_use_after_release_Unique h10 rfl⟩

/-- non-vacuity: the Future is dropped first, then the Promise is fulfilled: the producer runs the Drop core, which releases
    the core without ever constructing a Result that somebody could read -/
example : ∃ s, Reachable ⟨.set (.val 7), [], .drop⟩ s ∧ s.dropped = [.p] ∧ outcomeCount ⟨.set (.val 7), [], .drop⟩ s = 1 ∧
    s.stored = none := by
  let w : Workload := ⟨.set (.val 7), [], .drop⟩
  have h0 : Reachable w (init w) := .init
  have h1 := C01.validator_sound h0 (l := .cLoad .empty) (s' := _) rfl
  have h2 := C01.validator_sound h1 (l := .cCas .drop true) (s' := _) rfl
  have h3 := C01.validator_sound h2 (l := .pXchg (.cb .drop)) (s' := _) rfl
  exact ⟨_, h3, rfl, rfl, rfl⟩

end Yaclib.Props.C03.Unique

/-! ## Shared core (Model/Shared.lean; `SharedCore`, `AtomicCounter` via `Helper::{IncRef, DecRef, GetRef}`, `SharedPromise`,
`SharedFuture`, `SharedCore::{SetCallback, SetResult, Retire}`)

The core carries a real reference counter: `count` (3 for the promise, one per SharedFuture copy, one per submitted executor
job, one per When-style callback in a list or entered and not yet retired); `freed` counts executions of `delete` (the `DecRef` that reached zero);
`movedOut` says that the stored Result was moved out (`Get() &&` / `Retire()` by the sole owner, the last Connect target).
Callback objects handed to `SetCallback` are `registered`; running one (`fired`) consumes it. -/
namespace Yaclib.Props.C03.Shared
open Yaclib.Shared

variable {w : Workload} {s : State}

/-- (ii) the shared core is deleted at most once (`Helper::DecRef` → `delete this` only when the counter reached zero) -/
theorem released_at_most_once_Shared (h : Reachable w s) : s.freed ≤ 1 := C06.freed_at_most_once h

/-- (ii) … and exactly by the `DecRef` that dropped the last reference -/
theorem released_iff_last_reference_Shared (h : Reachable w s) : s.freed = 1 ↔ s.count = 0 := C06.freed_iff_count_zero h

/-- (i)/(ii) every unit of the counter has an owner — the promise (3, released around the last callback), the SharedFuture
    copies of the observers, submitted executor jobs, When-style callbacks still in a list or entered and waiting for their
    combinator's `Retire()`: no `DecRef` without a reference -/
theorem references_accounted_Shared (h : Reachable w s) :
    s.count = promRefs s.fpc + s.holders + s.jobs.length + s.jobsRun.length
      + retCnt (wordList s.word) + retCnt (walkList s.fpc) + s.rets.length + s.retsLd.length := C06.count_accounts h

/-- (i) no use after free: once the core was deleted NO step of the model is enabled — nobody touches the word, the counter
    or the Result, no callback runs, no executor job of this core exists -/
theorem no_use_after_release_Shared (h : Reachable w s) (hf : 0 < s.freed) : ∀ l s', ¬ Step s l s' :=
  C06.no_use_after_free h hf

/-- (iii) at quiescence the only references left are SharedFuture objects still in the client's hands … -/
theorem quiescent_only_client_references_Shared (h : Reachable w s) (hq : ∀ l s', ¬ Step s l s') :
    s.count = s.holders ∧ s.jobs = [] ∧ s.jobsRun = [] ∧ s.inflight = [] := by
  have hi := inv_reachable h
  obtain ⟨hf, hj, hjr, hin, _, _⟩ := C06.quiescent_complete h hq
  obtain ⟨hrt, hrl⟩ := C06.quiescent_no_pending_retire h hq
  have hw : s.word = .result := hi.a.word_iff.mpr (by rw [hf]; simp)
  have hcnt := hi.r.cnt
  rw [hf, hj, hjr, hw, hrt, hrl] at hcnt
  simp [wordList, walkList, retCnt] at hcnt
  exact ⟨hcnt, hj, hjr, hin⟩

/-- (iii) … so once every SharedFuture copy was destroyed the core has been deleted, exactly once: promise dropped or set,
    futures dropped before or after, callbacks run inline / via executor / as Connect target / When-style — all paths -/
theorem quiescent_all_released_Shared (h : Reachable w s) (hq : ∀ l s', ¬ Step s l s') (hr : ∀ t, (s.obs t).refs = 0) :
    s.count = 0 ∧ s.freed = 1 := C06.quiescent_released h hq hr

/-- (ii) a registered callback object (`SetCallback` on the shared word) is consumed — run — at most once, and after it ran it
    is in no list, in nobody's hands and in no executor -/
theorem callback_consumed_at_most_once_Shared (h : Reachable w s) :
    (firedIds s).Nodup ∧ ∀ c ∈ firedIds s, c ∉ wordList s.word ∧ c ∉ walkList s.fpc ∧ c ∉ s.inflight ∧ c ∉ s.jobs :=
  ⟨C06.fired_once h, fun _ hc => C06.fired_not_pending h hc⟩

/-- (ii)/(iii) every registered callback object is in exactly one place (fired / word list / fulfiller's walk list / its
    owner's hands / an executor) … -/
theorem callback_conservation_Shared (h : Reachable w s) (c : Cb) :
    s.registered.count c =
      (firedIds s).count c + (wordList s.word).count c + (walkList s.fpc).count c + s.inflight.count c + s.jobs.count c :=
  C06.conservation h c

/-- (iii) … and at quiescence every one of them has been consumed exactly once -/
theorem quiescent_all_callbacks_consumed_Shared (h : Reachable w s) (hq : ∀ l s', ¬ Step s l s') :
    ∀ c ∈ s.registered, (firedIds s).count c = 1 := (C06.quiescent_complete h hq).2.2.2.2.2

/-- (i)/(ii) the stored Result is moved out at most once and never read afterwards: after `Get() &&` / `Retire()` by the sole
    owner or the move into the last Connect target no step reads and no step moves -/
theorem value_moved_out_once_Shared (h : Reachable w s) (hm : s.movedOut = true) {l : Label} {s' : State} (hs : Step s l s') :
    l.reads = false ∧ l.moves = false := ⟨C06.no_read_after_moveout h hm hs, C06.no_second_moveout h hm hs⟩

/-- (i) an observer moves the Result out (`Get() &&`) only as the sole owner: counter = 1, the promise has released all its
    references, no executor job, no pending combinator callback, no other SharedFuture -/
theorem observer_moves_only_as_sole_owner_Shared (h : Reachable w s) {l : Label} {s' : State} (hs : Step s l s') {t : Nat}
    (hl : ∃ r, l = .oGot t r true) :
    s.count = 1 ∧ s.fpc = .dec 0 ∧ s.jobs = [] ∧ s.jobsRun = [] ∧ s.rets = [] ∧ s.retsLd = [] ∧ (s.obs t).refs = 1 ∧
    ∀ t', t' ≠ t → (s.obs t').refs = 0 := C06.observer_moves_only_as_sole_owner h hs hl

/-- (i) a combinator's `Retire()` — at any time after its callback was entered, on any thread — moves the Result out only as
    the sole owner: counter = 1, promise done, no job, no other pending combinator callback, no SharedFuture anywhere -/
theorem retire_moves_only_as_sole_owner_Shared (h : Reachable w s) {s' : State} {c : Cb} {r : Option Res} {mv : Bool} {n : Nat}
    (hs : Step s (.rRetire c r mv n) s') (hmv : mv = true) :
    s.count = 1 ∧ s.fpc = .dec 0 ∧ s.jobs = [] ∧ s.jobsRun = [] ∧ s.rets = [] ∧ s.retsLd.length = 1 ∧
    ∀ t, (s.obs t).refs = 0 := C06.retire_moves_only_as_sole_owner h hs hmv

/-- (i) the fulfiller moves the Result into a Connect/Share target only when no observer, job or callback holds a reference -/
theorem fulfiller_moves_only_without_holders_Shared (h : Reachable w s) {s' : State} {c : Cb} {r : Option Res} {mv : Bool}
    (hs : Step s (.fForward c r mv) s') (hmv : mv = true) :
    s.count = 2 ∧ s.jobs = [] ∧ s.jobsRun = [] ∧ walkList s.fpc = [c] ∧ ∀ t, (s.obs t).refs = 0 :=
  C06.fulfiller_moves_only_without_holders h hs hmv

/-- non-vacuity: `Then(e, f)` on a fulfilled SharedFuture; the job outlives every SharedFuture and the promise and frees the
    core itself — exactly once, and nothing can happen afterwards -/
example : ∃ s, Reachable ⟨.set (.val 42), [[.attach .exec, .drop]]⟩ s ∧ s.count = 0 ∧ s.freed = 1 ∧ ∀ l s', ¬ Step s l s' := by
  let w : Workload := ⟨.set (.val 42), [[.attach .exec, .drop]]⟩
  let c : Cb := ⟨0, 0, .exec⟩
  have h0 : Reachable w (init w) := .init
  have h1 := C06.validator_sound h0 (l := .fXchg (.list [])) (s' := _) rfl
  have h2 := C06.validator_sound h1 (l := .oLoad 0 (.list [])) (s' := _) rfl
  have h3 := C06.validator_sound h2 (l := .oCasFail 0 .result) (s' := _) rfl
  have h4 := C06.validator_sound h3 (l := .oIncRef 0 4) (s' := _) rfl
  have h5 := C06.validator_sound h4 (l := .oSubmit 0 c) (s' := _) rfl
  have h6 := C06.validator_sound h5 (l := .fDec 5) (s' := _) rfl
  have h7 := C06.validator_sound h6 (l := .fDec 4) (s' := _) rfl
  have h8 := C06.validator_sound h7 (l := .fDec 3) (s' := _) rfl
  have h9 := C06.validator_sound h8 (l := .oDrop 0 2) (s' := _) rfl
  have h10 := C06.validator_sound h9 (l := .jInvoke c (some (.val 42))) (s' := _) rfl
  have h11 := C06.validator_sound h10 (l := .jDec c 1) (s' := _) rfl
  exact ⟨_, h11, rfl, rfl, no_use_after_release_Shared h11 (by decide)⟩

end Yaclib.Props.C03.Shared

/-! ## Combinator (Model/When.lean; `when::When`, `CombinatorCallback::Impl`, `Consume/ConsumeImpl`, the strategies of
all.hpp / all_tuple.hpp / join.hpp / any.hpp, `MakeShared(count, …)` + `DecRef` on the combinator)

Objects: the combinator (strategy + output promise + callback nodes; reference count `count` = one per input whose consumption
has not yet run `_self->DecRef()`), and the input cores.  `dt = some i`: the consumption of input `i` executed the `DecRef`
that read 1, i.e. deleted the combinator — its thread runs `~Strategy` / `~Promise` (`dtorRel`, `dtorSet`) as part of that
delete.  `released j` counts releases of input core `j` (`core.Retire()` / `core.DecRef()` by its own consumption for Managed
strategies, the loop over `_cores` in `~All` for Owned ones), `consumed j` entries of its callback.  For all nine strategies,
every number of inputs and success / failure pattern, every interleaving of the registration loop with the completions. -/
namespace Yaclib.Props.C03.When
open Yaclib.When

variable {w : Workload} {s : State}

/-- (ii) every input core is released at most once and its combinator callback entered at most once, whether or not the output
    was decided early (FirstFail / Any) -/
theorem inputs_released_at_most_once_When (h : Reachable w s) : ∀ i, s.consumed i ≤ 1 ∧ s.released i ≤ 1 :=
  consumed_released_le_one (invc_reachable h)

/-- (ii) at the step level: `core.Retire()` / `core.DecRef()` / the `~All` loop release input `j` only if it was not released -/
theorem input_released_only_if_unreleased_When (h : Reachable w s) {l : Label} {s' : State} (hs : Step w s l s') {j : Nat}
    (hl : l.releases j) : s.released j = 0 := by
  have h1 := (inputs_released_at_most_once_When (.step h hs) j).2
  rw [released_step hs hl] at h1
  omega

/-- (ii) the combinator is destroyed at most once, by the `DecRef` that read 1: `dt` is set by that step only … -/
theorem combinator_destroyed_only_by_last_reference_When {l : Label} {s' : State} (hs : Step w s l s') (h0 : s.dt = none)
    {i : Nat} (h1 : s'.dt = some i) : l = .dec i 1 ∧ s.count = 1 := by
  rcases dt_step hs with h | ⟨k, hl, hc, hk⟩
  · rw [h, h0] at h1; cases h1
  · rw [hk] at h1; cases h1; exact ⟨hl, hc⟩

/-- … and once set it never changes; in that state the count is 0, the destroying consumption no longer holds a reference and
    every other consumption has finished -/
theorem combinator_destroyed_once_When (h : Reachable w s) {i : Nat} (hd : s.dt = some i) :
    s.count = 0 ∧ holding (s.pc i) = false ∧ (∀ j, j < w.n → j ≠ i → s.pc j = .done) ∧
    ∀ l s', Step w s l s' → s'.dt = some i :=
  let hC := invc_reachable h
  ⟨(others_done_of_dt hC hd).1, hC.dt_pc i hd, (others_done_of_dt hC hd).2, fun _ _ hs => dt_stable hC hd hs⟩

/-- (i) no use after release: once the last reference was dropped nobody but the thread that runs the delete takes a step, and
    every such step is a step of the destructor of the strategy / of the output promise (`~All` loop, publishing the output) — no
    registration, no other consumption, no strategy-word operation touches the combinator -/
theorem no_use_after_release_When (h : Reachable w s) {i : Nat} (hd : s.dt = some i) {l : Label} {s' : State}
    (hs : Step w s l s') : l.input = i ∧ inDtor (s.pc i) = true := by
  have hC := invc_reachable h
  have hi := only_dtor_steps hC hd hs
  refine ⟨hi, ?_⟩
  have hnd := step_input_not_done hC hs
  rw [hi] at hnd
  cases hin : inDtor (s.pc i) with
  | true => rfl
  | false => exact absurd (done_of_not_holding (hC.dt_pc i hd) hin) hnd

/-- (i) an input core is not touched after its release: no `SetCallback` on it by the registration loop, no completing thread takes
    a callback out of it, no second release -/
theorem input_not_touched_after_release_When (h : Reachable w s) {j : Nat} (hr : s.released j = 1) {l : Label} {s' : State}
    (hs : Step w s l s') : ¬ l.touchesInput j := by
  have hC := invc_reachable h
  obtain ⟨h1, h2⟩ := released_past_handoff hC hr
  rintro (⟨okb, hl⟩ | hl | hl)
  · subst hl
    cases hs with
    | regSet _ _ hc hb hreg hn => exact h1 ((hC.unreg j).mpr (by omega))
  · subst hl
    cases hs with
    | fire _ hc hp => exact h2 hp
  · have := (inputs_released_at_most_once_When (.step h hs) j).2
    rw [released_step hs hl] at this
    omega

/-- (i) the same from the destructor's side: whoever is inside `~Strategy` is alone and is the one that dropped the last reference -/
theorem destructor_runs_alone_When (h : Reachable w s) {i : Nat} (hd : inDtor (s.pc i) = true) :
    s.dt = some i ∧ ∀ j, j < w.n → j ≠ i → s.pc j = .done :=
  let hC := invc_reachable h
  ⟨hC.dtor_dt i hd, fun j hj hji => hC.dtor i j hd hj hji⟩

/-- (i) while a consumption (or the registration of an input) still holds its reference the combinator is alive -/
theorem holder_keeps_combinator_alive_When (h : Reachable w s) {i : Nat} (hi : i < w.n) (hh : holding (s.pc i) = true) :
    0 < s.count ∧ s.dt = none := by
  have hC := invc_reachable h
  have hpos : 0 < s.count := by rw [hC.count]; exact cnt_pos (p := fun j => holding (s.pc j)) hi hh
  refine ⟨hpos, ?_⟩
  cases hd : s.dt with
  | none => rfl
  | some k => have := hC.dt_cnt (by rw [hd]; simp); omega

/-- (iii) nothing is forgotten: when nothing can move any more (n ≠ 0; for n = 0 `When` allocates nothing:
    `C09.empty_is_invalid`) every input was consumed and released exactly once, the reference count is 0, the combinator was
    destroyed (exactly once, by `combinator_destroyed_once_When`) and the output promise was fulfilled exactly once — so the
    output core is not leaked with a broken promise either -/
theorem quiescent_all_released_When (hwf : w.wf) (h : Reachable w s) (hn : w.n ≠ 0) (hq : ∀ l s', ¬ Step w s l s') :
    (∀ i, i < w.n → s.pc i = .done ∧ s.consumed i = 1 ∧ s.released i = 1) ∧ s.count = 0 ∧ s.dt ≠ none ∧
    s.outSet.length = 1 := by
  have hI := inv_reachable hwf h
  have hc := (C09.no_crash hwf h).1
  have hd := done_of_quiescent hI.c hc hq
  have hcomp := complete_of_all_done hI.c hI.o hn hd
  have hcnt : s.count = 0 := by
    rw [hI.c.count]; exact cnt_all_false (fun i hi => by rw [hd i hi]; rfl)
  exact ⟨fun i hi => ⟨hd i hi, hcomp.2 i hi⟩, hcnt, hI.c.cnt_dt hcnt hn, hcomp.1⟩

/-- non-vacuity: `WhenAll` (tuple form, FirstFail) over two failing inputs: the first failure wins and sets the output while the
    other input is still pending; the loser drops its reference first (`dec 1 2`), the winner drops the last one (`dec 0 1`) and
    thereby destroys the combinator; both inputs were released exactly once -/
example : ∃ s, Reachable ⟨.allTuple true, [.err 0, .err 1]⟩ s ∧ s.dt = some 0 ∧ s.count = 0 ∧ s.released 0 = 1 ∧
    s.released 1 = 1 ∧ s.outSet = [.one (.err 0)] := by
  let w : Workload := ⟨.allTuple true, [.err 0, .err 1]⟩
  have h0 : Reachable w (init w) := .init
  have h1 := C09.validator_sound h0 (l := .regSet 0 true) (s' := _) rfl
  have h2 := C09.validator_sound h1 (l := .regSet 1 true) (s' := _) rfl
  have h3 := C09.validator_sound h2 (l := .fire 0) (s' := _) rfl
  have h4 := C09.validator_sound h3 (l := .retire 0) (s' := _) rfl
  have h5 := C09.validator_sound h4 (l := .loadFlag 0 false) (s' := _) rfl
  have h6 := C09.validator_sound h5 (l := .xchgFlag 0 false) (s' := _) rfl
  have h7 := C09.validator_sound h6 (l := .setOut 0 (.one (.err 0))) (s' := _) rfl
  have h8 := C09.validator_sound h7 (l := .fire 1) (s' := _) rfl
  have h9 := C09.validator_sound h8 (l := .retire 1) (s' := _) rfl
  have h10 := C09.validator_sound h9 (l := .loadFlag 1 true) (s' := _) rfl
  have h11 := C09.validator_sound h10 (l := .dec 1 2) (s' := _) rfl
  have h12 := C09.validator_sound h11 (l := .dec 0 1) (s' := _) rfl
  exact ⟨_, h12, rfl, rfl, rfl, rfl, rfl⟩

/-- non-vacuity: `WhenAll` (vector form, Owned cores): the inputs are released by the loop of `~All`, run by the consumption
    that dropped the last reference -/
example : ∃ s, Reachable ⟨.allVec false, [.val 1, .val 2]⟩ s ∧ s.dt = some 1 ∧ s.released 0 = 1 ∧ s.released 1 = 1 ∧
    s.outSet = [.vec [some (.val 1), some (.val 2)]] ∧ s.pc 1 = .done := by
  let w : Workload := ⟨.allVec false, [.val 1, .val 2]⟩
  have h0 : Reachable w (init w) := .init
  have h1 := C09.validator_sound h0 (l := .regSet 0 false) (s' := _) rfl
  have h2 := C09.validator_sound h1 (l := .dec 0 2) (s' := _) rfl
  have h3 := C09.validator_sound h2 (l := .regSet 1 true) (s' := _) rfl
  have h4 := C09.validator_sound h3 (l := .fire 1) (s' := _) rfl
  have h5 := C09.validator_sound h4 (l := .dec 1 1) (s' := _) rfl
  have h6 := C09.validator_sound h5 (l := .dtorRel 1 0) (s' := _) rfl
  have h7 := C09.validator_sound h6 (l := .dtorRel 1 1) (s' := _) rfl
  have h8 := C09.validator_sound h7 (l := .dtorSet 1 (.vec [some (.val 1), some (.val 2)])) (s' := _) rfl
  exact ⟨_, h8, rfl, rfl, rfl, rfl, rfl⟩

end Yaclib.Props.C03.When

/-! ## Coroutine frame (Model/Coro.lean; `PromiseType::{Call, Drop, Here/Next}`, `Destroy::await_suspend` (final_suspend →
`SetResult`), `PromiseTypeDeleter::Delete` = `handle.destroy()`, the awaiters of await_awaiter.hpp / await_on_awaiter.hpp /
on_awaiter.hpp)

Objects: the coroutine frame (with the promise object = the core, the locals and the awaiter objects inside it) and the
coroutine as a submitted job.  `frameDestroyed` counts `handle.destroy()` (step `fdtor`, pc `gone`), `localDtors` destructor
runs of the frame's locals (`live` = locals still alive), `published` the `SetResult` of the coroutine's own Result.  A callback
registered on an awaited object (`(s.word j).cbs`) is a pointer into the frame (the awaiter lives there).  Paths: normal
completion, escaped exception, and the coroutine Dropped by a stopped executor while suspended (`exDrop`: `Store(StopTag)`,
`SetResult`; the locals then die together with the frame).  Hypotheses `w.WF` / `w.WFT`: arity of the awaiters, no awaited
object twice in one awaiter, Task cells are awaited as Tasks (preconditions of the API). -/
namespace Yaclib.Props.C03.Coro
open Yaclib.Coro

variable {w : Workload} {s : State}

/-- (ii) the frame is destroyed at most once (`PromiseTypeDeleter::Delete`), every local at most once; when the frame is gone
    every local was destroyed exactly once — also for a coroutine Dropped by a stopped executor (locals die with the frame) -/
theorem frame_destroyed_once_Coro (hwf : w.WF) (hwt : w.WFT) (h : Reachable w s) :
    s.frameDestroyed ≤ 1 ∧ s.localDtors ≤ w.locals ∧ (s.pc = .gone → s.frameDestroyed = 1 ∧ s.localDtors = w.locals) ∧
    (s.frameDestroyed = 1 → s.pc = .gone) := C13.frame_destroyed_once hwf hwt h

/-- (i) the locals are alive as long as the body runs or is suspended in a co_await: no local is destroyed under a running body -/
theorem locals_alive_while_running_Coro (hwf : w.WF) (hwt : w.WFT) (h : Reachable w s)
    (hp : inOp s.pc = true ∨ s.pc = .idle) : s.live = w.locals ∧ s.localDtors = 0 :=
  C13.locals_alive_while_running hwf hwt h hp

/-- (i) no use after destroy: once the frame was destroyed only the environment can act (fulfil an awaited object, register a
    foreign callback, move a started Task to another executor): no callback of this coroutine runs (`fire`), no executor Calls or
    Drops it, no `await_resume`, no destructor of a local, no `SetResult`, no second `destroy()` -/
theorem no_use_after_destroy_Coro (hwf : w.WF) (hwt : w.WFT) (h : Reachable w s) (hg : s.frameDestroyed = 1)
    {l : Label} {s' : State} (hs : Step s l s') : isEnv l = true := by
  have hpc : s.pc = .gone := (C13.frame_destroyed_once hwf hwt h).2.2.2 hg
  have hb := (full_reachable hwf hwt h).i.b
  have hno := no_cbs_of_not_inop hb (by rw [hpc]; rfl)
  cases hs with
  | pXchg j l f hw hl => rfl
  | envPush j l f hw hu => rfl
  | envSwap j e hu => rfl
  | fire op rest j p walk ht hw hp => exact absurd (by rw [hw]; exact hp) (hno j p)
  | ldtor hx hl => rw [hpc] at hx; simp at hx
  | _ => simp_all

/-- (i) nothing points into a frame whose awaiter is gone: between two co_awaits, after the body was left, after the Result was
    published and after the frame was destroyed no callback of this coroutine is registered on (or still to be run by the
    fulfiller of) any awaited object; the same once the awaiter has decided (the coroutine is about to be resumed, submitted
    or was handed to an executor) -/
theorem no_dangling_callback_Coro (hwf : w.WF) (hwt : w.WFT) (h : Reachable w s)
    (hp : inOp s.pc = false ∨ decided s.pc = true) : ∀ j p, p ∉ (s.word j).cbs := by
  have hb := (full_reachable hwf hwt h).i.b
  rcases hp with hp | hp
  · exact no_cbs_of_not_inop hb hp
  · exact no_cbs_of_decided hb hp

/-- (ii) a callback of this coroutine is registered at most once per awaited object (no node is linked twice) -/
theorem callback_registered_once_Coro (hwf : w.WF) (hwt : w.WFT) (h : Reachable w s) : ∀ j, (s.word j).cbs.Nodup :=
  (full_reachable hwf hwt h).i.b.nodup

/-- (ii) the coroutine's own Result is published (`SetResult`) at most once, and exactly once when the coroutine is over -/
theorem result_published_once_Coro (hwf : w.WF) (hwt : w.WFT) (h : Reachable w s) :
    s.published.length ≤ 1 ∧ (s.pc = .done ∨ s.pc = .gone → s.published = [outcome s]) :=
  ⟨C13.published_at_most_once hwf hwt h, fun hp => (C13.co_return_is_result hwf hwt h hp).1⟩

/-- the stopped-executor path: a coroutine Dropped while queued is completed with StopError, never resumed again, and keeps all its
    locals until the frame goes (they are destroyed by `handle.destroy()`, not by leaving scopes) -/
theorem dropped_coroutine_keeps_locals_until_destroy_Coro (hwf : w.WF) (hwt : w.WFT) (h : Reachable w s)
    (hd : s.dropped = true) :
    (s.pc = .fin ∨ s.pc = .done ∨ s.pc = .gone) ∧ s.result = some .err ∧ (s.pc = .fin → s.live = w.locals) ∧
    (s.pc = .gone → s.frameDestroyed = 1 ∧ s.localDtors = w.locals) :=
  ⟨(C13.stopped_executor_stop_error hwf hwt h hd).1, (C13.stopped_executor_stop_error hwf hwt h hd).2.1,
    (full_reachable hwf hwt h).d.drop_live hd, (C13.frame_destroyed_once hwf hwt h).2.2.1⟩

/-- `~Task` of an awaited Task that completed only releases the Task's core: it writes neither the word nor the Result nor
    anything of the awaiting coroutine (since /repo 2690a63) -/
theorem completed_task_just_releases_Coro {j : Nat} {s' : State} (hs : Step s (.tdtor j) s') :
    (s.word j).isResult = true ∧ s'.cells = s.cells ∧ (∀ i, s'.stored i = s.stored i) ∧ s'.pc = s.pc ∧ s'.todo = s.todo ∧
    s'.tasksReleased = s.tasksReleased ++ [j] := C13.completed_task_just_releases hs

/-- (iii) quiescence: in a state in which only the environment could still act the coroutine is over — Result published exactly
    once, every local destroyed exactly once, the frame destroyed exactly once (normal completion, escaped exception, Dropped by
    a stopped executor alike) — or it is suspended on an awaited object that has not been fulfilled, which then owns it
    (the frame is legitimately alive: the pending callback is its owner) -/
theorem quiescent_frame_released_Coro (hwf : w.WF) (hwt : w.WFT) (h : Reachable w s)
    (hq : ∀ l s', Step s l s' → isEnv l = true) :
    (s.pc = .gone ∧ s.published = [outcome s] ∧ s.frameDestroyed = 1 ∧ s.localDtors = w.locals ∧ s.live = 0 ∧
      ∀ j p, p ∉ (s.word j).cbs) ∨ Waiting s := by
  rcases C13.quiescent_complete hwf hwt h hq with ⟨hg, hp, hf, hl, _⟩ | hw
  · left
    have hD := (full_reachable hwf hwt h).d
    exact ⟨hg, hp, hf, hl, hD.gone_live hg, no_dangling_callback_Coro hwf hwt h (Or.inl (by rw [hg]; rfl))⟩
  · exact Or.inr hw

/-- non-vacuity, the stopped-executor path (the run of `C13.w3`): `AwaitOn(e1, f)`, the callback submits the coroutine, e1 Drops
    it: StopError is published, both locals die with the frame, the frame is destroyed once, no callback is left behind, and
    afterwards only the environment can act -/
example : ∃ s, Reachable C13.w3 s ∧ s.dropped = true ∧ s.frameDestroyed = 1 ∧ s.localDtors = 2 ∧ s.published = [.err] ∧
    (s.word 0).cbs = [] := by
  have h0 : Reachable C13.w3 (init C13.w3) := .init
  have h1 := C13.validator_sound h0 (l := .start) (s' := _) rfl
  have h2 := C13.validator_sound h1 (l := .regLoad 0 .empty) (s' := _) rfl
  have h3 := C13.validator_sound h2 (l := .cas 0 .ok) (s' := _) rfl
  have h4 := C13.validator_sound h3 (l := .pXchg 0) (s' := _) rfl
  have h5 := C13.validator_sound h4 (l := .fire 0 0) (s' := _) rfl
  have h6 := C13.validator_sound h5 (l := .submit 1) (s' := _) rfl
  have h7 := C13.validator_sound h6 (l := .exDrop) (s' := _) rfl
  have h8 := C13.validator_sound h7 (l := .publish .err) (s' := _) rfl
  have h9 := C13.validator_sound h8 (l := .ldtor) (s' := _) rfl
  have h10 := C13.validator_sound h9 (l := .ldtor) (s' := _) rfl
  have h11 := C13.validator_sound h10 (l := .fdtor) (s' := _) rfl
  exact ⟨_, h11, rfl, rfl, rfl, rfl, rfl⟩

end Yaclib.Props.C03.Coro

/-! ## Strand (Model/Strand.lean; `Strand::{Submit, Call, Drop}`)

Objects: the jobs handed to `Strand::Submit` (the strand owns a job from the successful push until it `Call`s it — the job then
releases itself — or `Drop`s it) and the strand's reference to itself (`IncRef` before `_executor->Submit(*this)`, `DecRef`
when `Call` gives the strand back / at the end of `Drop`).  `executed` / `dropped`: jobs in the order they were Called / Dropped;
`word.inbox`, `curRem s` (rest of the batch being Called), `drainRem (s.acts a)` (rest of a batch being Dropped) are the
places from which the strand can still reach a job.  Every behaviour of the underlying executor that honours the IExecutor
contract, i.e. including a stopped one that Drops the strand's activations. -/
namespace Yaclib.Props.C03.Strand
open Yaclib.Strand

variable {w : Workload} {s : State}

/-- (ii) a job handed to the strand is released at most once: Called at most once, Dropped at most once, never both -/
theorem job_released_once_Strand (h : Reachable w s) :
    s.executed.Nodup ∧ s.dropped.Nodup ∧ ∀ j, j ∈ s.executed → j ∉ s.dropped := C07.called_xor_dropped h

/-- (i) a job that was Called or Dropped is out of the strand's reach: it is not in the inbox, not in the rest of the batch being
    Called, not in the rest of any batch being Dropped — no list node of a released job is ever followed again -/
theorem no_job_touched_after_release_Strand (h : Reachable w s) {j : JobId} (hj : j ∈ s.executed ∨ j ∈ s.dropped) :
    j ∉ s.word.inbox ∧ j ∉ curRem s ∧ ∀ a, j ∉ drainRem (s.acts a) := by
  have hi := inv_reachable h
  have hcn : (calls s.taken).Nodup := List.Nodup.sublist (calls_sublist _) hi.ord.fsts_nodup
  rcases hj with hj | hj
  · have ht := executed_taken hi.ord hj
    refine ⟨fun hm => hi.ord.inbox_fresh hm true ht, ?_, fun a hm => hi.ord.taken_excl ht (hi.drop.drain_taken a j hm).1⟩
    rw [hi.ord.exec_eq, List.nodup_append] at hcn
    exact fun hm => hcn.2.2 j hj j hm rfl
  · have ht := hi.drop.drop_taken j hj
    refine ⟨fun hm => hi.ord.inbox_fresh hm false ht, ?_, fun a hm => (hi.drop.drain_taken a j hm).2.1 hj⟩
    intro hm
    have : j ∈ calls s.taken := by rw [hi.ord.exec_eq]; exact List.mem_append_right _ hm
    exact hi.ord.taken_excl (mem_calls.mp this) ht

/-- (i)/(ii) at the step level: the job whose body is entered (`Call`) or that is Dropped has been neither Called nor Dropped before -/
theorem job_called_or_dropped_only_if_unreleased_Strand (h : Reachable w s) {a : Nat} {j : JobId} {s' : State}
    (hs : Step s (.aBegin a j) s' ∨ Step s (.aDrop a j) s') : j ∉ s.executed ∧ j ∉ s.dropped := by
  have hi := inv_reachable h
  have key : (j ∈ curRem s ∨ ∃ a, j ∈ drainRem (s.acts a)) → j ∉ s.executed ∧ j ∉ s.dropped := by
    intro hr
    constructor <;> intro hm
    · have := no_job_touched_after_release_Strand h (Or.inl hm)
      rcases hr with hr | ⟨a, hr⟩
      · exact this.2.1 hr
      · exact this.2.2 a hr
    · have := no_job_touched_after_release_Strand h (Or.inr hm)
      rcases hr with hr | ⟨a, hr⟩
      · exact this.2.1 hr
      · exact this.2.2 a hr
  rcases hs with hs | hs
  · cases hs with
    | aBegin _ _ rem hp =>
        have hh := (hi.tok.tok_act a).mp (by rw [hp]; rfl)
        exact key (Or.inl (by simp [curRem, hh, remOf, hp, callRem]))
  · cases hs with
    | aDrop _ _ rem hp => exact key (Or.inr ⟨a, by simp [hp, drainRem]⟩)

/-- (iii) nothing is forgotten: when no thread of the system can take a step the inbox is empty (idle marker), no activation
    exists that has not returned, and every job of the workload has been Called or Dropped — exactly one of the two, exactly once -/
theorem quiescent_all_jobs_released_Strand (h : Reachable w s) (hq : ∀ l s', ¬ Step s l s') :
    s.word = .mark ∧ (∀ a, s.acts a = .none ∨ s.acts a = .done) ∧
    ∀ i k, k < jobsOf w i →
      ((⟨i, k⟩ : JobId) ∈ s.executed ∨ (⟨i, k⟩ : JobId) ∈ s.dropped) ∧
      s.executed.count ⟨i, k⟩ + s.dropped.count ⟨i, k⟩ = 1 := by
  obtain ⟨_, ha, hw, _, hall⟩ := C07.quiescent_all_done h hq
  obtain ⟨hne, hnd, hx⟩ := C07.called_xor_dropped h
  refine ⟨hw, ha, fun i k hk => ⟨hall i k hk, ?_⟩⟩
  rcases hall i k hk with hm | hm
  · have h1 := List.nodup_iff_count.mp hne ⟨i, k⟩
    have h1' := List.count_pos_iff.mpr hm
    have h2 := List.count_eq_zero_of_not_mem (hx _ hm)
    omega
  · have h1 := List.nodup_iff_count.mp hnd ⟨i, k⟩
    have h1' := List.count_pos_iff.mpr hm
    have h2 : (⟨i, k⟩ : JobId) ∉ s.executed := fun he => hx _ he hm
    have h2 := List.count_eq_zero_of_not_mem h2
    omega

/-- the strand's reference to itself, every state: IncRefs (`Submit` by the submitter that replaced the idle marker) = DecRefs
    (`Call` giving the strand back, end of `Drop`) + 1 if an activation holds the token + the number of activations inside
    `Strand::Drop`.  In particular never more DecRefs than IncRefs (no double release of the strand by itself).
    (`ReachableRef`: the model's runs with the two counters computed from the labels — Proofs/StrandOwn.lean.) -/
theorem self_reference_accounted_Strand {inc dec : Nat} (h : ReachableRef w s inc dec) :
    inc = dec + actTok s.holder + cntD s.acts s.nacts ∧ dec ≤ inc := by
  have := refInv_reachable h
  unfold RefInv at this
  exact ⟨this, by omega⟩

/-- (i) an activation of the strand that was created and has not returned (queued in the underlying executor, inside
    `Strand::Call` or inside `Strand::Drop`) holds a reference: the strand cannot be deleted under it by its own `DecRef` -/
theorem activation_holds_self_reference_Strand {inc dec : Nat} (h : ReachableRef w s inc dec) {a : Nat}
    (ha : holdsTok (s.acts a) = true ∨ isDrain (s.acts a) = true) : dec < inc := by
  have hr := (self_reference_accounted_Strand h).1
  have hi := (inv_reachable h.reachable).tok
  rcases ha with ha | ha
  · have := (hi.tok_act a).mp ha
    rw [this] at hr
    simp only [actTok] at hr
    omega
  · have hlt : a < s.nacts := act_lt hi (by intro hn; rw [hn] at ha; cases ha)
    have := cntD_pos s.acts s.nacts a hlt ha
    omega

/-- (iii) at quiescence IncRef and DecRef are balanced: every reference the strand took on itself has been given back (every
    activation ended by handing its reference to the next one, by `DecRef` in `Call`, or by `DecRef` at the end of `Drop`) -/
theorem self_reference_balanced_at_quiescence_Strand {inc dec : Nat} (h : ReachableRef w s inc dec)
    (hq : ∀ l s', ¬ Step s l s') : inc = dec := by
  have hr := (self_reference_accounted_Strand h).1
  have hi := (inv_reachable h.reachable).tok
  obtain ⟨_, ha⟩ := quiescent_threads hi hq
  obtain ⟨hh, _⟩ := quiescent_idle hi hq
  have hz : cntD s.acts s.nacts = 0 := by
    apply cntD_zero
    intro a _
    rcases ha a with hx | hx <;> rw [hx] <;> rfl
  rw [hh, hz] at hr
  simpa [actTok] using hr

/-- every reachable state is covered by the three theorems above -/
theorem self_reference_counters_exist_Strand (h : Reachable w s) : ∃ inc dec, ReachableRef w s inc dec := reachable_ref h

/-- non-vacuity: a submission lands in the window between the batch runner's last check and its CAS back to idle: the first
    activation hands its reference on (re-submits), the second gives the strand back: one IncRef, one DecRef, two activations -/
example : ∃ s inc dec, ReachableRef [1, 1] s inc dec ∧ (inc, dec, s.nacts, s.executed, s.word) =
    (1, 1, 2, [C07.j00, C07.j10], Word.mark) :=
  runRef_witness (ls := [.sLoad 0 .mark, .sCasOk 0, .sSched 0, .aCall 0, .aBegin 0 C07.j00, .aEnd 0 C07.j00, .aLoad 0 true,
    .sLoad 1 .null, .sCasOk 1, .aCasFail 0, .aResub 0, .aCall 1, .aBegin 1 C07.j10, .aEnd 1 C07.j10, .aLoad 1 true,
    .aCasOk 1]) (fun r => (r.2.1, r.2.2, r.1.nacts, r.1.executed, r.1.word)) _ rfl

/-- non-vacuity: the underlying executor refuses the activation (stopped): both jobs are Dropped once, the DecRef comes with the
    last Drop -/
example : ∃ s inc dec, ReachableRef [2] s inc dec ∧ (inc, dec, s.executed, s.dropped, s.word) =
    (1, 1, [], [C07.j01, C07.j00], Word.mark) :=
  runRef_witness (ls := [.sLoad 0 .mark, .sCasOk 0, .sSched 0, .sLoad 0 (.job C07.j00), .sCasOk 0, .aDropX 0,
    .aDrop 0 C07.j01, .aDrop 0 C07.j00]) (fun r => (r.2.1, r.2.2, r.1.executed, r.1.dropped, r.1.word)) _ rfl

end Yaclib.Props.C03.Strand

/-! ## FairThreadPool (Model/Pool.lean; `FairThreadPool::{Submit, Loop, Stop, SoftStop, HardStop, Wait}`)

Objects: the jobs handed to `Submit`.  The pool owns a job from `Submit` until it releases it in exactly one of three ways:
`Submit` itself Drops it (the pool was already stopped: `rejected`), a worker Calls it (`started`; the job then releases itself),
`HardStop` takes the queue away and Drops it (`hardDropped`).  `queue` is the pool's intrusive list — the only place from which
a worker can still reach a job.  Every number of workers / submitters / jobs, with no stop, Stop, SoftStop or HardStop at any
point. -/
namespace Yaclib.Props.C03.Pool
open Yaclib.Pool

variable {w : Workload} {s : State}

/-- (ii) a job handed to `Submit` is released at most once over all three release points together: Dropped by `Submit`, Called
    by a worker, Dropped by `HardStop` -/
theorem job_released_once_Pool (h : Reachable w s) (j : JobId) :
    s.rejected.count j + s.started.count j + s.hardDropped.count j ≤ 1 := by
  have h1 := C08.accepted_xor_dropped h j
  have h2 := (C08.accepted_called_once_or_hardstopped h j).1
  split at h1 <;> omega

/-- (i) a released job is out of the pool's reach: it is not in the queue, so no worker pops it and `HardStop` does not take it
    (again) -/
theorem no_job_touched_after_release_Pool (h : Reachable w s) {j : JobId}
    (hj : j ∈ s.rejected ∨ j ∈ s.started ∨ j ∈ s.hardDropped) : j ∉ s.queue := by
  have hb := invB_reachable h
  have h1 := C08.accepted_xor_dropped h j
  have h2 := hb.call_count j
  have h3 : s.accepted.count j = s.popped.count j + s.queue.count j + s.stolen.count j := by
    rw [hb.acc_split, List.count_append, List.count_append]
  have h4 := (C08.accepted_called_once_or_hardstopped h j).2
  have h5 := hardDropped_le_stolen h j
  intro hq
  have hq' := List.count_pos_iff.mpr hq
  rcases hj with hj | hj | hj <;> have hp := List.count_pos_iff.mpr hj
  · split at h1 <;> omega
  · omega
  · omega

/-- (i) after `Wait()` returned every worker has left `Loop`, no job body is running and no Call can happen: the pool object may
    be destroyed without any worker touching it or a job afterwards -/
theorem nothing_runs_after_wait_Pool (h : Reachable w s) (hr : s.waitReturned = true) :
    (∀ pc ∈ s.workers, pc = .exited) ∧ s.workers.countP WPc.running = 0 ∧ (∀ i j s', ¬ Step s (.call i j) s') :=
  C08.after_wait_nothing_runs h hr

/-- (iii) nothing is forgotten: when nothing can happen any more (except spurious wake-ups) every job of the workload has been
    released exactly once — Dropped by `Submit`, Called, or Dropped by `HardStop` — and the queue is empty -/
theorem quiescent_all_jobs_released_Pool (h : Reachable w s) (hn : 0 < w.workers) (hq : Quiescent s) {i n k : Nat}
    (hi : w.subs[i]? = some n) (hk : k < n) :
    s.rejected.count ⟨i, k⟩ + s.started.count ⟨i, k⟩ + s.hardDropped.count ⟨i, k⟩ = 1 ∧ s.queue = [] := by
  have h1 := (C08.quiescent_all_submitted h hn hq hi hk).2
  have h2 := C08.accepted_called_once_or_hardstopped h ⟨i, k⟩
  refine ⟨?_, (C08.no_lost_wakeup h hn hq).queue_empty⟩
  by_cases ha : (⟨i, k⟩ : JobId) ∈ s.accepted
  · have h3 := C08.quiescent_all_finished h hn hq ha
    have := List.count_pos_iff.mpr ha
    omega
  · have := List.count_eq_zero_of_not_mem ha
    omega

end Yaclib.Props.C03.Pool

/-! ## Wait / WaitFor / WaitUntil (Model/Wait.lean; `detail::WaitRange`, `WaitCore`, `MultiEvent` + `CallCallback::Impl`,
`SetDeleter`, `MutexEvent`, `BaseCore::{SetCallbackImpl, ResetImpl, SetResultImpl}`)

The wait event is a STACK object of the waiter: nothing is allocated, but pointers to it are stored in the words of the awaited
cores and taken out by the producers.  `alive` is true from the event's construction until the waiter can leave `WaitRange`
(its destruction); the ghost `uaf` is set by any step in which a producer touches the event (`fetch_sub` on its counter,
`lock` / `unlock` inside `Set`) while `alive = false` — stack reuse is modelled literally.  So C03 here reads: the event is
never touched after its release and no pointer to it survives it; each awaited core's Result is consumed at most once.
All numbers of futures, timed and untimed calls, shared and unique futures, timeouts at any point. -/
namespace Yaclib.Props.C03.Wait
open Yaclib.Wait

variable {w : Workload} {s s' : State} {l : Label}

/-- (i) no completion touches the waiter's stack event (`MultiEvent` / `MutexEvent`) after `WaitRange` returned -/
theorem stack_event_not_touched_after_return_Wait (h : Reachable w s) : s.uaf = false := C11.event_untouched_after_return h

/-- (i) the same at the step level: a producer's decrement of the event counter and its `lock` / `unlock` inside
    `MutexEvent::Set` happen while the event exists -/
theorem event_touched_only_while_alive_Wait (h : Reachable w s) (hs : Step s l s')
    (hl : (∃ i old, l = .pSub i old) ∨ (∃ i, l = .lock (.p i)) ∨ (∃ i, l = .unlock (.p i))) : s.alive = true :=
  C11.touch_only_alive h hs hl

/-- (i) no dangling pointer: when no event exists (before, between and after the wait calls) no word of an awaited core holds an
    event pointer and no producer holds one it took out of a word -/
theorem no_dangling_event_pointer_Wait (h : Reachable w s) (ha : s.alive = false) (i : Nat) :
    (s.fut i).word ≠ .ev ∧ (s.fut i).ppc ≠ .took ∧ (s.fut i).ppc ≠ .setting ∧ (s.fut i).ppc ≠ .locked :=
  C11.words_restored h ha i

/-- (ii) `MutexEvent::Set` runs at most once per event (`SetDeleter::Delete` = the "release" of the counted event) -/
theorem event_set_at_most_once_Wait (h : Reachable w s) (ha : s.alive = true) : s.evSet ≤ 1 := C11.set_at_most_once h ha

/-- (ii) the Result of an awaited core is consumed (continuation invoked / `Get() &&` returned — the step that releases the unique
    core) at most once, also after any number of timed-out and repeated waits on it -/
theorem awaited_result_consumed_once_Wait (h : Reachable w s) (i : Nat) : (s.fut i).ndel ≤ 1 := C11.later_delivery_once h i

/-- (iii) quiescence: when nothing but a spurious wake-up is possible no event exists, no word and no producer holds a pointer
    to one, the event was never touched after a return, and every future that the workload consumes was consumed exactly once -/
theorem quiescent_no_event_left_Wait (h : Reachable w s) (hwf : w.wf) (hq : ∀ l s', Step s l s' → Spur s l) :
    s.alive = false ∧ s.uaf = false ∧
    (∀ i, (s.fut i).word ≠ .ev ∧ (s.fut i).ppc ≠ .took ∧ (s.fut i).ppc ≠ .setting ∧ (s.fut i).ppc ≠ .locked) ∧
    (∀ i, i < s.w.n → s.w.fin i ≠ .none → (s.fut i).ndel = 1) := by
  have hd := C11.quiescent_complete h hwf hq
  have hi := inv_reachable h
  have ha : s.alive = false := by
    cases hal : s.alive with
    | false => rfl
    | true => have := hi.alive_iff.mp hal; rw [hd.wpc] at this; cases this
  exact ⟨ha, hi.uaf, fun i => C11.words_restored h ha i, hd.del⟩

end Yaclib.Props.C03.Wait

/-! ## WaitGroup / OneShotEvent (Model/Event.lean; `OneShotEvent::{TryAdd, Wait, TimedWait, Set}` + `SetImpl`, `Waiter::Call`,
`TimedWaiter::Call`, `WaitGroup::{Add, Done, InsertRange, Wait, WaitFor}`, `CallCallback::Impl`, `DropCallback::Impl`)

Objects: the waiter jobs registered in the event's list — a blocking waiter is a stack object, a TIMED waiter is a heap object
with two owners (the thread inside `WaitFor` and the event's list; `refs`, `nfree` = executions of its delete, `freed`); the ghost
`bad` is set by any access to a waiter object that is gone — and the cores of futures handed over with `Consume` (`ncon`:
consumes decided, `nfree`: releases by the WaitGroup machinery, word `drop` = `DropCallback` installed, release pending).
Hypothesis `w.ok`: the documented rule "Add only while the count is non-zero". -/
namespace Yaclib.Props.C03.Event
open Yaclib.Event

variable {w : Workload} {s s' : State} {l : Label}

/-- (i)/(ii) the heap waiter of a timed wait is freed at most once — by whichever of its two owners lets go last (`refs` = owners
    that have not let go) — and nobody ever touches a waiter object (heap or stack) that is gone -/
theorem timed_waiter_freed_once_Event (hok : w.ok) (h : Reachable w s) (j : Nat) (hk : (s.job j).kind = .timed) :
    (s.job j).nfree ≤ 1 ∧ ((s.job j).freed = true ↔ (s.job j).nfree = 1) ∧ s.bad = false ∧
    ((s.job j).st ≠ .failed →
      (s.job j).refs = (if (s.job j).oref then 1 else 0) + (if (s.job j).st.inList then 1 else 0) ∧
      ((s.job j).freed = true ↔ (s.job j).refs = 0)) := C16.timed_waiter_freed_once hok h j hk

/-- (i) no waiter object is accessed after it was freed / left scope, in any reachable state -/
theorem waiter_not_touched_after_free_Event (hok : w.ok) (h : Reachable w s) : s.bad = false :=
  (invJ_reachable hok h).bad

/-- (ii) the core of a consumed future is released by the WaitGroup exactly as often as it was consumed minus the release that is
    still pending in its `DropCallback`: never more releases than consumes; attached futures are never released -/
theorem consumed_future_released_once_Event (h : Reachable w s) (f : Nat) :
    (s.fut f).nfree + (if (s.fut f).word = .drop then 1 else 0) = (s.fut f).ncon := C16.consumed_released_once h f

/-- (ii) every waiter is released (resumed / woken) at most once -/
theorem waiter_released_once_Event (hok : w.ok) (h : Reachable w s) (j : Nat) : (s.job j).nrel ≤ 1 := C16.released_once hok h j

/-- (iii) once the count has reached zero no release of a consumed core is pending any more: every consumed future's core has
    been released exactly as often as it was consumed -/
theorem zero_all_consumed_released_Event (hok : w.ok) (h : Reachable w s) (hz : s.zeroed = true) (f : Nat) :
    (s.fut f).nfree = (s.fut f).ncon := by
  have h1 := C16.consumed_released_once h f
  have ht := invT_reachable hok h
  have htoks := (C16.zero_is_final hok h hz).2.1
  have hnd : (s.fut f).word ≠ .drop := by
    intro hd
    have := ht.t_tok f (Or.inr hd)
    rw [htoks] at this; cases this
  simpa [hnd] using h1

/-- (iii) quiescence after zero: every thread finished, every waiter was released exactly once, every heap waiter of a timed wait
    was freed exactly once (also when the wait timed out or arrived late), every consumed core was released -/
theorem quiescent_all_released_Event (hok : w.ok) (h : Reachable w s) (hq : ∀ l s', Step s l s' → Spur s l)
    (hz : s.zeroed = true) :
    (∀ j, j < s.njobs → ((s.job j).kind = .timed → (s.job j).freed = true ∧ (s.job j).nfree = 1) ∧
      ((s.job j).kind ≠ .timed → (s.job j).nrel = 1)) ∧
    (∀ f, (s.fut f).nfree = (s.fut f).ncon) ∧ s.bad = false := by
  have hd := (C16.quiescent_complete hok h hq hz).2
  refine ⟨fun j hj => ⟨fun hk => ?_, fun hk => ?_⟩, zero_all_consumed_released_Event hok h hz,
    waiter_not_touched_after_free_Event hok h⟩
  · rcases (hd j hj).timed hk with h1 | h1
    · exact ⟨h1.1, h1.2.1⟩
    · exact ⟨h1.2.1, h1.2.2⟩
  · cases hkk : (s.job j).kind with
    | timed => exact absurd hkk hk
    | blocking => exact (hd j hj).blocking hkk
    | coro => exact (hd j hj).coro hkk

end Yaclib.Props.C03.Event

/-! ## coroutine Mutex (Model/CoMutex.lean; `detail::MutexImpl::{TryLockAwait, AwaitLock, TryUnlockAwait, UnlockHereAwait,
AwaitUnlock, AwaitUnlockOn, GetHead}`, the Lock / Unlock / Guard awaiters)

Nothing is allocated: the waiter node of a lock request is the awaiter object inside the FRAME of the requesting coroutine,
linked into the atomic stack `_sender` (`senderList s`) or the holder's list `_receiver`.  C03 here reads: a node is linked in at
most one list, at most once, and only while its coroutine is parked — i.e. suspended with the frame alive and executing nothing —
so no list ever points into a frame that runs, has left the `co_await`, or has finished; at quiescence no list links any node.
Any number of coroutines and rounds, every acquire / release form, Batching and FIFO on or off. -/
namespace Yaclib.Props.C03.CoMutex
open Yaclib.CoMutex

variable {cfg : Cfg} {s : State}

/-- (ii) a waiter node (the `LockAwaiter` in the coroutine frame) is linked at most once and in at most one of `_sender` /
    `_receiver` -/
theorem waiter_node_linked_once_CoMutex (h : Reachable cfg s) : (senderList s ++ s.receiver).Nodup := C14.waiters_nodup h

/-- (i) no dangling waiter: a linked node belongs to a coroutine that is parked — suspended inside its `co_await`, its frame alive
    — and a parked coroutine executes no step at all until the releaser's `grant` unlinks it -/
theorem no_dangling_waiter_CoMutex (h : Reachable cfg s) {c : Cid} (hl : c ∈ senderList s ∨ c ∈ s.receiver) :
    s.pc c = .parked ∧ ∀ l s', Step s l s' → l.agent ≠ .co c ∧ (s'.pc c = .parked ∨ (∃ a inl, l = .grant a c inl) ∧ s'.pc c = .acq) :=
  have hp := (C14.parked_iff_linked h c).mpr hl
  ⟨hp, fun _ _ hs => ⟨C14.waiting_holds_no_thread h hp hs, C14.parked_until_granted h hp hs⟩⟩

/-- (i) a coroutine that runs (owns the mutex, is inside its critical section, is trying to lock, is between rounds or has finished)
    is in no list: nothing points into its frame -/
theorem running_coroutine_not_linked_CoMutex (h : Reachable cfg s) {c : Cid} (hp : s.pc c ≠ .parked) :
    c ∉ senderList s ∧ c ∉ s.receiver :=
  ⟨fun hm => hp ((C14.parked_iff_linked h c).mpr (Or.inl hm)), fun hm => hp ((C14.parked_iff_linked h c).mpr (Or.inr hm))⟩

/-- (ii)/(iii) every successful push of a waiter node is matched by exactly one grant (= unlink + resume), except the one for
    which the coroutine is still parked: no node is dropped from a list without being resumed, none is resumed twice -/
theorem waiter_unlinked_exactly_once_CoMutex (h : Reachable cfg s) (c : Cid) :
    s.arrivals.count c = s.granted.count c + (if s.pc c = .parked then 1 else 0) ∧
    s.arrivals.count c = s.granted.count c + (senderList s).count c + s.receiver.count c :=
  ⟨C14.grant_once h c, C14.conservation h c⟩

/-- (iii) at quiescence no list links any node: `_sender` is `kNotLocked`, `_receiver` is empty, every coroutine has finished all
    its rounds and every node that was ever linked was unlinked by exactly one grant -/
theorem quiescent_no_waiter_linked_CoMutex (h : Reachable cfg s) (hq : ∀ l s', ¬ Step s l s') :
    senderList s = [] ∧ s.receiver = [] ∧ s.own = .free ∧
    ∀ c, s.pc c = .idle ∧ s.todo c = [] ∧ s.arrivals.count c = s.granted.count c := by
  obtain ⟨hw, hr, ho, hc⟩ := C14.quiescent_none_parked h hq
  exact ⟨by simp [senderList, hw, Word.list], hr, ho, fun c => ⟨(hc c).1, (hc c).2.1, (hc c).2.2.2⟩⟩

end Yaclib.Props.C03.CoMutex

/-! ## coroutine SharedMutex (Model/CoSharedMutex.lean; `SharedMutexImpl::{TryLockSharedAwait, AwaitLockShared, UnlockHereShared,
TryLockAwait, AwaitLock, UnlockHere, SlowUnlock, RunWriter, RunReaders}`)

As for the Mutex the waiter nodes live in the coroutine frames.  A node can be in: the readers queue `_readers` (`Q`), the writers
queue `_writers` (`WQ`), the local list `readers` of `RunReaders` (`torun`: popped, not yet submitted), or be the pending first
writer `_writers_first` (`pw`).  Every <FIFO, ReadersFIFO>, any number of coroutines and rounds, all lock / try-lock / unlock forms. -/
namespace Yaclib.Props.C03.CoSharedMutex
open Yaclib.CoSharedMutex

variable {cfg : Cfg} {s : State}

/-- (ii) a waiter node is linked at most once and in at most one of the lists `_readers`, `_writers`, `readers` (RunReaders); and
    the pending first writer is in none of them -/
theorem waiter_node_linked_once_CoSharedMutex (h : Reachable cfg s) (c : Cid) :
    s.Q.count c + s.WQ.count c + s.torun.count c ≤ 1 ∧
    (s.pw.who = some c → s.Q.count c + s.WQ.count c + s.torun.count c = 0) := by
  have hi := inv_reachable h
  have h1 := hi.l_q c
  have h2 := hi.l_wq c
  have h3 := hi.l_torun c
  constructor
  · split at h1 <;> split at h2 <;> split at h3 <;> simp_all
  · intro hw
    have hpc : s.pc c ≠ .rparked ∧ s.pc c ≠ .wparkedQ ∧ s.pc c ≠ .rgranted := by
      cases hpw : s.pw with
      | none => rw [hpw] at hw; cases hw
      | a n r =>
          rw [hpw] at hw; cases hw
          have := hi.pw_a c r hpw; rw [this]; simp
      | b n =>
          rw [hpw] at hw; cases hw
          have := hi.pw_b c hpw; rw [this]; simp
      | c n b =>
          rw [hpw] at hw; cases hw
          have := (hi.pw_c c b hpw).1; rw [this]; simp
    simp [hpc.1, hpc.2.1, hpc.2.2] at h1 h2 h3
    omega

/-- (i) no dangling waiter: a node that is queued, popped by `RunReaders` or published as `_writers_first` (debt posted) belongs to
    a parked coroutine — suspended, frame alive — which executes no step -/
theorem no_dangling_waiter_CoSharedMutex (h : Reachable cfg s) {c : Cid}
    (hl : c ∈ s.Q ∨ c ∈ s.WQ ∨ c ∈ s.torun ∨ s.pw = .b c ∨ ∃ x, s.pw = .c c x) :
    (s.pc c).isParked = true ∧ ∀ l s', Step s l s' → l.agent ≠ .co c := by
  have hi := inv_reachable h
  have hp : (s.pc c).isParked = true := by
    rcases hl with hl | hl | hl | hl | ⟨x, hl⟩
    · have h1 := hi.l_q c
      have := List.count_pos_iff.mpr hl
      split at h1
      · rename_i hpc; rw [hpc]; rfl
      · omega
    · have h1 := hi.l_wq c
      have := List.count_pos_iff.mpr hl
      split at h1
      · rename_i hpc; rw [hpc]; rfl
      · omega
    · have h1 := hi.l_torun c
      have := List.count_pos_iff.mpr hl
      split at h1
      · rename_i hpc; rw [hpc]; rfl
      · omega
    · rw [hi.pw_b c hl]; rfl
    · rw [(hi.pw_c c x hl).1]; rfl
  exact ⟨hp, fun _ _ hs => C15.waiting_holds_no_thread h hp hs⟩

/-- (i) a coroutine that is not parked (running, inside a section, between rounds, finished) is in no list -/
theorem running_coroutine_not_linked_CoSharedMutex (h : Reachable cfg s) {c : Cid} (hp : (s.pc c).isParked = false) :
    c ∉ s.Q ∧ c ∉ s.WQ ∧ c ∉ s.torun := by
  refine ⟨fun hm => ?_, fun hm => ?_, fun hm => ?_⟩
  · have := (no_dangling_waiter_CoSharedMutex h (Or.inl hm)).1; rw [hp] at this; cases this
  · have := (no_dangling_waiter_CoSharedMutex h (Or.inr (Or.inl hm))).1; rw [hp] at this; cases this
  · have := (no_dangling_waiter_CoSharedMutex h (Or.inr (Or.inr (Or.inl hm)))).1; rw [hp] at this; cases this

/-- (ii)/(iii) every park of a coroutine is matched by exactly one `Run` of it (= unlink + resume), except the one it is parked for -/
theorem waiter_unlinked_exactly_once_CoSharedMutex (h : Reachable cfg s) (c : Cid) :
    s.parks c = s.grants c + (if (s.pc c).isParked then 1 else 0) := C15.grant_once h c

/-- (iii) at quiescence no list links any node and no first writer is pending; every coroutine has finished, every park was
    matched by one `Run` -/
theorem quiescent_no_waiter_linked_CoSharedMutex (h : Reachable cfg s) (hq : ∀ l s', ¬ Step s l s') :
    s.Q = [] ∧ s.WQ = [] ∧ s.torun = [] ∧ s.pw = .none ∧ ∀ c, s.pc c = .idle ∧ s.todo c = [] ∧ s.parks c = s.grants c := by
  obtain ⟨hW, _, _, _, hQ, hWQ, _, hc⟩ := C15.quiescent_none_parked h hq
  have hi := inv_reachable h
  have ht : s.torun = [] := by
    apply List.eq_nil_iff_forall_not_mem.mpr
    intro c hm
    have h1 := hi.l_torun c
    have := List.count_pos_iff.mpr hm
    rw [(hc c).1] at h1
    simp at h1
    omega
  exact ⟨List.eq_nil_of_length_eq_zero hQ, List.eq_nil_of_length_eq_zero hWQ, ht, (C15.j1_no_writer h hW).2.2.2.2.1,
    fun c => ⟨(hc c).1, (hc c).2.1, (hc c).2.2.2⟩⟩

end Yaclib.Props.C03.CoSharedMutex
