/-
C19 — yaclib_std::atomic computes exactly what std::atomic computes.
Property theorems only (helper lemmas would go to Proofs/).  All statements are parametric in the
carrier (`Ops α δ`), hence hold for every integer width, for pointers and for floating point, and by
`run_eq_spec` for operation sequences of every length.
-/
import YaclibModel.Model.Atomic

namespace Yaclib.Props.C19
open Yaclib Yaclib.Atomic

variable {α δ : Type} [Ops α δ] [DecidableEq α]

/-- every operation of the FIBER backend stores and returns what std::atomic stores and returns -/
theorem fiber_eq_spec_step (v : α) (op : Op α δ) : Fiber.step v op = Spec.step v op := by
  cases op with
  | casStrong e d =>
      by_cases h : v = e <;>
        simp [Fiber.step, Spec.step, Extracted.FiberAtomic.AtomicBase.compare_exchange_strong_2ord,
          Extracted.FiberAtomic.AtomicBase.CompareExchangeHelper, h]
  | casWeak e d s =>
      cases s <;> by_cases h : v = e <;>
        simp [Fiber.step, Spec.step, Extracted.FiberAtomic.AtomicBase.compare_exchange_weak_2ord,
          Extracted.FiberAtomic.AtomicBase.CompareExchangeHelper, Extracted.FiberAtomic.AtomicBase.load, h]
  | _ =>
      simp [Fiber.step, Spec.step, Extracted.FiberAtomic.AtomicBase.store,
        Extracted.FiberAtomic.AtomicBase.load, Extracted.FiberAtomic.AtomicBase.exchange,
        Extracted.FiberAtomic.AtomicFloatingBase.fetch_add, Extracted.FiberAtomic.AtomicFloatingBase.fetch_sub,
        Extracted.FiberAtomic.AtomicFloatingBase.add_assign, Extracted.FiberAtomic.AtomicFloatingBase.sub_assign,
        Extracted.FiberAtomic.AtomicIntegralBase.fetch_and, Extracted.FiberAtomic.AtomicIntegralBase.fetch_or,
        Extracted.FiberAtomic.AtomicIntegralBase.fetch_xor, Extracted.FiberAtomic.AtomicIntegralBase.pre_inc,
        Extracted.FiberAtomic.AtomicIntegralBase.post_inc, Extracted.FiberAtomic.AtomicIntegralBase.pre_dec,
        Extracted.FiberAtomic.AtomicIntegralBase.post_dec, Extracted.FiberAtomic.AtomicIntegralBase.and_assign,
        Extracted.FiberAtomic.AtomicIntegralBase.or_assign, Extracted.FiberAtomic.AtomicIntegralBase.xor_assign]

/-- the pointer specialisation likewise -/
theorem fiberptr_eq_spec_step (v : α) (op : Op α δ) : FiberPtr.step v op = Spec.step v op := by
  cases op with
  | fetchAdd a => simp [FiberPtr.step, Spec.step, Extracted.FiberAtomic.AtomicPtr.fetch_add]
  | fetchSub a => simp [FiberPtr.step, Spec.step, Extracted.FiberAtomic.AtomicPtr.fetch_sub]
  | preInc => simp [FiberPtr.step, Spec.step, Extracted.FiberAtomic.AtomicPtr.pre_inc]
  | postInc => simp [FiberPtr.step, Spec.step, Extracted.FiberAtomic.AtomicPtr.post_inc]
  | preDec => simp [FiberPtr.step, Spec.step, Extracted.FiberAtomic.AtomicPtr.pre_dec]
  | postDec => simp [FiberPtr.step, Spec.step, Extracted.FiberAtomic.AtomicPtr.post_dec]
  | addAssign a => simp [FiberPtr.step, Spec.step, Extracted.FiberAtomic.AtomicPtr.add_assign]
  | subAssign a => simp [FiberPtr.step, Spec.step, Extracted.FiberAtomic.AtomicPtr.sub_assign]
  | fetchAnd a => rfl
  | fetchOr a => rfl
  | fetchXor a => rfl
  | andAssign a => rfl
  | orAssign a => rfl
  | xorAssign a => rfl
  | store d => simp only [FiberPtr.step]; exact fiber_eq_spec_step v _
  | load => simp only [FiberPtr.step]; exact fiber_eq_spec_step v _
  | exchange d => simp only [FiberPtr.step]; exact fiber_eq_spec_step v _
  | casStrong e d => simp only [FiberPtr.step]; exact fiber_eq_spec_step v _
  | casWeak e d s => simp only [FiberPtr.step]; exact fiber_eq_spec_step v _

/-- … hence every operation sequence, of any length, from any initial value -/
theorem run_eq_spec (ops : List (Op α δ)) (v : α) : run Fiber.step v ops = run Spec.step v ops := by
  induction ops generalizing v with
  | nil => rfl
  | cons op ops ih => simp [run, fiber_eq_spec_step, ih]

theorem run_ptr_eq_spec (ops : List (Op α δ)) (v : α) : run FiberPtr.step v ops = run Spec.step v ops := by
  induction ops generalizing v with
  | nil => rfl
  | cons op ops ih => simp [run, fiberptr_eq_spec_step, ih]

/-- an injected spurious failure follows the std contract: false, `expected` := current value, no change -/
theorem weak_spurious_contract (v e d : α) :
    Fiber.step (δ := δ) v (.casWeak e d true) = (v, .cas false v) := by
  simp [Fiber.step, Extracted.FiberAtomic.AtomicBase.load]

/-- compare_exchange_strong never fails spuriously: it fails only if the value differs from `expected` -/
theorem strong_never_spurious (v e d x : α) (v' : α)
    (h : Fiber.step (δ := δ) v (.casStrong e d) = (v', .cas false x)) : v ≠ e ∧ v' = v ∧ x = v := by
  rw [fiber_eq_spec_step] at h
  simp only [Spec.step] at h
  by_cases hve : v = e
  · simp [hve] at h
  · simp [hve] at h
    exact ⟨hve, h.1.symm, h.2.symm⟩

/-- … and succeeds exactly when it equals `expected`, storing `desired` -/
theorem strong_succeeds_iff (v e d : α) :
    (Fiber.step (δ := δ) v (.casStrong e d)).2 = .cas true e ↔ v = e := by
  rw [fiber_eq_spec_step]; simp only [Spec.step]; split <;> simp_all

theorem flag_eq_spec (v : Bool) (op : FlagOp) : Fiber.flagStep v op = Spec.flagStep v op := by
  cases op <;> simp [Fiber.flagStep, Spec.flagStep, Extracted.FiberAtomic.Flag.AtomicFlag.clear,
    Extracted.FiberAtomic.Flag.AtomicFlag.test_and_set]

/-- every method of the wrapper (`yaclib::detail::Atomic`, `AtomicFlag`; both backends use it)
    forwards to the same-named operation with the same arguments and returns its result -/
theorem wrapper_forwards : Extracted.FiberAtomic.wrapper.all wellForwarded = true := by decide +kernel

/-- the wrapper is not vacuous: it covers the members the property lists -/
theorem wrapper_covers :
    ["store", "load", "exchange", "compare_exchange_weak", "compare_exchange_strong", "fetch_add", "fetch_sub",
     "fetch_and", "fetch_or", "fetch_xor", "operator++", "operator--", "operator+=", "operator-=", "operator&=",
     "operator|=", "operator^=", "clear", "test_and_set"].all
      (fun m => Extracted.FiberAtomic.wrapper.any (fun e => e.2.1 == m)) = true := by decide +kernel

/-- volatile and one-order overloads have the same translated body as the first overload -/
theorem overloads_agree : Extracted.FiberAtomic.overloadDiffs = [] := by decide
theorem primary_templates_empty : Extracted.FiberAtomic.primaryExtra = [] := by decide

/-- fences are value-wise no-ops in the FIBER backend -/
theorem fences_noop : Extracted.FiberAtomic.fences =
    [("atomic_thread_fence", "atomic_thread_fence(_) {  }"), ("atomic_signal_fence", "atomic_signal_fence(_) {  }")] := by
  decide

/-! non-vacuity: concrete sequences at concrete carriers -/
example : run (α := BitVec 8) Fiber.step 12#8 [.fetchAnd 10#8, .load, .preInc, .postDec, .casWeak 8#8 1#8 true] =
    (8#8, [.val 12#8, .val 8#8, .val 9#8, .val 9#8, .cas false 8#8]) := by decide
example : run (α := Int) FiberPtr.step 100 [.fetchAdd 3, .preDec, .subAssign 2] =
    (100, [.val 100, .val 102, .val 100]) := by decide

end Yaclib.Props.C19
