/-
C12 — a Task does nothing until started, then behaves like the same eager pipeline.

Lazy layer of the pipeline model (Model/Pipeline.lean): an unstarted Task is program text (`Ctl.task src steps`: the
backward chain through `next`); `start` = detail::Start (walk to the head, Submit the head to its executor, or to the one
ToFuture(e)/Detach(e) names); cancel (`~Task`) = start on the stopped inline executor; a Task returned from a continuation
is entered through `Here` of its head (`enterHere`).  Heads: ReadyCore (MakeTask), Run-type Core (Schedule), PromiseCore
(LazyContract).

Was false for head kinds Schedule()/LazyContract() when the Task is started by being returned from a continuation
(defect D10, exhibited by this machinery, fixed in /repo by 4f7ebfc — see the comment near the end): since the fix such a
head starts itself (Submit to its executor) and the theorems are unconditional.
-/
import YaclibModel.Proofs.PipelineLazy
import YaclibModel.Proofs.PipelineAcct5
import YaclibModel.Props.C02

namespace Yaclib.Props.C12
open Yaclib Yaclib.Pipeline Yaclib.Extracted

variable (cfg : Cfg) (evs : List Event) (p : Prog)

/-- **nothing_before_start**: as long as the client holds a Task it has not started — whatever else it does: attaching
    steps, fulfilling promises, draining executors — no functor has been invoked, nothing has been submitted, no job
    finished, nothing released.  For every program (D10 or not), every executor configuration, every event order. -/
theorem nothing_before_start (hc : client evs = some (p, .task)) :
    (run cfg {} evs).g.invoked = [] ∧ (run cfg {} evs).g.ran = [] ∧ (run cfg {} evs).g.subs = [] ∧
    (run cfg {} evs).g.jobs = [] ∧ (run cfg {} evs).g.submitCalls = 0 ∧ (run cfg {} evs).g.cFree = 0 ∧
    (run cfg {} evs).g.fFree = 0 ∧ (run cfg {} evs).result = none ∧ (run cfg {} evs).crashed = false := by
  obtain ⟨_, h1, h2, h3, h4, h5, h6, h7, h8, h9, _⟩ := untouched_run cfg evs p hc
  exact ⟨h2, h3, h4, h5, h6, h7, h8, h9, h1⟩

/-- **lazy_eq_eager**: a started lazy pipeline ends with the Result (and the invocation list, and the Submits) of the same
    pipeline written eagerly: the sequential reading of a lazy program is that of its eager twin, and the mechanism
    computes the sequential reading for both (C02).  `evs` is any history of the lazy program, `evs'` any history of the
    twin. -/
theorem lazy_eq_eager (evs' : List Event) (h h' : Handle) (hl : p.lazy = true)
    (hready : p.src.isReady = true → p.start.bind StartKind.ovr = none)
    (hc : client evs = some (p, h)) (hc' : client evs' = some (p.twin, h'))
   
    (r r' : R) (inh inh' : Exec)
    (h1 : (run cfg {} evs).ctl = .future r inh) (h2 : (run cfg {} evs').ctl = .future r' inh') :
    r = r' ∧ (run cfg {} evs).g.invoked = (run cfg {} evs').g.invoked ∧ (run cfg {} evs).g.subs = (run cfg {} evs').g.subs := by
  have a := (C02.mech_terminal_eq_spec cfg evs p h hc).1 r inh h1
  have b := (C02.mech_terminal_eq_spec cfg evs' p.twin h' hc').1 r' inh' h2
  rw [spec_lazy_eq_twin cfg p hl hready] at a
  exact ⟨a.1.trans b.1.symm, a.2.1.trans b.2.1.symm, a.2.2.trans b.2.2.symm⟩

/-- the sequential reading of a lazy program IS the one of its eager twin -/
theorem spec_lazy_eq_eager (hl : p.lazy = true) (hready : p.src.isReady = true → p.start.bind StartKind.ovr = none) :
    spec cfg p = spec cfg p.twin := spec_lazy_eq_twin cfg p hl hready

/-- **each_step_at_most_once**, in pipeline order, in every reachable state -/
theorem each_step_at_most_once (h : Handle) (hc : client evs = some (p, h))
    (hids : p.ids.Nodup) : (run cfg {} evs).g.invoked.Nodup ∧ (run cfg {} evs).g.invoked.Sublist p.ids :=
  ⟨C02.invoked_nodup cfg evs p h hc hids, C02.invoked_order cfg evs p h hc⟩

/- Full clause of the property (drop_unstarted_no_value_callback): "destroying a Task that was never started invokes no value
   callback".  As stated it does NOT hold for the code: see `drop_unstarted_value_callback_after_recovery_witness` below (open
   known finding K1 of known_findings.json).  The part that holds: -/
/-- **drop_unstarted_no_value_callback_before_recovery**: destroying a Task that was never started feeds StopError to the
    head (ReadyCore / PromiseCore: their Drop stores StopError; Run-type head: Core::Drop ⇒ CallImpl(StopTag)); as long as no
    callback taking Result / the error type intervenes — here: along a chain of value callbacks — none is invoked and the
    StopError is delivered to the end. -/
theorem drop_unstarted_no_value_callback_before_recovery (hl : p.lazy = true) (hs : p.start = some .cancel)
    (hv : allValue p.steps = true) (hsrc : p.src.isReady = true ∨ p.src = .unit ∨ ∃ e q f, p.src = .promiseFn e q f)
    (hne : p.src = .unit → p.steps ≠ []) :
    (spec cfg p).invoked = [] ∧ ∃ c, (spec cfg p).r = .err c := by
  obtain ⟨src, lazy, steps, start⟩ := p
  simp only at hl hs hv hsrc hne
  subst hl hs
  cases hsrc with
  | inl h =>
    cases src with
    | ready r0 =>
      have hu : (Src.ready r0 == Src.unit) = false := rfl
      simp only [spec, ite_true, Option.bind_some, StartKind.ovr, specSrc, Option.getD_some, offered, hu,
        Bool.false_eq_true, ite_false, overrideHead]
      exact specSteps_allValue_err cfg steps 0 _ _ _ hv
    | contract q f => simp [Src.isReady] at h
    | contractOn e q f => simp [Src.isReady] at h
    | unit => simp [Src.isReady] at h
    | promiseFn e q f => simp [Src.isReady] at h
    | sharedReady r0 => simp [Src.isReady] at h
    | sharedContract q f => simp [Src.isReady] at h
    | sharedKept e q f pre => simp [Src.isReady] at h
  | inr h =>
    cases h with
    | inl h =>
      subst h
      have hu : (Src.unit == Src.unit) = true := rfl
      simp only [spec, ite_true, Option.bind_some, StartKind.ovr, specSrc, hu]
      cases steps with
      | nil => exact (hne rfl rfl).elim
      | cons a as =>
        cases a with
        | mk i sg m b =>
          simp only [allValue, Step.sig, Bool.and_eq_true, beq_iff_eq] at hv
          obtain ⟨hsg, has⟩ := hv
          subst hsg
          simp only [overrideHead]
          exact specSteps_cancel_head cfg i b as _ _ _ has
    | inr h =>
      obtain ⟨e, q, f, h⟩ := h
      subst h
      have hu : (Src.promiseFn e q f == Src.unit) = false := rfl
      simp only [spec, ite_true, Option.bind_some, StartKind.ovr, specSrc, Option.getD_some, offered, hu,
        Bool.false_eq_true, ite_false, overrideHead]
      exact specSteps_allValue_err cfg steps 0 _ _ _ hv

/-- … and the mechanism does exactly that, for every history that drops the unstarted Task and lets the executors finish -/
theorem drop_unstarted_mech (h : Handle) (hc : client evs = some (p, h))
    (hl : p.lazy = true) (hs : p.start = some .cancel) (hv : allValue p.steps = true)
    (hsrc : p.src.isReady = true ∨ p.src = .unit ∨ ∃ e q f, p.src = .promiseFn e q f)
    (hne : p.src = .unit → p.steps ≠ []) :
    (run cfg {} evs).g.invoked = [] ∧
    ((run cfg {} evs).ctl = .gone → ∃ c, (run cfg {} evs).result = some (.err c)) := by
  obtain ⟨h1, c, h2⟩ := drop_unstarted_no_value_callback_before_recovery cfg p hl hs hv hsrc hne
  constructor
  · obtain ⟨x, hx⟩ := C02.invoked_prefix_spec cfg evs p h hc
    cases hx with
    | inl hx => rw [h1] at hx; exact (List.append_eq_nil_iff.1 hx.symm).1
    | inr hx => exact hx.1
  · intro hg
    have := ((C02.mech_terminal_eq_spec cfg evs p h hc).2 hg).1
    exact ⟨c, by rw [this, h2]⟩

/-- **drop_unstarted_frees_all** / **drop_completed_frees_result**: once the Task / Future has been given up and the
    pipeline has come to rest (`gone`), every core and every captured functor has been released, exactly once; while a
    completed Future is held exactly its one core (the result) is alive and no functor.  Any pipeline shape, any drop
    point, any stop point. -/
theorem drop_frees_all (h : Handle) (hc : client evs = some (p, h)) (hw : wfProg p = true) :
    ((run cfg {} evs).ctl = .gone →
      (run cfg {} evs).g.cAlloc = (run cfg {} evs).g.cFree ∧ (run cfg {} evs).g.fAlloc = (run cfg {} evs).g.fFree) ∧
    (∀ r inh, (run cfg {} evs).ctl = .future r inh →
      (run cfg {} evs).g.cAlloc = (run cfg {} evs).g.cFree + 1 ∧ (run cfg {} evs).g.fAlloc = (run cfg {} evs).g.fFree) := by
  have hcr := run_not_crashed cfg evs
  have hi := ainv_run cfg evs
  rw [hc] at hi
  cases hi hw with
  | inl hcr' => rw [hcr] at hcr'; cases hcr'
  | inr hi =>
    constructor
    · intro hg
      rw [hg] at hi
      simpa [Bal, cnt] using hi.2
    · intro r inh hf
      rw [hf] at hi
      simpa [Bal, cnt] using hi.2.2

/-- ✗ (open known finding K1) The clause "destroying an unstarted Task invokes no value callback" does NOT hold for chains
    that contain a callback taking Result (or the error type): it is invoked with the StopError, and if it returns a value
    the value callbacks behind it run (C02 routing).  MakeTask(1).ThenInline([](Result<int>) { return 5; }).ThenInline(
    [](int x) { return x + 1; }), destroyed unstarted: both callbacks run, 6 is computed (and dropped).  The implementation
    does the same (corpus/pipe/cancel_recovery.txt).  Recorded, not repaired: a repair would contradict C02's routing. -/
theorem drop_unstarted_value_callback_after_recovery_witness :
    (run (fun _ => ⟨true, none⟩) {} [.src (.ready (.val 1)) true none, .attach (.mk 1 .res .inline (.val 5)),
      .attach (.mk 2 .val .inline (.val 1)), .start .cancel]).g.invoked = [1, 2] ∧
    (run (fun _ => ⟨true, none⟩) {} [.src (.ready (.val 1)) true none, .attach (.mk 1 .res .inline (.val 5)),
      .attach (.mk 2 .val .inline (.val 1)), .start .cancel]).result = some (.val 6) := by decide +kernel

/-! ### defect D10 (fixed: /repo 4f7ebfc)

   Until the fix this file contained
     theorem lazy_eq_eager_violated_witness : <eager twin (Run) gives 7> ∧ <the Schedule()-built Task returned from a
       continuation crashes>
   and `lazy_eq_eager` carried the guard `d10FreeProg`.  Replay / regression input: corpus/pipe/d10_schedule_returned.txt
   (`in 1 src schedule 2 V on:e1 val:7 / src ready v1 / then 1 V inline async:1`). -/

/-- now: a Schedule()-built Task returned from a continuation gives what its eager twin (Run) gives -/
example :
    (run C02.cfgQ {} [.src (.ready (.val 1)) false none,
      .attach (.mk 1 .val .inline (.async .unit false [.mk 2 .val (.on (.user 1)) (.val 7)])), .call 1]).result = some (.val 7) ∧
    (run C02.cfgQ {} [.src (.ready (.val 1)) false none,
      .attach (.mk 1 .val .inline (.async .unit true [.mk 2 .val (.on (.user 1)) (.val 7)])), .call 1]).result = some (.val 7) := by
  decide +kernel

/-! ### non-vacuity -/

def cfgEx : Cfg := fun _ => ⟨true, none⟩

/-- Schedule(e1, f).Then(e1, g).ThenInline(h): nothing before ToFuture; after start and two drains: 1 → 2 → 12 -/
def exEvents : List Event :=
  [.src .unit true (some (.mk 1 .val (.on (.user 1)) (.val 1))),
   .attach (.mk 2 .val (.on (.user 1)) (.val 1)),
   .call 1, .set 0,
   .attach (.mk 3 .val .inline (.val 10)),
   .start .toFuture, .call 1, .call 1]

example : (run cfgEx {} (exEvents.take 5)).g.invoked = [] ∧ (run cfgEx {} (exEvents.take 5)).g.subs = [] := by decide +kernel
example : (run cfgEx {} exEvents).result = some (.val 12) ∧ (run cfgEx {} exEvents).g.invoked = [1, 2, 3] := by decide +kernel
/-- its eager twin -/
example : (progOf exEvents).map (fun p => (spec cfgEx p.twin).r) = some (.val 12) := by decide +kernel
/-- dropped unstarted: no callback runs, StopError, everything released -/
example : (run cfgEx {} (exEvents.take 5 ++ [.start .cancel, .call 1])).g.invoked = [] ∧
    (run cfgEx {} (exEvents.take 5 ++ [.start .cancel, .call 1])).result = some (.err 0) ∧
    (run cfgEx {} (exEvents.take 5 ++ [.start .cancel, .call 1])).g.cAlloc = (run cfgEx {} (exEvents.take 5 ++ [.start .cancel, .call 1])).g.cFree ∧
    (run cfgEx {} (exEvents.take 5 ++ [.start .cancel, .call 1])).g.fAlloc = (run cfgEx {} (exEvents.take 5 ++ [.start .cancel, .call 1])).g.fFree := by
  decide +kernel

end Yaclib.Props.C12

namespace Yaclib.Props.C12.Tie
open Yaclib

theorem tie_Task_Start : Extracted.Kernels.Task_Start = Skeletons.Task_Start := rfl
theorem tie_MoveToCaller : Extracted.Kernels.MoveToCaller = Skeletons.MoveToCaller := rfl
theorem tie_Task_dtor : Extracted.Kernels.Task_dtor = Skeletons.Task_dtor := rfl
theorem tie_Task_Cancel : Extracted.Kernels.Task_Cancel = Skeletons.Task_Cancel := rfl
theorem tie_Task_Detach : Extracted.Kernels.Task_Detach = Skeletons.Task_Detach := rfl
theorem tie_Task_DetachOn : Extracted.Kernels.Task_DetachOn = Skeletons.Task_DetachOn := rfl
theorem tie_Task_ToFuture : Extracted.Kernels.Task_ToFuture = Skeletons.Task_ToFuture := rfl
theorem tie_Task_ToFutureOn : Extracted.Kernels.Task_ToFutureOn = Skeletons.Task_ToFutureOn := rfl
theorem tie_Task_ThenOn : Extracted.Kernels.Task_ThenOn = Skeletons.Task_ThenOn := rfl
theorem tie_Task_ThenInherit : Extracted.Kernels.Task_ThenInherit = Skeletons.Task_ThenInherit := rfl
theorem tie_Task_ThenInline : Extracted.Kernels.Task_ThenInline = Skeletons.Task_ThenInline := rfl
theorem tie_ReadyCore_ctor : Extracted.Kernels.ReadyCore_ctor = Skeletons.ReadyCore_ctor := rfl
theorem tie_ReadyCore_Call : Extracted.Kernels.ReadyCore_Call = Skeletons.ReadyCore_Call := rfl
theorem tie_ReadyCore_Drop : Extracted.Kernels.ReadyCore_Drop = Skeletons.ReadyCore_Drop := rfl
theorem tie_ReadyCore_Here : Extracted.Kernels.ReadyCore_Here = Skeletons.ReadyCore_Here := rfl
theorem tie_PromiseCore_Call : Extracted.Kernels.PromiseCore_Call = Skeletons.PromiseCore_Call := rfl
theorem tie_PromiseCore_Drop : Extracted.Kernels.PromiseCore_Drop = Skeletons.PromiseCore_Drop := rfl
theorem tie_PromiseCore_Here : Extracted.Kernels.PromiseCore_Here = Skeletons.PromiseCore_Here := rfl
theorem tie_Core_Impl : Extracted.Kernels.Core_Impl = Skeletons.Core_Impl := rfl
theorem tie_detail_Schedule : Extracted.Kernels.detail_Schedule = Skeletons.detail_Schedule := rfl
theorem tie_MakeTask : Extracted.Kernels.MakeTask = Skeletons.MakeTask := rfl
theorem tie_Core_CallResolveAsync : Extracted.Kernels.Core_CallResolveAsync = Skeletons.Core_CallResolveAsync := rfl
theorem tie_detail_SetCallback : Extracted.Kernels.detail_SetCallback = Skeletons.detail_SetCallback := rfl

/-- T1: how CallResolveAsync enters a returned Task, and what the heads do when entered (the locus of the former D10) -/
theorem async_entry : Extracted.Dispatch.asyncEntry true = .stepHereOnHead ∧ Extracted.Dispatch.asyncEntry false = .setInline ∧
    Extracted.Dispatch.implRunEntry = .asyncDoneIfCallerElseSubmit ∧ Extracted.Dispatch.promiseCoreHere = .submit := by
  decide

end Yaclib.Props.C12.Tie
