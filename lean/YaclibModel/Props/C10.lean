/-
C10 — WhenAny completes once with the right winner for each fail policy.

Property theorems about the combinator model `Yaclib.When` (Model/When.lean), strategies `Any<None>` (flag),
`Any<FirstFail>` (empty / error / value word + saved first failure published by the destructor) and `Any<LastFail>`
(packed counter `2 * count`, low bit = done), for **every** number of inputs, every success / failure pattern and every
interleaving (registration racing with completions, stale pre-check loads included).
"First" always refers to the linearisation order of the read-modify-write operations on the strategy's word
(`s.rmwOrder`).  Helper lemmas and the inductive invariants are in Proofs/When*.lean.
-/
import YaclibModel.Proofs.WhenSpec
import YaclibModel.Proofs.WhenComposeProgress
import YaclibModel.Proofs.WhenComposeSharedSim
import YaclibModel.Proofs.WhenComposeMixed
import YaclibModel.Extracted.Kernels
import YaclibModel.Model.Skeletons

namespace Yaclib.Props.C10
open Yaclib.When

variable {w : Workload} {s : State}

/-- the strategies of WhenAny -/
def IsAny (w : Workload) : Prop := w.strat = .anyNone ∨ w.strat = .anyFF ∨ w.strat = .anyLF

/-- is input `i` a value? -/
abbrev isVal (w : Workload) : Nat → Bool := fun i => ok (w.inp i)

/-- the output is set at most once, and with the outcome of one of the inputs (never a broken promise, never a
    default-constructed error) -/
theorem any_set_once (hwf : w.wf) (ha : IsAny w) (h : Reachable w s) :
    s.outSet.length ≤ 1 ∧ ∀ o, o ∈ s.outSet → ∃ k, k < w.n ∧ o = .one (w.inp k) := by
  have hI := inv_reachable hwf h
  have hV := invv_reachable hwf h
  refine ⟨hI.o.len, ?_⟩
  intro o ho
  cases hwin : s.win with
  | some k => exact ⟨k, win_lt hI.c hI.r hwin, hV.out_win o ho k hwin⟩
  | none =>
      obtain ⟨hx, h1, h2, h3⟩ := hV.out_dtor o ho hwin
      rcases ha with ha | ha | ha
      · exact absurd ha h1
      · cases he : s.errBy with
        | none => exact absurd he (h3 ha)
        | some e => exact ⟨e, err_lt hI.c hI.r he, by rw [hx]; simp [dtorExpected, ha, he]⟩
      · exact absurd ha h2

/-- … exactly once by the time nothing can move any more -/
theorem any_set_exactly_once_at_quiescence (hwf : w.wf) (h : Reachable w s) (hn : w.n ≠ 0) (hc : s.crashed = false)
    (hq : ∀ l s', ¬ Step w s l s') : s.outSet.length = 1 ∧ ∀ i, i < w.n → s.pc i = .done := by
  have hI := inv_reachable hwf h
  have hd := done_of_quiescent hI.c hc hq
  exact ⟨(complete_of_all_done hI.c hI.o hn hd).1, hd⟩

/-- LastFail (default): the winner is the first value to exchange the counter; if there is none, every input failed
    and the winner is the input whose `fetch_sub` was the last one -/
theorem any_lastfail_spec (hwf : w.wf) (hs : w.strat = .anyLF) (h : Reachable w s) :
    ∀ o, o ∈ s.outSet → ∃ k, s.win = some k ∧ k < w.n ∧ o = .one (w.inp k) ∧
      (match s.rmwOrder.find? (isVal w) with
       | some v => k = v
       | none => s.rmwOrder.getLast? = some k ∧ ∀ j, j < w.n → ok (w.inp j) = false) := by
  have hI := inv_reachable hwf h
  have hV := invv_reachable hwf h
  intro o ho
  cases hwin : s.win with
  | none => exact absurd hs (hV.out_dtor o ho hwin).2.2.1
  | some k =>
      have hk := win_lt hI.c hI.r hwin
      have hL := hI.l hs (by omega)
      refine ⟨k, rfl, hk, hV.out_win o ho k hwin, ?_⟩
      by_cases he : s.lf % 2 = 0
      · have h1 := hL.lf_even he
        have h2 := hL.lf_win0 he
        have hfind : s.rmwOrder.find? (isVal w) = none := h1.2
        rw [hfind]
        refine ⟨h2.2 k hwin, ?_⟩
        have hz : s.lf = 0 := h2.1.mp (by rw [hwin]; simp)
        have hle := cnt_le s.rmwDone w.n
        have hfull : cnt s.rmwDone w.n = w.n := by have := h1.1; omega
        intro j hj
        have hdone := cnt_full hfull j hj
        have hmem := (hI.r.order_mem j).mpr hdone
        have := List.find?_eq_none.mp hfind j hmem
        simpa [isVal] using this
      · have h1 := hL.lf_odd (by omega)
        have : s.rmwOrder.find? (isVal w) = some k := by rw [← hwin]; exact h1.2.symm
        rw [this]

/-- FirstFail: the first value to exchange the word wins; if there is none, every input failed and the output is the
    failure of the input that performed the first read-modify-write on the word (the successful CAS), published by
    the destructor after the last input -/
theorem any_firstfail_spec (hwf : w.wf) (hs : w.strat = .anyFF) (h : Reachable w s) :
    ∀ o, o ∈ s.outSet →
      (match s.rmwOrder.find? (isVal w) with
       | some v => s.win = some v ∧ o = .one (w.inp v)
       | none => (∀ j, j < w.n → ok (w.inp j) = false) ∧
           ∃ e, s.rmwOrder.head? = some e ∧ e < w.n ∧ o = .one (w.inp e) ∧ ∀ j, j < w.n → holding (s.pc j) = false) := by
  have hI := inv_reachable hwf h
  have hV := invv_reachable hwf h
  have hG := hI.g hs
  intro o ho
  have hne : s.outSet ≠ [] := fun h => by rw [h] at ho; cases ho
  have hw : s.win = s.rmwOrder.find? (isVal w) := hG.s3_win
  cases hwin : s.win with
  | some v => rw [← hw, hwin]; exact ⟨rfl, hV.out_win o ho v hwin⟩
  | none =>
      rw [← hw, hwin]
      obtain ⟨hx, _, _, h3⟩ := hV.out_dtor o ho hwin
      have hfin := all_finished_of_out_dtor hI.c hI.o hne hwin
      refine ⟨?_, ?_⟩
      · intro j hj
        cases hok : ok (w.inp j) with
        | false => rfl
        | true =>
            have := hG.s3_past_val j (past_of_not_holding (hfin j hj)) hok
            exact absurd hwin (hG.s3_val.mp this)
      · cases he : s.errBy with
        | none => exact absurd he (h3 hs)
        | some e =>
            exact ⟨e, (hG.s3_err e he).1, err_lt hI.c hI.r he, by rw [hx]; simp [dtorExpected, hs, he], hfin⟩

/-- None: whatever is consumed first — the first consumption to exchange the flag — wins -/
theorem any_none_spec (hwf : w.wf) (hs : w.strat = .anyNone) (h : Reachable w s) :
    ∀ o, o ∈ s.outSet → ∃ k, s.rmwOrder.head? = some k ∧ k < w.n ∧ o = .one (w.inp k) := by
  have hI := inv_reachable hwf h
  have hV := invv_reachable hwf h
  have hF := hI.f (by rw [hs]; rfl)
  intro o ho
  cases hwin : s.win with
  | none => exact absurd hs (hV.out_dtor o ho hwin).2.1
  | some k => exact ⟨k, by rw [← hF.flag_head, hwin], win_lt hI.c hI.r hwin, hV.out_win o ho k hwin⟩

/-- later completions change nothing: once the output is `[o]` it stays `[o]` (for every strategy) -/
theorem later_completions_no_effect (hwf : w.wf) (h : Reachable w s) {l : Label} {s' : State} (hs : Step w s l s')
    {o : OutVal} (ho : s.outSet = [o]) : s'.outSet = [o] := by
  have hlen := (inv_reachable hwf (.step h hs)).o.len
  rcases outSet_mono hs with h1 | ⟨x, h1⟩
  · rw [h1, ho]
  · rw [h1, ho] at hlen; simp at hlen

/-- every input is consumed and released at most once, whoever won and whenever it completes … -/
theorem inputs_released_once (hwf : w.wf) (h : Reachable w s) : ∀ i, s.consumed i ≤ 1 ∧ s.released i ≤ 1 :=
  consumed_released_le_one (inv_reachable hwf h).c

/-- … and exactly once by the time nothing can move any more -/
theorem inputs_released_exactly_once_at_quiescence (hwf : w.wf) (h : Reachable w s) (hn : w.n ≠ 0) (hc : s.crashed = false)
    (hq : ∀ l s', ¬ Step w s l s') : ∀ i, i < w.n → s.consumed i = 1 ∧ s.released i = 1 := by
  have hI := inv_reachable hwf h
  exact (complete_of_all_done hI.c hI.o hn (done_of_quiescent hI.c hc hq)).2

/-- the packed counter of LastFail: always a size_t; while no value has exchanged it is exactly twice the number of
    inputs that have not subtracted yet (so ≤ 2n); a `fetch_sub(2)` on an even counter never underflows; once odd it
    stays odd — including the wrap-around 1 - 2 = 2^64 - 1 —, i.e. "done" is never lost -/
theorem lastfail_counter_bounds (hwf : w.wf) (hs : w.strat = .anyLF) (hn : w.n ≠ 0) (h : Reachable w s) :
    s.lf < two64 ∧
    (s.lf % 2 = 0 → s.lf = 2 * (w.n - cnt s.rmwDone w.n) ∧ s.lf ≤ 2 * w.n) ∧
    (∀ i, s.pc i = .rmw → s.lf % 2 = 0 → 2 ≤ s.lf ∧ subWrap s.lf = s.lf - 2) ∧
    (s.lf % 2 = 1 → subWrap s.lf % 2 = 1 ∧ s.win ≠ none) := by
  have hI := inv_reachable hwf h
  have hL := hI.l hs hn
  refine ⟨hL.lf_lt, ?_, ?_, ?_⟩
  · intro he
    have := (hL.lf_even he).1
    exact ⟨this, by omega⟩
  · intro i hp he
    have hi' : i < w.n := hI.c.idx (by rw [hp]; simp)
    have hnd : s.rmwDone i = false := by
      cases hd : s.rmwDone i with
      | false => rfl
      | true => have := hI.r.done_past i hd; rw [hp] at this; cases this
    have hclt := cnt_lt_of_false (p := s.rmwDone) hi' hnd
    have h1 := (hL.lf_even he).1
    have h2 : 2 ≤ s.lf := by omega
    exact ⟨h2, subWrap_even hL.lf_lt h2⟩
  · intro ho
    exact ⟨(subWrap_odd hL.lf_lt ho).1, (hL.lf_odd ho).1⟩

/-- the model's `fetch_sub(2)` is the machine's (64-bit two's complement) -/
theorem lastfail_fsub_is_bitvec (x : Nat) (hx : x < two64) : (BitVec.ofNat 64 x - 2#64).toNat = subWrap x :=
  subWrap_eq_bitvec x hx

/-- the wrap-around case spelled out: `exchange(1)` by a value, then a late failing `fetch_sub(2)`: 1 - 2 = 2^64 - 1, odd -/
theorem lastfail_wraparound_still_done : subWrap 1 = two64 - 1 ∧ subWrap 1 % 2 = 1 := by decide

/-- WhenAny never breaks its promise and no strategy step of WhenAny crashes -/
theorem any_no_crash (hwf : w.wf) (ha : IsAny w) (h : Reachable w s) :
    s.crashed = false ∧ (∀ i, s.pc i ≠ .boom ∧ s.pc i ≠ .dboom) ∧ ∀ o, o ∈ s.outSet → o ≠ .broken := by
  have hB := invb_reachable hwf h
  refine ⟨hB.not_crashed, fun i => ⟨hB.no_boom i, hB.no_dboom i⟩, ?_⟩
  · intro o ho hb
    obtain ⟨k, _, hk⟩ := (any_set_once hwf ha h).2 o ho
    rw [hb] at hk; cases hk

theorem validator_sound {l : Label} {s' : State} (h : Reachable w s) (hn : next w s l = some s') : Reachable w s' :=
  .step h (next_sound hn)

/-- the same, for runs whose states the elaborator cannot evaluate (64-bit arithmetic): checked by the kernel -/
theorem validator_run (h : Reachable w s) (l : Label) (hn : (next w s l).isSome = true) :
    Reachable w ((next w s l).get hn) := by
  have hx : next w s l = some ((next w s l).get hn) := by simp
  exact .step h (next_sound hx)

/-! ### inputs as real unique cores (Model/WhenCompose.lean, see Props/C09.lean `input_interface_sound`): the WhenAny theorems
hold in the composition of the When model with n instances of the C01 hand-off model, i.e. with every interleaving inside
`SetCallback` / `Promise::Set` of every input -/

section Composed
variable {S : WhenU.State}

/-- the When component of a reachable composed state is a reachable When state, its callback entries are the input
    instances' continuation deliveries -/
theorem any_input_interface_sound (hwf : w.wf) (h : WhenU.Reachable w S) :
    Reachable w S.wh ∧ ∀ i, S.wh.consumed i = (S.u i).delivered.length :=
  ⟨(WhenU.sim hwf h).1, (WhenU.sim hwf h).2.entries⟩

theorem any_set_once_composed (hwf : w.wf) (ha : IsAny w) (h : WhenU.Reachable w S) :
    S.wh.outSet.length ≤ 1 ∧ ∀ o, o ∈ S.wh.outSet → ∃ k, k < w.n ∧ o = .one (w.inp k) :=
  any_set_once hwf ha (WhenU.sim hwf h).1

theorem any_lastfail_spec_composed (hwf : w.wf) (hs : w.strat = .anyLF) (h : WhenU.Reachable w S) :
    ∀ o, o ∈ S.wh.outSet → ∃ k, S.wh.win = some k ∧ k < w.n ∧ o = .one (w.inp k) ∧
      (match S.wh.rmwOrder.find? (isVal w) with
       | some v => k = v
       | none => S.wh.rmwOrder.getLast? = some k ∧ ∀ j, j < w.n → ok (w.inp j) = false) :=
  any_lastfail_spec hwf hs (WhenU.sim hwf h).1

theorem later_completions_no_effect_composed (hwf : w.wf) (h : WhenU.Reachable w S) {l : WhenU.Label} {S' : WhenU.State}
    (hs : WhenU.Step w S l S') {o : OutVal} (ho : S.wh.outSet = [o]) : S'.wh.outSet = [o] := by
  have hW := (WhenU.sim hwf h).1
  have hlen := (inv_reachable hwf (WhenU.sim hwf (.step h hs)).1).o.len
  cases hs with
  | «when» l wh' hl hst => exact later_completions_no_effect hwf hW hst ho
  | prod i old u' hi hu => exact ho
  | cload i x u' hr hu => exact ho
  | casFail i u' hr hu => exact ho
  | casOk i u' hr hu => simpa [doRegSet] using ho
  | enterC i r u' hr hu => simpa [doRegSet] using ho
  | enterP i r u' hi hu => simpa [doFire] using ho

/-- at quiescence of the composed system: exactly one output, every input's callback entered and released exactly once -/
theorem any_quiescent_complete_composed (hwf : w.wf) (hn : w.n ≠ 0) (h : WhenU.Reachable w S)
    (hq : ∀ l S', ¬ WhenU.Step w S l S') :
    S.wh.outSet.length = 1 ∧ ∀ i, i < w.n → S.wh.pc i = .done ∧ S.wh.released i = 1 ∧ (S.u i).delivered.length = 1 := by
  obtain ⟨hW, hK⟩ := WhenU.sim hwf h
  obtain ⟨hqw, _, _⟩ := WhenU.quiescent_parts hwf h hq
  have hI := inv_reachable hwf hW
  have hd := done_of_quiescent hI.c (invb_reachable hwf hW).not_crashed hqw
  have hc := complete_of_all_done hI.c hI.o hn hd
  refine ⟨hc.1, fun i hi => ⟨hd i hi, (hc.2 i hi).2, ?_⟩⟩
  rw [← hK.entries i]; exact (hc.2 i hi).1

end Composed

/-! ### inputs as real shared cores (Model/WhenComposeShared.lean, see Props/C09.lean `shared_input_interface_sound`): the
WhenAny theorems hold in the composition of the When model with n instances of the C06 SharedFuture model (observer 0 = the
combinator's registration, any other observers with arbitrary programs), entries synchronised -/

section ComposedShared
variable {W : WhenS.Workload} {T : WhenS.State}

theorem any_shared_input_interface_sound (hwf : W.w.wf) (h : WhenS.Reachable W T) :
    Reachable W.w T.wh ∧ ∀ i, T.wh.consumed i = (Shared.firedIds (T.sh i)).count WhenS.cb0 :=
  ⟨(WhenS.sim hwf h).1, (WhenS.sim hwf h).2.entries⟩

theorem any_set_once_shared (hwf : W.w.wf) (ha : IsAny W.w) (h : WhenS.Reachable W T) :
    T.wh.outSet.length ≤ 1 ∧ ∀ o, o ∈ T.wh.outSet → ∃ k, k < W.w.n ∧ o = .one (W.w.inp k) :=
  any_set_once hwf ha (WhenS.sim hwf h).1

theorem any_lastfail_spec_shared (hwf : W.w.wf) (hs : W.w.strat = .anyLF) (h : WhenS.Reachable W T) :
    ∀ o, o ∈ T.wh.outSet → ∃ k, T.wh.win = some k ∧ k < W.w.n ∧ o = .one (W.w.inp k) ∧
      (match T.wh.rmwOrder.find? (isVal W.w) with
       | some v => k = v
       | none => T.wh.rmwOrder.getLast? = some k ∧ ∀ j, j < W.w.n → ok (W.w.inp j) = false) :=
  any_lastfail_spec hwf hs (WhenS.sim hwf h).1

theorem any_firstfail_spec_shared (hwf : W.w.wf) (hs : W.w.strat = .anyFF) (h : WhenS.Reachable W T) :
    ∀ o, o ∈ T.wh.outSet →
      (match T.wh.rmwOrder.find? (isVal W.w) with
       | some v => T.wh.win = some v ∧ o = .one (W.w.inp v)
       | none => (∀ j, j < W.w.n → ok (W.w.inp j) = false) ∧
           ∃ e, T.wh.rmwOrder.head? = some e ∧ e < W.w.n ∧ o = .one (W.w.inp e) ∧
             ∀ j, j < W.w.n → holding (T.wh.pc j) = false) :=
  any_firstfail_spec hwf hs (WhenS.sim hwf h).1

theorem any_none_spec_shared (hwf : W.w.wf) (hs : W.w.strat = .anyNone) (h : WhenS.Reachable W T) :
    ∀ o, o ∈ T.wh.outSet → ∃ k, T.wh.rmwOrder.head? = some k ∧ k < W.w.n ∧ o = .one (W.w.inp k) :=
  any_none_spec hwf hs (WhenS.sim hwf h).1

theorem inputs_released_once_shared (hwf : W.w.wf) (h : WhenS.Reachable W T) :
    ∀ i, T.wh.consumed i ≤ 1 ∧ T.wh.released i ≤ 1 :=
  inputs_released_once hwf (WhenS.sim hwf h).1

end ComposedShared

/-! ### packs mixing unique and shared inputs (Model/WhenComposeMixed.lean, see Props/C09.lean `mixed_input_interface_sound`) -/

section ComposedMixed
variable {M : WhenM.Workload} {R : WhenM.State}

theorem any_mixed_input_interface_sound (hwf : M.w.wf) (h : WhenM.Reachable M R) : Reachable M.w R.wh :=
  (WhenM.sim hwf h).1

theorem any_set_once_mixed (hwf : M.w.wf) (ha : IsAny M.w) (h : WhenM.Reachable M R) :
    R.wh.outSet.length ≤ 1 ∧ ∀ o, o ∈ R.wh.outSet → ∃ k, k < M.w.n ∧ o = .one (M.w.inp k) :=
  any_set_once hwf ha (WhenM.sim hwf h).1

theorem any_lastfail_spec_mixed (hwf : M.w.wf) (hs : M.w.strat = .anyLF) (h : WhenM.Reachable M R) :
    ∀ o, o ∈ R.wh.outSet → ∃ k, R.wh.win = some k ∧ k < M.w.n ∧ o = .one (M.w.inp k) ∧
      (match R.wh.rmwOrder.find? (isVal M.w) with
       | some v => k = v
       | none => R.wh.rmwOrder.getLast? = some k ∧ ∀ j, j < M.w.n → ok (M.w.inp j) = false) :=
  any_lastfail_spec hwf hs (WhenM.sim hwf h).1

theorem inputs_released_once_mixed (hwf : M.w.wf) (h : WhenM.Reachable M R) :
    ∀ i, R.wh.consumed i ≤ 1 ∧ R.wh.released i ≤ 1 :=
  inputs_released_once hwf (WhenM.sim hwf h).1

end ComposedMixed

/-! ### non-vacuity -/

/-- LastFail, [failure, value, failure]: failure 0 passes the pre-check, value 1 exchanges and wins, failure 0's late
    `fetch_sub` wraps the counter (odd, still done), failure 2 sees done at once -/
example : ∃ s, Reachable ⟨.anyLF, [.err 0, .val 1, .exc 2]⟩ s ∧ s.outSet = [.one (.val 1)] ∧ s.lf = two64 - 1 ∧
    s.rmwOrder = [1, 0] := by
  let w : Workload := ⟨.anyLF, [.err 0, .val 1, .exc 2]⟩
  have h0 : Reachable w (init w) := .init
  have h1 := validator_run h0 (.regSet 0 true) (by decide +kernel)
  have h2 := validator_run h1 (.regSet 1 true) (by decide +kernel)
  have h3 := validator_run h2 (.regSet 2 true) (by decide +kernel)
  have h4 := validator_run h3 (.fire 0) (by decide +kernel)
  have h5 := validator_run h4 (.retire 0) (by decide +kernel)
  have h6 := validator_run h5 (.loadLf 0 false) (by decide +kernel)
  have h7 := validator_run h6 (.fire 1) (by decide +kernel)
  have h8 := validator_run h7 (.retire 1) (by decide +kernel)
  have h9 := validator_run h8 (.loadLf 1 false) (by decide +kernel)
  have h10 := validator_run h9 (.xchgLf 1 6) (by decide +kernel)
  have h11 := validator_run h10 (.setOut 1 (.one (.val 1))) (by decide +kernel)
  have h12 := validator_run h11 (.fsubLf 0 1) (by decide +kernel)          -- wraps
  have h13 := validator_run h12 (.fire 2) (by decide +kernel)
  have h14 := validator_run h13 (.retire 2) (by decide +kernel)
  have h15 := validator_run h14 (.loadLf 2 true) (by decide +kernel)
  exact ⟨_, h15, by decide +kernel, by decide +kernel, by decide +kernel⟩

/-- LastFail, every input fails: the last `fetch_sub` (old value 2) publishes its own failure -/
example : ∃ s, Reachable ⟨.anyLF, [.err 0, .exc 1]⟩ s ∧ s.outSet = [.one (.err 0)] ∧ s.rmwOrder = [1, 0] := by
  let w : Workload := ⟨.anyLF, [.err 0, .exc 1]⟩
  have h0 : Reachable w (init w) := .init
  have h1 := validator_run h0 (.regSet 0 true) (by decide +kernel)
  have h2 := validator_run h1 (.regSet 1 false) (by decide +kernel)
  have h3 := validator_run h2 (.retire 1) (by decide +kernel)
  have h4 := validator_run h3 (.loadLf 1 false) (by decide +kernel)
  have h5 := validator_run h4 (.fsubLf 1 4) (by decide +kernel)
  have h6 := validator_run h5 (.dec 1 2) (by decide +kernel)
  have h7 := validator_run h6 (.fire 0) (by decide +kernel)
  have h8 := validator_run h7 (.retire 0) (by decide +kernel)
  have h9 := validator_run h8 (.loadLf 0 false) (by decide +kernel)
  have h10 := validator_run h9 (.fsubLf 0 2) (by decide +kernel)
  have h11 := validator_run h10 (.setOut 0 (.one (.err 0))) (by decide +kernel)
  exact ⟨_, h11, by decide +kernel, by decide +kernel⟩

/-- FirstFail, every input fails: the first CAS saves its failure, the destructor of the last consumption publishes it -/
example : ∃ s, Reachable ⟨.anyFF, [.err 0, .exc 1]⟩ s ∧ s.outSet = [.one (.exc 1)] ∧ s.rmwOrder = [1] := by
  let w : Workload := ⟨.anyFF, [.err 0, .exc 1]⟩
  have h0 : Reachable w (init w) := .init
  have h1 := validator_sound h0 (l := .regSet 0 true) (s' := _) rfl
  have h2 := validator_sound h1 (l := .regSet 1 true) (s' := _) rfl
  have h3 := validator_sound h2 (l := .fire 1) (s' := _) rfl
  have h4 := validator_sound h3 (l := .retire 1) (s' := _) rfl
  have h5 := validator_sound h4 (l := .load3 1 .empty) (s' := _) rfl
  have h6 := validator_sound h5 (l := .cas3 1 true) (s' := _) rfl
  have h7 := validator_sound h6 (l := .dec 1 2) (s' := _) rfl
  have h8 := validator_sound h7 (l := .fire 0) (s' := _) rfl
  have h9 := validator_sound h8 (l := .retire 0) (s' := _) rfl
  have h10 := validator_sound h9 (l := .load3 0 .error) (s' := _) rfl
  have h11 := validator_sound h10 (l := .dec 0 1) (s' := _) rfl
  have h12 := validator_sound h11 (l := .dtorSet 0 (.one (.exc 1))) (s' := _) rfl
  exact ⟨_, h12, rfl, rfl⟩

/-- FirstFail, a failure first, then a value: the value wins although a failure was saved -/
example : ∃ s, Reachable ⟨.anyFF, [.err 0, .val 1]⟩ s ∧ s.outSet = [.one (.val 1)] ∧ s.errBy = some 0 := by
  let w : Workload := ⟨.anyFF, [.err 0, .val 1]⟩
  have h0 : Reachable w (init w) := .init
  have h1 := validator_sound h0 (l := .regSet 0 false) (s' := _) rfl
  have h2 := validator_sound h1 (l := .retire 0) (s' := _) rfl
  have h3 := validator_sound h2 (l := .load3 0 .empty) (s' := _) rfl
  have h4 := validator_sound h3 (l := .cas3 0 true) (s' := _) rfl
  have h5 := validator_sound h4 (l := .dec 0 2) (s' := _) rfl
  have h6 := validator_sound h5 (l := .regSet 1 false) (s' := _) rfl
  have h7 := validator_sound h6 (l := .retire 1) (s' := _) rfl
  have h8 := validator_sound h7 (l := .load3 1 .error) (s' := _) rfl
  have h9 := validator_sound h8 (l := .xchg3 1 .error) (s' := _) rfl
  have h10 := validator_sound h9 (l := .setOut 1 (.one (.val 1))) (s' := _) rfl
  exact ⟨_, h10, rfl, rfl⟩

end Yaclib.Props.C10

/-! ### tie to the source (T2) -/
namespace Yaclib.Props.C10.Tie
open Yaclib

theorem tie_Any_Consume : Extracted.Kernels.WhenAny_Consume = Skeletons.WhenAny_Consume := rfl
theorem tie_Any_dtor_FirstFail : Extracted.Kernels.WhenAny_dtor_FirstFail = Skeletons.WhenAny_dtor_FirstFail := rfl
theorem tie_Any_DoneImpl : Extracted.Kernels.WhenAny_DoneImpl = Skeletons.WhenAny_DoneImpl := rfl
theorem tie_WhenAny_front : Extracted.Kernels.WhenAny_front = Skeletons.WhenAny_front := rfl
theorem tie_When : Extracted.Kernels.When_When = Skeletons.When_When := rfl
theorem tie_Consume : Extracted.Kernels.When_Consume = Skeletons.When_Consume := rfl
theorem tie_ConsumeImpl : Extracted.Kernels.When_ConsumeImpl = Skeletons.When_ConsumeImpl := rfl
theorem tie_CombinatorCallback_Impl :
    Extracted.Kernels.When_CombinatorCallback_Impl = Skeletons.When_CombinatorCallback_Impl := rfl
theorem tie_SingleCombinator_Set : Extracted.Kernels.When_SingleCombinator_Set = Skeletons.When_SingleCombinator_Set := rfl
theorem tie_SingleCombinator_SetCore :
    Extracted.Kernels.When_SingleCombinator_SetCore = Skeletons.When_SingleCombinator_SetCore := rfl
theorem tie_SingleCombinator_Impl : Extracted.Kernels.When_SingleCombinator_Impl = Skeletons.When_SingleCombinator_Impl := rfl
theorem tie_StaticCombinator_SetCore :
    Extracted.Kernels.When_StaticCombinator_SetCore = Skeletons.When_StaticCombinator_SetCore := rfl
theorem tie_DynamicCombinator_Set : Extracted.Kernels.When_DynamicCombinator_Set = Skeletons.When_DynamicCombinator_Set := rfl
theorem tie_AtomicCounter_SubEqual : Extracted.Kernels.AtomicCounter_SubEqual = Skeletons.AtomicCounter_SubEqual := rfl
theorem tie_Helper_DecRef : Extracted.Kernels.Helper_DecRef = Skeletons.Helper_DecRef := rfl
theorem tie_GetCallbackHelper :
    Extracted.Kernels.When_StaticCombinator_GetCallbackHelper = Skeletons.When_StaticCombinator_GetCallbackHelper := rfl
theorem tie_StaticCombinator_InitImpl :
    Extracted.Kernels.When_StaticCombinator_InitImpl = Skeletons.When_StaticCombinator_InitImpl := rfl
theorem tie_CombinatorCallback_Here : Extracted.Kernels.When_CombinatorCallback_Here = Skeletons.When_CombinatorCallback_Here := rfl
theorem tie_SingleCombinator_Here : Extracted.Kernels.When_SingleCombinator_Here = Skeletons.When_SingleCombinator_Here := rfl
theorem tie_TranslateIndexImpl_Index :
    Extracted.Kernels.TypeTraits_TranslateIndexImpl_Index = Skeletons.TypeTraits_TranslateIndexImpl_Index := rfl
theorem tie_IndexOf_Index : Extracted.Kernels.TypeTraits_IndexOf_Index = Skeletons.TypeTraits_IndexOf_Index := rfl
/-! whole-declaration source ties (comments and white space dropped): policy constants, callback tuples and node lookup
    (`translate_index_v` vs `index_of_v`), the alias that selects the combinator type, member initialisers, metafunctions -/
theorem tie_src_when_hpp : Extracted.Kernels.WhenSrc_when_hpp = Skeletons.WhenSrc_when_hpp := rfl
theorem tie_src_combinator_strategy_hpp :
    Extracted.Kernels.WhenSrc_combinator_strategy_hpp = Skeletons.WhenSrc_combinator_strategy_hpp := rfl
theorem tie_src_fail_policy_hpp : Extracted.Kernels.WhenSrc_fail_policy_hpp = Skeletons.WhenSrc_fail_policy_hpp := rfl
theorem tie_src_type_traits_inputs : Extracted.Kernels.WhenSrc_type_traits_inputs = Skeletons.WhenSrc_type_traits_inputs := rfl
theorem tie_src_type_traits_tuples : Extracted.Kernels.WhenSrc_type_traits_tuples = Skeletons.WhenSrc_type_traits_tuples := rfl
theorem tie_src_any_hpp : Extracted.Kernels.WhenSrc_any_hpp = Skeletons.WhenSrc_any_hpp := rfl
theorem tie_src_when_any_hpp : Extracted.Kernels.WhenSrc_when_any_hpp = Skeletons.WhenSrc_when_any_hpp := rfl

end Yaclib.Props.C10.Tie
