/-
C09 — WhenAll / Join complete once, at the right moment, with inputs in input order.

Property theorems about the combinator model `Yaclib.When` (Model/When.lean) for **every** number of inputs, every
success / failure pattern, every interleaving of the registration loop with the completions (each input consumed either
inline by the registering thread or by its completing thread) at atomic-operation granularity, stale pre-check loads
included.  Strategies: `All` (vector form), `AllTuple` (tuple form), `Join`, each with FailPolicy None / FirstFail.
Helper lemmas and the inductive invariants are in Proofs/When*.lean.
-/
import YaclibModel.Proofs.WhenSpec
import YaclibModel.Proofs.WhenNodes
import YaclibModel.Proofs.WhenComposeProgress
import YaclibModel.Proofs.WhenComposeSharedSim
import YaclibModel.Proofs.WhenComposeMixed
import YaclibModel.Extracted.Kernels
import YaclibModel.Model.Skeletons

namespace Yaclib.Props.C09
open Yaclib.When

variable {w : Workload} {s : State}

/-- the output promise is set at most once … -/
theorem out_set_once (hwf : w.wf) (h : Reachable w s) : s.outSet.length ≤ 1 :=
  (inv_reachable hwf h).o.len

/-- … and, when nothing can move any more (and nothing crashed), exactly once; every consumption has finished -/
theorem out_set_exactly_once_at_quiescence (hwf : w.wf) (h : Reachable w s) (hn : w.n ≠ 0) (hc : s.crashed = false)
    (hq : ∀ l s', ¬ Step w s l s') : s.outSet.length = 1 ∧ ∀ i, i < w.n → s.pc i = .done := by
  have hI := inv_reachable hwf h
  have hd := done_of_quiescent hI.c hc hq
  exact ⟨(complete_of_all_done hI.c hI.o hn hd).1, hd⟩

/-- None, or no failing input (vector and tuple form): the output is set by the consumption that dropped the last
    combinator reference — i.e. after every input was consumed — and carries input i's Result / value at index i,
    whatever the completion order was -/
theorem all_none_at_last_in_index_order {ff : Bool} (h : Reachable w s)
    (hs : w.strat = .allVec ff ∨ w.strat = .allTuple ff) (hok : ff = false ∨ ∀ i, i < w.n → ok (w.inp i) = true) :
    ∀ o, o ∈ s.outSet → o = .vec (w.inputs.map some) ∧ ∀ j, j < w.n → holding (s.pc j) = false := by
  have hwf : w.wf := wf_of_ne (by rcases hs with hs | hs <;> simp [hs])
  have hI := inv_reachable hwf h
  have hV := invv_reachable hwf h
  intro o ho
  have hw : s.win = none := by
    cases hwin : s.win with
    | none => rfl
    | some k =>
        exfalso
        rcases hok with hff | hall
        · subst hff
          have := hI.o.none_win (by rcases hs with hs | hs <;> simp [hs, Strat.noneKind])
          rw [hwin] at this; cases this
        · cases ff with
          | false =>
              have := hI.o.none_win (by rcases hs with hs | hs <;> simp [hs, Strat.noneKind])
              rw [hwin] at this; cases this
          | true =>
              have hf := hI.r.done_fail (by rcases hs with hs | hs <;> simp [hs, Strat.allFF]) k (hI.r.win_done k hwin)
              rw [hall k (win_lt hI.c hI.r hwin)] at hf; cases hf
  have hne : s.outSet ≠ [] := fun h => by rw [h] at ho; cases ho
  refine ⟨?_, all_finished_of_out_dtor hI.c hI.o hne hw⟩
  have := (hV.out_dtor o ho hw).1
  rw [this, ← range_map_inp]
  rcases hs with hs | hs <;> simp [dtorExpected, hs]

/-- FirstFail with a failing input: the output carries the failure of the input whose consumption was the first to
    exchange the done flag (the linearisation point of "first failing consumption") -/
theorem all_firstfail_first_failure (h : Reachable w s) (hs : w.strat.allFF = true)
    (hf : ∃ i, i < w.n ∧ ok (w.inp i) = false) :
    ∀ o, o ∈ s.outSet → ∃ k, s.rmwOrder.head? = some k ∧ k < w.n ∧ ok (w.inp k) = false ∧ o = .one (w.inp k) := by
  have hu : w.strat.usesFlag = true := by
    cases hst : w.strat with
    | allVec b => cases b <;> simp_all [Strat.allFF, Strat.usesFlag]
    | allTuple b => cases b <;> simp_all [Strat.allFF, Strat.usesFlag]
    | join b => cases b <;> simp_all [Strat.allFF, Strat.usesFlag]
    | _ => simp_all [Strat.allFF]
  have hwf : w.wf := wf_of_ne (by intro h'; rw [h'] at hs; cases hs)
  have hI := inv_reachable hwf h
  have hV := invv_reachable hwf h
  have hF := hI.f hu
  intro o ho
  cases hwin : s.win with
  | some k =>
      exact ⟨k, by rw [← hF.flag_head, hwin], win_lt hI.c hI.r hwin,
        hI.r.done_fail hs k (hI.r.win_done k hwin), hV.out_win o ho k hwin⟩
  | none =>
      exfalso
      obtain ⟨i, hi, hbad⟩ := hf
      have hne : s.outSet ≠ [] := fun h => by rw [h] at ho; cases ho
      have hfin := all_finished_of_out_dtor hI.c hI.o hne hwin i hi
      have hfl := hF.flag_past i (past_of_not_holding hfin) (Or.inl hbad)
      exact (hF.flag_win.mp hfl) hwin

/-- "as soon as": the consumption that wins the flag goes straight to setting the output, whatever the other inputs do,
    and that step is enabled in every (non-crashed) state -/
theorem firstfail_winner_sets_next {i : Nat} (hc : s.crashed = false) (hf : s.flag = false) :
    (doXchgFlag w s i).pc i = .setOut (.one (w.inp i)) ∧
    ∃ s'', Step w (doXchgFlag w s i) (.setOut i (.one (w.inp i))) s'' := by
  have h1 : (doXchgFlag w s i).pc i = .setOut (.one (w.inp i)) := by simp [doXchgFlag, hf, upd]
  exact ⟨h1, _, .setOut _ i _ (by simp [doXchgFlag, hf, hc]) h1⟩

/-- every input is consumed (its callback entered) and released at most once, whether or not the output was decided … -/
theorem inputs_consumed_once (hwf : w.wf) (h : Reachable w s) : ∀ i, s.consumed i ≤ 1 ∧ s.released i ≤ 1 :=
  consumed_released_le_one (inv_reachable hwf h).c

/-- … and exactly once by the time nothing can move any more -/
theorem inputs_consumed_exactly_once_at_quiescence (hwf : w.wf) (h : Reachable w s) (hn : w.n ≠ 0) (hc : s.crashed = false)
    (hq : ∀ l s', ¬ Step w s l s') : ∀ i, i < w.n → s.consumed i = 1 ∧ s.released i = 1 := by
  have hI := inv_reachable hwf h
  exact (complete_of_all_done hI.c hI.o hn (done_of_quiescent hI.c hc hq)).2

/-- nobody touches the combinator after its destructor started: whoever runs it is alone -/
theorem destructor_runs_alone (hwf : w.wf) (h : Reachable w s) {i j : Nat} (hd : inDtor (s.pc i) = true) (hj : j < w.n)
    (hji : j ≠ i) : s.pc j = .done :=
  (inv_reachable hwf h).c.dtor i j hd hj hji

/-- Join is the same without values: `Set()` after the last consumption if nothing failed (or under None), else the
    failure of the first consumption to exchange the flag -/
theorem join_like_all {ff : Bool} (h : Reachable w s) (hs : w.strat = .join ff) :
    ∀ o, o ∈ s.outSet →
      (o = .unit ∧ (∀ j, j < w.n → holding (s.pc j) = false) ∧ (ff = false ∨ ∀ i, i < w.n → ok (w.inp i) = true)) ∨
      (ff = true ∧ ∃ k, s.rmwOrder.head? = some k ∧ k < w.n ∧ ok (w.inp k) = false ∧ o = .one (w.inp k)) := by
  have hwf : w.wf := wf_of_ne (by simp [hs])
  have hI := inv_reachable hwf h
  have hV := invv_reachable hwf h
  intro o ho
  have hne : s.outSet ≠ [] := fun h => by rw [h] at ho; cases ho
  cases hwin : s.win with
  | none =>
      left
      have hfin := all_finished_of_out_dtor hI.c hI.o hne hwin
      refine ⟨?_, hfin, ?_⟩
      · have := (hV.out_dtor o ho hwin).1
        rw [this]; simp [dtorExpected, hs]
      · cases ff with
        | false => exact Or.inl rfl
        | true =>
            right
            intro i hi
            cases hok : ok (w.inp i) with
            | true => rfl
            | false =>
                have hF := hI.f (by rw [hs]; rfl)
                have hfl := hF.flag_past i (past_of_not_holding (hfin i hi)) (Or.inl hok)
                exact absurd hwin (hF.flag_win.mp hfl)
  | some k =>
      right
      cases ff with
      | false =>
          have := hI.o.none_win (by rw [hs]; rfl)
          rw [hwin] at this; cases this
      | true =>
          have hF := hI.f (by rw [hs]; rfl)
          exact ⟨rfl, k, by rw [← hF.flag_head, hwin], win_lt hI.c hI.r hwin,
            hI.r.done_fail (by rw [hs]; rfl) k (hI.r.win_done k hwin), hV.out_win o ho k hwin⟩

/-- an empty input set: `When` returns `Future{nullptr}` — no combinator, no promise, nothing ever happens -/
theorem empty_is_invalid (hn : w.n = 0) (h : Reachable w s) : s = init w ∧ s.outSet = [] ∧ ∀ l s', ¬ Step w s l s' := by
  induction h with
  | init => exact ⟨rfl, rfl, fun l s' hs => no_step_of_empty (inv_init w) hn hs⟩
  | step hr hs ih => exact absurd hs (ih.2.2 _ _)

/-- the input whose consumption (or registration) a step belongs to -/
def actor : Label → Nat
  | .regSet i _ | .fire i | .retire i | .loadFlag i _ | .xchgFlag i _ | .load3 i _ | .xchg3 i _ | .cas3 i _ | .loadLf i _
  | .xchgLf i _ | .fsubLf i _ | .setOut i _ | .dec i _ | .dtorRel i _ | .dtorSet i _ | .dtorThrow i | .crash i => i

/-- no use after free: whenever a step touches the combinator (its callbacks, its strategy, its counter), the combinator
    still has a reference — the acting input's own — and no destructor has started, or the step IS the destructor's -/
theorem combinator_touched_only_while_alive (hwf : w.wf) (h : Reachable w s) {l : Label} {s' : State} (hs : Step w s l s') :
    (0 < s.count ∧ s.dt = none) ∨ s.dt = some (actor l) := by
  have hC := (inv_reachable hwf h).c
  have alive : ∀ i, holding (s.pc i) = true → i < w.n → 0 < s.count ∧ s.dt = none := by
    intro i hh hi
    have hpos : 0 < s.count := by rw [hC.count]; exact cnt_pos (p := fun j => holding (s.pc j)) hi hh
    refine ⟨hpos, ?_⟩
    cases hd : s.dt with
    | none => rfl
    | some k => have := hC.dt_cnt (by rw [hd]; simp); omega
  have byPc : ∀ i, s.pc i ≠ .unreg → s.pc i ≠ .done → (0 < s.count ∧ s.dt = none) ∨ s.dt = some i := by
    intro i hne hnd
    cases hh : holding (s.pc i) with
    | true => exact Or.inl (alive i hh (hC.idx hne))
    | false =>
        cases hd : inDtor (s.pc i) with
        | true => exact Or.inr (hC.dtor_dt i hd)
        | false => exact absurd (done_of_not_holding hh hd) hnd
  cases hs with
  | regSet i okb hc hb hr hn =>
      exact Or.inl (alive i (by rw [(hC.unreg i).mpr (by omega)]; rfl) hn)
  | fire i hc hp => exact byPc i (by rw [hp]; simp) (by rw [hp]; simp)
  | retire i hc hp => exact byPc i (by rw [hp]; simp) (by rw [hp]; simp)
  | loadFlag i b hc hp hs hb => exact byPc i (by rw [hp]; simp) (by rw [hp]; simp)
  | xchgFlag i hc hp hs => exact byPc i (by rw [hp]; simp) (by rw [hp]; simp)
  | setOut i o hc hp => exact byPc i (by rw [hp]; simp) (by rw [hp]; simp)
  | load3 i x hc hp hs hx => exact byPc i (by rw [hp]; simp) (by rw [hp]; simp)
  | xchg3 i hc hp hs hv => exact byPc i (by rw [hp]; simp) (by rw [hp]; simp)
  | cas3 i hc hp hs hv => exact byPc i (by rw [hp]; simp) (by rw [hp]; simp)
  | loadLf i d hc hp hs hd => exact byPc i (by rw [hp]; simp) (by rw [hp]; simp)
  | xchgLf i hc hp hs hv => exact byPc i (by rw [hp]; simp) (by rw [hp]; simp)
  | fsubLf i hc hp hs hv => exact byPc i (by rw [hp]; simp) (by rw [hp]; simp)
  | dec i store hc hp => exact byPc i (by rw [hp]; simp) (by rw [hp]; simp)
  | dtorRel i j hc hp => exact byPc i (by rw [hp]; simp) (by rw [hp]; simp)
  | dtorSet i o hc hp ho => exact byPc i (by rw [hp]; simp) (by rw [hp]; simp)
  | dtorThrow i hc hp ho => exact byPc i (by rw [hp]; simp) (by rw [hp]; simp)
  | crash i hc hp => rcases hp with hp | hp <;> exact byPc i (by rw [hp]; simp) (by rw [hp]; simp)

/-- the registration loop reads the combinator (`Register`, the address of the callback node) only for an input it has not
    registered yet, i.e. while that input's reference is still there -/
theorem registration_touches_live_combinator (hwf : w.wf) (h : Reachable w s) {i : Nat} {okb : Bool} {s' : State}
    (hs : Step w s (.regSet i okb) s') : 0 < s.count ∧ s.dt = none := by
  rcases combinator_touched_only_while_alive hwf h hs with h1 | h1
  · exact h1
  · exfalso
    have hC := (inv_reachable hwf h).c
    cases hs with
    | regSet _ _ hc hb hr hn =>
        have hp := (hC.unreg i).mpr (by omega)
        have := hC.dt_pc i h1
        rw [hp] at this; cases this

/-- … and after the last `SetCallback` the registering thread takes no further step on the combinator: from then on the
    last reference may be dropped by any completing thread (the loops of `Set` continue on locals only:
    `tie_DynamicCombinator_Set`, `tie_SingleCombinator_Set`, `tie_StaticCombinator_SetImpl`) -/
theorem registration_over_after_last_input (hr : s.reg = w.n) : ∀ i okb s', ¬ Step w s (.regSet i okb) s' := by
  intro i okb s' hs
  cases hs with
  | regSet _ _ hc hb hr' hn => omega

/-! ### callback nodes of the variadic form (Model/WhenNodes.lean): the assumption behind "input i's callback is entered
exactly once" for shared inputs — a SharedCore threads its subscriber list through the callback object -/

/-- `translate_index_v<i, Cores, SharedCores>` is the number of shared cores before position i … -/
theorem translate_index_is_rank (cores : List Nodes.CoreTy) (i : Nat) :
    Nodes.translateIndex i 0 cores (Nodes.sharedCores cores) = Nodes.rank cores i := Nodes.translate_rank cores i

/-- … hence two different shared inputs never share a callback node (ordered or unordered strategy, any mix of types),
    and the node exists in `callbacks.shared_tuple` -/
theorem shared_inputs_have_own_callback_node (ordered : Bool) (cores : List Nodes.CoreTy) {i j : Nat} {ci cj : Nodes.CoreTy}
    (hne : i ≠ j) (hi : cores[i]? = some ci) (hj : cores[j]? = some cj) (hsi : ci.shared = true) (hsj : cj.shared = true) :
    Nodes.staticNode ordered cores i ≠ Nodes.staticNode ordered cores j ∧
    ∃ k, Nodes.staticNode false cores i = .shared k ∧ k < (Nodes.sharedCores cores).length :=
  ⟨Nodes.shared_inputs_have_own_node ordered cores hne hi hj hsi hsj, Nodes.shared_node_exists cores hi hsi⟩

/-- looking a shared input's node up by core type (the way unique inputs do) would give two same-typed shared inputs ONE node -/
theorem node_lookup_by_type_violated_witness :
    Nodes.staticNodeByType [⟨true, 0⟩, ⟨true, 0⟩] 0 = Nodes.staticNodeByType [⟨true, 0⟩, ⟨true, 0⟩] 1 :=
  Nodes.lookup_by_type_shares_a_node.1

/-- the rank theorem speaks about positions among ALL shared cores, whatever their value types; a `TranslateIndexImpl` that does
    not consume the target tuple gives the two `Y` inputs of (Shared<X>, Shared<Y>, Shared<Y>) one slot -/
theorem translate_without_consuming_violated_witness :
    Nodes.translateIndexNoConsume 1 0 [⟨true, 0⟩, ⟨true, 1⟩, ⟨true, 1⟩] (Nodes.sharedCores [⟨true, 0⟩, ⟨true, 1⟩, ⟨true, 1⟩]) =
    Nodes.translateIndexNoConsume 2 0 [⟨true, 0⟩, ⟨true, 1⟩, ⟨true, 1⟩] (Nodes.sharedCores [⟨true, 0⟩, ⟨true, 1⟩, ⟨true, 1⟩]) :=
  Nodes.no_consume_shares_a_slot.1

/-- everything the trace validator accepts is a behaviour the theorems speak about -/
theorem validator_sound {l : Label} {s' : State} (h : Reachable w s) (hn : next w s l = some s') : Reachable w s' :=
  .step h (next_sound hn)

/-- **no strategy step crashes**, for every strategy: no consumption ever reaches a throwing state, no destructor throws
    (`Retire().Value()` in `~All<FirstFail>` only runs when no input failed; `~Any<FirstFail>` always finds a saved failure;
    a failing consumption that lost the flag does nothing more). -/
theorem no_crash (hwf : w.wf) (h : Reachable w s) :
    s.crashed = false ∧ ∀ i, s.pc i ≠ .boom ∧ s.pc i ≠ .dboom := by
  have hB := invb_reachable hwf h
  exact ⟨hB.not_crashed, fun i => ⟨hB.no_boom i, hB.no_dboom i⟩⟩

/- Defect D2 of the pinned tree, fixed by /repo 2b9a400; exhibited by this check before the fix: scenario
   `when kind=alltuple policy=firstfail n=2 pattern=E,E shape=u,u form=static api=WhenAll(u0,u1)`, every schedule
   (`AllTuple<FirstFail>::Consume` ran `std::forward<Result>(result).Value()` on a second failing input, after the first
   failure took the flag: `std::bad_variant_access` inside a noexcept function ⇒ `std::terminate`).  The model then had
   `lose (.allTuple true) = .boom` and this file proved

     theorem no_crash_violated_witness :
         ∃ s, Reachable ⟨.allTuple true, [.err 0, .err 1]⟩ s ∧ s.crashed = true ∧ s.outSet = [.one (.err 0)]
     -- run: regSet 0 true, regSet 1 true, fire 0, retire 0, loadFlag 0 false, xchgFlag 0 false, setOut 0 (one (err 0)),
     --      fire 1, retire 1, loadFlag 1 true, crash 1

   together with `no_crash_partial` (every strategy except the tuple form with FirstFail). -/

/-- the tuple form with FirstFail and two failing inputs (the former D2 scenario): the second failure loses the flag,
    stores nothing, and the run completes with the first failure as output -/
example : ∃ s, Reachable ⟨.allTuple true, [.err 0, .err 1]⟩ s ∧ s.crashed = false ∧ s.outSet = [.one (.err 0)] ∧
    s.pc 0 = .done ∧ s.pc 1 = .done ∧ s.released 0 = 1 ∧ s.released 1 = 1 := by
  let w : Workload := ⟨.allTuple true, [.err 0, .err 1]⟩
  have h0 : Reachable w (init w) := .init
  have h1 := validator_sound h0 (l := .regSet 0 true) (s' := _) rfl
  have h2 := validator_sound h1 (l := .regSet 1 true) (s' := _) rfl
  have h3 := validator_sound h2 (l := .fire 0) (s' := _) rfl
  have h4 := validator_sound h3 (l := .retire 0) (s' := _) rfl
  have h5 := validator_sound h4 (l := .loadFlag 0 false) (s' := _) rfl
  have h6 := validator_sound h5 (l := .xchgFlag 0 false) (s' := _) rfl
  have h7 := validator_sound h6 (l := .setOut 0 (.one (.err 0))) (s' := _) rfl
  have h8 := validator_sound h7 (l := .fire 1) (s' := _) rfl
  have h9 := validator_sound h8 (l := .retire 1) (s' := _) rfl
  have h10 := validator_sound h9 (l := .loadFlag 1 true) (s' := _) rfl
  have h11 := validator_sound h10 (l := .dec 1 2) (s' := _) rfl
  have h12 := validator_sound h11 (l := .dec 0 1) (s' := _) rfl
  exact ⟨_, h12, rfl, rfl, rfl, rfl, rfl, rfl⟩

/-! ### inputs as real unique cores (Model/WhenCompose.lean): the interface of the When model is a theorem, not an assumption

`WhenU` = the When model composed with n instances of the C01 model (Model/Unique.lean), one per input: the combinator's
`SetCallback` on input i is instance i's consumer (`load`, `compare_exchange`), the input's completion is instance i's
producer (`exchange`), and "the callback of input i is entered" is instance i's `invoke` event.  The interleavings INSIDE
`SetCallback` / `Promise::Set` of every input, which the When model's `regSet` / `fire` steps hide, are all there. -/

section Composed
open Yaclib
variable {S : WhenU.State}

/-- **the interface is sound**: the When component of every reachable state of the composed system is a reachable state of
    the When model (each `regSet` / `fire` it took was enabled when the input instance produced it); the callback entries it
    counted are exactly instance i's continuation deliveries: at most one, carrying input i's outcome -/
theorem input_interface_sound (hwf : w.wf) (h : WhenU.Reachable w S) :
    Reachable w S.wh ∧
    ∀ i, S.wh.consumed i = (S.u i).delivered.length ∧ (S.u i).delivered.length ≤ 1 ∧
      ∀ x, x ∈ (S.u i).delivered → x.2 = WhenU.conv (w.inp i) := by
  obtain ⟨hW, hK⟩ := WhenU.sim hwf h
  refine ⟨hW, fun i => ⟨hK.entries i, ?_, ?_⟩⟩
  · have hI := Unique.inv_reachable (WhenU.unique_reachable h i).1
    rcases hI.delivered_one with h0 | h1
    · simp [h0]
    · omega
  · exact (Unique.inv_reachable (WhenU.unique_reachable h i).1).delivered_val

/-- the registering thread enters the callback inline only for the input the loop is at, only when that input's word already
    held the result (`SetCallback` returned false), and with that input's outcome -/
theorem callback_entered_inline_only_if_complete (h : WhenU.Reachable w S) {i : Nat} {r : Unique.Res} {S' : WhenU.State}
    (hs : WhenU.Step w S (.enterC i r) S') :
    (S.u i).word = .result ∧ r = WhenU.conv (w.inp i) ∧ S.wh.reg = i ∧ (S.u i).delivered = [] := by
  have hI := Unique.inv_reachable (WhenU.unique_reachable h i).1
  have hk := (WhenU.unique_reachable h i).2
  cases hs with
  | enterC _ _ u' hr hu =>
      cases hu with
      | cInvoke r' hp hv hst =>
          refine ⟨(hI.c_after (Or.inl ⟨_, hp⟩)).1, (hI.stored_val r hst).1, hr.1, ?_⟩
          rcases hI.delivered_one with h0 | h1
          · exact h0
          · rw [h1.2.1.1] at hp; cases hp
      | cInvokeSub r' hp hst => have := hk.cpc; rw [hp] at this; simp at this

/-- the completing thread enters the callback only after it was installed (the When model is waiting: `pending`), after the
    result was stored, with that input's outcome -/
theorem callback_entered_by_completer_only_if_installed (hwf : w.wf) (h : WhenU.Reachable w S) {i : Nat} {r : Unique.Res}
    {S' : WhenU.State} (hs : WhenU.Step w S (.enterP i r) S') :
    S.wh.pc i = .pending ∧ (S.u i).stored = some r ∧ r = WhenU.conv (w.inp i) ∧ (S.u i).delivered = [] := by
  have hI := Unique.inv_reachable (WhenU.unique_reachable h i).1
  have hk := (WhenU.unique_reachable h i).2
  have hK := (WhenU.sim hwf h).2
  cases hs with
  | enterP _ _ u' hi hu =>
      cases hu with
      | pInvoke r' hp hv hst =>
          refine ⟨hK.fire_pending i hp, hst, (hI.stored_val r hst).1, ?_⟩
          rcases hI.delivered_one with h0 | h1
          · exact h0
          · rw [h1.2.2] at hp; cases hp
      | pInvokeSub r' hp hst => have := hk.ppc; rw [hp] at this; simp at this

/-- nothing is lost in the composed system: when no thread can move, every promise was fulfilled, every `SetCallback`
    returned, every callback was entered exactly once, every input was released exactly once, the output was set exactly once -/
theorem quiescent_complete_composed (hwf : w.wf) (hn : w.n ≠ 0) (h : WhenU.Reachable w S)
    (hq : ∀ l S', ¬ WhenU.Step w S l S') :
    S.wh.outSet.length = 1 ∧ S.wh.crashed = false ∧
    ∀ i, i < w.n → S.wh.pc i = .done ∧ S.wh.released i = 1 ∧ (S.u i).delivered.length = 1 ∧ (S.u i).ppc = .done ∧
      (S.u i).todo = [] := by
  obtain ⟨hW, hK⟩ := WhenU.sim hwf h
  obtain ⟨hqw, _, hinst⟩ := WhenU.quiescent_parts hwf h hq
  have hI := inv_reachable hwf hW
  have hcr := (invb_reachable hwf hW).not_crashed
  have hd := done_of_quiescent hI.c hcr hqw
  have hc := complete_of_all_done hI.c hI.o hn hd
  refine ⟨hc.1, hcr, fun i hi => ⟨hd i hi, (hc.2 i hi).2, ?_, (hinst i hi).1, (hinst i hi).2.1⟩⟩
  rw [← hK.entries i]; exact (hc.2 i hi).1

/-- every safety theorem of this file applies to the composed system through `input_interface_sound`; for instance: -/
theorem out_set_once_composed (hwf : w.wf) (h : WhenU.Reachable w S) : S.wh.outSet.length ≤ 1 :=
  out_set_once hwf (input_interface_sound hwf h).1

theorem no_crash_composed (hwf : w.wf) (h : WhenU.Reachable w S) : S.wh.crashed = false :=
  (no_crash hwf (input_interface_sound hwf h).1).1

theorem all_none_in_index_order_composed {ff : Bool} (h : WhenU.Reachable w S)
    (hs : w.strat = .allVec ff ∨ w.strat = .allTuple ff) (hok : ff = false ∨ ∀ i, i < w.n → ok (w.inp i) = true) :
    ∀ o, o ∈ S.wh.outSet → o = .vec (w.inputs.map some) ∧ ∀ j, j < w.n → holding (S.wh.pc j) = false :=
  all_none_at_last_in_index_order
    (input_interface_sound (wf_of_ne (by rcases hs with hs | hs <;> simp [hs])) h).1 hs hok

theorem composed_validator_sound {l : WhenU.Label} {S' : WhenU.State} (h : WhenU.Reachable w S)
    (hn : WhenU.next w S l = some S') : WhenU.Reachable w S' := .step h (WhenU.next_sound hn)

/-- non-vacuity (n = 2, driven through the components' `next`): input 0 is complete before the registration reaches it
    (its `SetCallback` loads `result`, the callback is entered inline), input 1 gets its callback installed and is completed
    later by its own thread; the vector comes out in index order -/
example : ∃ S, WhenU.Reachable ⟨.allVec false, [.val 0, .val 1]⟩ S ∧
    S.wh.outSet = [.vec [some (.val 0), some (.val 1)]] ∧ (S.u 0).delivered = [(.c, .val 0)] ∧
    (S.u 1).delivered = [(.p, .val 1)] := by
  let w : Workload := ⟨.allVec false, [.val 0, .val 1]⟩
  have h0 : WhenU.Reachable w (WhenU.init w) := .init
  have h1 := composed_validator_sound h0 (l := .prod 0 .empty) (S' := _) rfl
  have h2 := composed_validator_sound h1 (l := .cload 0 .result) (S' := _) rfl
  have h3 := composed_validator_sound h2 (l := .enterC 0 (.val 0)) (S' := _) rfl
  have h4 := composed_validator_sound h3 (l := .when (.dec 0 2)) (S' := _) rfl
  have h5 := composed_validator_sound h4 (l := .cload 1 .empty) (S' := _) rfl
  have h6 := composed_validator_sound h5 (l := .casOk 1) (S' := _) rfl
  have h7 := composed_validator_sound h6 (l := .prod 1 (.cb .cont)) (S' := _) rfl
  have h8 := composed_validator_sound h7 (l := .enterP 1 (.val 1)) (S' := _) rfl
  have h9 := composed_validator_sound h8 (l := .when (.dec 1 1)) (S' := _) rfl
  have h10 := composed_validator_sound h9 (l := .when (.dtorRel 1 0)) (S' := _) rfl
  have h11 := composed_validator_sound h10 (l := .when (.dtorRel 1 1)) (S' := _) rfl
  have h12 := composed_validator_sound h11
    (l := .when (.dtorSet 1 (.vec [some (.val 0), some (.val 1)]))) (S' := _) rfl
  exact ⟨_, h12, rfl, rfl, rfl⟩

end Composed

/-! ### inputs as real shared cores (Model/WhenComposeShared.lean): the entry interface is a theorem for SharedFuture inputs too

`WhenS` = the When model composed with n instances of the C06 model (Model/Shared.lean): observer 0 of instance i is the
combinator's registration (`[attach .retire]`), ANY number of other observers with arbitrary programs (earlier subscribers,
kept copies, waiters, other combinators) run freely.  Only the ENTRY of the combinator callback is synchronised; `Retire()` of
the entered callback is a free step of the instance (what it does: C06 `retire_moves_only_as_sole_owner`). -/

section ComposedShared
open Yaclib
variable {W : WhenS.Workload} {T : WhenS.State}

/-- **the entry interface is sound for shared inputs**: the When part of every reachable `WhenS` state is When-reachable; the
    callback entries it counted are exactly the times instance i fired the combinator callback: at most once (C06
    `fired_once`), and whatever fired on that core saw input i's outcome (C06 `fired_after_store`) -/
theorem shared_input_interface_sound (hwf : W.w.wf) (h : WhenS.Reachable W T) :
    Reachable W.w T.wh ∧
    ∀ i, T.wh.consumed i = (Shared.firedIds (T.sh i)).count WhenS.cb0 ∧ (Shared.firedIds (T.sh i)).count WhenS.cb0 ≤ 1 ∧
      ∀ x, x ∈ (T.sh i).fired → x.2 = some (WhenS.convS (W.w.inp i)) := by
  obtain ⟨hW, hK⟩ := WhenS.sim hwf h
  refine ⟨hW, fun i => ⟨hK.entries i, ?_, ?_⟩⟩
  · have hI := Shared.inv_reachable (WhenS.shared_reachable h i).1
    have h1 := hI.c.conserve WhenS.cb0
    have h2 := hI.c.nodup WhenS.cb0
    omega
  · exact (Shared.inv_reachable (WhenS.shared_reachable h i).1).a.fired_val

/-- the registering thread enters the callback inline only for the input the loop is at, only after that input was fulfilled
    (`SetCallbackImpl<true>` saw `kResult`), and it is the first entry -/
theorem shared_callback_entered_inline_only_if_complete (h : WhenS.Reachable W T) {i : Nat} {T' : WhenS.State}
    (hs : WhenS.Step W T (.enterC i) T') :
    (T.sh i).word = .result ∧ (T.sh i).stored = some (WhenS.convS (W.w.inp i)) ∧ T.wh.reg = i ∧
    (Shared.firedIds (T.sh i)).count WhenS.cb0 = 0 := by
  have hU := WhenS.shared_reachable h i
  have hI := Shared.inv_reachable hU.1
  cases hs with
  | enterC _ s' hr hu =>
      obtain ⟨_, _, _, f4, _, _, f7⟩ := WhenS.enterC_frame hI hU.2 hu
      refine ⟨hI.a.word_iff.mpr f7, ?_, hr.1, f4⟩
      rw [hI.a.stored_eq, if_neg f7]; rfl

/-- the fulfiller's walk enters the callback only after it was installed (the When model is `pending`), with the stored
    outcome of that input, and it is the first entry -/
theorem shared_callback_entered_by_completer_only_if_installed (hwf : W.w.wf) (h : WhenS.Reachable W T) {i : Nat}
    {T' : WhenS.State} (hs : WhenS.Step W T (.enterP i) T') :
    T.wh.pc i = .pending ∧ (T.sh i).stored = some (WhenS.convS (W.w.inp i)) ∧
    (Shared.firedIds (T.sh i)).count WhenS.cb0 = 0 := by
  have hU := WhenS.shared_reachable h i
  have hI := Shared.inv_reachable hU.1
  have hK := (WhenS.sim hwf h).2
  cases hs with
  | enterP _ s' hi hu =>
      obtain ⟨_, f2, _, _, f5, _, f7⟩ := WhenS.enterP_frame hI hU.2 hu
      exact ⟨hK.lists_pending i f2, f7, f5⟩

theorem out_set_once_shared (hwf : W.w.wf) (h : WhenS.Reachable W T) : T.wh.outSet.length ≤ 1 :=
  out_set_once hwf (shared_input_interface_sound hwf h).1

theorem no_crash_shared (hwf : W.w.wf) (h : WhenS.Reachable W T) : T.wh.crashed = false :=
  (no_crash hwf (shared_input_interface_sound hwf h).1).1

theorem inputs_consumed_once_shared (hwf : W.w.wf) (h : WhenS.Reachable W T) :
    ∀ i, T.wh.consumed i ≤ 1 ∧ T.wh.released i ≤ 1 :=
  inputs_consumed_once hwf (shared_input_interface_sound hwf h).1

theorem shared_validator_sound {l : WhenS.Label} {T' : WhenS.State} (h : WhenS.Reachable W T)
    (hn : WhenS.next W T l = some T') : WhenS.Reachable W T' := .step h (WhenS.next_sound hn)

/-- non-vacuity (n = 2 SharedFuture inputs, driven through the components' `next`): input 1 already has another subscriber
    (observer 1: `SubscribeInline`) when the combinator registers; input 1 completes first — its walk enters the combinator
    callback, then runs the subscriber with input 1's value —, input 0 afterwards; the vector comes out in index order -/
example : ∃ T, WhenS.Reachable ⟨⟨.allVec false, [.val 0, .val 1]⟩, fun i => if i = 1 then [[.attach .inl]] else []⟩ T ∧
    T.wh.outSet = [.vec [some (.val 0), some (.val 1)]] ∧
    (T.sh 1).fired = [(WhenS.cb0, some (.val 1)), (⟨1, 0, .inl⟩, some (.val 1))] ∧
    (T.sh 0).fired = [(WhenS.cb0, some (.val 0))] := by
  let W : WhenS.Workload := ⟨⟨.allVec false, [.val 0, .val 1]⟩, fun i => if i = 1 then [[.attach .inl]] else []⟩
  let sub : Shared.Cb := ⟨1, 0, .inl⟩
  have h0 : WhenS.Reachable W (WhenS.init W) := .init
  have h1 := shared_validator_sound h0 (l := .free 1 (.oLoad 1 (.list []))) (T' := _) rfl
  have h2 := shared_validator_sound h1 (l := .free 1 (.oCasOk 1)) (T' := _) rfl
  have h3 := shared_validator_sound h2 (l := .reg 0 (.oLoad 0 (.list []))) (T' := _) rfl
  have h4 := shared_validator_sound h3 (l := .casOk 0) (T' := _) rfl
  have h5 := shared_validator_sound h4 (l := .reg 1 (.oLoad 0 (.list [sub]))) (T' := _) rfl
  have h6 := shared_validator_sound h5 (l := .casOk 1) (T' := _) rfl
  have h7 := shared_validator_sound h6 (l := .free 1 (.fXchg (.list [WhenS.cb0, sub]))) (T' := _) rfl
  have h8 := shared_validator_sound h7 (l := .enterP 1) (T' := _) rfl
  have h9 := shared_validator_sound h8 (l := .when (.dec 1 2)) (T' := _) rfl
  have h10 := shared_validator_sound h9 (l := .free 1 (.fDec 5)) (T' := _) rfl
  have h11 := shared_validator_sound h10 (l := .free 1 (.fInvoke sub (some (.val 1)))) (T' := _) rfl
  have h12 := shared_validator_sound h11 (l := .free 0 (.fXchg (.list [WhenS.cb0]))) (T' := _) rfl
  have h13 := shared_validator_sound h12 (l := .free 0 (.fDec 4)) (T' := _) rfl
  have h14 := shared_validator_sound h13 (l := .enterP 0) (T' := _) rfl
  have h15 := shared_validator_sound h14 (l := .when (.dec 0 1)) (T' := _) rfl
  have h16 := shared_validator_sound h15 (l := .when (.dtorRel 0 0)) (T' := _) rfl
  have h17 := shared_validator_sound h16 (l := .when (.dtorRel 0 1)) (T' := _) rfl
  have h18 := shared_validator_sound h17
    (l := .when (.dtorSet 0 (.vec [some (.val 0), some (.val 1)]))) (T' := _) rfl
  exact ⟨_, h18, rfl, rfl, rfl⟩

end ComposedShared

/-! ### packs mixing unique and shared inputs (Model/WhenComposeMixed.lean): `WhenM`, instance i a C01 unique core or a C06
shared core with other observers, chosen by the workload; the synchronised steps are the union of WhenU's and WhenS's -/

section ComposedMixed
open Yaclib
variable {M : WhenM.Workload} {R : WhenM.State}

/-- **the entry interface is sound for mixed packs**: the When part is When-reachable; per input the callback entries the
    When model counted are the deliveries of the unique instance / the times the shared instance fired the combinator
    callback, at most one -/
theorem mixed_input_interface_sound (hwf : M.w.wf) (h : WhenM.Reachable M R) :
    Reachable M.w R.wh ∧
    (∀ i, M.kind i = false → R.wh.consumed i = (R.u i).delivered.length ∧ (R.u i).delivered.length ≤ 1) ∧
    (∀ i, M.kind i = true → R.wh.consumed i = (Shared.firedIds (R.sh i)).count WhenS.cb0 ∧
      (Shared.firedIds (R.sh i)).count WhenS.cb0 ≤ 1) := by
  obtain ⟨hW, hK⟩ := WhenM.sim hwf h
  refine ⟨hW, fun i hk => ⟨hK.u_entries i hk, ?_⟩, fun i hk => ⟨hK.s_entries i hk, ?_⟩⟩
  · have hI := Unique.inv_reachable (WhenM.parts_reachable h i).1.1
    rcases hI.delivered_one with h0 | h1
    · simp [h0]
    · omega
  · have hI := Shared.inv_reachable (WhenM.parts_reachable h i).2.1
    have h1 := hI.c.conserve WhenS.cb0
    have h2 := hI.c.nodup WhenS.cb0
    omega

theorem out_set_once_mixed (hwf : M.w.wf) (h : WhenM.Reachable M R) : R.wh.outSet.length ≤ 1 :=
  out_set_once hwf (mixed_input_interface_sound hwf h).1

theorem no_crash_mixed (hwf : M.w.wf) (h : WhenM.Reachable M R) : R.wh.crashed = false :=
  (no_crash hwf (mixed_input_interface_sound hwf h).1).1

/-- non-vacuity (n = 2, driven through the components' `next`): input 0 is a Future, input 1 a SharedFuture that already has
    a `SubscribeInline` subscriber; input 1 completes first (its walk enters the combinator callback, then runs the
    subscriber), input 0 afterwards; the vector comes out in index order -/
example : ∃ R, WhenM.Reachable ⟨⟨.allVec false, [.val 0, .val 1]⟩, fun i => decide (i = 1),
      fun i => if i = 1 then [[.attach .inl]] else []⟩ R ∧
    R.wh.outSet = [.vec [some (.val 0), some (.val 1)]] ∧ (R.u 0).delivered = [(.p, .val 0)] ∧
    (R.sh 1).fired = [(WhenS.cb0, some (.val 1)), (⟨1, 0, .inl⟩, some (.val 1))] := by
  let M : WhenM.Workload := ⟨⟨.allVec false, [.val 0, .val 1]⟩, fun i => decide (i = 1),
    fun i => if i = 1 then [[.attach .inl]] else []⟩
  let sub : Shared.Cb := ⟨1, 0, .inl⟩
  have h0 : WhenM.Reachable M (WhenM.init M) := .init
  have h1 := WhenM.Reachable.step h0 (.sfree _ 1 (.oLoad 1 (.list [])) _ rfl (by decide) rfl (Shared.next_sound rfl))
  have h2 := WhenM.Reachable.step h1 (.sfree _ 1 (.oCasOk 1) _ rfl (by decide) rfl (Shared.next_sound rfl))
  have h3 := WhenM.Reachable.step h2 (.ucload _ 0 .empty _ rfl ⟨rfl, rfl, by decide, rfl⟩ (Unique.next_sound rfl))
  have h4 := WhenM.Reachable.step h3 (.ucasOk _ 0 _ rfl ⟨rfl, rfl, by decide, rfl⟩ (Unique.next_sound rfl))
  have h5 := WhenM.Reachable.step h4
    (.sreg _ 1 (.oLoad 0 (.list [sub])) _ rfl ⟨rfl, rfl, by decide, rfl⟩ rfl (Shared.next_sound rfl))
  have h6 := WhenM.Reachable.step h5 (.scasOk _ 1 _ rfl ⟨rfl, rfl, by decide, rfl⟩ (Shared.next_sound rfl))
  have h7 := WhenM.Reachable.step h6
    (.sfree _ 1 (.fXchg (.list [WhenS.cb0, sub])) _ rfl (by decide) rfl (Shared.next_sound rfl))
  have h8 := WhenM.Reachable.step h7 (.senterP _ 1 _ rfl (by decide) (Shared.next_sound rfl))
  have h9 := WhenM.Reachable.step h8 (.when _ (.dec 1 2) _ rfl (next_sound rfl))
  have h10 := WhenM.Reachable.step h9 (.sfree _ 1 (.fDec 5) _ rfl (by decide) rfl (Shared.next_sound rfl))
  have h11 := WhenM.Reachable.step h10
    (.sfree _ 1 (.fInvoke sub (some (.val 1))) _ rfl (by decide) rfl (Shared.next_sound rfl))
  have h12 := WhenM.Reachable.step h11 (.uprod _ 0 (.cb .cont) _ rfl (by decide) (Unique.next_sound rfl))
  have h13 := WhenM.Reachable.step h12 (.uenterP _ 0 (.val 0) _ rfl (by decide) (Unique.next_sound rfl))
  have h14 := WhenM.Reachable.step h13 (.when _ (.dec 0 1) _ rfl (next_sound rfl))
  have h15 := WhenM.Reachable.step h14 (.when _ (.dtorRel 0 0) _ rfl (next_sound rfl))
  have h16 := WhenM.Reachable.step h15 (.when _ (.dtorRel 0 1) _ rfl (next_sound rfl))
  have h17 := WhenM.Reachable.step h16
    (.when _ (.dtorSet 0 (.vec [some (.val 0), some (.val 1)])) _ rfl (next_sound rfl))
  exact ⟨_, h17, rfl, rfl, rfl⟩

end ComposedMixed

/-! ### non-vacuity: concrete workloads reach the interesting states -/

/-- vector form, FirstFail, [value, failure]: input 1 fails first and wins; the output is set while input 0 is still
    pending; input 0 is consumed and released afterwards; the last one releases the cores -/
example : ∃ s, Reachable ⟨.allVec true, [.val 0, .exc 1]⟩ s ∧ s.outSet = [.one (.exc 1)] ∧
    s.released 0 = 1 ∧ s.released 1 = 1 ∧ s.pc 0 = .done ∧ s.pc 1 = .done := by
  let w : Workload := ⟨.allVec true, [.val 0, .exc 1]⟩
  have h0 : Reachable w (init w) := .init
  have h1 := validator_sound h0 (l := .regSet 0 true) (s' := _) rfl
  have h2 := validator_sound h1 (l := .regSet 1 false) (s' := _) rfl       -- input 1 already complete: consumed inline
  have h3 := validator_sound h2 (l := .loadFlag 1 false) (s' := _) rfl
  have h4 := validator_sound h3 (l := .xchgFlag 1 false) (s' := _) rfl
  have h5 := validator_sound h4 (l := .setOut 1 (.one (.exc 1))) (s' := _) rfl   -- input 0 still pending here
  have h6 := validator_sound h5 (l := .dec 1 2) (s' := _) rfl
  have h7 := validator_sound h6 (l := .fire 0) (s' := _) rfl
  have h8 := validator_sound h7 (l := .dec 0 1) (s' := _) rfl
  have h9 := validator_sound h8 (l := .dtorRel 0 0) (s' := _) rfl
  have h10 := validator_sound h9 (l := .dtorRel 0 1) (s' := _) rfl
  exact ⟨_, h10, rfl, rfl, rfl, rfl, rfl⟩

/-- tuple form, None: completion order 1, 0 — slots still in index order -/
example : ∃ s, Reachable ⟨.allTuple false, [.val 0, .err 1]⟩ s ∧ s.outSet = [.vec [some (.val 0), some (.err 1)]] := by
  let w : Workload := ⟨.allTuple false, [.val 0, .err 1]⟩
  have h0 : Reachable w (init w) := .init
  have h1 := validator_sound h0 (l := .regSet 0 true) (s' := _) rfl
  have h2 := validator_sound h1 (l := .regSet 1 true) (s' := _) rfl
  have h3 := validator_sound h2 (l := .fire 1) (s' := _) rfl
  have h4 := validator_sound h3 (l := .retire 1) (s' := _) rfl
  have h5 := validator_sound h4 (l := .dec 1 2) (s' := _) rfl
  have h6 := validator_sound h5 (l := .fire 0) (s' := _) rfl
  have h7 := validator_sound h6 (l := .retire 0) (s' := _) rfl
  have h8 := validator_sound h7 (l := .dec 0 1) (s' := _) rfl
  have h9 := validator_sound h8 (l := .dtorSet 0 (.vec [some (.val 0), some (.err 1)])) (s' := _) rfl
  exact ⟨_, h9, rfl⟩

/-- Join, FirstFail, a stale flag load: both inputs fail, the second one still reads `false` but loses the exchange -/
example : ∃ s, Reachable ⟨.join true, [.err 0, .err 1]⟩ s ∧ s.outSet = [.one (.err 1)] ∧ s.rmwOrder = [1, 0] := by
  let w : Workload := ⟨.join true, [.err 0, .err 1]⟩
  have h0 : Reachable w (init w) := .init
  have h1 := validator_sound h0 (l := .regSet 0 true) (s' := _) rfl
  have h2 := validator_sound h1 (l := .regSet 1 true) (s' := _) rfl
  have h3 := validator_sound h2 (l := .fire 0) (s' := _) rfl
  have h4 := validator_sound h3 (l := .fire 1) (s' := _) rfl
  have h5 := validator_sound h4 (l := .retire 0) (s' := _) rfl
  have h6 := validator_sound h5 (l := .retire 1) (s' := _) rfl
  have h7 := validator_sound h6 (l := .loadFlag 1 false) (s' := _) rfl
  have h8 := validator_sound h7 (l := .xchgFlag 1 false) (s' := _) rfl
  have h9 := validator_sound h8 (l := .loadFlag 0 false) (s' := _) rfl     -- stale
  have h10 := validator_sound h9 (l := .xchgFlag 0 true) (s' := _) rfl
  have h11 := validator_sound h10 (l := .setOut 1 (.one (.err 1))) (s' := _) rfl
  exact ⟨_, h11, rfl, rfl⟩

end Yaclib.Props.C09

/-! ### tie to the source (T2): the kernels this model was written from are unchanged.
`Extracted/Kernels.lean` is regenerated from /repo on every check run. -/
namespace Yaclib.Props.C09.Tie
open Yaclib

theorem tie_When : Extracted.Kernels.When_When = Skeletons.When_When := rfl
theorem tie_Consume : Extracted.Kernels.When_Consume = Skeletons.When_Consume := rfl
theorem tie_ConsumeImpl : Extracted.Kernels.When_ConsumeImpl = Skeletons.When_ConsumeImpl := rfl
theorem tie_CombinatorCallback_Impl :
    Extracted.Kernels.When_CombinatorCallback_Impl = Skeletons.When_CombinatorCallback_Impl := rfl
theorem tie_SingleCombinator_Set : Extracted.Kernels.When_SingleCombinator_Set = Skeletons.When_SingleCombinator_Set := rfl
theorem tie_SingleCombinator_SetCore :
    Extracted.Kernels.When_SingleCombinator_SetCore = Skeletons.When_SingleCombinator_SetCore := rfl
theorem tie_SingleCombinator_Impl : Extracted.Kernels.When_SingleCombinator_Impl = Skeletons.When_SingleCombinator_Impl := rfl
theorem tie_StaticCombinator_SetCore :
    Extracted.Kernels.When_StaticCombinator_SetCore = Skeletons.When_StaticCombinator_SetCore := rfl
theorem tie_StaticCombinator_SetImpl :
    Extracted.Kernels.When_StaticCombinator_SetImpl = Skeletons.When_StaticCombinator_SetImpl := rfl
theorem tie_StaticCombinator_Set : Extracted.Kernels.When_StaticCombinator_Set = Skeletons.When_StaticCombinator_Set := rfl
theorem tie_DynamicCombinator_Set : Extracted.Kernels.When_DynamicCombinator_Set = Skeletons.When_DynamicCombinator_Set := rfl
theorem tie_All_Register : Extracted.Kernels.WhenAll_Register = Skeletons.WhenAll_Register := rfl
theorem tie_All_Consume : Extracted.Kernels.WhenAll_Consume = Skeletons.WhenAll_Consume := rfl
theorem tie_All_dtor_None : Extracted.Kernels.WhenAll_dtor_None = Skeletons.WhenAll_dtor_None := rfl
theorem tie_All_dtor_FirstFail : Extracted.Kernels.WhenAll_dtor_FirstFail = Skeletons.WhenAll_dtor_FirstFail := rfl
theorem tie_AllTuple_Consume : Extracted.Kernels.WhenAllTuple_Consume = Skeletons.WhenAllTuple_Consume := rfl
theorem tie_AllTuple_dtor_None : Extracted.Kernels.WhenAllTuple_dtor_None = Skeletons.WhenAllTuple_dtor_None := rfl
theorem tie_AllTuple_dtor_FirstFail :
    Extracted.Kernels.WhenAllTuple_dtor_FirstFail = Skeletons.WhenAllTuple_dtor_FirstFail := rfl
theorem tie_Join_Consume : Extracted.Kernels.WhenJoin_Consume = Skeletons.WhenJoin_Consume := rfl
theorem tie_Join_dtor_None : Extracted.Kernels.WhenJoin_dtor_None = Skeletons.WhenJoin_dtor_None := rfl
theorem tie_Join_dtor_FirstFail : Extracted.Kernels.WhenJoin_dtor_FirstFail = Skeletons.WhenJoin_dtor_FirstFail := rfl
theorem tie_WhenAll_front : Extracted.Kernels.WhenAll_front = Skeletons.WhenAll_front := rfl
theorem tie_Join_front : Extracted.Kernels.Join_front = Skeletons.Join_front := rfl
theorem tie_AtomicCounter_SubEqual : Extracted.Kernels.AtomicCounter_SubEqual = Skeletons.AtomicCounter_SubEqual := rfl
theorem tie_Helper_DecRef : Extracted.Kernels.Helper_DecRef = Skeletons.Helper_DecRef := rfl
theorem tie_GetCallbackHelper :
    Extracted.Kernels.When_StaticCombinator_GetCallbackHelper = Skeletons.When_StaticCombinator_GetCallbackHelper := rfl
theorem tie_StaticCombinator_InitImpl :
    Extracted.Kernels.When_StaticCombinator_InitImpl = Skeletons.When_StaticCombinator_InitImpl := rfl
theorem tie_CombinatorCallback_Here : Extracted.Kernels.When_CombinatorCallback_Here = Skeletons.When_CombinatorCallback_Here := rfl
theorem tie_SingleCombinator_Here : Extracted.Kernels.When_SingleCombinator_Here = Skeletons.When_SingleCombinator_Here := rfl
theorem tie_TranslateIndexImpl_Index :
    Extracted.Kernels.TypeTraits_TranslateIndexImpl_Index = Skeletons.TypeTraits_TranslateIndexImpl_Index := rfl
theorem tie_IndexOf_Index : Extracted.Kernels.TypeTraits_IndexOf_Index = Skeletons.TypeTraits_IndexOf_Index := rfl
/-! whole-declaration source ties (comments and white space dropped): policy constants, callback tuples and node lookup
    (`translate_index_v` vs `index_of_v`), the alias that selects the combinator type, member initialisers, metafunctions -/
theorem tie_src_when_hpp : Extracted.Kernels.WhenSrc_when_hpp = Skeletons.WhenSrc_when_hpp := rfl
theorem tie_src_combinator_strategy_hpp :
    Extracted.Kernels.WhenSrc_combinator_strategy_hpp = Skeletons.WhenSrc_combinator_strategy_hpp := rfl
theorem tie_src_fail_policy_hpp : Extracted.Kernels.WhenSrc_fail_policy_hpp = Skeletons.WhenSrc_fail_policy_hpp := rfl
theorem tie_src_type_traits_inputs : Extracted.Kernels.WhenSrc_type_traits_inputs = Skeletons.WhenSrc_type_traits_inputs := rfl
theorem tie_src_type_traits_tuples : Extracted.Kernels.WhenSrc_type_traits_tuples = Skeletons.WhenSrc_type_traits_tuples := rfl
theorem tie_src_all_hpp : Extracted.Kernels.WhenSrc_all_hpp = Skeletons.WhenSrc_all_hpp := rfl
theorem tie_src_all_tuple_hpp : Extracted.Kernels.WhenSrc_all_tuple_hpp = Skeletons.WhenSrc_all_tuple_hpp := rfl
theorem tie_src_join_hpp : Extracted.Kernels.WhenSrc_join_hpp = Skeletons.WhenSrc_join_hpp := rfl
theorem tie_src_when_all_hpp : Extracted.Kernels.WhenSrc_when_all_hpp = Skeletons.WhenSrc_when_all_hpp := rfl
theorem tie_src_async_join_hpp : Extracted.Kernels.WhenSrc_async_join_hpp = Skeletons.WhenSrc_async_join_hpp := rfl

end Yaclib.Props.C09.Tie
