/-
C20 — allocations: one per pipeline step, constant per combinator, none to wait.

Cost model = the pipeline mechanism itself (Model/Pipeline.lean): `G.cAlloc` counts cores, and a core is the ONE heap block
of a step (functor, result and continuation state fused: `MakeCore` → `MakeUnique` / `MakeShared`; `MakeFuture`, `MakeTask`,
`MakeContract*`: one `MakeUnique`).  The harness counts global `operator new` per program line and checks
implementation ≤ model.  For the combinators and Wait the bound for ALL input counts n comes from the translator
`Extracted/AllocSites.lean`: no allocation site inside a loop over the inputs.
-/
import YaclibModel.Proofs.PipelineAlloc3
import YaclibModel.Extracted.AllocSites
import YaclibModel.Extracted.Kernels
import YaclibModel.Model.Skeletons

namespace Yaclib.Props.C20
open Yaclib Yaclib.Pipeline Yaclib.Extracted

variable (cfg : Cfg) (evs : List Event) (p : Prog) (h : Handle)

/-- **allocs_le_steps**: in every reachable state — any program (nested to any depth), any callback
    signature, any executor / rejection point, any event order, unwrapping included — the number of heap blocks allocated so
    far is at most the number of pipeline steps written so far (source, Then*/Detach* steps, and the sources and steps of the
    inner pipelines); even more: what has been allocated plus what the functors not yet invoked can still allocate stays
    within that bound (`CBound`) -/
theorem allocs_le_steps (hc : client evs = some (p, h)) : (run cfg {} evs).g.cAlloc ≤ p.size := by
  have hi := cinv_run cfg evs
  rw [hc] at hi
  have hb := hi.2
  unfold CBound at hb
  split at hb
  · exact hb
  · rename_i hcr
    cases hi.1 with
    | inl h1 => exact (hcr h1).elim
    | inr h1 =>
      cases hctl : (run cfg {} evs).ctl with
      | idle => rw [hctl] at h1; exact h1.elim
      | task src steps => rw [hctl] at hb; simp only at hb; omega
      | future r inh => rw [hctl] at hb; exact hb
      | pending t => rw [hctl] at hb; simp only at hb; omega
      | gone => rw [hctl] at hb; exact hb

/-- the size of a program = one per source core + one per step + the same for the pipelines its functors build -/
theorem size_is_number_of_steps : p.size = srcCores p.src + p.steps.length + innerSteps p.steps := by
  simp only [Prog.size, sizeSteps_eq]; omega

/-- a program line that only attaches (the predecessor is not ready, or the pipeline is lazy) allocates exactly one block -/
theorem attach_allocates_one (st : State) (s : Step) (hc : st.crashed = false) (hh : st.held = true)
    (hctl : (∃ t, st.ctl = .pending t) ∨ (∃ src steps, st.ctl = .task src steps ∧ s.mode.isDetach = false)) :
    (mech cfg st (.attach s)).g.cAlloc = st.g.cAlloc + 1 := by
  cases hctl with
  | inl hp =>
    obtain ⟨t, ht⟩ := hp
    cases hdm : s.mode.isDetach <;> simp [mech, hc, ht, hh, hdm, G.allocCore, G.allocFunctor]
  | inr hp =>
    obtain ⟨src, steps, ht, hdm⟩ := hp
    simp [mech, hc, ht, hdm, G.allocCore, G.allocFunctor]

/-- **waits_alloc_zero** (pipeline part): looking at a future (`expect` in the harness: Ready()/Get() const&), Future::Get()
    && and dropping a handle allocate nothing; neither does fulfilling a promise or letting an executor run a job, unless a
    functor that runs then builds an inner pipeline -/
theorem get_drop_alloc_zero (st : State) :
    (mech cfg st .get).g.cAlloc = st.g.cAlloc ∧ (mech cfg st .dropFuture).g.cAlloc = st.g.cAlloc := by
  obtain ⟨ctl, held, ended, got, result, crashed, g⟩ := st
  cases crashed <;> cases ctl <;> cases held <;> simp [mech, G.freeCore]

/-! ### T1: combinators and Wait, for every number of inputs -/

/-- **no_alloc_site_in_input_loop**: in when.hpp, all.hpp, all_tuple.hpp, any.hpp, join.hpp, when_impl.hpp, wait_impl.hpp,
    wait*.hpp, wait_event.hpp no `new` / MakeShared / MakeUnique / MakeContract / vector constructor / resize / reserve sits
    inside a loop; the only push_back in a loop goes into a vector reserve()d just before.  Hence the number of blocks a
    combinator call obtains is bounded by its (constant) number of sites, for ALL n. -/
theorem no_alloc_site_in_input_loop : AllocSites.offending = [] := by decide

/-- **combinator_allocs_const**: K-constants — `When(…)` (static and dynamic form each): MakeContract + MakeShared;
    the dynamic combinator adds its callback vector; the `All` strategy adds `_cores.resize` and, on completion, the
    reserve()d output vector -/
theorem combinator_allocs_const :
    (AllocSites.sites.filter fun s => s.file == "async/when/when.hpp" && s.func == "When").length = 4 ∧
    (AllocSites.sites.filter fun s => s.file == "async/when/when.hpp" && s.func != "When").length = 1 ∧
    (AllocSites.sites.filter fun s => s.file == "async/when/all.hpp" && !s.inLoop).length = 4 ∧
    AllocSites.countIn "async/when/any.hpp" = 0 ∧ AllocSites.countIn "async/when/join.hpp" = 0 ∧
    AllocSites.countIn "async/when/all_tuple.hpp" = 0 ∧ AllocSites.countIn "async/detail/when_impl.hpp" = 0 := by decide

/-- **waits_alloc_zero**: Wait / WaitFor / WaitUntil have no allocation site at all (stack event + the futures' own
    callback words) — and the translator did walk function bodies in those files -/
theorem waits_alloc_zero :
    AllocSites.countIn "async/detail/wait_impl.hpp" = 0 ∧ AllocSites.countIn "async/wait.hpp" = 0 ∧
    AllocSites.countIn "async/wait_for.hpp" = 0 ∧ AllocSites.countIn "async/wait_until.hpp" = 0 ∧
    AllocSites.countIn "algo/detail/wait_event.hpp" = 0 ∧
    (AllocSites.scanned.all fun x => x.1 != "async/detail/wait_impl.hpp" || decide (0 < x.2)) = true ∧
    (AllocSites.scanned.all fun x => x.1 != "async/when/when.hpp" || decide (0 < x.2)) = true := by decide

/-! ### T1: co_await of futures and Wait on ranges — the one site of that path is reachable for SharedFutures only -/

/-- the headers on the co_await path (and shared_event.hpp, which wait_impl.hpp uses too) -/
def coPath : List String :=
  ["coro/await.hpp", "coro/await_inline.hpp", "coro/await_on.hpp", "coro/await_sticky.hpp", "coro/detail/await_awaiter.hpp",
   "coro/detail/await_on_awaiter.hpp", "algo/detail/shared_event.hpp", "algo/detail/wait_event.hpp"]

/-- **coawait_single_alloc_site**: Await / AwaitSticky / AwaitOn / operator co_await, their awaiters and events contain
    exactly ONE allocation site: the constructor of `DynamicSharedEvent` (its vector of per-element callback nodes) — and
    the translator walked function bodies in every one of these files -/
theorem coawait_single_alloc_site :
    (AllocSites.sites.filter fun s => coPath.contains s.file) =
      [⟨"algo/detail/shared_event.hpp", "DynamicSharedEvent::DynamicSharedEvent<Event>", "vector_ctor", false, false⟩] ∧
    (coPath.all fun f => AllocSites.scanned.any fun x => x.1 == f && decide (0 < x.2)) = true := by decide

/-- **dynamic_event_selected_by_handle_type**: DynamicSharedEvent is named in exactly four places of the whole tree (the
    (begin,count) forms of Await, AwaitSticky, AwaitOn and WaitIterator), always as the TRUE branch of a `std::conditional_t`
    whose condition is a constant defined as "the HANDLE type of the range's elements is SharedHandle".  Future and FutureOn
    have UniqueHandle: no co_await and no Wait* on plain futures ever constructs the allocating event.  (Seeded C20-4 chose by
    `IsInstantiationOf<Future, Value>`: FutureOn ranges got the allocating event.) -/
theorem dynamic_event_selected_by_handle_type :
    AllocSites.selections.map (fun s => (s.file, s.alias)) =
      [("async/detail/wait_impl.hpp", "FinalEvent"), ("coro/await_inline.hpp", "Awaiter"), ("coro/await_on.hpp", "Event"),
       ("coro/await_sticky.hpp", "Awaiter")] ∧
    (AllocSites.selections.all fun s => s.trueBranchOnly &&
      (s.cond == "std::is_same_v<typenameValue::Handle,SharedHandle>" ||
       s.cond == "std::is_same_v<decltype(it->GetHandle()),SharedHandle>")) = true := by decide

/-! ### non-vacuity -/

def cfgEx : Cfg := fun _ => ⟨true, none⟩

/-- contract, 3 steps (one of them returning a 2-core inner pipeline): 4 + 2 = 6 blocks, size 6 -/
def exEvents : List Event :=
  [.src (.contract 0 (.set (.val 1))) false none,
   .attach (.mk 1 .val .inline (.val 1)),
   .attach (.mk 2 .val (.on (.user 1)) (.async (.ready (.val 5)) false [.mk 3 .val .inline (.val 1)])),
   .attach (.mk 4 .res .inline (.val 0)),
   .set 0, .call 1, .get]

example : (run cfgEx {} exEvents).g.cAlloc = 6 ∧ (progOf exEvents).map Prog.size = some 6 ∧
    (run cfgEx {} (exEvents.take 4)).g.cAlloc = 4 := by decide +kernel

end Yaclib.Props.C20

namespace Yaclib.Props.C20.Tie
open Yaclib

theorem tie_MakeCore : Extracted.Kernels.MakeCore = Skeletons.MakeCore := rfl
theorem tie_MakeUnique : Extracted.Kernels.MakeUnique = Skeletons.MakeUnique := rfl
theorem tie_MakeShared : Extracted.Kernels.MakeShared = Skeletons.MakeShared := rfl
theorem tie_MakeFuture : Extracted.Kernels.MakeFuture = Skeletons.MakeFuture := rfl
theorem tie_MakeTask : Extracted.Kernels.MakeTask = Skeletons.MakeTask := rfl
theorem tie_MakeContract : Extracted.Kernels.MakeContract = Skeletons.MakeContract := rfl
theorem tie_MakeContractOn : Extracted.Kernels.MakeContractOn = Skeletons.MakeContractOn := rfl
theorem tie_detail_Run : Extracted.Kernels.detail_Run = Skeletons.detail_Run := rfl
theorem tie_detail_Schedule : Extracted.Kernels.detail_Schedule = Skeletons.detail_Schedule := rfl
theorem tie_detail_SetCallback : Extracted.Kernels.detail_SetCallback = Skeletons.detail_SetCallback := rfl
theorem tie_FuncCore_ctor : Extracted.Kernels.FuncCore_ctor = Skeletons.FuncCore_ctor := rfl
theorem tie_Core_ctor : Extracted.Kernels.Core_ctor = Skeletons.Core_ctor := rfl
theorem tie_WaitCore : Extracted.Kernels.WaitCore = Skeletons.WaitCore := rfl
theorem tie_WaitRange : Extracted.Kernels.WaitRange = Skeletons.WaitRange := rfl
-- every header on the co_await / Wait path, whole text (comments and white space dropped)
theorem tie_coro_await_hpp : Extracted.Kernels.CoSrc_await_hpp = Skeletons.CoSrc_await_hpp := rfl
theorem tie_coro_await_inline_hpp : Extracted.Kernels.CoSrc_await_inline_hpp = Skeletons.CoSrc_await_inline_hpp := rfl
theorem tie_coro_await_on_hpp : Extracted.Kernels.CoSrc_await_on_hpp = Skeletons.CoSrc_await_on_hpp := rfl
theorem tie_coro_await_sticky_hpp : Extracted.Kernels.CoSrc_await_sticky_hpp = Skeletons.CoSrc_await_sticky_hpp := rfl
theorem tie_coro_await_awaiter_hpp : Extracted.Kernels.CoSrc_await_awaiter_hpp = Skeletons.CoSrc_await_awaiter_hpp := rfl
theorem tie_coro_await_on_awaiter_hpp :
    Extracted.Kernels.CoSrc_await_on_awaiter_hpp = Skeletons.CoSrc_await_on_awaiter_hpp := rfl
theorem tie_shared_event_hpp : Extracted.Kernels.CoSrc_shared_event_hpp = Skeletons.CoSrc_shared_event_hpp := rfl
theorem tie_wait_event_hpp : Extracted.Kernels.CoSrc_wait_event_hpp = Skeletons.CoSrc_wait_event_hpp := rfl
theorem tie_wait_impl_hpp : Extracted.Kernels.CoSrc_wait_impl_hpp = Skeletons.CoSrc_wait_impl_hpp := rfl

end Yaclib.Props.C20.Tie
