/-
C15 — coroutine SharedMutex: writers exclude all, readers share, nobody is forgotten.

Property theorems about the model `Yaclib.CoSharedMutex` (Model/CoSharedMutex.lean) for **every** configuration
`cfg : Cfg` — both template options `fifo`, `rfifo` (all four combinations; the invariant proof is parametric in them),
any number of coroutines, any program of shared / exclusive / try rounds per coroutine — every interleaving at
atomic-operation granularity (including the operations on `_readers_wait` and on the spinlock word), every spurious
weak-CAS failure and every stale pre-check load.  The inductive invariant (60 clauses: the links between program
counters and queues, and the accounting invariants J1–J6) is in Proofs/CoSharedMutex*.lean.
Nothing here is `_partial`: safety, the accounting invariants, exactly-once and the quiescence theorem are proved for all
four option combinations.
-/
import YaclibModel.Proofs.CoSharedMutexProgress
import YaclibModel.Proofs.CoSharedMutexExecInst
import YaclibModel.Extracted.Kernels
import YaclibModel.Model.Skeletons

namespace Yaclib.Props.C15
open Yaclib.CoSharedMutex

variable {cfg : Cfg} {s : State}

/-- owns the exclusive lock: granted and runnable, or inside the exclusive section -/
def HoldsExcl (p : Pc) : Prop := p = .wacq ∨ p = .wcs
/-- owns a shared lock: granted and runnable, or inside the shared section -/
def HoldsShared (p : Pc) : Prop := p = .racq ∨ p = .rcs

theorem excl_owner (h : Reachable cfg s) {c : Cid} (hc : HoldsExcl (s.pc c)) : s.excl = some c := by
  apply ((inv_reachable h).l_excl c).mp
  rcases hc with hc | hc <;> rw [hc] <;> rfl

theorem no_shared_of_excl (h : Reachable cfg s) (he : s.excl ≠ none) (d : Cid) : ¬ HoldsShared (s.pc d) := by
  intro hd
  have hi := inv_reachable h
  have h0 := (hi.j2 he).1
  have h1 := hi.l_ar d
  have h2 := @List.count_le_length _ _ d s.ar
  have : (s.pc d).isAR = true := by rcases hd with hd | hd <;> rw [hd] <;> rfl
  rw [this] at h1
  simp at h1
  omega

/-- a coroutine holding the exclusive lock never overlaps with any other holder … -/
theorem writer_excludes_all (h : Reachable cfg s) {c : Cid} (hc : HoldsExcl (s.pc c)) (d : Cid) (hd : d ≠ c) :
    ¬ HoldsExcl (s.pc d) ∧ ¬ HoldsShared (s.pc d) := by
  have he := excl_owner h hc
  refine ⟨fun hx => ?_, no_shared_of_excl h (by rw [he]; simp) d⟩
  have := excl_owner h hx
  rw [he] at this
  exact hd (Option.some.inj this).symm

/-- … shared holders overlap only with each other -/
theorem readers_only_with_readers (h : Reachable cfg s) {c : Cid} (hc : HoldsShared (s.pc c)) (d : Cid) :
    ¬ HoldsExcl (s.pc d) := by
  intro hd
  have he := excl_owner h hd
  exact no_shared_of_excl h (by rw [he]; simp) c hc

/-- `TryLock`/`TryGuard` (and the fast path of `Lock`/`Guard`) succeed only when nobody holds anything … -/
theorem try_only_compatible (h : Reachable cfg s) {c : Cid} {s' : State} (hs : Step s (.twCas c true) s') :
    s.W = 0 ∧ s.R = 0 ∧ ∀ d, ¬ HoldsExcl (s.pc d) ∧ ¬ HoldsShared (s.pc d) := by
  have hi := inv_reachable h
  cases hs with
  | twCasOk _ hpc hW hR =>
      refine ⟨hW, hR, fun d => ⟨fun hd => ?_, fun hd => ?_⟩⟩
      · have := excl_owner h hd
        rw [hi.w0_excl hW] at this; cases this
      · have h4 := hi.j4
        have h1 := hi.l_ar d
        have h2 := @List.count_le_length _ _ d s.ar
        have : (s.pc d).isAR = true := by rcases hd with hd | hd <;> rw [hd] <;> rfl
        rw [this] at h1; simp at h1
        omega

/-- … and `TryLockShared`/`TryGuardShared` only when no coroutine holds the exclusive lock -/
theorem try_shared_only_compatible (h : Reachable cfg s) {c : Cid} {s' : State} (hs : Step s (.trCas c true) s') :
    s.W = 0 ∧ ∀ d, ¬ HoldsExcl (s.pc d) := by
  have hi := inv_reachable h
  cases hs with
  | trCasOk _ r hpc hW hR =>
      refine ⟨hW, fun d hd => ?_⟩
      have := excl_owner h hd
      rw [hi.w0_excl hW] at this; cases this

/-- the fast path of `LockShared` (`fetch_add` saw no writer counted) is taken only when nobody holds the exclusive lock -/
theorem shared_fast_path_compatible (h : Reachable cfg s) {c : Cid} {s' : State} (hs : Step s (.rdFadd c) s')
    (hacq : s'.pc c = .racq) : s.W = 0 ∧ ∀ d, ¬ HoldsExcl (s.pc d) := by
  have hi := inv_reachable h
  cases hs with
  | rdFadd _ hpc ht ho =>
      by_cases hW : s.W = 0
      · refine ⟨hW, fun d hd => ?_⟩
        have := excl_owner h hd
        rw [hi.w0_excl hW] at this; cases this
      · simp [doRdFadd, hW, upd] at hacq

/-- the accounting invariants J1–J6 (and the links they rest on) hold in every reachable state -/
theorem accounting_inv (h : Reachable cfg s) : Inv cfg s := inv_reachable h

/-- J4: the low half of the word counts the readers that own a shared lock, are queued, or are in flight -/
theorem j4_readers (h : Reachable cfg s) : s.R = s.ar.length + s.torun.length + s.Q.length + s.ifl.length :=
  (inv_reachable h).j4

/-- J5: the high half counts the exclusivity owner (while it has not yet given its count back), the pending first
    writer, the queued writers and the writer inside the enqueueing block -/
theorem j5_writers (h : Reachable cfg s) :
    s.W = s.ew + (if s.pw.isSome then 1 else 0) + s.WQ.length + s.enq := (inv_reachable h).j5

/-- J2: while a writer owns exclusivity no reader owns, is leaving, or can pass, and no first writer is pending -/
theorem j2_exclusive (h : Reachable cfg s) (he : s.excl ≠ none) :
    s.ar.length = 0 ∧ s.torun.length = 0 ∧ s.lv.length = 0 ∧ s.pass = 0 ∧ s.pw = .none := (inv_reachable h).j2 he

/-- J3: the debt: before it is posted `_readers_wait` is minus what was already paid, afterwards it is the number of
    payers that remain (owners + pass credits + readers between their two atomics), and it is ≥ 1 while the writer waits -/
theorem j3_debt (h : Reachable cfg s) :
    (∀ n r, s.pw = .a n r →
      s.rwait = ((s.ar.length + s.torun.length + s.pass + s.lv.length : Nat) : Int) - (r : Int) ∧ s.rwait ≤ 0) ∧
    (∀ n, s.pw = .b n → s.rwait = ((s.ar.length + s.torun.length + s.pass + s.lv.length : Nat) : Int) ∧ 1 ≤ s.rwait) ∧
    (∀ n b, s.pw = .c n b → s.rwait = 0 ∧ s.ar.length = 0 ∧ s.torun.length = 0 ∧ s.lv.length = 0 ∧ s.pass = 0) :=
  ⟨(inv_reachable h).j3a, (inv_reachable h).j3b, (inv_reachable h).j3c⟩

/-- J1: with no writer counted the pass credits (incl. those a departing writer is about to add) are exactly the readers
    in flight, nobody is queued, no debt -/
theorem j1_no_writer (h : Reachable cfg s) (hW : s.W = 0) :
    s.pass + s.pend = s.ifl.length ∧ (s.pendBy = none → s.Q.length = 0) ∧ s.WQ.length = 0 ∧ s.excl = none ∧
    s.pw = .none ∧ s.rwait = 0 ∧ s.lv.length = 0 := by
  have hi := inv_reachable h
  have he := hi.w0_excl hW
  have h5 := hi.j5
  have hpw : s.pw = .none := by
    cases hp : s.pw.isSome
    · exact PW.eq_none_of_isSome hp
    · rw [hW, hp] at h5; simp at h5 <;> omega
  refine ⟨(hi.j1 hW).1, (hi.j1 hW).2, by omega, he, hpw, hi.j3n he hpw, hi.lv_pw (by rw [hpw]; rfl)⟩

/-- J6 (FIFO): `_writers_prio` counts the queued writers that precede the queued readers -/
theorem j6_prio (h : Reachable cfg s) (hf : cfg.fifo = true) :
    s.prio ≤ s.WQ.length ∧ (s.Q.length = 0 → s.prio = s.WQ.length) := by
  have hi := inv_reachable h
  exact hi.j6 (by rw [hi.hcfg]; exact hf)

/-- the only plain `store` to `_readers_wait` (RunReaders with other writers waiting) overwrites 0, and no payer can
    run concurrently: nobody owns a shared lock or is between the two atomics of UnlockHereShared -/
theorem store_over_zero (h : Reachable cfg s) {c : Cid} {s' : State} (hs : Step s (.rwStore c) s') :
    s.rwait = 0 ∧ s.ar.length = 0 ∧ s.torun.length = 0 ∧ s.lv.length = 0 ∧ s.pass = 0 := by
  have hi := inv_reachable h
  cases hs with
  | rwStore _ sw hpc hsp =>
      have he := (hi.l_excl c).mp (by rw [hpc]; rfl)
      have h2 := hi.j2 (by rw [he]; simp)
      have hw := hi.j2w c he
      rw [hpc] at hw
      exact ⟨by simpa [Pc.isStoredUnl] using hw, h2.1, h2.2.1, h2.2.2.1, h2.2.2.2.1⟩

/-- absence of borrow between the halves of the packed word: `fetch_sub(kReader)` finds `R ≥ 1`,
    `fetch_sub(kWriter)` finds `W ≥ 1` -/
theorem no_borrow (h : Reachable cfg s) {l : Label} {s' : State} (hs : Step s l s') :
    (∀ c, l = .rdFsub c → 1 ≤ s.R) ∧ (∀ c, l = .wuFsub c → 1 ≤ s.W) := by
  have hi := inv_reachable h
  refine ⟨fun c hl => ?_, fun c hl => ?_⟩
  · subst hl
    cases hs with
    | rdFsub _ hpc =>
        have h1 := hi.l_ar c
        rw [hpc] at h1
        have h2 := @List.count_le_length _ _ c s.ar
        have h4 := hi.j4
        simp [Pc.isAR] at h1
        omega
  · subst hl
    cases hs with
    | wuFsub _ hpc hsp =>
        have he := (hi.l_excl c).mp (by rw [hpc]; rfl)
        have h1 := hi.l_ew_some c he
        rw [hpc] at h1
        have h5 := hi.j5
        simp [Pc.isCntW] at h1
        omega

/-- `_readers_pass += r - _readers_size` never wraps: the readers registered in the word include the queued ones -/
theorem pass_no_underflow (h : Reachable cfg s) {c : Cid} {sr : Nat}
    (hpc : s.pc c = .uUnl (.readersPass sr) ∨ s.pc c = .uUnl (.passOnly sr)) : s.qsize ≤ sr :=
  (inv_reachable h).pass_ge c sr hpc

/-- exactly once: every park of `c` is matched by exactly one `Run(c)`, except the one it is currently parked for … -/
theorem grant_once (h : Reachable cfg s) (c : Cid) :
    s.parks c = s.grants c + (if (s.pc c).isParked then 1 else 0) := (inv_reachable h).parks c

/-- … and every round is one section entered or one reported try failure -/
theorem rounds_accounted (h : Reachable cfg s) (c : Cid) :
    s.enters c + s.fails c + (s.todo c).length = (cfg.prog c).length + (if (s.pc c).isInRound then 1 else 0) :=
  (inv_reachable h).rounds c

/-- no lost wake-up, no reader or writer parked forever (safety form), for every <FIFO, ReadersFIFO>: a state in which
    no step is enabled is a state in which nobody is parked or queued, the word, the debt and the credits are 0, the
    spinlock is free, and every coroutine has completed every round of its program exactly once -/
theorem quiescent_none_parked (h : Reachable cfg s) (hq : ∀ l s', ¬ Step s l s') :
    s.W = 0 ∧ s.R = 0 ∧ s.rwait = 0 ∧ s.spin = .free ∧ s.Q.length = 0 ∧ s.WQ.length = 0 ∧ s.pass = 0 ∧
    ∀ c, s.pc c = .idle ∧ s.todo c = [] ∧ s.enters c + s.fails c = (cfg.prog c).length ∧ s.parks c = s.grants c := by
  have hi := inv_reachable h
  have hall := quiescent hi hq
  have hfree := spin_free_of_quiescent hi hq
  have hnone : ∀ {l : List Cid} {P : Pc → Bool}, (∀ c, l.count c = if P (s.pc c) then 1 else 0) → P .idle = false →
      l.length = 0 := by
    intro l P hl hP
    cases l with
    | nil => rfl
    | cons a t =>
        have := hl a
        rw [(hall a).1, hP] at this
        simp at this
  have har : s.ar.length = 0 := hnone hi.l_ar rfl
  have hifl : s.ifl.length = 0 := hnone hi.l_ifl rfl
  have htorun : s.torun.length = 0 := hnone (P := fun p => decide (p = .rgranted)) (by intro c; simpa using hi.l_torun c) rfl
  have hQ : s.Q.length = 0 := hnone (P := fun p => decide (p = .rparked)) (by intro c; simpa using hi.l_q c) rfl
  have hWQ : s.WQ.length = 0 := hnone (P := fun p => decide (p = .wparkedQ)) (by intro c; simpa using hi.l_wq c) rfl
  have hexcl : s.excl = none := by
    cases he : s.excl with
    | none => rfl
    | some x => have := (hi.l_excl x).mpr he; rw [(hall x).1] at this; cases this
  have hpw : s.pw = .none := by
    cases hp : s.pw with
    | none => rfl
    | a n r => have := hi.pw_a n r hp; rw [(hall n).1] at this; cases this
    | b n => have := hi.pw_b n hp; rw [(hall n).1] at this; cases this
    | c n b => have := (hi.pw_c n b hp).1; rw [(hall n).1] at this; cases this
  have hW : s.W = 0 := by
    have h5 := hi.j5
    rw [hi.l_ew_none hexcl, hpw, hWQ, hi.l_enq_free hfree] at h5
    simpa using h5
  have hR : s.R = 0 := by have := hi.j4; omega
  have hpass : s.pass = 0 := by have := hi.jp_le; omega
  refine ⟨hW, hR, hi.j3n hexcl hpw, hfree, hQ, hWQ, hpass, fun c => ?_⟩
  obtain ⟨hp, ht⟩ := hall c
  have h1 := hi.rounds c
  have h2 := hi.parks c
  rw [hp, ht] at h1
  rw [hp] at h2
  simp [Pc.isInRound] at h1
  simp [Pc.isParked] at h2
  exact ⟨hp, ht, h1, h2⟩

/-- waiting holds no thread: a parked coroutine (queued reader or writer, pending first writer, or taken out of a
    queue but not yet submitted) executes no step -/
theorem waiting_holds_no_thread (_h : Reachable cfg s) {c : Cid} (hp : (s.pc c).isParked = true) {l : Label} {s' : State}
    (hs : Step s l s') : l.agent ≠ .co c := by
  have hne : ∀ c' : Cid, (s.pc c').isParked = false → Agent.co c' ≠ Agent.co c := by
    intro c' hc' he; cases he; rw [hp] at hc'; cases hc'
  cases hs with
  | rdFadd c' h' _ _ => exact hne c' (by rw [h']; rfl)
  | spinOk c' k h' _ => exact hne c' (by rw [h']; cases k <;> rfl)
  | spinBusy c' k h' _ => exact hne c' (by rw [h']; cases k <;> rfl)
  | spinLoad c' k _ h' => exact hne c' (by rw [h']; cases k <;> rfl)
  | rdUnlock c' h' _ => exact hne c' (by rw [h']; rfl)
  | enterR c' h' => exact hne c' (by rw [h']; rfl)
  | enterW c' h' => exact hne c' (by rw [h']; rfl)
  | exitR c' h' => exact hne c' (by rw [h']; rfl)
  | exitW c' h' => exact hne c' (by rw [h']; rfl)
  | rdFsub c' h' => exact hne c' (by rw [h']; rfl)
  | rwFsub c' h' => exact hne c' (by rw [h']; rfl)
  | runFirst c' _ h' _ => exact hne c' (by rw [h']; rfl)
  | trBegin c' _ _ h' _ _ => exact hne c' (by rw [h']; rfl)
  | trFail c' _ _ h' _ => exact hne c' (by rw [h']; rfl)
  | trCasOk c' _ h' _ _ => exact hne c' (by rw [h']; rfl)
  | trCasFail c' _ h' => exact hne c' (by rw [h']; rfl)
  | twLoad c' _ h' _ _ => exact hne c' (by rw [h']; rfl)
  | twCasOk c' h' _ _ => exact hne c' (by rw [h']; rfl)
  | twCasFail c' h' _ => exact hne c' (by rw [h']; rfl)
  | tryFailW c' h' => exact hne c' (by rw [h']; rfl)
  | wrFadd c' h' _ => exact hne c' (by rw [h']; rfl)
  | wrPost c' _ h' _ => exact hne c' (by rw [h']; rfl)
  | wUnlock c' k h' _ => exact hne c' (by rw [h']; cases k <;> rfl)
  | tailUnlock c' _ => simp [Label.agent]
  | wuCasOk c' h' _ _ => exact hne c' (by rw [h']; rfl)
  | wuCasFail c' h' _ => exact hne c' (by rw [h']; rfl)
  | wuFsub c' h' _ => exact hne c' (by rw [h']; rfl)
  | rwStore c' _ h' _ => exact hne c' (by rw [h']; rfl)
  | uUnlockW c' b _ _ h' _ _ _ => exact hne c' (by rw [h']; cases b <;> rfl)
  | uUnlockP c' b h' _ _ => exact hne c' (by rw [h']; cases b <;> rfl)
  | runW c' _ h' => exact hne c' (by rw [h']; rfl)
  | runR c' _ _ h' _ => exact hne c' (by rw [h']; rfl)

/-! ### the two abstractions of machine arithmetic are exact -/

/-- the unsigned 32-bit comparisons `== 1` and `!= -r` on `_readers_wait` agree with the comparisons on the integer
    the model keeps, as long as the magnitudes stay below 2³¹ (the number of coroutines does: `reg_bound`) -/
theorem u32_compare_exact (x y : Int) (hx : -2147483648 < x ∧ x < 2147483648) (hy : -2147483648 < y ∧ y < 2147483648) :
    x % 4294967296 = y % 4294967296 ↔ x = y := by
  constructor
  · intro h; omega
  · intro h; rw [h]

theorem nodup_bound : ∀ (n : Nat) (l : List Nat), (∀ x, l.count x ≤ 1) → (∀ x, x ∈ l → x < n) → l.length ≤ n := by
  intro n
  induction n with
  | zero =>
      intro l _ hm
      cases l with
      | nil => simp
      | cons a t => exact absurd (hm a (by simp)) (by omega)
  | succ n ih =>
      intro l hc hm
      have hlen : l.length ≤ (l.erase n).length + 1 := by
        rw [List.length_erase]; split <;> omega
      have := ih (l.erase n)
        (fun x => by
          have := hc x
          by_cases hx : x = n
          · subst hx; rw [List.count_erase_self]; omega
          · rw [List.count_erase_of_ne hx]; exact this)
        (fun x hx => by
          have hxl : x ∈ l := List.mem_of_mem_erase hx
          have hlt := hm x hxl
          have hne : x ≠ n := by
            intro he; subst he
            have h1 := hc x
            have h2 : 0 < (l.erase x).count x := List.count_pos_iff.mpr hx
            rw [List.count_erase_self] at h2
            omega
          omega)
      omega

/-- absence of carry: with at most `n` coroutines (everybody else has an empty program) both halves of the packed
    word stay far below 2³² — `R ≤ 4·n`, `W ≤ n + 3` — for `n < 2³⁰` no `fetch_add` can carry into the other half -/
theorem reg_bound (h : Reachable cfg s) (n : Nat) (hn : ∀ c, n ≤ c → cfg.prog c = []) :
    s.R ≤ 4 * n ∧ s.W ≤ n + 3 := by
  have hi := inv_reachable h
  have key : ∀ {l : List Cid} {P : Pc → Bool}, (∀ c, l.count c = if P (s.pc c) then 1 else 0) → P .idle = false →
      l.length ≤ n := by
    intro l P hl hP
    apply nodup_bound n l
    · intro x; rw [hl x]; split <;> omega
    · intro x hx
      have h1 : 0 < l.count x := List.count_pos_iff.mpr hx
      rw [hl x] at h1
      cases Nat.lt_or_ge x n with
      | inl hlt => exact hlt
      | inr hge =>
          have := hi.out_idle x (hn x hge)
          rw [this, hP] at h1
          simp at h1
  have h1 : s.ar.length ≤ n := key hi.l_ar rfl
  have h2 : s.ifl.length ≤ n := key hi.l_ifl rfl
  have h3 : s.torun.length ≤ n := key (P := fun p => decide (p = .rgranted)) (by intro c; simpa using hi.l_torun c) rfl
  have h4 : s.Q.length ≤ n := key (P := fun p => decide (p = .rparked)) (by intro c; simpa using hi.l_q c) rfl
  have h5 : s.WQ.length ≤ n := key (P := fun p => decide (p = .wparkedQ)) (by intro c; simpa using hi.l_wq c) rfl
  have hR := hi.j4
  have hW := hi.j5
  have hew : s.ew ≤ 1 := by
    cases he : s.excl with
    | none => rw [hi.l_ew_none he]; omega
    | some x => rw [hi.l_ew_some x he]; split <;> omega
  have henq : s.enq ≤ 1 := by
    cases hsp : s.spin with
    | free => rw [hi.l_enq_free hsp]; omega
    | tailOf x => rw [hi.l_enq_tail x hsp]; omega
    | held x => rw [hi.l_enq_held x hsp]; split <;> omega
  refine ⟨by omega, ?_⟩
  split at hW <;> omega

/-- everything the trace validator accepts is a behaviour the theorems speak about -/
theorem validator_sound {l : Label} {s' : State} (h : Reachable cfg s) (hn : next s l = some s') : Reachable cfg s' :=
  .step h (next_sound hn)

/-! ### non-vacuity: concrete workloads reach the interesting states -/

def prog3 (p0 p1 p2 : List Op) : Cid → List Op := fun c => if c = 0 then p0 else if c = 1 then p1 else if c = 2 then p2 else []

/-- a reader holds, a writer arrives (first writer, debt 1 posted, parks), the reader's unlock pays the debt and runs
    the writer — while the writer's own `_lock.unlock()` is still pending (detached tail) -/
example : ∃ s, Reachable ⟨true, false, prog3 [.rd] [.wr] []⟩ s ∧ s.pc 1 = .wcs ∧ s.spin = .tailOf 1 ∧ s.rwait = 0 ∧
    s.grants 1 = 1 := by
  let cfg : Cfg := ⟨true, false, prog3 [.rd] [.wr] []⟩
  have h0 : Reachable cfg (init cfg) := .init
  have h1 := validator_sound h0 (l := .rdFadd 0) (s' := _) rfl
  have h2 := validator_sound h1 (l := .enter 0) (s' := _) rfl
  have h3 := validator_sound h2 (l := .twLoad 1 false) (s' := _) rfl
  have h4 := validator_sound h3 (l := .spinXchg 1 true) (s' := _) rfl
  have h5 := validator_sound h4 (l := .wrFadd 1) (s' := _) rfl
  have h6 := validator_sound h5 (l := .wrPost 1) (s' := _) rfl
  have h7 := validator_sound h6 (l := .exit 0) (s' := _) rfl
  have h8 := validator_sound h7 (l := .rdFsub 0) (s' := _) rfl
  have h9 := validator_sound h8 (l := .rwFsub 0) (s' := _) rfl
  have h10 := validator_sound h9 (l := .runFirst 0 1) (s' := _) rfl
  have h11 := validator_sound h10 (l := .enter 1) (s' := _) rfl
  exact ⟨_, h11, rfl, rfl, rfl, rfl⟩

/-- the reader pays *before* the debt is posted (`_readers_wait` goes to -1, i.e. 2³²-1); the writer's
    `fetch_add(1)` then returns `-r`, so it does not park -/
example : ∃ s, Reachable ⟨false, false, prog3 [.rd] [.wr] []⟩ s ∧ s.pc 1 = .wcs ∧ s.rwait = 0 ∧ s.parks 1 = 0 := by
  let cfg : Cfg := ⟨false, false, prog3 [.rd] [.wr] []⟩
  have h0 : Reachable cfg (init cfg) := .init
  have h1 := validator_sound h0 (l := .rdFadd 0) (s' := _) rfl
  have h2 := validator_sound h1 (l := .enter 0) (s' := _) rfl
  have h3 := validator_sound h2 (l := .twLoad 1 true) (s' := _) rfl          -- stale pre-check
  have h4 := validator_sound h3 (l := .twCas 1 false) (s' := _) rfl
  have h5 := validator_sound h4 (l := .spinXchg 1 true) (s' := _) rfl
  have h6 := validator_sound h5 (l := .wrFadd 1) (s' := _) rfl
  have h7 := validator_sound h6 (l := .exit 0) (s' := _) rfl
  have h8 := validator_sound h7 (l := .rdFsub 0) (s' := _) rfl
  have h9 := validator_sound h8 (l := .rwFsub 0) (s' := _) rfl               -- early payment: rwait = -1
  have h10 := validator_sound h9 (l := .wrPost 1) (s' := _) rfl
  have h11 := validator_sound h10 (l := .wUnlock 1) (s' := _) rfl
  have h12 := validator_sound h11 (l := .enter 1) (s' := _) rfl
  exact ⟨_, h12, rfl, rfl, rfl⟩

/-- a writer holds, a reader and a second writer queue up; SlowUnlock takes the RunReaders path with another writer
    waiting: plain store of the debt, the second writer becomes `_writers_first`, the reader is run -/
example : ∃ s, Reachable ⟨false, true, prog3 [.wr] [.rd] [.wr]⟩ s ∧ s.pc 1 = .racq ∧ s.pw = .b 2 ∧ s.rwait = 1 ∧
    s.wfirst = some 2 ∧ s.pc 0 = .idle := by
  let cfg : Cfg := ⟨false, true, prog3 [.wr] [.rd] [.wr]⟩
  have h0 : Reachable cfg (init cfg) := .init
  have h1 := validator_sound h0 (l := .twLoad 0 true) (s' := _) rfl
  have h2 := validator_sound h1 (l := .twCas 0 true) (s' := _) rfl
  have h3 := validator_sound h2 (l := .enter 0) (s' := _) rfl
  have h4 := validator_sound h3 (l := .rdFadd 1) (s' := _) rfl
  have h5 := validator_sound h4 (l := .spinXchg 1 true) (s' := _) rfl
  have h6 := validator_sound h5 (l := .twLoad 2 false) (s' := _) rfl
  have h7 := validator_sound h6 (l := .spinXchg 2 false) (s' := _) rfl        -- the spinlock is taken
  have h8 := validator_sound h7 (l := .rdUnlock 1) (s' := _) rfl             -- the reader parks
  have h9 := validator_sound h8 (l := .spinLoad 2 true) (s' := _) rfl
  have h10 := validator_sound h9 (l := .spinXchg 2 true) (s' := _) rfl
  have h11 := validator_sound h10 (l := .wrFadd 2) (s' := _) rfl
  have h12 := validator_sound h11 (l := .wUnlock 2) (s' := _) rfl            -- the second writer parks in the queue
  have h13 := validator_sound h12 (l := .exit 0) (s' := _) rfl
  have h14 := validator_sound h13 (l := .wuCas 0 false) (s' := _) rfl
  have h15 := validator_sound h14 (l := .spinXchg 0 true) (s' := _) rfl
  have h16 := validator_sound h15 (l := .wuFsub 0) (s' := _) rfl
  have h17 := validator_sound h16 (l := .rwStore 0) (s' := _) rfl
  have h18 := validator_sound h17 (l := .uUnlock 0) (s' := _) rfl
  have h19 := validator_sound h18 (l := .runR 0 1) (s' := _) rfl
  exact ⟨_, h19, rfl, rfl, rfl, rfl, rfl⟩

/-! ### over a real executor (Proofs/CoSharedMutexExec*.lean)

The premise "executors keep accepting work" made precise, as for C14: every `Run(node)` (`runFirst`, `runW`, `runR`) is a
`Submit` at an executor `E` (an open transition system, Proofs/StrandTower.lean), the resumed coroutine's section is the
body of that job (`call … ret`).  Safety holds over EVERY `E`; "nobody is forgotten" over every `E` that honours the
IExecutor contract and never Drops (a Dropped coroutine would be completed with StopError while owning its lock). -/
section OverExecutor
open Yaclib.Strand (Exec ExecContract)
open Yaclib.CoMutex (NeverDrops)
variable {E : Exec} {x : XState E}

theorem writer_excludes_all_over (h : XReach cfg E x) {c : Cid} (hc : HoldsExcl (x.m.pc c)) (d : Cid) (hd : d ≠ c) :
    ¬ HoldsExcl (x.m.pc d) ∧ ¬ HoldsShared (x.m.pc d) := writer_excludes_all (xshared_projects h).1 hc d hd

theorem readers_only_with_readers_over (h : XReach cfg E x) {c : Cid} (hc : HoldsShared (x.m.pc c)) (d : Cid) :
    ¬ HoldsExcl (x.m.pc d) := readers_only_with_readers (xshared_projects h).1 hc d

theorem grant_once_over (h : XReach cfg E x) (c : Cid) :
    x.m.parks c = x.m.grants c + (if (x.m.pc c).isParked then 1 else 0) := grant_once (xshared_projects h).1 c

/-- the shared mutex is a well-behaved client of its executor -/
theorem executor_protocol_honoured (h : XReach cfg E x) : E.Run x.x x.p := (xshared_projects h).2

/-- nobody is forgotten over every contract-honouring executor that keeps accepting work -/
theorem quiescent_none_parked_over (hc : ExecContract E) (hnd : NeverDrops E) (h : XReach cfg E x)
    (hq : ∀ x', ¬ XStep E x x') :
    x.m.W = 0 ∧ x.m.R = 0 ∧ x.m.rwait = 0 ∧ x.m.spin = .free ∧ x.m.Q.length = 0 ∧ x.m.WQ.length = 0 ∧ x.m.pass = 0 ∧
    ∀ c, x.m.pc c = .idle ∧ x.m.todo c = [] ∧ x.m.enters c + x.m.fails c = (cfg.prog c).length ∧
         x.m.parks c = x.m.grants c :=
  quiescent_none_parked (xshared_projects h).1 (xshared_quiescent hc hnd h hq)

/-- … in particular over Inline, over a drained ManualExecutor, over the FairThreadPool (n ≥ 1) and over any tower of
    Strands on a contract-honouring base (for the last two "never Drops" stays a hypothesis) -/
theorem over_inline {x : XState (Yaclib.Strand.inlineExec true)} (h : XReach cfg _ x) (hq : ∀ x', ¬ XStep _ x x') :
    QuiescentDone cfg x := cosharedmutex_over_inline h hq

theorem over_manual {x : XState (Yaclib.Strand.manualExec false)} (h : XReach cfg _ x) (hq : ∀ x', ¬ XStep _ x x') :
    QuiescentDone cfg x := cosharedmutex_over_manual h hq

theorem over_pool {n : Nat} (hn : 0 < n) (stop : Option Yaclib.Pool.StopKind) (spur : Bool)
    (hnd : NeverDrops (Yaclib.Pool.poolExec n stop spur)) {x : XState (Yaclib.Pool.poolExec n stop spur)}
    (h : XReach cfg _ x) (hq : ∀ x', ¬ XStep _ x x') : QuiescentDone cfg x :=
  cosharedmutex_over_pool hn stop spur hnd h hq

theorem over_strand_tower {base : Exec} (hb : ExecContract base) (k : Nat) (hnd : NeverDrops (Yaclib.Strand.tower base k))
    {x : XState (Yaclib.Strand.tower base k)} (h : XReach cfg _ x) (hq : ∀ x', ¬ XStep _ x x') : QuiescentDone cfg x :=
  cosharedmutex_over_strand_tower hb k hnd h hq

theorem xplain {s : XState E} (l : Label) {m' : State} (h : next s.m l = some m') (hs : synced s.job l = false) :
    XStep E s { s with m := m' } := .plain (next_sound h) hs

/-- non-vacuity: over the Inline executor a reader holds, a writer posts its debt and parks; the reader's unlock pays and
    `Run`s the writer = `sub 0`, Inline `call 0`s it, and the writer is inside the exclusive section, the body of job 0 -/
example : ∃ x : XState (Yaclib.Strand.inlineExec true),
    XReach ⟨true, false, prog3 [.rd] [.wr] []⟩ (Yaclib.Strand.inlineExec true) x ∧
    x.m.pc 1 = .wcs ∧ x.job 1 = some 0 ∧ x.p 0 = .calling ∧ x.m.grants 1 = 1 := by
  let cfg : Cfg := ⟨true, false, prog3 [.rd] [.wr] []⟩
  have h0 : XReach cfg (Yaclib.Strand.inlineExec true) (xinit cfg (Yaclib.Strand.inlineExec true)) := .init
  have h1 := XReach.step h0 (xplain (.rdFadd 0) rfl rfl)
  have h2 := XReach.step h1 (xplain (.enter 0) rfl rfl)
  have h3 := XReach.step h2 (xplain (.twLoad 1 false) rfl rfl)
  have h4 := XReach.step h3 (xplain (.spinXchg 1 true) rfl rfl)
  have h5 := XReach.step h4 (xplain (.wrFadd 1) rfl rfl)
  have h6 := XReach.step h5 (xplain (.wrPost 1) rfl rfl)
  have h7 := XReach.step h6 (xplain (.exit 0) rfl rfl)
  have h8 := XReach.step h7 (xplain (.rdFsub 0) rfl rfl)
  have h9 := XReach.step h8 (xplain (.rwFsub 0) rfl rfl)
  have h10 := XReach.step h9 (XStep.grantSub (l := .runFirst 0 1) (n := 1) (lx := Yaclib.Strand.XEv.sub 0)
    (x' := Yaclib.Strand.upd Yaclib.Strand.protInit 0 .pending)
    (next_sound (l := .runFirst 0 1) rfl) rfl (by exact ⟨rfl, rfl⟩) rfl rfl)
  have h11 := XReach.step h10 (XStep.enterCall (n := 1) (j := 0) (lx := Yaclib.Strand.XEv.call 0)
    (x' := Yaclib.Strand.upd (Yaclib.Strand.upd Yaclib.Strand.protInit 0 .pending) 0 .calling)
    (next_sound (l := .enter 1) rfl) rfl (by exact ⟨rfl, rfl, rfl⟩) rfl)
  exact ⟨_, h11, rfl, rfl, rfl, rfl⟩

end OverExecutor

end Yaclib.Props.C15

/-! ### tie to the source (T2): the kernels this model was written from are unchanged.
`Extracted/Kernels.lean` is regenerated from /repo on every check run. -/
namespace Yaclib.Props.C15.Tie
open Yaclib

theorem tie_TryLockSharedAwait :
    Extracted.Kernels.SharedMutexImpl_TryLockSharedAwait = Skeletons.SharedMutexImpl_TryLockSharedAwait := rfl
theorem tie_TryLockAwait : Extracted.Kernels.SharedMutexImpl_TryLockAwait = Skeletons.SharedMutexImpl_TryLockAwait := rfl
theorem tie_AwaitLockShared :
    Extracted.Kernels.SharedMutexImpl_AwaitLockShared = Skeletons.SharedMutexImpl_AwaitLockShared := rfl
theorem tie_AwaitLock : Extracted.Kernels.SharedMutexImpl_AwaitLock = Skeletons.SharedMutexImpl_AwaitLock := rfl
theorem tie_TryLockShared : Extracted.Kernels.SharedMutexImpl_TryLockShared = Skeletons.SharedMutexImpl_TryLockShared := rfl
theorem tie_TryLock : Extracted.Kernels.SharedMutexImpl_TryLock = Skeletons.SharedMutexImpl_TryLock := rfl
theorem tie_UnlockHereShared :
    Extracted.Kernels.SharedMutexImpl_UnlockHereShared = Skeletons.SharedMutexImpl_UnlockHereShared := rfl
theorem tie_UnlockHere : Extracted.Kernels.SharedMutexImpl_UnlockHere = Skeletons.SharedMutexImpl_UnlockHere := rfl
theorem tie_Run : Extracted.Kernels.SharedMutexImpl_Run = Skeletons.SharedMutexImpl_Run := rfl
theorem tie_RunWriter : Extracted.Kernels.SharedMutexImpl_RunWriter = Skeletons.SharedMutexImpl_RunWriter := rfl
theorem tie_PassReaders : Extracted.Kernels.SharedMutexImpl_PassReaders = Skeletons.SharedMutexImpl_PassReaders := rfl
theorem tie_RunReaders : Extracted.Kernels.SharedMutexImpl_RunReaders = Skeletons.SharedMutexImpl_RunReaders := rfl
theorem tie_SlowUnlock : Extracted.Kernels.SharedMutexImpl_SlowUnlock = Skeletons.SharedMutexImpl_SlowUnlock := rfl
theorem tie_Spinlock_lock : Extracted.Kernels.Spinlock_lock = Skeletons.Spinlock_lock := rfl
theorem tie_Spinlock_unlock : Extracted.Kernels.Spinlock_unlock = Skeletons.Spinlock_unlock := rfl
theorem tie_SharedMutex_Lock : Extracted.Kernels.SharedMutex_Lock = Skeletons.SharedMutex_Lock := rfl
theorem tie_SharedMutex_LockShared : Extracted.Kernels.SharedMutex_LockShared = Skeletons.SharedMutex_LockShared := rfl
theorem tie_SharedMutex_TryGuard : Extracted.Kernels.SharedMutex_TryGuard = Skeletons.SharedMutex_TryGuard := rfl
theorem tie_SharedMutex_TryGuardShared :
    Extracted.Kernels.SharedMutex_TryGuardShared = Skeletons.SharedMutex_TryGuardShared := rfl
theorem tie_SharedMutex_Guard : Extracted.Kernels.SharedMutex_Guard = Skeletons.SharedMutex_Guard := rfl
theorem tie_SharedMutex_GuardShared : Extracted.Kernels.SharedMutex_GuardShared = Skeletons.SharedMutex_GuardShared := rfl
theorem tie_LockAwaiter_await_ready :
    Extracted.Kernels.LockAwaiter_await_ready = Skeletons.LockAwaiter_await_ready := rfl
theorem tie_LockAwaiter_await_suspend :
    Extracted.Kernels.LockAwaiter_await_suspend = Skeletons.LockAwaiter_await_suspend := rfl
theorem tie_GuardAwaiter_await_resume :
    Extracted.Kernels.GuardAwaiter_await_resume = Skeletons.GuardAwaiter_await_resume := rfl
theorem tie_Guard_dtor : Extracted.Kernels.Guard_dtor = Skeletons.Guard_dtor := rfl
theorem tie_Guard_UnlockHere : Extracted.Kernels.Guard_UnlockHere = Skeletons.Guard_UnlockHere := rfl
theorem tie_Guard_Lock : Extracted.Kernels.Guard_Lock = Skeletons.Guard_Lock := rfl
theorem tie_Guard_TryLock : Extracted.Kernels.Guard_TryLock = Skeletons.Guard_TryLock := rfl
theorem tie_Guard_Unlock : Extracted.Kernels.Guard_Unlock = Skeletons.Guard_Unlock := rfl
theorem tie_Guard_UnlockOn : Extracted.Kernels.Guard_UnlockOn = Skeletons.Guard_UnlockOn := rfl
theorem tie_Guard_TryLockImpl : Extracted.Kernels.Guard_TryLockImpl = Skeletons.Guard_TryLockImpl := rfl

end Yaclib.Props.C15.Tie
