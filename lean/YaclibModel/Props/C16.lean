/-
C16 — WaitGroup / OneShotEvent release every waiter exactly when the count hits zero.

Property theorems about the model `Yaclib.Event` (Model/Event.lean), for **every** workload: any number of threads each
running any program of Add / Done / Attach / Consume / Promise::Set / Ready / Wait / WaitFor / co_await (inline, sticky,
on-executor) / TryAdd operations, any number of futures, every interleaving at atomic-operation granularity, every placement
of the timeouts, every admissible stale pre-check load, spurious weak-CAS failure and spurious wake-up.  Where the property
speaks "within the documented rule that Add is only called while the count is non-zero", the theorems assume `w.ok`, the
decidable token discipline of Model/Event.lean / Proofs/EventTok.lean.  Invariants and their preservation proofs are in
Proofs/Event*.lean.
-/
import YaclibModel.Proofs.EventProgress
import YaclibModel.Proofs.EventExec2
import YaclibModel.Proofs.StrandTowerInline
import YaclibModel.Proofs.StrandTowerManual
import YaclibModel.Proofs.PoolExecContract
import YaclibModel.Extracted.Kernels
import YaclibModel.Model.Skeletons

namespace Yaclib.Props.C16
open Yaclib.Event

variable {w : Workload} {s s' : State} {l : Label}

/-- the label reports a release: a coroutine / job was resumed, `Wait()` returned, `WaitFor` returned true -/
def IsRelease (l : Label) : Prop := (∃ t j, l = .rel t j) ∨ (∃ t j, l = .ret t j true)

/-- a waiter is released only after a decrement has taken the count to zero … -/
theorem released_only_at_zero (h : Reachable w s) (hs : Step s l s') (hl : IsRelease l) : s.zeroed = true := by
  have hz := invZ_reachable h
  rcases hl with ⟨t, j, rfl⟩ | ⟨t, j, rfl⟩
  · cases hs with
    | tRunRel _ _ rest hp _ => exact hz.z_pc t (by simp [hp, Pc.setter])
    | tResume _ _ hp => exact hz.z_rel t (by simp [hp, Pc.releasing])
  · cases hs with
    | tRep _ _ _ hp => exact hz.z_rel t (by simp [hp, Pc.releasing])

/-- … and under the documented rule the count is zero from then on: every Add has been matched by Done, no thread holds a unit
    and no attached / consumed future still carries one (all of them have completed and decremented) -/
theorem zero_is_final (hok : w.ok) (h : Reachable w s) (hz : s.zeroed = true) :
    s.count = 0 ∧ s.toks = [] ∧ ∀ t, (s.thr t).held = 0 := by
  have ht := invT_reachable hok h
  have hc := ht.t_z hz
  have hcnt := ht.t_cnt
  rw [hc] at hcnt
  have h1 : s.toks.length = 0 := by omega
  have h2 : hsum s.thr s.w.nthr = 0 := by omega
  refine ⟨hc, List.eq_nil_of_length_eq_zero h1, fun t => ?_⟩
  by_cases hlt : t < s.w.nthr
  · have := hsum_pos (f := s.thr) hlt; omega
  · exact (ht.t_out t (by omega)).2.2

/-- the rule itself is respected by every run of an `ok` workload: each `fetch_add` (Add, and the implicit Add of
    Attach / Consume) finds a non-zero count -/
theorem add_only_nonzero (hok : w.ok) (h : Reachable w s) {t k : Nat} {old : Int} (hs : Step s (.fadd t k old) s') : 1 ≤ old := by
  have ht := invT_reachable hok h
  have hcnt := ht.t_cnt
  have key : ∀ t, (s.thr t).pc ≠ .idle ∨ (s.thr t).prog ≠ [] → 1 ≤ (s.thr t).held → 1 ≤ s.count := by
    intro t ha hh
    have := hsum_pos (f := s.thr) (ht.active_lt ha)
    omega
  cases hs with
  | tAdd _ _ rest hp hpr =>
      have hok := ht.t_ok t
      simp only [thrOk, hp, hpr, okProg, Bool.and_eq_true, decide_eq_true_eq] at hok
      exact key t (Or.inr (by simp [hpr])) hok.1
  | tInsAdd _ c fs rest hp hpr hne =>
      have hok := ht.t_ok t
      simp only [thrOk, hp, hpr, okProg, Bool.and_eq_true, decide_eq_true_eq] at hok
      exact key t (Or.inr (by simp [hpr])) hok.1.1

/-- the count reaches zero at most once, `SetImpl` never runs on the all-done sentinel, the count never underflows -/
theorem set_once (hok : w.ok) (h : Reachable w s) : s.nzero ≤ 1 ∧ s.crash = false ∧ 0 ≤ s.count := by
  have ht := invT_reachable hok h
  refine ⟨ht.t_nz, ht.t_crash, ?_⟩
  rw [ht.t_cnt]; omega

/-- every waiter is released at most once -/
theorem released_once (hok : w.ok) (h : Reachable w s) (j : Nat) : (s.job j).nrel ≤ 1 := (invJ_reachable hok h).r_nrel j

/-- a waiter arriving late: `TryAdd` returns false (the ghost state `failed`) only when the all-done sentinel is in the head,
    i.e. only after zero; a push succeeds only while it is not -/
theorem late_waiter_released (h : Reachable w s) (j : Nat) :
    ((s.job j).st = .failed → s.zeroed = true) ∧ (∀ t s', Step s (.hCas t true) s' → s.head ≠ none) := by
  refine ⟨(invZ_reachable h).z_failed j, ?_⟩
  intro t s' hs
  cases hs with
  | tCasOk _ _ l _ hh => simp [hh]

/-- the heap waiter of a timed wait is freed at most once, by the owner's or the event's `DecRef` — whichever comes last (its
    reference count is exactly the number of owners that have not let go) — and nobody ever touches a waiter object that is gone -/
theorem timed_waiter_freed_once (hok : w.ok) (h : Reachable w s) (j : Nat) (hk : (s.job j).kind = .timed) :
    (s.job j).nfree ≤ 1 ∧ ((s.job j).freed = true ↔ (s.job j).nfree = 1) ∧ s.bad = false ∧
    ((s.job j).st ≠ .failed →
      (s.job j).refs = (if (s.job j).oref then 1 else 0) + (if (s.job j).st.inList then 1 else 0) ∧
      ((s.job j).freed = true ↔ (s.job j).refs = 0)) := by
  have hi := invJ_reachable hok h
  refine ⟨?_, ?_, hi.bad, fun hst => ⟨(hi.f_timed j hk hst).1, (hi.f_timed j hk hst).2.1⟩⟩
  · by_cases hst : (s.job j).st = .failed
    · rw [(hi.f_failed j hk hst).2.1]; omega
    · rw [(hi.f_timed j hk hst).2.2]; split <;> omega
  · by_cases hst : (s.job j).st = .failed
    · have := hi.f_failed j hk hst; simp [this.1, this.2.1]
    · have := (hi.f_timed j hk hst).2.2
      rw [this]; cases (s.job j).freed <;> simp

/-- consumed futures are released exactly as often as they were consumed, never more: the core of a future whose `Consume`
    was decided once is released once it has completed (or at once if it was ready), and never twice; attached futures are
    never released by the WaitGroup -/
theorem consumed_released_once (h : Reachable w s) (f : Nat) :
    (s.fut f).nfree + (if (s.fut f).word = .drop then 1 else 0) = (s.fut f).ncon := (invA_reachable h).a_con f

/-- attached futures stay valid for their owner: `Ready()` reports true only once the future has completed, and then always -/
theorem attached_not_ready_before_completion (h : Reachable w s) :
    (∀ x, x ∈ s.readyObs → x.2.1 = true → x.2.2 = true) ∧ (∀ f, (s.fut f).word = .result ↔ (s.fut f).completed = true) :=
  ⟨(invA_reachable h).a_obs, (invA_reachable h).a_res⟩

/- Defect D3 (fixed in /repo by commit c9c07bc): before the fix `Future::Ready()` was `word ≠ kEmpty`, which is true as soon as
   `Attach` has registered the WaitGroup's callback.  With `Ready()` modelled as `word ≠ empty` the theorem above was false and
   this file proved its negation on a witness instead:
     theorem attached_not_ready_before_completion_violated_witness :
         ∃ s, Reachable ⟨1, fun _ => [.insert false [0], .ready 0], fun _ => 1, 1⟩ s ∧ (0, true, false) ∈ s.readyObs
   (run: fadd 0 1 1, fLoad 0 0 empty, fCas 0 0 true, fLoad 0 0 call, rdy 0 0 true); the implementation scenario was
   `event nthr=2 held=1,0 nfut=1 prog=att:0;rdy:0;done:1;wait;rdy:0/ful:0 kind=wg`, choices `k0/2`. -/

/-- OneShotEvent gives the same guarantees: an event whose `Set()` is called once by one thread is the workload in which that
    thread holds the only unit and returns it; such workloads respect the rule, so every theorem of this file applies -/
def Workload.oneshot (w : Workload) (ts : Nat) : Prop :=
  ts < w.nthr ∧ w.prog ts = [.done 1] ∧ w.held0 ts = 1 ∧
  ∀ t, t < w.nthr → t ≠ ts → w.held0 t = 0 ∧ ∀ op, op ∈ w.prog t → opKind op ≠ none

theorem okProg_waits (p : List Op) (hp : ∀ op, op ∈ p → opKind op ≠ none) : okProg 0 p = true := by
  induction p with
  | nil => rfl
  | cons op r ih =>
      have h1 := hp op (by simp)
      have h2 := ih (fun o ho => hp o (by simp [ho]))
      cases op <;> simp [opKind] at h1 <;> simpa [okProg] using h2

theorem oneshot_event_same {ts : Nat} (h : Workload.oneshot w ts) : w.ok := by
  intro t ht
  by_cases he : t = ts
  · subst he; rw [h.2.1, h.2.2.1]; rfl
  · have := h.2.2.2 t ht he
    rw [this.1]; exact okProg_waits _ this.2

/-- nobody stays parked: once the count has reached zero, a state in which nothing but spurious weak-CAS failures and spurious
    wake-ups is possible is a state in which every thread has finished its program and every waiter — registered before or
    arriving after — has been released exactly once (a timed wait may instead have returned false earlier; its heap waiter is
    freed all the same) -/
theorem quiescent_complete (hok : w.ok) (h : Reachable w s) (hq : ∀ l s', Step s l s' → Spur s l) (hz : s.zeroed = true) :
    (∀ t, (s.thr t).pc = .idle ∧ (s.thr t).prog = []) ∧ ∀ j, j < s.njobs → JobDone (s.job j) :=
  quiescent_done (invZ_reachable h) (invT_reachable hok h) (invJ_reachable hok h) (invQ_reachable hok h) hq hz


/-! ### on-executor waiters over a real executor (Proofs/EventExec*.lean)

The waiters `j` with `X j` (`co_await wg.AwaitOn(e)` / sticky on `e`) are released through an executor `E` given as an open
transition system (`Yaclib.Strand.Exec`): the model's `rel t j` = `E`'s `sub j`; `call j` … `ret j` = the coroutine is resumed;
`drop j` = it is completed with StopError.  `nrel j` counts the hand-over (Submit), so a waiter that is Dropped later counts as
released once; that the executor then Calls or Drops it exactly once is `ExecContract E`. -/
section OverExec
open Yaclib.Strand (Exec ExecContract inlineExec manualExec tower inline_contract manual_contract tower_satisfies_contract)
open Yaclib.Pool (poolExec pool_contract)
variable {E : Exec} {X : Nat → Bool} {x x' : XState E} {xl : XLab}

/-- projection, for EVERY executor `E`: the event component of a reachable composed state is reachable in the plain model (all
    theorems above apply to it) and the executor component is reached with a protocol-honouring client -/
theorem xevent_projects (h : XReach w E X x) : Reachable w x.m ∧ E.Run x.x x.p := Yaclib.Event.xevent_projects h

theorem released_only_at_zero_over (hok : w.ok) (hc : ExecContract E) (h : XReach w E X x) (hs : XStep E X x xl x') :
    (∀ t j, xl = .sub t j → x.m.zeroed = true) ∧
    (∀ j, xl = .call j ∨ xl = .drop j → x.m.zeroed = true ∧ (x.m.job j).nrel = 1) :=
  released_only_at_zero_over' hok hc h hs

theorem released_once_over (hok : w.ok) (hc : ExecContract E) (h : XReach w E X x) (hs : XStep E X x xl x') (j : Nat) :
    (x.m.job j).nrel ≤ 1 ∧ (∀ t, xl = .sub t j → x.p j = .fresh ∧ (x.m.job j).nrel = 0 ∧ (x'.m.job j).nrel = 1) ∧
    (xl = .call j ∨ xl = .drop j → x.p j = .pending) :=
  released_once_over' hok hc h hs j

/-- every thread has finished, every waiter is done, and the executor holds nothing: whatever was submitted is finished -/
def OverDone {E : Exec} (x : XState E) : Prop :=
  ((∀ t, (x.m.thr t).pc = .idle ∧ (x.m.thr t).prog = []) ∧ ∀ j, j < x.m.njobs → JobDone (x.m.job j)) ∧
  ∀ j, x.p j ≠ .fresh → x.p j = .finished

/-- quiet composition ⇒ nothing pending in `E`: every on-executor waiter the event released has been resumed or dropped -/
theorem quiescent_complete_over (hok : w.ok) (hc : ExecContract E) (h : XReach w E X x) (hq : XQuiet E X x)
    (hz : x.m.zeroed = true) : OverDone x :=
  quiescent_complete_over' hok hc h hq hz

/-! instances: the library's executors -/

theorem quiescent_over_inline (alive : Bool) (hok : w.ok) {x : XState (inlineExec alive)} (h : XReach w _ X x)
    (hq : XQuiet _ X x) (hz : x.m.zeroed = true) : OverDone x := quiescent_complete_over hok (inline_contract alive) h hq hz

theorem quiescent_over_manual (hok : w.ok) {x : XState (manualExec false)} (h : XReach w _ X x) (hq : XQuiet _ X x)
    (hz : x.m.zeroed = true) : OverDone x := quiescent_complete_over hok manual_contract h hq hz

theorem quiescent_over_pool {n : Nat} (hn : 0 < n) (stop : Option Yaclib.Pool.StopKind) (spur : Bool) (hok : w.ok)
    {x : XState (poolExec n stop spur)} (h : XReach w _ X x) (hq : XQuiet _ X x) (hz : x.m.zeroed = true) :
    OverDone x := quiescent_complete_over hok (pool_contract hn stop spur) h hq hz

theorem quiescent_over_tower {base : Exec} (hb : ExecContract base) (n : Nat) (hok : w.ok) {x : XState (tower base n)}
    (h : XReach w _ X x) (hq : XQuiet _ X x) (hz : x.m.zeroed = true) : OverDone x :=
  quiescent_complete_over hok (tower_satisfies_contract hb n) h hq hz

/-- non-vacuity: `co_await wg.AwaitOn(e)` with `e` = the STOPPED inline executor: the waiter is pushed, the count reaches zero,
    SetImpl releases it = Submit (sub 0), the executor Drops it (drop 0): released once (`nrel = 1`), finished in `E` -/
example : ∃ x : XState (inlineExec false),
    XReach ⟨2, fun t => if t = 0 then [.done 1] else [.await .on], fun t => if t = 0 then 1 else 0, 0⟩ (inlineExec false) (fun _ => true) x ∧
    (x.m.job 0).nrel = 1 ∧ x.p 0 = .finished := by
  let w : Workload := ⟨2, fun t => if t = 0 then [.done 1] else [.await .on], fun t => if t = 0 then 1 else 0, 0⟩
  have h0 : XReach w (inlineExec false) (fun _ => true) (xinit w _) := .init
  have h1 := XReach.step h0 (XStep.plain (l := .hLoad 1 (.cur [])) (next_sound (s' := _) rfl) rfl)
  have h2 := XReach.step h1 (XStep.plain (l := .hCas 1 true) (next_sound (s' := _) rfl) rfl)
  have h3 := XReach.step h2 (XStep.plain (l := .fsub 0 1 1) (next_sound (s' := _) rfl) rfl)
  have h4 := XReach.step h3 (XStep.plain (l := .hXchg 0 (some [0])) (next_sound (s' := _) rfl) rfl)
  have h5 := XReach.step h4 (XStep.sub (t := 0) (j := 0) (lx := Yaclib.Strand.XEv.sub 0)
    (x' := Yaclib.Strand.upd Yaclib.Strand.protInit 0 .pending) (next_sound (s' := _) rfl) rfl (by exact ⟨rfl, rfl⟩) rfl rfl)
  have h6 := XReach.step h5 (XStep.drop (j := 0) (lx := Yaclib.Strand.XEv.drop 0)
    (x' := Yaclib.Strand.upd (Yaclib.Strand.upd Yaclib.Strand.protInit 0 .pending) 0 .finished) (by exact ⟨rfl, rfl, rfl⟩) rfl)
  exact ⟨_, h6, rfl, rfl⟩

end OverExec

/-- everything the trace validator accepts is a behaviour the theorems speak about -/
theorem validator_sound (h : Reachable w s) (hn : next s l = some s') : Reachable w s' := .step h (next_sound hn)

/-! ### non-vacuity -/

/-- the rule is satisfiable (and decidable): `wg{1}`; thread 0 attaches future 0, asks Ready(), gives its unit back and waits;
    thread 1 fulfils the future; thread 2 awaits -/
def wl : Workload :=
  { nthr := 3, nfut := 1, held0 := fun t => if t = 0 then 1 else 0,
    prog := fun t => if t = 0 then [.insert false [0], .ready 0, .done 1, .wait, .ready 0]
                     else if t = 1 then [.fulfil 0] else [.await .inline] }

example : wl.ok := by decide

/-- the scenario that exhibited D3: after `Attach` the future is not Ready (the word holds the WaitGroup's callback); the
    count reaches zero by the producer's decrement, which releases the coroutine and the blocking waiter; afterwards the
    future is Ready -/
example : ∃ s, Reachable wl s ∧ s.readyObs = [(0, false, false), (0, true, true)] ∧ (s.job 0).nrel = 1 ∧ (s.job 1).nrel = 1 ∧
    s.count = 0 ∧ ∀ t, t < 3 → (s.thr t).prog = [] := by
  have h0 : Reachable wl (init wl) := .init
  have h1 := validator_sound h0 (l := .fadd 0 1 1) (s' := _) rfl
  have h2 := validator_sound h1 (l := .fLoad 0 0 .empty) (s' := _) rfl
  have h3 := validator_sound h2 (l := .fCas 0 0 true) (s' := _) rfl
  have h4 := validator_sound h3 (l := .fLoad 0 0 .call) (s' := _) rfl
  have h5 := validator_sound h4 (l := .rdy 0 0 false) (s' := _) rfl        -- not Ready although a callback is registered
  have h6 := validator_sound h5 (l := .hLoad 2 (.cur [])) (s' := _) rfl     -- co_await: Ready() of the event
  have h7 := validator_sound h6 (l := .hLoad 2 (.cur [])) (s' := _) rfl     -- TryAdd
  have h8 := validator_sound h7 (l := .hCas 2 true) (s' := _) rfl           -- job 0 (coroutine) pushed: suspended
  have h9 := validator_sound h8 (l := .fsub 0 1 2) (s' := _) rfl            -- Done(): 2 → 1
  have h10 := validator_sound h9 (l := .hLoad 0 (.cur [0])) (s' := _) rfl   -- Wait(): TryAdd
  have h11 := validator_sound h10 (l := .hCas 0 true) (s' := _) rfl         -- job 1 (blocking) pushed
  have h12 := validator_sound h11 (l := .lock 0 1) (s' := _) rfl
  have h13 := validator_sound h12 (l := .unlock 0 1) (s' := _) rfl          -- asleep
  have h14 := validator_sound h13 (l := .pXchg 1 0 .call) (s' := _) rfl     -- the future completes
  have h15 := validator_sound h14 (l := .fsub 1 1 1) (s' := _) rfl          -- its callback: 1 → 0: Set
  have h16 := validator_sound h15 (l := .hXchg 1 (some [1, 0])) (s' := _) rfl
  have h17 := validator_sound h16 (l := .lock 1 1) (s' := _) rfl
  have h18 := validator_sound h17 (l := .unlock 1 1) (s' := _) rfl
  have h19 := validator_sound h18 (l := .rel 1 0) (s' := _) rfl             -- the coroutine is resumed by the setter
  have h20 := validator_sound h19 (l := .lock 0 1) (s' := _) rfl
  have h21 := validator_sound h20 (l := .unlock 0 1) (s' := _) rfl
  have h22 := validator_sound h21 (l := .ret 0 1 true) (s' := _) rfl        -- Wait() returns
  have h23 := validator_sound h22 (l := .fLoad 0 0 .result) (s' := _) rfl
  have h24 := validator_sound h23 (l := .rdy 0 0 true) (s' := _) rfl
  refine ⟨_, h24, rfl, rfl, rfl, rfl, ?_⟩
  intro t ht
  have : t = 0 ∨ t = 1 ∨ t = 2 := by omega
  rcases this with rfl | rfl | rfl <;> rfl

/-- a timed wait that times out while the setter is already inside its `Set()`: WaitFor returns true after all (the flag was
    set under the mutex), the setter lets go last and frees the heap waiter; a late blocking waiter is released without ever
    entering the list -/
example : ∃ s, Reachable ⟨2, fun t => if t = 0 then [.done 1] else [.waitFor, .wait], fun t => if t = 0 then 1 else 0, 0⟩ s ∧
    (s.job 0).nrel = 1 ∧ (s.job 0).freed = true ∧ (s.job 0).nfree = 1 ∧ (s.job 1).st = .failed ∧ (s.job 1).nrel = 1 ∧
    s.bad = false := by
  let w : Workload := ⟨2, fun t => if t = 0 then [.done 1] else [.waitFor, .wait], fun t => if t = 0 then 1 else 0, 0⟩
  have h0 : Reachable w (init w) := .init
  have h1 := validator_sound h0 (l := .hLoad 1 (.cur [])) (s' := _) rfl
  have h2 := validator_sound h1 (l := .hCas 1 true) (s' := _) rfl
  have h3 := validator_sound h2 (l := .lock 1 0) (s' := _) rfl
  have h4 := validator_sound h3 (l := .unlock 1 0) (s' := _) rfl
  have h5 := validator_sound h4 (l := .fsub 0 1 1) (s' := _) rfl
  have h6 := validator_sound h5 (l := .hXchg 0 (some [0])) (s' := _) rfl
  have h7 := validator_sound h6 (l := .timeout 1 0) (s' := _) rfl            -- the deadline passes …
  have h8 := validator_sound h7 (l := .lock 0 0) (s' := _) rfl               -- … but the setter gets the mutex first
  have h9 := validator_sound h8 (l := .unlock 0 0) (s' := _) rfl
  have h10 := validator_sound h9 (l := .lock 1 0) (s' := _) rfl
  have h11 := validator_sound h10 (l := .unlock 1 0) (s' := _) rfl
  have h12 := validator_sound h11 (l := .jDec 1 0 2) (s' := _) rfl           -- the waiter lets go first
  have h13 := validator_sound h12 (l := .ret 1 0 true) (s' := _) rfl
  have h14 := validator_sound h13 (l := .jDec 0 0 1) (s' := _) rfl           -- the event lets go last: delete
  have h15 := validator_sound h14 (l := .hLoad 1 .done) (s' := _) rfl        -- the late Wait(): TryAdd fails
  have h16 := validator_sound h15 (l := .ret 1 1 true) (s' := _) rfl
  exact ⟨_, h16, rfl, rfl, rfl, rfl, rfl, rfl⟩

end Yaclib.Props.C16

/-! ### tie to the source (T2): the kernels this model was written from are unchanged.
`Extracted/Kernels.lean` is regenerated from /repo on every check run. -/
namespace Yaclib.Props.C16.Tie
open Yaclib

theorem tie_OneShotEvent_SetImpl : Extracted.Kernels.OneShotEvent_SetImpl = Skeletons.OneShotEvent_SetImpl := rfl
theorem tie_OneShotEvent_TryAdd : Extracted.Kernels.OneShotEvent_TryAdd = Skeletons.OneShotEvent_TryAdd := rfl
theorem tie_OneShotEvent_Ready : Extracted.Kernels.OneShotEvent_Ready = Skeletons.OneShotEvent_Ready := rfl
theorem tie_OneShotEvent_Wait : Extracted.Kernels.OneShotEvent_Wait = Skeletons.OneShotEvent_Wait := rfl
theorem tie_OneShotEvent_Set : Extracted.Kernels.OneShotEvent_Set = Skeletons.OneShotEvent_Set := rfl
theorem tie_OneShotEvent_TimedWait : Extracted.Kernels.OneShotEvent_TimedWait = Skeletons.OneShotEvent_TimedWait := rfl
theorem tie_ExtendedAwaiter_Call : Extracted.Kernels.OneShotEvent_ExtendedAwaiter_Call = Skeletons.OneShotEvent_ExtendedAwaiter_Call := rfl
theorem tie_Waiter_Call : Extracted.Kernels.OneShotEvent_Waiter_Call = Skeletons.OneShotEvent_Waiter_Call := rfl
theorem tie_TimedWaiter_Call : Extracted.Kernels.OneShotEvent_TimedWaiter_Call = Skeletons.OneShotEvent_TimedWaiter_Call := rfl
theorem tie_await_ready : Extracted.Kernels.OneShotEvent_await_ready = Skeletons.OneShotEvent_await_ready := rfl
theorem tie_OnAwaiter_await_ready : Extracted.Kernels.OneShotEvent_OnAwaiter_await_ready = Skeletons.OneShotEvent_OnAwaiter_await_ready := rfl
theorem tie_await_suspend : Extracted.Kernels.OneShotEvent_await_suspend = Skeletons.OneShotEvent_await_suspend := rfl
theorem tie_WaitGroup_Add : Extracted.Kernels.WaitGroup_Add = Skeletons.WaitGroup_Add := rfl
theorem tie_WaitGroup_Done : Extracted.Kernels.WaitGroup_Done = Skeletons.WaitGroup_Done := rfl
theorem tie_WaitGroup_Wait : Extracted.Kernels.WaitGroup_Wait = Skeletons.WaitGroup_Wait := rfl
theorem tie_WaitGroup_WaitFor : Extracted.Kernels.WaitGroup_WaitFor = Skeletons.WaitGroup_WaitFor := rfl
theorem tie_WaitGroup_InsertRange : Extracted.Kernels.WaitGroup_InsertRange = Skeletons.WaitGroup_InsertRange := rfl
theorem tie_WaitGroup_InsertCore : Extracted.Kernels.WaitGroup_InsertCore = Skeletons.WaitGroup_InsertCore := rfl
theorem tie_WaitGroup_InsertIt : Extracted.Kernels.WaitGroup_InsertIt = Skeletons.WaitGroup_InsertIt := rfl
theorem tie_CallCallback_Impl : Extracted.Kernels.CallCallback_Impl = Skeletons.CallCallback_Impl := rfl
theorem tie_DropCallback_Impl : Extracted.Kernels.DropCallback_Impl = Skeletons.DropCallback_Impl := rfl
theorem tie_AtomicCounter_Add : Extracted.Kernels.AtomicCounter_Add = Skeletons.AtomicCounter_Add := rfl
theorem tie_AtomicCounter_Sub : Extracted.Kernels.AtomicCounter_Sub = Skeletons.AtomicCounter_Sub := rfl
theorem tie_AtomicCounter_SubEqual : Extracted.Kernels.AtomicCounter_SubEqual = Skeletons.AtomicCounter_SubEqual := rfl
theorem tie_SetDeleter_Delete : Extracted.Kernels.SetDeleter_Delete = Skeletons.SetDeleter_Delete := rfl
theorem tie_SetCallbackImpl : Extracted.Kernels.BaseCore_SetCallbackImpl = Skeletons.BaseCore_SetCallbackImpl := rfl
theorem tie_SetResultImpl : Extracted.Kernels.BaseCore_SetResultImpl = Skeletons.BaseCore_SetResultImpl := rfl
theorem tie_BaseCore_Ready : Extracted.Kernels.BaseCore_Ready = Skeletons.BaseCore_Ready := rfl
theorem tie_FutureBase_Ready : Extracted.Kernels.FutureBase_Ready = Skeletons.FutureBase_Ready := rfl
theorem tie_MutexEvent_Set : Extracted.Kernels.MutexEvent_Set = Skeletons.MutexEvent_Set := rfl
theorem tie_MutexEvent_Wait : Extracted.Kernels.MutexEvent_Wait = Skeletons.MutexEvent_Wait := rfl
theorem tie_MutexEvent_WaitTimed : Extracted.Kernels.MutexEvent_WaitTimed = Skeletons.MutexEvent_WaitTimed := rfl

end Yaclib.Props.C16.Tie
