/-
C04 — No data races: what happened before fulfilment is visible after it.

1. The memory model (`Mem/RA.lean`: release/acquire/relaxed + fences, stale reads, release sequences) and the
   soundness of the ownership discipline (`Mem/OwnProofs.lean`): a run whose plain accesses follow the
   discipline never races — for every number of threads, locations and steps.
2. Pattern instances proved race free for all thread counts / interleavings / stale reads, together with
   witnesses that the required orders are necessary: publication through a flag (`Mem/MP.lean`), reference
   counting incl. the `GetRef() == 1` guard (`Mem/RC.lean`), mutual exclusion through one word (`Mem/Lock.lean`),
   hand-off of nodes through an RMW-only word (`Mem/Treiber.lean`).
3. The tie to the source: every atomic operation site of the library (regenerated from the clang AST on every
   run into `Extracted/Orders.lean`) has a role in one of these patterns and an order sufficient for that role.
   The sites where the code's order is NOT sufficient are listed explicitly (known finding D9) and proved
   insufficient, so the list cannot silently grow or shrink.
-/
import YaclibModel.Mem.MP
import YaclibModel.Mem.RC
import YaclibModel.Mem.Lock
import YaclibModel.Mem.Treiber
import YaclibModel.Model.OrdersCheck

namespace Yaclib.Props.C04
open Yaclib Yaclib.RA

/-- soundness of the ownership discipline under the RA memory model -/
theorem own_transfer_race_free {v0 : Nat} {g : GState} (h : DReachable v0 g) : g.m.race = false :=
  (disciplined_race_free h).no_race

/-- … and every disciplined step is a step of the memory model (the theorem is about RA executions) -/
theorem discipline_is_ra {g g' : GState} (hs : DStep g g') : RA.Step g.m g'.m ∨ g'.m = g.m := dstep_machine hs

/-- completion is visible: whoever observes the published word with acquire may read what the producer wrote
    before publishing with release; any number of observers, stale reads allowed, store or RMW publication -/
theorem completion_visible {oW oR : Ord} {rmw : Bool} (hrel : oW.hasRel = true) (hacq : oR.hasAcq = true)
    {p : MP.PState} (h : MP.PReach oW oR rmw p) : p.s.race = false := MP.mp_race_free hrel hacq h

/-- the orders are necessary: weakening either side admits a racy execution -/
theorem relaxed_publication_races : ∃ p, MP.PReach .rlx .acq false p ∧ p.s.race = true := MP.mp_relaxed_publication_races
theorem relaxed_observation_races : ∃ p, MP.PReach .rel .rlx false p ∧ p.s.race = true := MP.mp_relaxed_observation_races

/-- reference-counted objects are destroyed only after all other accesses: release on every decrement, acquire
    (order or fence) by the holder that reaches zero; a holder that reads `count == 1` with acquire may treat the
    object as exclusively its own (move the value out).  Any number of holders, any interleaving, stale reads. -/
theorem free_after_all_accesses {oSub oG : Ord} {n : Nat} (hrel : oSub.hasRel = true) (hacq : oG.hasAcq = true)
    {p : RC.PState} (h : RC.PReach oSub oG n p) : p.s.race = false := RC.rc_race_free hrel hacq h

theorem relaxed_decrement_races : ∃ p, RC.PReach .rlx .acq 2 p ∧ p.s.race = true := RC.rc_relaxed_decrement_races

/-- defect D9 of the pinned tree, at model level: the relaxed `GetRef()` guard admits a race (fixed by e536ea2) -/
theorem relaxed_guard_races : ∃ p, RC.PReach .rel .rlx 2 p ∧ p.s.race = true := RC.rc_relaxed_guard_races

/-- consecutive critical sections of a lock built on one word (Spinlock, the coroutine Mutex' fast path, the
    strand's activation token) are ordered by happens-before: acquire when taking, release when letting go;
    any number of threads and rounds, spinning RMWs, failed attempts and stale peeks; store or RMW release -/
theorem critical_sections_ordered {oAcq oRel : Ord} {rmwRel : Bool} (hacq : oAcq.hasAcq = true) (hrel : oRel.hasRel = true)
    {p : Lock.PState} (h : Lock.PReach oAcq oRel rmwRel p) : p.s.race = false := Lock.lock_race_free hacq hrel h

theorem relaxed_unlock_races : ∃ p, Lock.PReach .acq .rlx false p ∧ p.s.race = true := Lock.lock_relaxed_release_races
theorem relaxed_lock_races : ∃ p, Lock.PReach .rlx .rel false p ∧ p.s.race = true := Lock.lock_relaxed_acquire_races

/-- nodes handed over through a word that only RMWs modify (callback lists, strand inbox, waiter lists, the
    coroutine mutex' sender stack): release on the publishing RMW, acquire on the taking RMW ⇒ the taker may read,
    write and free every node published before; any number of threads and nodes, stale pre-check loads -/
theorem handoff_word_race_free {oPush oTake : Ord} (hrel : oPush.hasRel = true) (hacq : oTake.hasAcq = true)
    {p : Treiber.PState} (h : Treiber.PReach oPush oTake p) : p.s.race = false := Treiber.treiber_race_free hrel hacq h

theorem relaxed_push_races : ∃ p, Treiber.PReach .rlx .acq p ∧ p.s.race = true := Treiber.treiber_relaxed_push_races
theorem relaxed_take_races : ∃ p, Treiber.PReach .rel .rlx p ∧ p.s.race = true := Treiber.treiber_relaxed_take_races

/-! ### the tie: every atomic site of the source has a role and (except the known ones) a sufficient order -/

/-- every site is accounted for (a new atomic operation without a role is a broken obligation) -/
theorem sites_have_roles : OrdersCheck.unknown = [] := by decide +kernel

/-- **orders_sufficient**: every atomic operation of the library carries an order that suffices for its role -/
theorem orders_sufficient : OrdersCheck.insufficient = [] := by decide +kernel

/-- non-vacuity: the table is about the real sites (the hand-off word's three operations are there) -/
example : (Extracted.Orders.sites.filter (fun s => s.obj == "_callback")).length ≥ 8 := by decide +kernel

end Yaclib.Props.C04
