/-
C11 — Wait returns only when ready; a timed-out wait leaves the futures intact.

Property theorems about the model `Yaclib.Wait` (Model/Wait.lean), for **every** workload: any number n of futures (unique
or shared), any list of Wait / WaitFor / WaitUntil calls over index ranges (single-future OneCounter fast path, variadic
and iterator forms all end in `WaitRange`), any consuming operation per future afterwards, every interleaving of the n
producers with the waiter at atomic-operation granularity, every placement of the timeout, every admissible stale
pre-check load and spurious weak-CAS failure / wake-up.  The inductive invariant (the accounting of DESIGN.md §3 C11) and
its preservation proofs are in Proofs/Wait*.lean.
-/
import YaclibModel.Proofs.WaitProgress
import YaclibModel.Extracted.Kernels
import YaclibModel.Model.Skeletons

namespace Yaclib.Props.C11
open Yaclib.Wait

variable {w : Workload} {s s' : State} {l : Label}

/-- `Wait(fs...)` (untimed) returns only in a state in which every listed future is fulfilled (and it reports `true`) -/
theorem wait_returns_all_ready (h : Reachable w s) {b : Bool} (hs : Step s (.ret b) s') (hu : s.timed = false) :
    b = true ∧ ∀ i, s.lo ≤ i → i < s.hi → (s.fut i).word = .result := by
  have hi := inv_reachable h
  cases hs with
  | wRet _ hp =>
      cases b with
      | true => exact ⟨rfl, hi.ret_true (Or.inr (Or.inl hp))⟩
      | false => have := (hi.ret_false (Or.inr hp)).1; rw [hu] at this; cases this

/-- `WaitFor` / `WaitUntil` return `true` only in a state in which every listed future is fulfilled -/
theorem waitfor_true_all_ready (h : Reachable w s) (hs : Step s (.ret true) s') :
    ∀ i, s.lo ≤ i → i < s.hi → (s.fut i).word = .result := by
  cases hs with
  | wRet _ hp => exact (inv_reachable h).ret_true (Or.inr (Or.inl hp))

/-- … and `false` only in a timed call in which the timeout step has happened -/
theorem waitfor_false_after_deadline (h : Reachable w s) (hs : Step s (.ret false) s') :
    s.timed = true ∧ s.timedOutSeen = true := by
  cases hs with
  | wRet _ hp => exact (inv_reachable h).ret_false (Or.inr hp)

/-- the flag `timedOutSeen` is raised by the timeout step only -/
theorem timeout_flag_only_by_timeout (hs : Step s l s') (h' : s'.timedOutSeen = true) :
    s.timedOutSeen = true ∨ l = .timeout := by
  cases hs <;> first
    | exact Or.inr rfl
    | (left
       simp only [doBegin, advReg, toRet, doRegLoad, doRegCasOk, doSub1, doLock1, doWake, doLockT, advRst, finalWait, doRstLoad,
         doRstCasOk, doSub2, doUnlockRet, doRet, doFin, doAttLoad, doAttCasOk, doDeliverW, doXchg, doPSub, doPLock, doPUnlock,
         doPInvoke] at h'
       repeat' split at h'
       all_goals first | exact h' | cases h')

/-- … and every call starts with the flag down, with exactly the range and kind the client asked for -/
theorem call_starts_clean {lo hi : Nat} {t : Bool} (hs : Step s (.call lo hi t) s') :
    s'.timedOutSeen = false ∧ s'.lo = lo ∧ s'.hi = hi ∧ s'.timed = t := by
  cases hs with
  | wCall c rest hp hc =>
      simp only [doBegin, advReg, toRet]
      repeat' split
      all_goals exact ⟨rfl, rfl, rfl, rfl⟩

/-- when no event exists (before, between and after the wait calls) no word holds an event pointer and no producer
    holds one: nothing dangles -/
theorem words_restored (h : Reachable w s) (ha : s.alive = false) (i : Nat) :
    (s.fut i).word ≠ .ev ∧ (s.fut i).ppc ≠ .took ∧ (s.fut i).ppc ≠ .setting ∧ (s.fut i).ppc ≠ .locked :=
  (inv_reachable h).dead ha i

/-- in particular at the moment a call returns: every word of a future that has not been consumed yet is again `empty`
    (not fulfilled, the callback was won back) or `result` -/
theorem words_restored_at_return (h : Reachable w s) {b : Bool} (hs : Step s (.ret b) s') (i : Nat) (hc : s.fi ≤ i) :
    (s.fut i).word = .empty ∨ (s.fut i).word = .result := by
  have hi := inv_reachable h
  cases hs with
  | wRet _ hp =>
      have ha : s.alive = false := by
        cases ha : s.alive with
        | false => rfl
        | true => have := hi.alive_iff.mp ha; simp [hp, WPc.inCall] at this
      cases hw : (s.fut i).word with
      | empty => simp
      | result => simp
      | ev => exact absurd hw (hi.dead ha i).1
      | cont => exact absurd hw (hi.todo i hc).2.1

/-- no completion touches the waiter's event after the call returned -/
theorem event_untouched_after_return (h : Reachable w s) : s.uaf = false := (inv_reachable h).uaf

/-- the steps in which a producer touches the event (its decrement, `lock` / `unlock` inside `Set`) happen while the event exists -/
theorem touch_only_alive (h : Reachable w s) (hs : Step s l s')
    (hl : (∃ i old, l = .pSub i old) ∨ (∃ i, l = .lock (.p i)) ∨ (∃ i, l = .unlock (.p i))) : s.alive = true := by
  have hi := inv_reachable h
  cases hs with
  | pSub i hp => exact hi.alive_of_took hp
  | pLock i hp _ => exact hi.alive_of_setting hp
  | pUnlock i hp => exact hi.alive_of_locked hp
  | _ => rcases hl with ⟨_, _, hl⟩ | ⟨_, hl⟩ | ⟨_, hl⟩ <;> cases hl

/-- the counter never underflows: every `fetch_sub(a)` finds at least `a` -/
theorem counter_no_underflow (h : Reachable w s) :
    (∀ a old, Step s (.wSub a old) s' → (a : Int) ≤ old) ∧ (∀ i old, Step s (.pSub i old) s' → 1 ≤ old) := by
  have hi := inv_reachable h
  constructor
  · intro a old hs
    cases hs with
    | wSub1 hp =>
        have hal : s.alive = true := hi.alive_iff.mpr (by simp [hp, WPc.inCall])
        have hone := hi.sub1_multi hp
        have hs1 := hi.early_inv (by simp [hp, WPc.early])
        have hpre := hi.pre_to (by simp [hp, WPc.preTimeout])
        have hcnt := hi.c_cnt hal hone
        have hwc := hi.c_wc hal
        have hle := hi.wc_le hal
        simp only [hs1, hpre.2.1, Bool.false_eq_true, ↓reduceIte, Ninn, Ntaken, Ndecd, Nback] at hcnt hwc
        omega
    | wSub2 hp =>
        have hal : s.alive = true := hi.alive_iff.mpr (by simp [hp, WPc.inCall])
        have h2 := hi.sub2_inv hp
        have hres := hi.resetting (by simp [hp, WPc.resetting])
        have hs1 : s.sub1done = true := by
          rcases hi.later_inv (by simp [hp, WPc.postReg]) (by simp [hp]) with h | h
          · exact absurd h h2.1
          · exact h
        have hcnt := hi.c_cnt hal h2.1
        have hwc := hi.c_wc hal
        have hrc := hi.c_rc hal
        have hle := hi.wc_le hal
        simp only [hs1, hres.2.2, Bool.false_eq_true, ↓reduceIte, Ninn, Ntaken, Ndecd, Nback] at hcnt hwc hrc
        omega
  · intro i old hs
    cases hs with
    | pSub _ hp =>
        have hal := hi.alive_of_took hp
        have hg := hi.g_took hal i hp
        have hlt := hi.lt_hi hal (i := i) (by simp [hg])
        have hone : s.hi - s.lo ≠ 1 := fun ho => hi.one_taken hal ho i hg
        have hpos : 1 ≤ Ntaken s := cntG_pos hlt hg
        have hcnt := hi.c_cnt hal hone
        have hwc := hi.c_wc hal
        have hrc := hi.c_rc hal
        have hle := hi.wc_le hal
        simp only [Ninn, Ntaken, Ndecd, Nback] at *
        cases h1 : s.sub1done <;> cases h2 : s.sub2done <;>
          simp only [h1, h2, Bool.false_eq_true, ↓reduceIte] at hcnt
        · omega
        · have := (hi.sub2done_inv hal h2).1; rw [h1] at this; cases this
        · omega
        · omega

/-- `Set` is called at most once per event … -/
theorem set_at_most_once (h : Reachable w s) (ha : s.alive = true) : s.evSet ≤ 1 := by
  rw [(inv_reachable h).ev_set ha]; split <;> omega

/-- … by exactly the decrement that reached zero: a producer inside `Set` is the recorded setter, the counter is zero
    (multi-future events; the OneCounter event has no counter), and it is the only one -/
theorem set_by_zero_decrement (h : Reachable w s) (i : Nat)
    (hp : (s.fut i).ppc = .setting ∨ (s.fut i).ppc = .locked) :
    s.setter = some i ∧ (s.hi - s.lo ≠ 1 → s.counter = 0) ∧
    ∀ j, (s.fut j).ppc = .setting ∨ (s.fut j).ppc = .locked → j = i := by
  have hi := inv_reachable h
  have ha : s.alive = true := by rcases hp with hp | hp; exact hi.alive_of_setting hp; exact hi.alive_of_locked hp
  have hs := hi.set_pp ha i hp
  refine ⟨hs, fun ho => (hi.set_cnt ha ho (by simp [hs])).1, fun j hj => ?_⟩
  have := hi.set_pp ha j hj
  rw [hs] at this; cases this; rfl

/-- each future delivers its result at most once (continuation invocations and `Get` returns together) … -/
theorem later_delivery_once (h : Reachable w s) (i : Nat) : (s.fut i).ndel ≤ 1 := by
  have hi := inv_reachable h
  by_cases hlt : i < s.fi
  · by_cases hf : s.w.fin i = .none
    · have := (hi.del_none i hlt hf).1; omega
    · have := hi.del_some i hlt hf; omega
  · have := (hi.todo i (by omega)).1; omega

/-- … and what is delivered is the result that was set, read while the word is `result` -/
theorem delivery_is_the_result (h : Reachable w s) {t : Tid} {i : Nat} {r : Unique.Res}
    (hs : Step s (.invoke t i r) s' ∨ Step s (.got i r) s') : r = w.res i ∧ (s.fut i).word = .result := by
  have hi := inv_reachable h
  rcases hs with hs | hs
  · cases hs with
    | wInvoke _ _ hw => exact ⟨by rw [hi.hw], hw⟩
    | pInvoke _ hp => exact ⟨by rw [hi.hw], hi.fire_res i hp⟩
  · cases hs with
    | wGot _ _ hw => exact ⟨by rw [hi.hw], hw⟩

/-- no lost wake-up: if every producer of the range has finished, a sleeping waiter finds the flag set -/
theorem sleeping_waiter_is_woken (h : Reachable w s) (hwf : w.wf) (hq : ∀ l s', Step s l s' → Spur s l) (f : Bool)
    (hp : s.wpc = .asleep f) : s.ready = true := asleep_ready (inv_reachable h) hq hwf f hp

/-- quiescence (safety form of "nothing is lost, nobody waits forever"): in a state in which nothing but a spurious wake-up
    is possible, every producer and the waiter have finished and every consumed future has delivered exactly once -/
theorem quiescent_complete (h : Reachable w s) (hwf : w.wf) (hq : ∀ l s', Step s l s' → Spur s l) : Done s :=
  quiescent_done (inv_reachable h) hwf hq

/-- everything the trace validator accepts is a behaviour the theorems speak about -/
theorem validator_sound (h : Reachable w s) (hn : next s l = some s') : Reachable w s' := .step h (next_sound hn)

/-! ### non-vacuity: concrete workloads reach the interesting states -/

def wl2 : Workload :=
  { n := 2, res := fun i => .val (i + 1), shared := fun _ => false, calls := [⟨0, 2, true⟩], fin := fun i => if i = 0 then .get else .attach }

/-- WaitFor over two futures, the timeout falls between the completions: producer 0 has taken the event pointer but not
    yet decremented when the waiter resets; the waiter wins future 1 back, must keep waiting for producer 0
    (`SubEqual(reset_count)` does not reach zero), returns false; afterwards `Get` on future 0 and a continuation on
    future 1 each deliver exactly once -/
example : ∃ s, Reachable wl2 s ∧ Done s ∧ (s.fut 0).ndel = 1 ∧ (s.fut 1).ndel = 1 ∧ s.uaf = false := by
  have h0 : Reachable wl2 (init wl2) := .init
  have h1 := validator_sound h0 (l := .call 0 2 true) (s' := _) rfl
  have h2 := validator_sound h1 (l := .wLoad 0 .empty) (s' := _) rfl
  have h3 := validator_sound h2 (l := .wCas 0 true) (s' := _) rfl
  have h4 := validator_sound h3 (l := .wLoad 1 .empty) (s' := _) rfl
  have h5 := validator_sound h4 (l := .wCas 1 true) (s' := _) rfl
  have h6 := validator_sound h5 (l := .wSub 1 3) (s' := _) rfl
  have h7 := validator_sound h6 (l := .lock .w) (s' := _) rfl
  have h8 := validator_sound h7 (l := .unlock .w) (s' := _) rfl
  have h9 := validator_sound h8 (l := .pXchg 0 .ev) (s' := _) rfl          -- producer 0 holds the event pointer
  have h10 := validator_sound h9 (l := .timeout) (s' := _) rfl
  have h11 := validator_sound h10 (l := .lock .w) (s' := _) rfl
  have h12 := validator_sound h11 (l := .wLoad 0 .ev) (s' := _) rfl         -- stale relaxed load in Reset
  have h13 := validator_sound h12 (l := .wCas 0 false) (s' := _) rfl
  have h14 := validator_sound h13 (l := .wLoad 1 .ev) (s' := _) rfl
  have h15 := validator_sound h14 (l := .wCas 1 true) (s' := _) rfl
  have h16 := validator_sound h15 (l := .wSub 1 2) (s' := _) rfl            -- 2 ≠ 1: somebody still holds the pointer
  have h17 := validator_sound h16 (l := .unlock .w) (s' := _) rfl           -- the untimed wait
  have h18 := validator_sound h17 (l := .pSub 0 1) (s' := _) rfl            -- reaches zero: producer 0 must Set
  have h19 := validator_sound h18 (l := .lock (.p 0)) (s' := _) rfl
  have h20 := validator_sound h19 (l := .unlock (.p 0)) (s' := _) rfl
  have h21 := validator_sound h20 (l := .lock .w) (s' := _) rfl
  have h22 := validator_sound h21 (l := .unlock .w) (s' := _) rfl
  have h23 := validator_sound h22 (l := .ret false) (s' := _) rfl
  have h24 := validator_sound h23 (l := .fin 0 .get) (s' := _) rfl
  have h25 := validator_sound h24 (l := .wLoad 0 .result) (s' := _) rfl
  have h26 := validator_sound h25 (l := .got 0 (.val 1)) (s' := _) rfl
  have h27 := validator_sound h26 (l := .fin 1 .attach) (s' := _) rfl
  have h28 := validator_sound h27 (l := .wLoad 1 .empty) (s' := _) rfl
  have h29 := validator_sound h28 (l := .wCas 1 true) (s' := _) rfl
  have h30 := validator_sound h29 (l := .pXchg 1 .cont) (s' := _) rfl
  have h31 := validator_sound h30 (l := .invoke (.p 1) 1 (.val 2)) (s' := _) rfl
  refine ⟨_, h31, ⟨rfl, rfl, rfl, ?_, ?_⟩, rfl, rfl, rfl⟩
  · intro i hi
    have hi2 : i < 2 := hi
    have : i = 0 ∨ i = 1 := by omega
    rcases this with rfl | rfl <;> rfl
  · intro i hi _
    have hi2 : i < 2 := hi
    have : i = 0 ∨ i = 1 := by omega
    rcases this with rfl | rfl <;> rfl

/-- single-future fast path (OneCounter): `WaitFor` times out, wins the word back, a later `Wait` registers again -/
example : ∃ s, Reachable ⟨1, fun _ => .err, fun _ => false, [⟨0, 1, true⟩, ⟨0, 1, false⟩], fun _ => .none⟩ s ∧
    s.wpc = .retn true ∧ (s.fut 0).word = .result := by
  let w : Workload := ⟨1, fun _ => .err, fun _ => false, [⟨0, 1, true⟩, ⟨0, 1, false⟩], fun _ => .none⟩
  have h0 : Reachable w (init w) := .init
  have h1 := validator_sound h0 (l := .call 0 1 true) (s' := _) rfl
  have h2 := validator_sound h1 (l := .wLoad 0 .empty) (s' := _) rfl
  have h3 := validator_sound h2 (l := .wCas 0 true) (s' := _) rfl
  have h4 := validator_sound h3 (l := .lock .w) (s' := _) rfl
  have h5 := validator_sound h4 (l := .unlock .w) (s' := _) rfl
  have h6 := validator_sound h5 (l := .timeout) (s' := _) rfl
  have h7 := validator_sound h6 (l := .lock .w) (s' := _) rfl
  have h8 := validator_sound h7 (l := .wLoad 0 .ev) (s' := _) rfl
  have h9 := validator_sound h8 (l := .wCas 0 true) (s' := _) rfl
  have h10 := validator_sound h9 (l := .unlock .w) (s' := _) rfl
  have h11 := validator_sound h10 (l := .ret false) (s' := _) rfl
  have h12 := validator_sound h11 (l := .call 0 1 false) (s' := _) rfl
  have h13 := validator_sound h12 (l := .wLoad 0 .empty) (s' := _) rfl
  have h14 := validator_sound h13 (l := .wCas 0 true) (s' := _) rfl
  have h15 := validator_sound h14 (l := .pXchg 0 .ev) (s' := _) rfl
  have h16 := validator_sound h15 (l := .lock (.p 0)) (s' := _) rfl
  have h17 := validator_sound h16 (l := .unlock (.p 0)) (s' := _) rfl
  have h18 := validator_sound h17 (l := .lock .w) (s' := _) rfl
  have h19 := validator_sound h18 (l := .unlock .w) (s' := _) rfl
  exact ⟨_, h19, rfl, rfl⟩

end Yaclib.Props.C11

/-! ### tie to the source (T2): the kernels this model was written from are unchanged.
`Extracted/Kernels.lean` is regenerated from /repo on every check run. -/
namespace Yaclib.Props.C11.Tie
open Yaclib

theorem tie_WaitRange : Extracted.Kernels.WaitRange = Skeletons.WaitRange := rfl
theorem tie_WaitCore : Extracted.Kernels.WaitCore = Skeletons.WaitCore := rfl
theorem tie_WaitIterator : Extracted.Kernels.WaitIterator = Skeletons.WaitIterator := rfl
theorem tie_Wait : Extracted.Kernels.Wait_variadic_iterator = Skeletons.Wait_variadic_iterator := rfl
theorem tie_WaitFor : Extracted.Kernels.WaitFor_variadic_iterator = Skeletons.WaitFor_variadic_iterator := rfl
theorem tie_WaitUntil : Extracted.Kernels.WaitUntil_variadic_iterator = Skeletons.WaitUntil_variadic_iterator := rfl
theorem tie_SetCallbackImpl : Extracted.Kernels.BaseCore_SetCallbackImpl = Skeletons.BaseCore_SetCallbackImpl := rfl
theorem tie_ResetImpl : Extracted.Kernels.BaseCore_ResetImpl = Skeletons.BaseCore_ResetImpl := rfl
theorem tie_SetResultImpl : Extracted.Kernels.BaseCore_SetResultImpl = Skeletons.BaseCore_SetResultImpl := rfl
theorem tie_CallCallback_Impl : Extracted.Kernels.CallCallback_Impl = Skeletons.CallCallback_Impl := rfl
theorem tie_AtomicCounter_Sub : Extracted.Kernels.AtomicCounter_Sub = Skeletons.AtomicCounter_Sub := rfl
theorem tie_AtomicCounter_SubEqual : Extracted.Kernels.AtomicCounter_SubEqual = Skeletons.AtomicCounter_SubEqual := rfl
theorem tie_OneCounter_Sub : Extracted.Kernels.OneCounter_Sub = Skeletons.OneCounter_Sub := rfl
theorem tie_OneCounter_SubEqual : Extracted.Kernels.OneCounter_SubEqual = Skeletons.OneCounter_SubEqual := rfl
theorem tie_SetDeleter_Delete : Extracted.Kernels.SetDeleter_Delete = Skeletons.SetDeleter_Delete := rfl
theorem tie_MutexEvent_Make : Extracted.Kernels.MutexEvent_Make = Skeletons.MutexEvent_Make := rfl
theorem tie_MutexEvent_Wait : Extracted.Kernels.MutexEvent_Wait = Skeletons.MutexEvent_Wait := rfl
theorem tie_MutexEvent_WaitTimed : Extracted.Kernels.MutexEvent_WaitTimed = Skeletons.MutexEvent_WaitTimed := rfl
theorem tie_MutexEvent_Set : Extracted.Kernels.MutexEvent_Set = Skeletons.MutexEvent_Set := rfl
theorem tie_FutureBase_GetMove : Extracted.Kernels.FutureBase_GetMove = Skeletons.FutureBase_GetMove := rfl
theorem tie_detail_SetCallback : Extracted.Kernels.detail_SetCallback = Skeletons.detail_SetCallback := rfl

end Yaclib.Props.C11.Tie
