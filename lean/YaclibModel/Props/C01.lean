/-
C01 — A fulfilled Promise is delivered to its Future exactly once, intact.

Property theorems about the model `Yaclib.Unique` (Model/Unique.lean), for **every** workload
(producer kind × any list of non-consuming consumer operations × consuming operation), every
interleaving of the two threads at atomic-operation granularity, and every admissible stale read.
Helper lemmas and the inductive invariants are in Proofs/Unique*.lean.
-/
import YaclibModel.Proofs.UniqueProgress
import YaclibModel.Extracted.Kernels
import YaclibModel.Model.Skeletons

namespace Yaclib.Props.C01
open Yaclib.Unique

variable {w : Workload} {s : State}

/-- a continuation is invoked at most once … -/
theorem delivered_le_one (h : Reachable w s) : s.delivered.length ≤ 1 := by
  rcases (inv_reachable h).delivered_one with h0 | h1
  · simp [h0]
  · omega

/-- … with exactly the Result that was set (`StopError` if the Promise was dropped unset) -/
theorem delivered_eq_set (h : Reachable w s) : ∀ x ∈ s.delivered, x.2 = w.prod.res :=
  (inv_reachable h).delivered_val

theorem dropped_promise_delivers_stop_error (h : Reachable w s) (hd : w.prod = .drop) :
    ∀ x ∈ s.delivered, x.2 = .err := by
  intro x hx; rw [delivered_eq_set h x hx, hd]; rfl

/-- never early, never torn (at the interleaving level): whenever a continuation body starts, the word is
    `result`, the storage is constructed and holds the promised Result, and that is what the body receives -/
theorem no_early_delivery (h : Reachable w s) {t : Tid} {r : Res} {s' : State} (hs : Step s (.invoke t r) s') :
    s.word = .result ∧ s.stored = some r ∧ r = w.prod.res := by
  have hi := inv_reachable h
  have key : s.stored = some r → s.word = .result ∧ s.stored = some r ∧ r = w.prod.res :=
    fun hr => ⟨(hi.stored_val r hr).2, hr, (hi.stored_val r hr).1⟩
  cases hs with
  | pInvoke _ _ _ hr => exact key hr
  | pInvokeSub _ _ hr => exact key hr
  | cInvoke _ _ _ hr => exact key hr
  | cInvokeSub _ _ hr => exact key hr

/-- `Ready() == true` is reported only while the Result can be read -/
theorem ready_sound (h : Reachable w s) : ∀ x ∈ s.readyObs, x.1 = true → x.2 = true :=
  (inv_reachable h).ready_obs

/-- `Get() const&` returns nullptr or the promised Result -/
theorem getc_sound (h : Reachable w s) : ∀ o ∈ s.getcObs, o = none ∨ o = some w.prod.res :=
  (inv_reachable h).getc_obs

/-- `Get() &&` returns the promised Result, once -/
theorem get_returns_set (h : Reachable w s) : ∀ r ∈ s.got, r = w.prod.res := (inv_reachable h).got_val

theorem get_at_most_once (h : Reachable w s) : s.got.length ≤ 1 := by
  rcases (inv_reachable h).got_one with h0 | h1
  · simp [h0]
  · omega

/-- `Connect` forwards the promised Result -/
theorem forwarded_eq_set (h : Reachable w s) : ∀ x ∈ s.forwarded, x.2 = w.prod.res := (inv_reachable h).fwd_val

/-- nothing runs if the Future was dropped (and, generally, only the outcome the consumer asked for can happen) -/
theorem dropped_future_runs_nothing (h : Reachable w s) (hd : w.fin = .drop) :
    s.delivered = [] ∧ s.got = [] ∧ s.forwarded = [] := by
  have h2 := inv2_reachable h
  exact ⟨h2.only_deliver (by simp [hd]), h2.only_got (by simp [hd]), h2.only_fwd (by simp [hd])⟩

/-- the outcome the consumer asked for (continuation run / Get returned / target fulfilled / core released)
    never happens twice … -/
theorem outcome_at_most_once (h : Reachable w s) : outcomeCount w s ≤ 1 := by
  have := (inv2_reachable h).conserve
  omega

/-- … and is never lost: in every state in which no thread can take a step both threads have finished and
    the outcome has happened exactly once.  (Safety form of "no completion is ever lost".) -/
theorem quiescent_complete (h : Reachable w s) (hq : ∀ l s', ¬ Step s l s') :
    s.ppc = .done ∧ s.cpc = .idle ∧ s.todo = [] ∧ outcomeCount w s = 1 := by
  have hi := inv_reachable h
  have hp := producer_done_of_quiescent hi hq
  have hc := consumer_done_of_quiescent hi hq
  refine ⟨hp, hc.1, hc.2, ?_⟩
  have hcons := (inv2_reachable h).conserve
  have hword : s.word = .result := by
    cases hwd : s.word with
    | result => rfl
    | empty => have := hi.start_iff.mpr (by rw [hwd]; simp); rw [hp] at this; cases this
    | cb k => have := hi.start_iff.mpr (by rw [hwd]; simp); rw [hp] at this; cases this
  simp [hp, hc.2, hword, isFireNE, isCbNE] at hcons
  exact hcons

/-- everything the trace validator accepts is a behaviour the theorems speak about -/
theorem validator_sound {l : Label} {s' : State} (h : Reachable w s) (hn : next s l = some s') : Reachable w s' :=
  .step h (next_sound hn)

/-! ### non-vacuity: concrete workloads reach the interesting states -/

/-- ThenInline racing with Set(42): the consumer's CAS wins, the producer runs the continuation -/
example : ∃ s, Reachable ⟨.set (.val 42), [], .attach false⟩ s ∧ s.delivered = [(.p, .val 42)] := by
  let w : Workload := ⟨.set (.val 42), [], .attach false⟩
  have h0 : Reachable w (init w) := .init
  have h1 := validator_sound h0 (l := .cLoad .empty) (s' := _) rfl
  have h2 := validator_sound h1 (l := .cCas .cont true) (s' := _) rfl
  have h3 := validator_sound h2 (l := .pXchg (.cb .cont)) (s' := _) rfl
  have h4 := validator_sound h3 (l := .invoke .p (.val 42)) (s' := _) rfl
  exact ⟨_, h4, rfl⟩

/-- the other order: Set first, the consumer finds the result (even after a stale pre-check) and runs it inline -/
example : ∃ s, Reachable ⟨.set (.val 42), [.ready], .attach false⟩ s ∧ s.delivered = [(.c, .val 42)] ∧
    s.readyObs = [(false, false)] := by
  let w : Workload := ⟨.set (.val 42), [.ready], .attach false⟩
  have h0 : Reachable w (init w) := .init
  have h1 := validator_sound h0 (l := .cLoad .empty) (s' := _) rfl
  have h2 := validator_sound h1 (l := .ready false) (s' := _) rfl
  have h3 := validator_sound h2 (l := .pXchg .empty) (s' := _) rfl
  have h4 := validator_sound h3 (l := .cLoad .empty) (s' := _) rfl      -- stale read of `empty`
  have h5 := validator_sound h4 (l := .cCas .cont false) (s' := _) rfl
  have h6 := validator_sound h5 (l := .invoke .c (.val 42)) (s' := _) rfl
  exact ⟨_, h6, rfl, rfl⟩

/-- a dropped Promise delivers StopError to a blocking Get -/
example : ∃ s, Reachable ⟨.drop, [], .getMove⟩ s ∧ s.got = [.err] := by
  let w : Workload := ⟨.drop, [], .getMove⟩
  have h0 : Reachable w (init w) := .init
  have h1 := validator_sound h0 (l := .cLoad .empty) (s' := _) rfl
  have h2 := validator_sound h1 (l := .cCas .event true) (s' := _) rfl
  have h3 := validator_sound h2 (l := .lock .c) (s' := _) rfl
  have h4 := validator_sound h3 (l := .unlock .c) (s' := _) rfl
  have h5 := validator_sound h4 (l := .pXchg (.cb .event)) (s' := _) rfl
  have h6 := validator_sound h5 (l := .lock .p) (s' := _) rfl
  have h7 := validator_sound h6 (l := .unlock .p) (s' := _) rfl
  have h8 := validator_sound h7 (l := .lock .c) (s' := _) rfl
  have h9 := validator_sound h8 (l := .unlock .c) (s' := _) rfl
  have h10 := validator_sound h9 (l := .got .err) (s' := _) rfl
  exact ⟨_, h10, rfl⟩

end Yaclib.Props.C01

/-! ### tie to the source (T2): the kernels this model was written from are unchanged.
`Extracted/Kernels.lean` is regenerated from /repo on every check run. -/
namespace Yaclib.Props.C01.Tie
open Yaclib

theorem tie_SetCallbackImpl : Extracted.Kernels.BaseCore_SetCallbackImpl = Skeletons.BaseCore_SetCallbackImpl := rfl
theorem tie_SetInlineImpl : Extracted.Kernels.BaseCore_SetInlineImpl = Skeletons.BaseCore_SetInlineImpl := rfl
theorem tie_SetResultImpl : Extracted.Kernels.BaseCore_SetResultImpl = Skeletons.BaseCore_SetResultImpl := rfl
theorem tie_Empty : Extracted.Kernels.BaseCore_Empty = Skeletons.BaseCore_Empty := rfl
theorem tie_Ready : Extracted.Kernels.BaseCore_Ready = Skeletons.BaseCore_Ready := rfl
theorem tie_Drop_Impl : Extracted.Kernels.Drop_Impl = Skeletons.Drop_Impl := rfl
theorem tie_Promise_Set : Extracted.Kernels.Promise_Set = Skeletons.Promise_Set := rfl
theorem tie_Promise_dtor : Extracted.Kernels.Promise_dtor = Skeletons.Promise_dtor := rfl
theorem tie_FutureBase_dtor : Extracted.Kernels.FutureBase_dtor = Skeletons.FutureBase_dtor := rfl
theorem tie_FutureBase_Ready : Extracted.Kernels.FutureBase_Ready = Skeletons.FutureBase_Ready := rfl
theorem tie_FutureBase_GetConst : Extracted.Kernels.FutureBase_GetConst = Skeletons.FutureBase_GetConst := rfl
theorem tie_FutureBase_GetMove : Extracted.Kernels.FutureBase_GetMove = Skeletons.FutureBase_GetMove := rfl
theorem tie_FutureBase_Detach : Extracted.Kernels.FutureBase_Detach = Skeletons.FutureBase_Detach := rfl
theorem tie_UniqueCore_CallInline : Extracted.Kernels.UniqueCore_CallInline = Skeletons.UniqueCore_CallInline := rfl
theorem tie_detail_SetCallback : Extracted.Kernels.detail_SetCallback = Skeletons.detail_SetCallback := rfl
theorem tie_Connect : Extracted.Kernels.Connect_Unique = Skeletons.Connect_Unique := rfl
theorem tie_WaitRange : Extracted.Kernels.WaitRange = Skeletons.WaitRange := rfl
theorem tie_WaitCore : Extracted.Kernels.WaitCore = Skeletons.WaitCore := rfl
theorem tie_MutexEvent_Set : Extracted.Kernels.MutexEvent_Set = Skeletons.MutexEvent_Set := rfl
theorem tie_MutexEvent_Wait : Extracted.Kernels.MutexEvent_Wait = Skeletons.MutexEvent_Wait := rfl
theorem tie_CallCallback_Impl : Extracted.Kernels.CallCallback_Impl = Skeletons.CallCallback_Impl := rfl

end Yaclib.Props.C01.Tie
